package main

// Part (a): the real p2p.SecretConnection over the recording in-memory duplex.

import (
	"bytes"
	"crypto/sha256"
	"fmt"
	"sync"
	"sync/atomic"
	"time"

	"verif/core"

	crypto "github.com/dappledger/AnnChain/gemmill/go-crypto"
	"github.com/dappledger/AnnChain/gemmill/p2p"
)

var sizeSet = []int{0, 1, 2, 1023, 1024, 1025, 2047, 2048, 3000}

func detKey(name string) crypto.PrivKeyEd25519 {
	return crypto.GenPrivKeyEd25519FromSecret([]byte("verif-c20-" + name))
}

// pattern returns n deterministic pseudo-random bytes (so that loss,
// duplication and reordering all change the stream).
func pattern(n int, salt uint64) []byte {
	b := make([]byte, n)
	x := salt*0x9E3779B97F4A7C15 + 0x1234567
	for i := range b {
		x ^= x << 13
		x ^= x >> 7
		x ^= x << 17
		b[i] = byte(x >> 24)
	}
	return b
}

type session struct {
	d    *duplex
	ep   [2]*endpoint
	sc   [2]*p2p.SecretConnection
	err  [2]error
	pan  [2]string
	site [2]string
	aLo  bool
}

// handshake runs the real MakeSecretConnection on both ends (two goroutines).
// After its own handshake succeeded, party i writes script[i] through its
// secret connection (still in its goroutine, so that a man in the middle can
// act on handshake and data frames alike).  When both goroutines are done the
// duplex is frozen and everything that follows is single-threaded.
func handshake(keys [2]crypto.PrivKey, m *mitm, script [2][][]byte) *session {
	s := &session{}
	s.d, s.ep[0], s.ep[1] = newDuplex()
	s.d.dir[0].mitm = m
	var wg sync.WaitGroup
	for i := 0; i < 2; i++ {
		wg.Add(1)
		go func(i int) {
			defer wg.Done()
			p, v, st := core.Try(func() {
				sc, err := p2p.MakeSecretConnection(s.ep[i], keys[i])
				s.err[i] = err
				if err == nil && sc != nil {
					s.sc[i] = sc
					for _, msg := range script[i] {
						if n, werr := sc.Write(msg); werr != nil || n != len(msg) {
							s.err[i] = fmt.Errorf("scripted write: n=%d err=%v", n, werr)
							break
						}
					}
				}
			})
			if p {
				s.pan[i] = core.FirstLine(v)
				s.site[i] = core.PanicSite(st)
				s.sc[i] = nil
			}
			s.d.partyDone(i)
		}(i)
	}
	done := make(chan struct{})
	go func() { wg.Wait(); close(done) }()
	select {
	case <-done:
	case <-time.After(120 * time.Second):
		core.Fatal("handshake goroutines did not finish within 120 s (harness deadlock; mitm=%+v)", m)
	}
	s.d.freeze()
	e0, e1 := s.d.unit(0, 0), s.d.unit(1, 0)
	s.aLo = bytes.Compare(e0, e1) < 0
	return s
}

// ---------------------------------------------------------------- stream cases

type kase struct {
	Part string `json:"part"` // stream | mitm | auth | chan | admit | mconn

	// stream
	Writes []int      `json:"writes,omitempty"`
	Reads  []int      `json:"reads,omitempty"`
	Prior  [][2][]int `json:"prior,omitempty"` // (writes, reads) patterns run before on the same connection

	// mitm
	Tamper string `json:"tamper,omitempty"`
	Frame  int    `json:"frame,omitempty"`
	Arg    int    `json:"arg,omitempty"`
	Bit    int    `json:"bit,omitempty"`
	ALo    bool   `json:"a_is_lo,omitempty"`
	Script int    `json:"script,omitempty"`

	// auth
	Lie string `json:"lie,omitempty"`

	// chan
	Ops []int `json:"ops,omitempty"`

	// admit
	Admit *admitCase `json:"admit,omitempty"`

	// mconn
	MConn *mconnCase `json:"mconn,omitempty"`
}

type ctx struct {
	run     *core.Run
	evals   int64
	classes *counter
	samples *core.Sampler
	dataMax int

	streamCases, mitmCases, authCases, leftoverCases, leftoverFailing int64
	streamNontrivial, mitmApplied                                     int64
}

func (c *ctx) report(sig map[string]string, k kase, detail string) {
	c.run.Report(sig, k, detail)
}

func sum(a []int) int {
	t := 0
	for _, x := range a {
		t += x
	}
	return t
}

var (
	keyA = detKey("node-A")
	keyB = smallLengthKey()
)

// smallLengthKey returns B's node key.  The handshake reads a 4-byte
// little-endian length and allocates that many bytes before reading the auth
// message; when a man in the middle reflects B's own auth-body frame into the
// place of A's length frame, that "length" would be the type byte and the
// first three bytes of B's public key if the frame ever decrypted (it does not
// on the unchanged tree, but it does under a nonce mutation).  A key whose
// public key has zero second and third bytes keeps that allocation below 64 KiB,
// so that no case can make the harness allocate gigabytes.
func smallLengthKey() crypto.PrivKeyEd25519 {
	for i := 3763; ; i++ {
		k := detKey(fmt.Sprintf("node-B-%d", i))
		p := k.PubKey().(crypto.PubKeyEd25519)
		if p[1] == 0 && p[2] == 0 {
			return k
		}
	}
}

func orOK(s string) string {
	if s == "" {
		return "ok"
	}
	return s
}

// checkCleanHandshake: with nobody in the middle both handshakes succeed and
// each side authenticates exactly the other side's key.
func (c *ctx) checkCleanHandshake(k kase, s *session, part string) bool {
	for i := 0; i < 2; i++ {
		if s.pan[i] != "" {
			c.report(map[string]string{"part": part, "kind": "panic", "site": s.site[i], "stage": "handshake"}, k, "panic in untampered handshake: "+s.pan[i])
			return false
		}
		if s.err[i] != nil || s.sc[i] == nil {
			c.report(map[string]string{"part": part, "kind": "handshake-failed-untampered"}, k, fmt.Sprintf("party %d: untampered handshake failed: %v", i, s.err[i]))
			return false
		}
	}
	want := [2]crypto.PubKey{keyB.PubKey(), keyA.PubKey()}
	for i := 0; i < 2; i++ {
		if got := s.sc[i].RemotePubKey(); got == nil || !got.Equals(want[i]) {
			c.report(map[string]string{"part": part, "kind": "wrong-remote-pubkey"}, k, fmt.Sprintf("party %d: RemotePubKey()=%v, the peer signed with %v", i, got, want[i]))
			return false
		}
	}
	return true
}

// ---------------------------------------------------------------- man in the middle

var mitmScripts = [][2][]int{
	{{700, 1024, 1}, {1024, 9, 300}},
	{{1, 1, 1}, {2, 2, 2}},
	{{2053}, {1024, 1024, 1024}},
}

func mkScript(sizes []int, salt uint64) ([][]byte, []byte) {
	var msgs [][]byte
	all := pattern(sum(sizes), salt)
	off := 0
	for _, n := range sizes {
		msgs = append(msgs, all[off:off+n])
		off += n
	}
	return msgs, all
}

func (c *ctx) chunkSizes(sizes []int) []int {
	var chunks []int
	for _, w := range sizes {
		for w > 0 {
			n := w
			if n > c.dataMax {
				n = c.dataMax
			}
			chunks = append(chunks, n)
			w -= n
		}
	}
	return chunks
}

// foreignUnits: the units party A sent in an unrelated clean session with the
// same node keys and script (for cross-session splicing).
var (
	foreignMu    sync.Mutex
	foreignUnits = map[int][][]byte{}
)

func (c *ctx) foreign(script int) [][]byte {
	foreignMu.Lock()
	defer foreignMu.Unlock()
	if u, ok := foreignUnits[script]; ok {
		return u
	}
	a, _ := mkScript(mitmScripts[script][0], 101)
	b, _ := mkScript(mitmScripts[script][1], 202)
	s := handshake([2]crypto.PrivKey{keyA, keyB}, nil, [2][][]byte{a, b})
	var us [][]byte
	for i := 0; ; i++ {
		u := s.d.unit(0, i)
		if u == nil {
			break
		}
		us = append(us, u)
	}
	foreignUnits[script] = us
	return us
}

func (c *ctx) buildMitm(k kase) *mitm {
	m := &mitm{Kind: k.Tamper, Frame: k.Frame, Arg: k.Arg, Bit: k.Bit}
	switch k.Tamper {
	case "subst":
		// an ephemeral key of the attacker's choosing (every 32-byte string is a curve point)
		h := sha256.Sum256([]byte("verif-c20-mitm-ephemeral"))
		m.Other = h[:]
	case "splice":
		us := c.foreign(k.Script)
		if k.Frame < len(us) {
			m.Other = us[k.Frame]
		}
	case "insert":
		n := 32
		if k.Frame > 0 {
			n = p2p.VerifSealedFrameSize
		}
		m.Other = pattern(n, 999)
	}
	return m
}

// runMitm: a man in the middle on the A->B direction.
func (c *ctx) runMitm(k kase) {
	atomic.AddInt64(&c.evals, 1)
	atomic.AddInt64(&c.mitmCases, 1)
	sa, plainA := mkScript(mitmScripts[k.Script][0], 101)
	sb, _ := mkScript(mitmScripts[k.Script][1], 202)
	var s *session
	var m *mitm
	for try := 0; ; try++ {
		m = c.buildMitm(k)
		s = handshake([2]crypto.PrivKey{keyA, keyB}, m, [2][][]byte{sa, sb})
		if s.aLo == k.ALo {
			break
		}
		if try > 200 {
			core.Fatal("cannot obtain a session in which A's ephemeral key is lo=%v", k.ALo)
		}
	}
	part := "secretconn-mitm"
	base := func(kind string) map[string]string {
		return map[string]string{"part": part, "kind": kind, "tamper": k.Tamper, "frame": frameClass(k.Frame)}
	}
	for i := 0; i < 2; i++ {
		if s.pan[i] != "" {
			sig := base("panic")
			sig["site"] = s.site[i]
			c.report(sig, k, fmt.Sprintf("party %d panicked: %s", i, s.pan[i]))
			return
		}
	}
	gen, ends := s.d.genuine(0)
	del := s.d.deliveredBytes(0)
	l := 0
	for l < len(gen) && l < len(del) && gen[l] == del[l] {
		l++
	}
	tampered := !(l == len(gen) && l == len(del))
	if tampered {
		atomic.AddInt64(&c.mitmApplied, 1)
	}
	firstBad := 1 << 30
	if tampered {
		firstBad = len(ends)
		for i, e := range ends {
			if e > l {
				firstBad = i
				break
			}
		}
	}
	chunks := c.chunkSizes(mitmScripts[k.Script][0])
	if s.err[0] == nil && len(ends) != 3+len(chunks) {
		core.Fatal("framing assumption broken: %d units for %d chunks", len(ends), len(chunks))
	}
	bOK := s.err[1] == nil && s.sc[1] != nil
	if firstBad <= 2 {
		c.classes.Add(fmt.Sprintf("mitm/%s/handshake-unit/rejected=%v", k.Tamper, !bOK))
		if bOK {
			c.report(base("tampered-handshake-accepted"), k, fmt.Sprintf("%s at unit %d (first altered unit %d): B's handshake succeeded, RemotePubKey=%v", k.Tamper, k.Frame, firstBad, s.sc[1].RemotePubKey()))
		}
		return
	}
	// the handshake units reached B unaltered
	if !bOK || s.err[0] != nil {
		c.report(base("handshake-failed-untampered"), k, fmt.Sprintf("handshake units unaltered but errA=%v errB=%v", s.err[0], s.err[1]))
		return
	}
	if got := s.sc[1].RemotePubKey(); got == nil || !got.Equals(keyA.PubKey()) {
		c.report(base("wrong-remote-pubkey"), k, fmt.Sprintf("RemotePubKey()=%v want %v", got, keyA.PubKey()))
		return
	}
	allowed := len(plainA)
	if tampered {
		allowed = 0
		for i := 3; i < firstBad && i-3 < len(chunks); i++ {
			allowed += chunks[i-3]
		}
	}
	var got []byte
	var rerr error
	p, v, st := core.Try(func() {
		for step := 0; step < 64; step++ {
			buf := make([]byte, 2048)
			n, err := s.sc[1].Read(buf)
			if n < 0 || n > len(buf) {
				n = 0
			}
			got = append(got, buf[:n]...)
			if err != nil {
				rerr = err
				break
			}
		}
	})
	if p {
		sig := base("panic")
		sig["site"] = core.PanicSite(st)
		c.report(sig, k, "Read panicked: "+core.FirstLine(v))
		return
	}
	verdict := "ok"
	switch {
	case !bytes.HasPrefix(plainA, got):
		verdict = "altered-bytes-returned"
	case len(got) > allowed:
		verdict = "tampered-frame-accepted"
	case len(got) < allowed:
		verdict = "untampered-prefix-lost"
	case rerr == nil:
		verdict = "no-error-at-end"
	}
	c.classes.Add(fmt.Sprintf("mitm/%s/data-unit/%s/tampered=%v", k.Tamper, verdict, tampered))
	if verdict != "ok" {
		c.report(base(verdict), k, fmt.Sprintf("%s at unit %d (arg %d, first altered unit %d, A's key lo=%v): A wrote %d bytes, B obtained %d (allowed %d), prefix-of-genuine=%v, final error %v",
			k.Tamper, k.Frame, k.Arg, firstBad, k.ALo, len(plainA), len(got), allowed, bytes.HasPrefix(plainA, got), rerr))
	}
}

func frameClass(f int) string {
	switch {
	case f == 0:
		return "ephemeral-key"
	case f <= 2:
		return "auth"
	default:
		return "data"
	}
}

func (c *ctx) mitmCases_(quick bool) []kase {
	var out []kase
	scripts := []int{0}
	bits := []int{0, 7}
	if !quick {
		scripts = []int{0, 1, 2}
		bits = []int{0, 1, 2, 3, 4, 5, 6, 7}
	}
	sealed := p2p.VerifSealedFrameSize
	for _, sc := range scripts {
		chunks := c.chunkSizes(mitmScripts[sc][0])
		nUnits := 3 + len(chunks)
		for _, lo := range []bool{true, false} {
			for f := 0; f <= 4 && f < nUnits; f++ {
				add := func(t string, arg, bit int) {
					out = append(out, kase{Part: "mitm", Tamper: t, Frame: f, Arg: arg, Bit: bit, ALo: lo, Script: sc})
				}
				size := sealed
				var offs []int
				if f == 0 {
					size = 32
					offs = []int{0, 15, 16, 31}
				} else {
					// secretbox: 16 bytes authenticator, then ciphertext of [2-byte length | payload | padding]
					dl := 4 // auth length frame carries 4 bytes
					if f >= 3 {
						dl = chunks[f-3]
					}
					offs = []int{0, 7, 15, 16, 17, 18, 18 + dl - 1, 18 + dl, sealed - 1}
					if f == 2 {
						offs = []int{0, 7, 15, 16, 17, 18, 50, 100, sealed - 1}
					}
				}
				for _, o := range uniqInts(offs) {
					if o < 0 || o >= size {
						continue
					}
					for _, b := range bits {
						add("flip", o, b)
					}
				}
				if f+1 < nUnits {
					add("swap", 0, 0)
				}
				add("replay", 0, 0)
				add("drop", 0, 0)
				add("insert", 0, 0)
				add("splice", 0, 0)
				for _, kk := range uniqInts([]int{1, size / 2, size - 1}) {
					add("trunc", kk, 0)
				}
				for _, kk := range uniqInts([]int{0, 1, size / 2, size - 1}) {
					add("cut", kk, 0)
				}
				if f == 0 {
					add("subst", 0, 0)
					add("reflect", 0, 0)
				} else {
					// the opposite direction's unit g must exist without B needing the unit
					// that is being replaced: B's data units (3..5) only exist once B's
					// handshake is over, so they can only be reflected into data units
					for _, g := range []int{f - 1, f, f + 1} {
						if g >= 1 && g < 6 && (f >= 3 || g <= 2) {
							add("reflect", g, 0)
						}
					}
				}
			}
		}
	}
	return out
}

func uniqInts(a []int) []int {
	var o []int
	seen := map[int]bool{}
	for _, x := range a {
		if !seen[x] {
			seen[x] = true
			o = append(o, x)
		}
	}
	return o
}

// ---------------------------------------------------------------- lying endpoint

// liarKey is a crypto.PrivKey whose announced public key and signing behaviour
// are chosen by the harness: the real MakeSecretConnection then sends an auth
// message "substituted" in exactly the intended way.
type liarKey struct {
	pub  crypto.PubKey
	sign func(msg []byte) crypto.Signature
}

func (l liarKey) Bytes() []byte                    { return nil }
func (l liarKey) Sign(msg []byte) crypto.Signature { return l.sign(msg) }
func (l liarKey) PubKey() crypto.PubKey            { return l.pub }
func (l liarKey) Equals(crypto.PrivKey) bool       { return false }
func (l liarKey) KeyString() string                { return "liar" }

var authLies = []string{"honest-other-key", "claims-victim-key-signs-with-own", "own-key-signs-other-message", "victim-key-with-victim-signature-of-other-challenge", "own-key-zero-signature", "victim-key-zero-signature"}

func (c *ctx) runAuth(k kase) {
	atomic.AddInt64(&c.evals, 1)
	atomic.AddInt64(&c.authCases, 1)
	attacker := detKey("attacker")
	victim := detKey("victim-validator")
	var lk liarKey
	var expectKey crypto.PubKey // nil: the handshake must fail
	switch k.Lie {
	case "honest-other-key":
		lk = liarKey{attacker.PubKey(), attacker.Sign}
		expectKey = attacker.PubKey()
	case "claims-victim-key-signs-with-own":
		lk = liarKey{victim.PubKey(), attacker.Sign}
	case "own-key-signs-other-message":
		lk = liarKey{attacker.PubKey(), func(m []byte) crypto.Signature {
			q := append([]byte(nil), m...)
			q[0] ^= 1
			return attacker.Sign(q)
		}}
	case "victim-key-with-victim-signature-of-other-challenge":
		stale := victim.Sign(pattern(32, 5))
		lk = liarKey{victim.PubKey(), func([]byte) crypto.Signature { return stale }}
	case "own-key-zero-signature":
		lk = liarKey{attacker.PubKey(), func([]byte) crypto.Signature { return crypto.SignatureEd25519{} }}
	case "victim-key-zero-signature":
		lk = liarKey{victim.PubKey(), func([]byte) crypto.Signature { return crypto.SignatureEd25519{} }}
	default:
		core.Fatal("unknown lie %q", k.Lie)
	}
	var s *session
	for try := 0; ; try++ {
		s = handshake([2]crypto.PrivKey{lk, keyB}, nil, [2][][]byte{})
		if s.aLo == k.ALo {
			break
		}
		if try > 200 {
			core.Fatal("cannot obtain wanted key order")
		}
	}
	sig := func(kind string) map[string]string {
		return map[string]string{"part": "secretconn-auth", "kind": kind, "lie": k.Lie}
	}
	if s.pan[1] != "" {
		m := sig("panic")
		m["site"] = s.site[1]
		c.report(m, k, "B panicked: "+s.pan[1])
		return
	}
	ok := s.err[1] == nil && s.sc[1] != nil
	c.classes.Add(fmt.Sprintf("auth/%s/accepted=%v", k.Lie, ok))
	if expectKey == nil {
		if ok {
			c.report(sig("forged-identity-accepted"), k, fmt.Sprintf("auth message %q accepted; RemotePubKey()=%v", k.Lie, s.sc[1].RemotePubKey()))
		}
		return
	}
	if !ok {
		c.report(sig("honest-peer-rejected"), k, fmt.Sprintf("honest handshake failed: %v", s.err[1]))
		return
	}
	if got := s.sc[1].RemotePubKey(); got == nil || !got.Equals(expectKey) {
		c.report(sig("wrong-remote-pubkey"), k, fmt.Sprintf("RemotePubKey()=%v but the challenge was signed by %v", got, expectKey))
	}
}
