package main

// Part (a): the real p2p.SecretConnection over the recording in-memory duplex.

import (
	"bytes"
	"crypto/sha256"
	"fmt"
	"sync"
	"sync/atomic"
	"time"

	"verif/core"

	crypto "github.com/dappledger/AnnChain/gemmill/go-crypto"
	"github.com/dappledger/AnnChain/gemmill/p2p"
)

var sizeSet = []int{0, 1, 2, 1023, 1024, 1025, 2047, 2048, 3000}

func detKey(name string) crypto.PrivKeyEd25519 {
	return crypto.GenPrivKeyEd25519FromSecret([]byte("verif-c20-" + name))
}

// pattern returns n deterministic pseudo-random bytes (so that loss,
// duplication and reordering all change the stream).
func pattern(n int, salt uint64) []byte {
	b := make([]byte, n)
	x := salt*0x9E3779B97F4A7C15 + 0x1234567
	for i := range b {
		x ^= x << 13
		x ^= x >> 7
		x ^= x << 17
		b[i] = byte(x >> 24)
	}
	return b
}

type session struct {
	d    *duplex
	ep   [2]*endpoint
	sc   [2]*p2p.SecretConnection
	err  [2]error
	pan  [2]string
	site [2]string
	aLo  bool
	// hung: the two parties did not finish within handshakeDeadline although
	// nothing in the harness can block them (see handshakeOpt)
	hung bool
	// skipped: the scripts were not written because the ephemeral keys came out
	// in the other order than the caller asked for
	skipped bool
	pooled  bool
}

// release gives the big buffers of a finished session back (never called for a
// session whose goroutines may still be running).
func (s *session) release() {
	if s.pooled && !s.hung {
		s.pooled = false
		s.d.recycle()
	}
}

// handshakeDeadline is far above anything the code needs (a handshake plus a
// 520-frame script takes milliseconds); it only exists so that a party that
// never returns becomes a verdict instead of a hang.
const handshakeDeadline = 60 * time.Second

// handshake runs the real MakeSecretConnection on both ends (two goroutines).
// After its own handshake succeeded, party i writes script[i] through its
// secret connection (still in its goroutine, so that a man in the middle can
// act on handshake and data frames alike).  When both goroutines are done the
// duplex is frozen and everything that follows is single-threaded.
func handshake(keys [2]crypto.PrivKey, m *mitm, script [2][][]byte) *session {
	return handshakeOpt(keys, [2]*mitm{m, nil}, script, -1)
}

// handshakeOpt: mitms[i] acts on what party i writes; wantALo = 1 / 0 asks for
// a session in which A's ephemeral key sorts lower / higher than B's: when the
// keys come out the other way the (possibly long) scripts are not written and
// the session is marked skipped (the caller tries again); -1 = any order.
func handshakeOpt(keys [2]crypto.PrivKey, mitms [2]*mitm, script [2][][]byte, wantALo int) *session {
	s := &session{}
	var hint [2]int
	for i := range script {
		if n := len(script[i]); n > 8 {
			// room for the sealed frames of a long script and a few extra units
			total := 0
			for _, m := range script[i] {
				total += len(m)
			}
			hint[i] = (total/p2p.VerifDataMaxSize + n + 8) * p2p.VerifSealedFrameSize
		}
	}
	s.d, s.ep[0], s.ep[1] = newDuplex(hint)
	s.pooled = hint[0] > 0 || hint[1] > 0
	s.d.dir[0].mitm = mitms[0]
	s.d.dir[1].mitm = mitms[1]
	var skip int32
	var wg sync.WaitGroup
	for i := 0; i < 2; i++ {
		wg.Add(1)
		go func(i int) {
			defer wg.Done()
			p, v, st := core.Try(func() {
				sc, err := p2p.MakeSecretConnection(s.ep[i], keys[i])
				s.err[i] = err
				if err == nil && sc != nil {
					s.sc[i] = sc
					if wantALo >= 0 {
						// both ephemeral keys are on record once a handshake has succeeded
						e0, e1 := s.d.unit(0, 0), s.d.unit(1, 0)
						if (bytes.Compare(e0, e1) < 0) != (wantALo == 1) {
							atomic.StoreInt32(&skip, 1)
							return
						}
					}
					for _, msg := range script[i] {
						if n, werr := sc.Write(msg); werr != nil || n != len(msg) {
							s.err[i] = fmt.Errorf("scripted write: n=%d err=%v", n, werr)
							break
						}
					}
				}
			})
			if p {
				s.pan[i] = core.FirstLine(v)
				s.site[i] = core.PanicSite(st)
				s.sc[i] = nil
			}
			s.d.partyDone(i)
		}(i)
	}
	done := make(chan struct{})
	go func() { wg.Wait(); close(done) }()
	select {
	case <-done:
	case <-time.After(handshakeDeadline):
		// Reads of the duplex return io.EOF from now on, which releases a party
		// that waits for bytes that will never come; a party that is stuck
		// elsewhere is abandoned.
		s.hung = true
		s.d.freeze()
		select {
		case <-done:
		case <-time.After(10 * time.Second):
		}
		hs := &session{d: s.d, ep: s.ep, hung: true}
		hs.err[0], hs.err[1] = errHung, errHung
		e0, e1 := s.d.unit(0, 0), s.d.unit(1, 0)
		hs.aLo = bytes.Compare(e0, e1) < 0
		return hs
	}
	s.d.freeze()
	e0, e1 := s.d.unit(0, 0), s.d.unit(1, 0)
	s.aLo = bytes.Compare(e0, e1) < 0
	s.skipped = atomic.LoadInt32(&skip) != 0
	return s
}

var errHung = fmt.Errorf("party did not return within %v", handshakeDeadline)

// orderedSession repeats the handshake until A's ephemeral key has the wanted
// order (the keys are random: two attempts on average).  build makes the man in
// the middle of one attempt (it has state).
func orderedSession(keys [2]crypto.PrivKey, build func() [2]*mitm, script [2][][]byte, aLo bool) *session {
	want := 0
	if aLo {
		want = 1
	}
	for try := 0; ; try++ {
		s := handshakeOpt(keys, build(), script, want)
		if s.hung || (s.aLo == aLo && !s.skipped) {
			return s
		}
		s.release()
		if s.aLo == aLo && s.skipped {
			core.Fatal("harness: session skipped although the key order is the wanted one")
		}
		if try > 200 {
			core.Fatal("cannot obtain a session in which A's ephemeral key is lo=%v", aLo)
		}
	}
}

// ---------------------------------------------------------------- stream cases

type kase struct {
	Part string `json:"part"` // stream | mitm | auth | chan | admit | mconn

	// stream
	Writes []int      `json:"writes,omitempty"`
	Reads  []int      `json:"reads,omitempty"`
	Prior  [][2][]int `json:"prior,omitempty"` // (writes, reads) patterns run before on the same connection

	// mitm
	Tamper string `json:"tamper,omitempty"`
	Frame  int    `json:"frame,omitempty"`
	Arg    int    `json:"arg,omitempty"`
	Bit    int    `json:"bit,omitempty"`
	ALo    bool   `json:"a_is_lo,omitempty"`
	Script int    `json:"script,omitempty"`
	Dir    int    `json:"dir,omitempty"` // the tampered direction: 0 = what A writes, 1 = what B writes

	// auth
	Lie string `json:"lie,omitempty"`

	// chan
	Ops []int `json:"ops,omitempty"`

	// admit
	Admit *admitCase `json:"admit,omitempty"`

	// relay (handshake-level attacker)
	Relay *relayCase `json:"relay,omitempty"`

	// admithist
	Hist *admitHist `json:"hist,omitempty"`

	// mconn
	MConn *mconnCase `json:"mconn,omitempty"`
}

type ctx struct {
	run     *core.Run
	evals   int64
	classes *counter
	samples *core.Sampler
	dataMax int

	streamCases, mitmCases, authCases, leftoverCases, leftoverFailing int64
	streamNontrivial, mitmApplied, longStreamCases                    int64
	histAttempts                                                      int64 // admission attempts judged in admission histories
	relayMounted, relayNotMounted                                     int64 // handshake-relay attacks that reached / did not reach the target's verification

	fl  *flights // cases being executed (stall watchdog)
	cov *covState
}

func (c *ctx) report(sig map[string]string, k kase, detail string) {
	c.run.Report(sig, k, detail)
}

func sum(a []int) int {
	t := 0
	for _, x := range a {
		t += x
	}
	return t
}

var (
	keyA = smallLengthKey("node-A", 205392)
	keyB = smallLengthKey("node-B", 3763)
)

// smallLengthKey returns a node key.  The handshake reads a 4-byte
// little-endian length and allocates that many bytes before reading the auth
// message; when a man in the middle reflects a party's own auth-body frame into
// the place of the other party's length frame (or swaps the two auth frames),
// that "length" would be the type byte and the first three bytes of a public
// key if the frame ever decrypted (it does not on the unchanged tree, but it
// does under a nonce mutation).  A key whose public key has zero second and
// third bytes keeps that allocation below 64 KiB, so that no case can make the
// harness allocate gigabytes.  (For the same reason no case ever delivers a
// data frame in the place of a handshake frame of the same direction at a
// distance: see mitmCases_.)  start = the first index that qualifies (found
// once by search; the loop only re-checks it).
func smallLengthKey(name string, start int) crypto.PrivKeyEd25519 {
	for i := start; ; i++ {
		k := detKey(fmt.Sprintf("%s-%d", name, i))
		p := k.PubKey().(crypto.PubKeyEd25519)
		if p[1] == 0 && p[2] == 0 {
			return k
		}
	}
}

func orOK(s string) string {
	if s == "" {
		return "ok"
	}
	return s
}

// checkCleanHandshake: with nobody in the middle both handshakes succeed and
// each side authenticates exactly the other side's key.
func (c *ctx) checkCleanHandshake(k kase, s *session, part string) bool {
	if s.hung {
		c.report(map[string]string{"part": part, "kind": "party-never-returns", "stage": "handshake"}, k, fmt.Sprintf("nobody in the middle: a party did not return from MakeSecretConnection / Write within %v (3 times out of 3)", handshakeDeadline))
		return false
	}
	for i := 0; i < 2; i++ {
		if s.pan[i] != "" {
			c.report(map[string]string{"part": part, "kind": "panic", "site": s.site[i], "stage": "handshake"}, k, "panic in untampered handshake: "+s.pan[i])
			return false
		}
		if s.err[i] != nil || s.sc[i] == nil {
			c.report(map[string]string{"part": part, "kind": "handshake-failed-untampered"}, k, fmt.Sprintf("party %d: untampered handshake failed: %v", i, s.err[i]))
			return false
		}
	}
	want := [2]crypto.PubKey{keyB.PubKey(), keyA.PubKey()}
	for i := 0; i < 2; i++ {
		if got := s.sc[i].RemotePubKey(); got == nil || !got.Equals(want[i]) {
			c.report(map[string]string{"part": part, "kind": "wrong-remote-pubkey"}, k, fmt.Sprintf("party %d: RemotePubKey()=%v, the peer signed with %v", i, got, want[i]))
			return false
		}
	}
	return true
}

// ---------------------------------------------------------------- man in the middle

// mitmScripts[i] = what A and B write after the handshake.  Script 3 is the long
// one: longFrames data frames in each direction, so that the per-direction frame
// counter (it starts at the two handshake frames and advances by 2 per frame in
// a 24-byte big-endian nonce, one direction on the even and one on the odd
// values) crosses four carries out of its last byte in both parities.
var mitmScripts = [][2][]int{
	{{700, 1024, 1}, {1024, 9, 300}},
	{{1, 1, 1}, {2, 2, 2}},
	{{2053}, {1024, 1024, 1024}},
	longScript(),
}

const (
	longScriptIdx = 3
	longFrames    = 520 // > 2*256+2
)

func longScript() [2][]int {
	var a, b []int
	for i := 0; i < longFrames; i++ {
		a = append(a, 1024)
	}
	// B writes the same number of frames with writes of several sizes (2048 = two frames)
	for i := 0; i < longFrames/5; i++ {
		b = append(b, 2048, 1, 1023, 1024)
	}
	return [2][]int{a, b}
}

func mkScript(sizes []int, salt uint64) ([][]byte, []byte) {
	var msgs [][]byte
	all := pattern(sum(sizes), salt)
	off := 0
	for _, n := range sizes {
		msgs = append(msgs, all[off:off+n])
		off += n
	}
	return msgs, all
}

type scriptData struct {
	msgs  [][]byte
	plain []byte
}

var (
	scriptMu    sync.Mutex
	scriptCache = map[[2]int]*scriptData{}
)

// scriptOf returns (read-only, shared) what party writes in script sc.
func scriptOf(sc, party int) *scriptData {
	scriptMu.Lock()
	defer scriptMu.Unlock()
	key := [2]int{sc, party}
	if d, ok := scriptCache[key]; ok {
		return d
	}
	d := &scriptData{}
	d.msgs, d.plain = mkScript(mitmScripts[sc][party], uint64(101+101*party))
	scriptCache[key] = d
	return d
}

func (c *ctx) chunkSizes(sizes []int) []int {
	var chunks []int
	for _, w := range sizes {
		for w > 0 {
			n := w
			if n > c.dataMax {
				n = c.dataMax
			}
			chunks = append(chunks, n)
			w -= n
		}
	}
	return chunks
}

// foreignUnits: the units a party sent in an unrelated clean session with the
// same node keys and script (for cross-session splicing).
var (
	foreignMu    sync.Mutex
	foreignUnits = map[[2]int][][]byte{}
)

func (c *ctx) foreign(script, dir int) [][]byte {
	foreignMu.Lock()
	defer foreignMu.Unlock()
	key := [2]int{script, dir}
	if u, ok := foreignUnits[key]; ok {
		return u
	}
	s := handshake([2]crypto.PrivKey{keyA, keyB}, nil, [2][][]byte{scriptOf(script, 0).msgs, scriptOf(script, 1).msgs})
	for dd := 0; dd < 2; dd++ {
		var us [][]byte
		for i := 0; ; i++ {
			u := s.d.unit(dd, i)
			if u == nil {
				break
			}
			us = append(us, u)
		}
		foreignUnits[[2]int{script, dd}] = us
	}
	return foreignUnits[key]
}

func (c *ctx) buildMitm(k kase) *mitm {
	m := &mitm{Kind: k.Tamper, Frame: k.Frame, Arg: k.Arg, Bit: k.Bit}
	switch k.Tamper {
	case "subst":
		// an ephemeral key of the attacker's choosing (every 32-byte string is a curve point)
		h := sha256.Sum256([]byte("verif-c20-mitm-ephemeral"))
		m.Other = h[:]
	case "splice":
		us := c.foreign(k.Script, k.Dir)
		if k.Frame < len(us) {
			m.Other = us[k.Frame]
		}
	case "insert":
		n := 32
		if k.Frame > 0 {
			n = p2p.VerifSealedFrameSize
		}
		m.Other = pattern(n, 999)
	}
	return m
}

// runMitm: a man in the middle on the direction k.Dir (0 = what A writes, 1 =
// what B writes).  A party that never returns is re-tried; it is a verdict only
// if it happens 3 times out of 3.
func (c *ctx) runMitm(k kase) {
	atomic.AddInt64(&c.evals, 1)
	atomic.AddInt64(&c.mitmCases, 1)
	fl := c.begin(k, map[string]string{"part": "secretconn-mitm", "tamper": k.Tamper, "frame": frameClass(k.Frame)})
	defer c.end(fl)
	for attempt := 1; ; attempt++ {
		fl.tick()
		if hung := c.runMitmOnce(k, attempt == 1); !hung {
			return
		}
		if attempt == 3 {
			sig := map[string]string{"part": "secretconn-mitm", "kind": "party-never-returns", "tamper": k.Tamper, "frame": frameClass(k.Frame)}
			c.report(sig, k, fmt.Sprintf("%s at unit %d of direction %d (arg %d): the handshake units reached the receiver unaltered, yet a party did not return from MakeSecretConnection / Write within %v (3 times out of 3)", k.Tamper, k.Frame, k.Dir, k.Arg, handshakeDeadline))
			return
		}
	}
}

// farScript: what the parties write in a far-* case.  The tampered direction
// carries the long script up to one frame past the last unit the man in the
// middle touches (what follows the first altered unit cannot change the
// verdict; the largest distances use all longFrames frames); the other
// direction carries three frames (the long scripts of BOTH directions at once
// are the subject of the long honest streams).
func (c *ctx) farScript(k kase) (scr [2]*scriptData, sizes [2][]int) {
	snd := k.Dir
	need := k.Frame + k.Arg + 2 - 3 // data frames so that unit Frame+Arg+1 exists
	if need < 1 {
		need = 1
	}
	full := scriptOf(longScriptIdx, snd)
	var sz []int
	frames, bytesN, writes := 0, 0, 0
	for _, w := range mitmScripts[longScriptIdx][snd] {
		if frames >= need {
			break
		}
		sz = append(sz, w)
		frames += len(c.chunkSizes([]int{w}))
		bytesN += w
		writes++
	}
	scr[snd] = &scriptData{msgs: full.msgs[:writes], plain: full.plain[:bytesN]}
	sizes[snd] = sz
	scr[1-snd] = scriptOf(0, 1-snd)
	sizes[1-snd] = mitmScripts[0][1-snd]
	return
}

func (c *ctx) runMitmOnce(k kase, count bool) (hung bool) {
	snd, rcv := k.Dir, 1-k.Dir
	scr := [2]*scriptData{scriptOf(k.Script, 0), scriptOf(k.Script, 1)}
	sizes := mitmScripts[k.Script]
	if farKinds[k.Tamper] {
		scr, sizes = c.farScript(k)
	}
	plain := scr[snd].plain
	keys := [2]crypto.PrivKey{keyA, keyB}
	s := orderedSession(keys, func() [2]*mitm {
		var ms [2]*mitm
		ms[snd] = c.buildMitm(k)
		return ms
	}, [2][][]byte{scr[0].msgs, scr[1].msgs}, k.ALo)
	defer s.release()
	part := "secretconn-mitm"
	base := func(kind string) map[string]string {
		m := map[string]string{"part": part, "kind": kind, "tamper": k.Tamper, "frame": frameClass(k.Frame)}
		if farKinds[k.Tamper] {
			m["script"] = "long"
		}
		return m
	}
	for i := 0; i < 2; i++ {
		if s.pan[i] != "" {
			sig := base("panic")
			sig["site"] = s.site[i]
			c.report(sig, k, fmt.Sprintf("party %d panicked: %s", i, s.pan[i]))
			return
		}
	}
	nUnits, firstBad, tampered := s.d.divergence(snd)
	if tampered && count {
		atomic.AddInt64(&c.mitmApplied, 1)
	}
	if !tampered {
		firstBad = 1 << 30
	}
	chunks := c.chunkSizes(sizes[snd])
	if !s.hung && s.err[snd] == nil && nUnits != 3+len(chunks) {
		core.Fatal("framing assumption broken: %d units for %d chunks", nUnits, len(chunks))
	}
	rOK := s.err[rcv] == nil && s.sc[rcv] != nil
	if firstBad <= 2 {
		// (a receiver that waits for ever for the rest of a damaged handshake has not accepted it)
		c.classes.Add(fmt.Sprintf("mitm/%s/handshake-unit/rejected=%v", k.Tamper, !rOK))
		if rOK {
			c.report(base("tampered-handshake-accepted"), k, fmt.Sprintf("%s at unit %d of direction %d (first altered unit %d): the receiver's handshake succeeded, RemotePubKey=%v", k.Tamper, k.Frame, k.Dir, firstBad, s.sc[rcv].RemotePubKey()))
		}
		return
	}
	if s.hung {
		return true
	}
	// the handshake units reached the receiver unaltered
	if !rOK || s.err[snd] != nil {
		c.report(base("handshake-failed-untampered"), k, fmt.Sprintf("handshake units unaltered but errA=%v errB=%v", s.err[0], s.err[1]))
		return
	}
	if got := s.sc[rcv].RemotePubKey(); got == nil || !got.Equals(keys[snd].PubKey()) {
		c.report(base("wrong-remote-pubkey"), k, fmt.Sprintf("RemotePubKey()=%v want %v", got, keys[snd].PubKey()))
		return
	}
	allowed := len(plain)
	if tampered {
		allowed = 0
		for i := 3; i < firstBad && i-3 < len(chunks); i++ {
			allowed += chunks[i-3]
		}
	}
	var got []byte
	var rerr error
	p, v, st := core.Try(func() {
		got = make([]byte, 0, allowed+4096)
		buf := make([]byte, 2048)
		for step := 0; step < len(chunks)+64; step++ {
			n, err := s.sc[rcv].Read(buf)
			if n < 0 || n > len(buf) {
				n = 0
			}
			got = append(got, buf[:n]...)
			if err != nil {
				rerr = err
				break
			}
			if len(got) > len(plain)+8192 {
				break
			}
		}
	})
	if p {
		sig := base("panic")
		sig["site"] = core.PanicSite(st)
		c.report(sig, k, "Read panicked: "+core.FirstLine(v))
		return
	}
	verdict := "ok"
	switch {
	case !bytes.HasPrefix(plain, got):
		verdict = "altered-bytes-returned"
	case len(got) > allowed:
		verdict = "tampered-frame-accepted"
	case len(got) < allowed:
		verdict = "untampered-prefix-lost"
	case rerr == nil:
		verdict = "no-error-at-end"
	}
	c.classes.Add(fmt.Sprintf("mitm/%s/data-unit/%s/tampered=%v", k.Tamper, verdict, tampered))
	if verdict != "ok" {
		l := 0
		for l < len(got) && l < len(plain) && got[l] == plain[l] {
			l++
		}
		c.report(base(verdict), k, fmt.Sprintf("%s at unit %d of direction %d (arg %d, first altered unit %d, A's key lo=%v): the sender wrote %d bytes, the receiver obtained %d (allowed %d), of which the first %d are the sender's, final error %v",
			k.Tamper, k.Frame, k.Dir, k.Arg, firstBad, k.ALo, len(plain), len(got), allowed, l, rerr))
	}
	return
}

func frameClass(f int) string {
	switch {
	case f == 0:
		return "ephemeral-key"
	case f <= 2:
		return "auth"
	default:
		return "data"
	}
}

// farAnchors: the units whose copies / displacements are tried at every
// distance: the two sealed handshake frames, the first data frame, and the
// frames on either side of the places where the frame counter carries out of
// its last byte (sealed frame j = unit j+1 uses counter value 2j (+1), so the
// carries lie between units 128|129, 256|257, 384|385, 512|513).
func farAnchors(quick bool) []int {
	if quick {
		return []int{1, 3, 128, 129}
	}
	return []int{1, 2, 3, 128, 129, 256, 257, 384, 385}
}

func (c *ctx) mitmCases_(quick bool) []kase {
	var out []kase
	scripts := []int{0}
	bits := []int{0, 7}
	if !quick {
		scripts = []int{0, 1, 2}
		bits = []int{0, 1, 2, 3, 4, 5, 6, 7}
	}
	sealed := p2p.VerifSealedFrameSize
	for _, sc := range scripts {
		for _, dir := range []int{0, 1} {
			chunks := c.chunkSizes(mitmScripts[sc][dir])
			nUnits := 3 + len(chunks)
			nOpp := 3 + len(c.chunkSizes(mitmScripts[sc][1-dir]))
			for _, lo := range []bool{true, false} {
				for f := 0; f <= 4 && f < nUnits; f++ {
					add := func(t string, arg, bit int) {
						out = append(out, kase{Part: "mitm", Tamper: t, Frame: f, Arg: arg, Bit: bit, ALo: lo, Script: sc, Dir: dir})
					}
					size := sealed
					var offs []int
					if f == 0 {
						size = 32
						offs = []int{0, 15, 16, 31}
					} else {
						// secretbox: 16 bytes authenticator, then ciphertext of [2-byte length | payload | padding]
						dl := 4 // auth length frame carries 4 bytes
						if f >= 3 {
							dl = chunks[f-3]
						}
						offs = []int{0, 7, 15, 16, 17, 18, 18 + dl - 1, 18 + dl, sealed - 1}
						if f == 2 {
							offs = []int{0, 7, 15, 16, 17, 18, 50, 100, sealed - 1}
						}
					}
					for _, o := range uniqInts(offs) {
						if o < 0 || o >= size {
							continue
						}
						for _, b := range bits {
							add("flip", o, b)
						}
					}
					if f+1 < nUnits {
						add("swap", 0, 0)
					}
					add("replay", 0, 0)
					add("drop", 0, 0)
					add("insert", 0, 0)
					add("splice", 0, 0)
					for _, kk := range uniqInts([]int{1, size / 2, size - 1}) {
						add("trunc", kk, 0)
					}
					for _, kk := range uniqInts([]int{0, 1, size / 2, size - 1}) {
						add("cut", kk, 0)
					}
					if f == 0 {
						add("subst", 0, 0)
						add("reflect", 0, 0)
					} else {
						// the opposite direction's unit g must exist without the receiver needing
						// the unit that is being replaced: a party's data units (3..) only exist
						// once its handshake is over, so they can only be reflected into data units
						for _, g := range []int{f - 1, f, f + 1} {
							if g >= 1 && g < nOpp && (f >= 3 || g <= 2) {
								add("reflect", g, 0)
							}
						}
					}
				}
			}
		}
	}
	// long scripts: copies and displacements at every distance
	for _, dir := range []int{0, 1} {
		nUnits := 3 + len(c.chunkSizes(mitmScripts[longScriptIdx][dir]))
		for _, lo := range []bool{true, false} {
			for _, a := range farAnchors(quick) {
				for _, t := range farKindList {
					if a < 3 && t != "far-replay" && t != "far-overwrite" {
						// a handshake frame is only ever copied into the data stream; a data
						// frame is never moved into the handshake (its first bytes would be
						// taken for the length of the auth message if it ever decrypted)
						continue
					}
					for d := 1; a+d < nUnits; d++ {
						out = append(out, kase{Part: "mitm", Tamper: t, Frame: a, Arg: d, ALo: lo, Script: longScriptIdx, Dir: dir})
					}
				}
			}
		}
	}
	return out
}

func uniqInts(a []int) []int {
	var o []int
	seen := map[int]bool{}
	for _, x := range a {
		if !seen[x] {
			seen[x] = true
			o = append(o, x)
		}
	}
	return o
}

// ---------------------------------------------------------------- lying endpoint

// liarKey is a crypto.PrivKey whose announced public key and signing behaviour
// are chosen by the harness: the real MakeSecretConnection then sends an auth
// message "substituted" in exactly the intended way.
type liarKey struct {
	pub  crypto.PubKey
	sign func(msg []byte) crypto.Signature
}

func (l liarKey) Bytes() []byte                    { return nil }
func (l liarKey) Sign(msg []byte) crypto.Signature { return l.sign(msg) }
func (l liarKey) PubKey() crypto.PubKey            { return l.pub }
func (l liarKey) Equals(crypto.PrivKey) bool       { return false }
func (l liarKey) KeyString() string                { return "liar" }

var authLies = []string{"honest-other-key", "claims-victim-key-signs-with-own", "own-key-signs-other-message", "victim-key-with-victim-signature-of-other-challenge", "own-key-zero-signature", "victim-key-zero-signature"}

func (c *ctx) runAuth(k kase) {
	atomic.AddInt64(&c.evals, 1)
	atomic.AddInt64(&c.authCases, 1)
	attacker := detKey("attacker")
	victim := detKey("victim-validator")
	var lk liarKey
	var expectKey crypto.PubKey // nil: the handshake must fail
	switch k.Lie {
	case "honest-other-key":
		lk = liarKey{attacker.PubKey(), attacker.Sign}
		expectKey = attacker.PubKey()
	case "claims-victim-key-signs-with-own":
		lk = liarKey{victim.PubKey(), attacker.Sign}
	case "own-key-signs-other-message":
		lk = liarKey{attacker.PubKey(), func(m []byte) crypto.Signature {
			q := append([]byte(nil), m...)
			q[0] ^= 1
			return attacker.Sign(q)
		}}
	case "victim-key-with-victim-signature-of-other-challenge":
		stale := victim.Sign(pattern(32, 5))
		lk = liarKey{victim.PubKey(), func([]byte) crypto.Signature { return stale }}
	case "own-key-zero-signature":
		lk = liarKey{attacker.PubKey(), func([]byte) crypto.Signature { return crypto.SignatureEd25519{} }}
	case "victim-key-zero-signature":
		lk = liarKey{victim.PubKey(), func([]byte) crypto.Signature { return crypto.SignatureEd25519{} }}
	default:
		core.Fatal("unknown lie %q", k.Lie)
	}
	sig := func(kind string) map[string]string {
		return map[string]string{"part": "secretconn-auth", "kind": kind, "lie": k.Lie}
	}
	fl := c.begin(k, sig(""))
	defer c.end(fl)
	var s *session
	for attempt := 1; ; attempt++ {
		fl.tick()
		s = orderedSession([2]crypto.PrivKey{lk, keyB}, func() [2]*mitm { return [2]*mitm{} }, [2][][]byte{}, k.ALo)
		if !s.hung {
			break
		}
		if attempt == 3 {
			if expectKey != nil {
				c.report(sig("party-never-returns"), k, fmt.Sprintf("honest handshake: a party did not return from MakeSecretConnection within %v (3 times out of 3)", handshakeDeadline))
			}
			// (a liar that is never answered has not been accepted)
			c.classes.Add(fmt.Sprintf("auth/%s/accepted=hang", k.Lie))
			return
		}
	}
	if s.pan[1] != "" {
		m := sig("panic")
		m["site"] = s.site[1]
		c.report(m, k, "B panicked: "+s.pan[1])
		return
	}
	ok := s.err[1] == nil && s.sc[1] != nil
	c.classes.Add(fmt.Sprintf("auth/%s/accepted=%v", k.Lie, ok))
	if expectKey == nil {
		if ok {
			c.report(sig("forged-identity-accepted"), k, fmt.Sprintf("auth message %q accepted; RemotePubKey()=%v", k.Lie, s.sc[1].RemotePubKey()))
		}
		return
	}
	if !ok {
		c.report(sig("honest-peer-rejected"), k, fmt.Sprintf("honest handshake failed: %v", s.err[1]))
		return
	}
	if got := s.sc[1].RemotePubKey(); got == nil || !got.Equals(expectKey) {
		c.report(sig("wrong-remote-pubkey"), k, fmt.Sprintf("RemotePubKey()=%v but the challenge was signed by %v", got, expectKey))
	}
}
