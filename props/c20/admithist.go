package main

// Part (c'): admission HISTORIES.  The certificate-authority rule speaks of a
// CURRENT authority, so a single admission attempt per node is not enough: one
// node (one State, one Switch, one authByCA closure - gemmill.VerifAuthByCA,
// wired as angine.go does) sees a sequence of admission attempts of two peer
// keys, each with a certificate by one of four signers, interleaved with
// validator-set changes (authority removed / its power set to 0 / a new
// authority added / the old one restored), applied by the real
// AdminOp.EndBlock + State.SetBlockAndValidators.  Every attempt of every
// history is judged: admitted iff the certificate was signed by a key that is
// an authority NOW (reference: a boring map, updated by the operations).
//
// Two levels: "closure" calls the admission closure the switch calls
// (Switch.AuthByCA's target) directly; "switch" goes through the real
// Switch.AddPeerWithConnection with a scripted remote party (an admitted peer
// is disconnected with Switch.StopPeerGracefully before the next step, so that
// the same key can come back).

import (
	"fmt"
	"net"
	"strings"
	"sync"
	"sync/atomic"
	"time"

	"verif/core"

	"github.com/spf13/viper"

	"github.com/dappledger/AnnChain/gemmill"
	crypto "github.com/dappledger/AnnChain/gemmill/go-crypto"
	dbm "github.com/dappledger/AnnChain/gemmill/modules/go-db"
	"github.com/dappledger/AnnChain/gemmill/p2p"
	"github.com/dappledger/AnnChain/gemmill/plugin"
	"github.com/dappledger/AnnChain/gemmill/refuse_list"
	"github.com/dappledger/AnnChain/gemmill/state"
	"github.com/dappledger/AnnChain/gemmill/types"
)

type histStep struct {
	Peer string `json:"peer,omitempty"` // attempt: P | Q
	Cert string `json:"cert,omitempty"` // attempt: who signed the certificate the peer presents
	Op   string `json:"op,omitempty"`   // change of the validator set
}

type admitHist struct {
	Level      string     `json:"level"` // closure | switch
	Outbound   bool       `json:"outbound,omitempty"`
	NonValAuth bool       `json:"non_validator_node_auth"`
	Steps      []histStep `json:"steps"`
}

var (
	histPeers   = []string{"P", "Q"}
	histSigners = []string{"ca1", "ca2", "ca3", "outsider"}
	histOps     = []string{"remove-ca1", "zero-power-ca1", "add-ca3", "restore-ca1", "remove-ca3"}
	// the switch level leaves out the signer that is an authority throughout and the second removal
	histSignersSwitch = []string{"ca1", "ca3", "outsider"}
	histOpsSwitch     = []string{"remove-ca1", "zero-power-ca1", "add-ca3", "restore-ca1"}

	kPeerQ = detKey("admit-peer-q")
	kCA3   = detKey("admit-ca3") // no validator at genesis; becomes an authority by "add-ca3"
)

func histKey(name string) crypto.PrivKeyEd25519 {
	switch name {
	case "P":
		return kPeer
	case "Q":
		return kPeerQ
	case "ca1":
		return kCA1
	case "ca2":
		return kCA2
	case "ca3":
		return kCA3
	case "v3":
		return kV3
	case "outsider":
		return kOutsider
	case "node":
		return kNode
	}
	core.Fatal("unknown key name %q", name)
	return kPeer
}

// public keys, addresses and certificates of the named keys, derived once
type histKeyInfo struct {
	pub  crypto.PubKey
	raw  []byte
	addr []byte
}

var (
	histInfoOnce sync.Once
	histInfos    map[string]*histKeyInfo
	histCerts    map[string]string // peer + "/" + signer
)

func histInfo(name string) *histKeyInfo {
	histInfoOnce.Do(func() {
		histInfos, histCerts = map[string]*histKeyInfo{}, map[string]string{}
		for _, n := range []string{"P", "Q", "ca1", "ca2", "ca3", "v3", "outsider", "node"} {
			k := histKey(n)
			histInfos[n] = &histKeyInfo{pub: k.PubKey(), raw: rawPub(k), addr: k.PubKey().Address()}
		}
		for _, p := range histPeers {
			for _, sg := range histSigners {
				histCerts[p+"/"+sg] = caSignature(histKey(sg), histInfos[p].raw)
			}
		}
	})
	return histInfos[name]
}

// histModel: the reference, written from the property - who is a validator and
// who is an authority now.
type histModel struct {
	validator, authority map[string]bool
	everAuthority        map[string]bool
}

func newHistModel() *histModel {
	return &histModel{
		validator:     map[string]bool{"ca1": true, "ca2": true, "v3": true},
		authority:     map[string]bool{"ca1": true, "ca2": true},
		everAuthority: map[string]bool{"ca1": true, "ca2": true},
	}
}

func (m *histModel) applicable(op string) bool {
	switch op {
	case "remove-ca1":
		return m.validator["ca1"]
	case "zero-power-ca1":
		return m.validator["ca1"] && m.authority["ca1"]
	case "add-ca3":
		return !m.validator["ca3"]
	case "restore-ca1":
		return !m.authority["ca1"]
	case "remove-ca3":
		return m.validator["ca3"]
	}
	return false
}

func (m *histModel) apply(op string) {
	switch op {
	case "remove-ca1":
		m.validator["ca1"], m.authority["ca1"] = false, false
	case "zero-power-ca1":
		m.authority["ca1"] = false
	case "add-ca3":
		m.validator["ca3"], m.authority["ca3"], m.everAuthority["ca3"] = true, true, true
	case "restore-ca1":
		m.validator["ca1"], m.authority["ca1"] = true, true
	case "remove-ca3":
		m.validator["ca3"], m.authority["ca3"] = false, false
	}
}

// signerStatus names the class of the certificate for signatures/classes.
func (m *histModel) signerStatus(s string) string {
	switch {
	case m.authority[s]:
		return "current-authority"
	case m.everAuthority[s]:
		return "former-authority"
	case s == "outsider":
		return "never-an-authority"
	}
	return "not-yet-an-authority"
}

// admitNode: one node's admission machinery.
type admitNode struct {
	conf    *viper.Viper
	rl      *refuse_list.RefuseList
	sw      *p2p.Switch
	stateM  *state.State
	admin   *plugin.AdminOp
	chainID string
	height  int64
	closure func(*p2p.NodeInfo) error
}

func newAdmitNode(nonValAuth bool) *admitNode {
	gvs := []types.GenesisValidator{
		{PubKey: histInfo("ca1").pub, Amount: 10, IsCA: true, Name: "ca1"},
		{PubKey: histInfo("ca2").pub, Amount: 10, IsCA: true, Name: "ca2"},
		{PubKey: histInfo("v3").pub, Amount: 10, IsCA: false, Name: "v3"},
	}
	n := &admitNode{chainID: "verif-c20"}
	genDoc := &types.GenesisDoc{GenesisTime: time.Unix(1500000000, 0), ChainID: n.chainID, Validators: gvs, Plugins: "adminOp"}
	n.stateM = state.MakeGenesisState(dbm.NewMemDB(), genDoc)
	n.conf = viper.New()
	n.conf.Set("auth_by_ca", true)
	n.conf.Set("non_validator_node_auth", nonValAuth)
	n.rl = refuse_list.NewRefuseList(dbm.MemDBBackendStr, "")
	// the wiring of gemmill/angine.go prepareP2P + assembleStateMachine
	n.sw = p2p.NewSwitch(n.conf)
	n.sw.SetNodeInfo(&p2p.NodeInfo{PubKey: histInfo("node").pub, Moniker: "node", Network: n.chainID, Version: "0.9.0", ListenAddr: "127.0.0.1:1"})
	n.sw.SetNodePrivKey(kNode)
	n.sw.SetAddToRefuselist(gemmill.VerifAddToRefuselist(n.rl))
	n.sw.SetRefuseListFilter(gemmill.VerifRefuseListFilter(n.rl))
	n.closure = gemmill.VerifAuthByCA(n.conf, &n.stateM.Validators)
	n.sw.SetAuthByCA(n.closure)
	n.admin = &plugin.AdminOp{}
	n.admin.Init(&plugin.InitParams{Switch: n.sw, PrivKey: kNode, RefuseList: n.rl, Validators: &n.stateM.Validators})
	return n
}

func (n *admitNode) close() { n.rl.Stop() }

// change applies one validator-set operation the way a block does: the real
// AdminOp.EndBlock, then the state update of State.ExecBlock.
func (n *admitNode) change(op string) {
	var attr *types.ValidatorAttr
	switch op {
	case "remove-ca1":
		attr = &types.ValidatorAttr{PubKey: histInfo("ca1").raw, Cmd: types.ValidatorCmdRemoveNode}
	case "zero-power-ca1":
		attr = &types.ValidatorAttr{PubKey: histInfo("ca1").raw, Cmd: types.ValidatorCmdUpdateNode, Power: 0}
	case "add-ca3":
		attr = &types.ValidatorAttr{PubKey: histInfo("ca3").raw, Cmd: types.ValidatorCmdUpdateNode, Power: 10}
	case "restore-ca1":
		attr = &types.ValidatorAttr{PubKey: histInfo("ca1").raw, Cmd: types.ValidatorCmdUpdateNode, Power: 10}
	case "remove-ca3":
		attr = &types.ValidatorAttr{PubKey: histInfo("ca3").raw, Cmd: types.ValidatorCmdRemoveNode}
	default:
		core.Fatal("unknown validator operation %q", op)
	}
	n.admin.ChangedValidators = append(n.admin.ChangedValidators, attr)
	valSet := n.stateM.Validators.Copy()
	next := valSet.Copy()
	if _, err := n.admin.EndBlock(&plugin.EndBlockParams{NextValidatorSet: next}); err != nil {
		core.Fatal("AdminOp.EndBlock(%s): %v", op, err)
	}
	next.IncrementAccum(1)
	n.height++
	hdr := &types.Header{ChainID: n.chainID, Height: n.height, Time: time.Unix(1500000000+n.height, 0), ValidatorsHash: valSet.Hash()}
	n.stateM.SetBlockAndValidators(hdr, types.PartSetHeader{}, valSet, next)
}

// agrees: sanity of the harness itself - the node's current validator set is
// what the reference says (membership and authority flag of every named key).
func (n *admitNode) agrees(m *histModel) string {
	cur := n.stateM.Validators
	for _, name := range []string{"ca1", "ca2", "ca3", "v3"} {
		_, v := cur.GetByAddress(histInfo(name).addr)
		if (v != nil) != m.validator[name] {
			return fmt.Sprintf("%s: validator=%v, reference says %v", name, v != nil, m.validator[name])
		}
		if v != nil && v.IsCA != m.authority[name] {
			return fmt.Sprintf("%s: authority flag=%v, reference says %v", name, v.IsCA, m.authority[name])
		}
	}
	for _, name := range histPeers {
		if cur.HasAddress(histInfo(name).addr) {
			return name + " is a validator"
		}
	}
	return ""
}

func histNodeInfo(peer, cert string) *p2p.NodeInfo {
	info := histInfo(peer)
	addr := "127.0.0.1:2"
	if peer == "Q" {
		addr = "127.0.0.1:3"
	}
	return &p2p.NodeInfo{PubKey: info.pub, Moniker: "dialer-" + peer, Network: "verif-c20", Version: "0.9.0", ListenAddr: addr,
		SigndPubKey: histCerts[peer+"/"+cert]}
}

// attempt: one admission attempt. admitted / timeout / panic.
func (n *admitNode) attempt(level string, outbound bool, peer, cert string) (res admitResult) {
	ni := histNodeInfo(peer, cert)
	if level == "closure" {
		var err error
		p, v, st := core.Try(func() { err = n.closure(ni) })
		if p {
			res.pan, res.site = core.FirstLine(v), core.PanicSite(st)
			return
		}
		res.err, res.admitted = err, err == nil
		return
	}
	c1, c2 := net.Pipe()
	var wg sync.WaitGroup
	wg.Add(1)
	go func() {
		defer wg.Done()
		dialerScript(c2, histKey(peer), ni)
	}()
	var p2pPeer *p2p.Peer
	started := time.Now()
	p, v, st := core.Try(func() { p2pPeer, res.err = n.sw.AddPeerWithConnection(c1, outbound) })
	if p {
		c1.Close()
		c2.Close()
		wg.Wait()
		res.pan, res.site = core.FirstLine(v), core.PanicSite(st)
		return
	}
	if te, ok := res.err.(interface{ Timeout() bool }); ok && te.Timeout() || time.Since(started) > 15*time.Second {
		res.timeout = true
	}
	res.peers = n.sw.Peers().Size()
	res.admitted = res.peers > 0 || p2pPeer != nil
	// the peer goes away again (so that the same key can come back later)
	if p2pPeer != nil {
		core.Try(func() { n.sw.StopPeerGracefully(p2pPeer) })
	}
	c1.Close()
	c2.Close()
	wg.Wait()
	if left := n.sw.Peers().Size(); left != 0 && res.pan == "" {
		for _, q := range n.sw.Peers().List() {
			core.Try(func() { n.sw.StopPeerGracefully(q) })
		}
	}
	return
}

type histVerdict struct {
	step     int
	admitted bool
	want     bool
	status   string // class of the certificate's signer at that moment
	earlier  string // what the node has seen of this peer key before
	res      admitResult
}

// runHistoryOnce executes the history on a fresh node; it returns the verdict
// of every attempt (in order) and whether a handshake deadline was hit.
func runHistoryOnce(h admitHist, alive func()) (out []histVerdict, timeout bool) {
	n := newAdmitNode(h.NonValAuth)
	defer n.close()
	m := newHistModel()
	if d := n.agrees(m); d != "" {
		core.Fatal("harness: genesis validator set differs from the reference: %s", d)
	}
	admittedBefore := map[string]string{} // peer -> certificate signer it was last admitted with
	seen := map[string]bool{}
	for i, s := range h.Steps {
		alive()
		if s.Op != "" {
			if !m.applicable(s.Op) {
				core.Fatal("harness: operation %s is not applicable at step %d of %+v", s.Op, i, h)
			}
			n.change(s.Op)
			m.apply(s.Op)
			if d := n.agrees(m); d != "" {
				core.Fatal("harness: after %s the node's validator set differs from the reference: %s", s.Op, d)
			}
			continue
		}
		v := histVerdict{step: i, want: m.authority[s.Cert], status: m.signerStatus(s.Cert)}
		switch {
		case admittedBefore[s.Peer] == s.Cert:
			v.earlier = "same-key-admitted-earlier-with-this-certificate"
		case admittedBefore[s.Peer] != "":
			v.earlier = "same-key-admitted-earlier-with-another-certificate"
		case seen[s.Peer]:
			v.earlier = "same-key-refused-earlier"
		default:
			v.earlier = "first-attempt-of-the-key"
		}
		v.res = n.attempt(h.Level, h.Outbound, s.Peer, s.Cert)
		v.admitted = v.res.admitted
		timeout = timeout || v.res.timeout
		seen[s.Peer] = true
		if v.admitted {
			admittedBefore[s.Peer] = s.Cert
		}
		out = append(out, v)
		if v.res.pan != "" {
			return
		}
	}
	return
}

func (c *ctx) runAdmitHist(k kase) {
	atomic.AddInt64(&c.evals, 1)
	h := *k.Hist
	fl := c.begin(k, map[string]string{"part": "admission-history"})
	defer c.end(fl)
	var vs []histVerdict
	for attempt := 1; attempt <= 3; attempt++ {
		// (a history in which a handshake ran into the 20 s deadlines is repeated; 3 of 3: it is judged as it is)
		var to bool
		vs, to = runHistoryOnce(h, fl.tick)
		if !to {
			break
		}
	}
	direction := "closure-call"
	if h.Level == "switch" {
		direction = admitDirections[0]
		if h.Outbound {
			direction = admitDirections[1]
		}
	}
	atomic.AddInt64(&c.histAttempts, int64(len(vs)))
	for _, v := range vs {
		if v.res.pan != "" {
			c.report(map[string]string{"part": "admission-history", "kind": "panic", "site": v.res.site, "level": h.Level}, k, fmt.Sprintf("step %d panicked: %s", v.step, v.res.pan))
			return
		}
		c.classes.Add(fmt.Sprintf("admithist/%s/cert-by-%s/%s/admitted=%v", h.Level, v.status, v.earlier, v.admitted))
		if v.admitted == v.want {
			continue
		}
		kind := "legitimate-peer-refused"
		if v.admitted {
			kind = "admitted-but-forbidden"
		}
		c.report(map[string]string{"part": "admission-history", "kind": kind, "cause": "ca-signature", "level": h.Level, "direction": direction, "certificate": "by-" + v.status, "earlier": v.earlier}, k,
			fmt.Sprintf("step %d (%s): admitted=%v (err=%v, handshake deadline hit: %v) but the certificate is by a %s, so the property demands admitted=%v; history: %s",
				v.step, describeStep(h.Steps[v.step]), v.admitted, v.res.err, v.res.timeout, v.status, v.want, describeHist(h)))
		return // the first wrong attempt of a history is its finding
	}
}

func describeStep(s histStep) string {
	if s.Op != "" {
		return s.Op
	}
	return fmt.Sprintf("%s connects with a certificate by %s", s.Peer, s.Cert)
}

func describeHist(h admitHist) string {
	var parts []string
	for _, s := range h.Steps {
		parts = append(parts, describeStep(s))
	}
	return strings.Join(parts, "; ")
}

// admitHistCases: every applicable sequence of exactly `length` steps over
// (attempts = peers x signers) + ops.  (All prefixes are judged, so shorter
// histories are covered.)
func admitHistCases(level string, length int, signers, ops []string, outbound, nonValAuth bool) []kase {
	var alphabet []histStep
	for _, p := range histPeers {
		for _, s := range signers {
			alphabet = append(alphabet, histStep{Peer: p, Cert: s})
		}
	}
	for _, o := range ops {
		alphabet = append(alphabet, histStep{Op: o})
	}
	var out []kase
	var rec func(prefix []histStep, m *histModel)
	rec = func(prefix []histStep, m *histModel) {
		if len(prefix) == length {
			// a history that ends with a change has been judged as the prefix of another one
			if prefix[len(prefix)-1].Op != "" {
				return
			}
			h := admitHist{Level: level, Outbound: outbound, NonValAuth: nonValAuth, Steps: append([]histStep(nil), prefix...)}
			out = append(out, kase{Part: "admithist", Hist: &h})
			return
		}
		for _, a := range alphabet {
			m2 := m
			if a.Op != "" {
				if !m.applicable(a.Op) {
					continue
				}
				m2 = newHistModel()
				for _, s := range prefix {
					if s.Op != "" {
						m2.apply(s.Op)
					}
				}
				m2.apply(a.Op)
			}
			rec(append(prefix, a), m2)
		}
	}
	rec(nil, newHistModel())
	return out
}

func allAdmitHistCases(quick bool) (out []kase, bounds map[string]interface{}) {
	// (thorough: one step more at closure level with non_validator_node_auth off)
	closureLen, switchLen := [2]int{4, 4}, 3
	if !quick {
		closureLen[0] = 5
	}
	for i, nva := range []bool{false, true} {
		out = append(out, admitHistCases("closure", closureLen[i], histSigners, histOps, false, nva)...)
	}
	for _, outbound := range []bool{false, true} {
		out = append(out, admitHistCases("switch", switchLen, histSignersSwitch, histOpsSwitch, outbound, false)...)
	}
	bounds = map[string]interface{}{
		"peers": histPeers, "closure_level": map[string]interface{}{"length_by_non_validator_node_auth": closureLen, "signers": histSigners, "ops": histOps, "non_validator_node_auth": []bool{false, true}},
		"switch_level": map[string]interface{}{"length": switchLen, "signers": histSignersSwitch, "ops": histOpsSwitch, "directions": admitDirections},
	}
	return
}
