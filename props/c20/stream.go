package main

// Part (a), stream equality: every (write sizes, read-buffer sizes) pattern.
//
// A handshake costs ~1 ms of CPU, a pattern a few microseconds, so patterns
// are run back to back on one connection (at most streamBlock per connection).
// After each pattern the connection is brought back to the idle state (all
// frames consumed) and a one-frame probe in each direction confirms that it
// still works; a connection that fails the probe is thrown away.  A violation
// artefact carries the patterns that ran before on the same connection
// ("prior"), so a replay re-creates exactly the same connection history; the
// first violation of every class is additionally re-run on a brand-new
// connection and, if it reproduces there, reported without history.

import (
	"bytes"
	"fmt"
	"sort"
	"sync"
	"sync/atomic"

	"verif/core"

	crypto "github.com/dappledger/AnnChain/gemmill/go-crypto"
)

const streamBlock = 64

// streamShape classifies the input alone: would a receiver that always returns
// min(len(buf), rest of the current frame's chunk) ever serve a non-empty read
// buffer from the left-over of a chunk - i.e. was some earlier read buffer
// (possibly of length zero) smaller than the chunk it was served from?  The
// simulation mirrors the read loop of streamOneWay (cyclic buffers, then 4096-byte
// reads for whatever is still outstanding).
func (c *ctx) streamShape(writes, reads []int) string {
	chunks := c.chunkSizes(writes)
	total := sum(chunks)
	rem, ci, got, idle := 0, 0, 0, 0
	for step := 0; got < total && step < 200000; step++ {
		b := reads[step%len(reads)]
		n := 0
		if rem > 0 {
			if b > 0 {
				return "leftover-read"
			}
		} else if ci < len(chunks) {
			n = chunks[ci]
			ci++
			if b < n {
				rem = n - b
				n = b
			}
		}
		got += n
		if n == 0 {
			idle++
			if idle > len(reads) {
				break
			}
		} else {
			idle = 0
		}
	}
	if got < total && rem > 0 {
		return "leftover-read" // the 4096-byte reads that fetch the rest are served from a left-over
	}
	return "chunk-aligned"
}

type streamOutcome struct {
	kind, detail, site string
	zeroNil            bool
}

// streamOneWay writes the pattern's writes on one end and reads on the other
// end with the pattern's buffers.
func streamOneWay(s *session, from, to int, writes, reads []int, salt uint64) (o streamOutcome) {
	total := sum(writes)
	data := pattern(total, salt)
	p, v, st := core.Try(func() {
		off := 0
		for i, w := range writes {
			n, err := s.sc[from].Write(data[off : off+w])
			if err != nil || n != w {
				o.kind, o.detail = "write-error", fmt.Sprintf("write #%d of %d bytes returned n=%d err=%v", i, w, n, err)
				return
			}
			off += w
		}
		var got []byte
		idle := 0
		var rerr error
		for step := 0; len(got) < total && step < 200000; step++ {
			b := reads[step%len(reads)]
			buf := bytes.Repeat([]byte{0xEE}, b)
			n, err := s.sc[to].Read(buf)
			if n < 0 || n > b {
				o.kind, o.detail = "bad-n", fmt.Sprintf("Read(len %d) returned n=%d", b, n)
				return
			}
			got = append(got, buf[:n]...)
			if !bytes.HasPrefix(data, got) {
				break
			}
			if err != nil {
				rerr = err
				break
			}
			if n == 0 {
				if b > 0 {
					o.zeroNil = true
				}
				idle++
				if idle > len(reads) {
					break
				}
			} else {
				idle = 0
			}
		}
		// whatever the enumerated buffers did not obtain must still be there
		if rerr == nil && len(got) < total && bytes.HasPrefix(data, got) {
			idle = 0
			for step := 0; step < 64 && len(got) < total+8192; step++ {
				buf := make([]byte, 4096)
				n, err := s.sc[to].Read(buf)
				if n < 0 || n > len(buf) {
					o.kind, o.detail = "bad-n", fmt.Sprintf("Read(len %d) returned n=%d", len(buf), n)
					return
				}
				got = append(got, buf[:n]...)
				if err != nil {
					rerr = err
					break
				}
				if n == 0 {
					o.zeroNil = true
					idle++
					if idle > 3 {
						break
					}
				} else {
					idle = 0
				}
			}
		}
		if bytes.Equal(got, data) {
			// nothing may follow
			buf := make([]byte, 4096)
			n, _ := s.sc[to].Read(buf)
			if n != 0 {
				o.kind, o.detail = "bytes-duplicated", fmt.Sprintf("%d extra bytes after the complete stream of %d", n, total)
			}
			return
		}
		l := 0
		for l < len(got) && l < len(data) && got[l] == data[l] {
			l++
		}
		switch {
		case len(got) < len(data):
			o.kind = "bytes-lost"
		case len(got) > len(data) && l == len(data):
			o.kind = "bytes-duplicated"
		default:
			o.kind = "bytes-altered"
		}
		o.detail = fmt.Sprintf("wrote %d bytes, obtained %d, the streams agree on the first %d bytes only (final read error: %v)", len(data), len(got), l, rerr)
	})
	if p {
		o.kind, o.detail, o.site = "panic", core.FirstLine(v), core.PanicSite(st)
	}
	return
}

// settle reads everything still in flight and probes both directions with one
// small frame; false = the connection is no longer usable.
func settle(s *session) bool {
	ok := true
	p, _, _ := core.Try(func() {
		for dir := 0; dir < 2; dir++ {
			to := 1 - dir
			for i := 0; i < 64; i++ {
				if _, err := s.sc[to].Read(make([]byte, 4096)); err != nil {
					break
				}
			}
			if s.d.pending(dir) != 0 {
				ok = false
				return
			}
			probe := pattern(3, 77)
			if n, err := s.sc[dir].Write(probe); n != 3 || err != nil {
				ok = false
				return
			}
			buf := make([]byte, 4096)
			n, err := s.sc[to].Read(buf)
			if n != 3 || err != nil || !bytes.Equal(buf[:3], probe) || s.d.pending(dir) != 0 {
				ok = false
				return
			}
		}
	})
	return ok && !p
}

type streamWorker struct {
	c     *ctx
	s     *session
	prior [][2][]int
	count int
}

func (w *streamWorker) fresh(k kase) bool {
	for attempt := 1; attempt <= 3; attempt++ {
		w.s = handshake([2]crypto.PrivKey{keyA, keyB}, nil, [2][][]byte{})
		if !w.s.hung {
			break
		}
	}
	w.s.d.mute = true // single-threaded from here on; nothing to record
	w.prior = nil
	if !w.c.checkCleanHandshake(k, w.s, "secretconn-stream") {
		w.s = nil
		return false
	}
	return true
}

// execute runs one pattern on the worker's connection (both directions) and
// returns the outcome without reporting.
func (w *streamWorker) execute(writes, reads []int) (o streamOutcome, from int) {
	for from = 0; from < 2; from++ {
		o = streamOneWay(w.s, from, 1-from, writes, reads, uint64(7+from+2*len(w.prior)))
		if o.kind != "" {
			return
		}
	}
	return streamOutcome{}, 0
}

var (
	confirmMu   sync.Mutex
	confirmDone = map[string]bool{}
)

func (w *streamWorker) run(writes, reads []int) {
	c := w.c
	atomic.AddInt64(&c.evals, 1)
	atomic.AddInt64(&c.streamCases, 1)
	if sum(writes) > 0 {
		atomic.AddInt64(&c.streamNontrivial, 1)
	}
	k := kase{Part: "stream", Writes: writes, Reads: reads}
	shape := c.streamShape(writes, reads)
	if shape == "leftover-read" {
		atomic.AddInt64(&c.leftoverCases, 1)
	}
	if w.s == nil || len(w.prior) >= streamBlock {
		if !w.fresh(k) {
			return
		}
	}
	o, from := w.execute(writes, reads)
	c.classes.Add(fmt.Sprintf("stream/%s/%s", shape, orOK(o.kind)))
	if o.kind != "" {
		if shape == "leftover-read" {
			atomic.AddInt64(&c.leftoverFailing, 1)
		}
		sig := streamSig(o, shape)
		k.Prior = append([][2][]int(nil), w.prior...)
		detail := fmt.Sprintf("direction %d->%d, writes=%v, read buffers=%v (re-used cyclically), after %d earlier patterns on this connection: %s", from, 1-from, writes, reads, len(w.prior), o.detail)
		if len(w.prior) > 0 {
			// first of its class: try to reproduce on a brand-new connection for a minimal artefact
			key := fmt.Sprint(sig)
			confirmMu.Lock()
			first := !confirmDone[key]
			confirmDone[key] = true
			confirmMu.Unlock()
			if first {
				fw := &streamWorker{c: c}
				if fw.fresh(k) {
					if o2, from2 := fw.execute(writes, reads); o2.kind == o.kind && fmt.Sprint(streamSig(o2, shape)) == key {
						k.Prior = nil
						detail = fmt.Sprintf("direction %d->%d, writes=%v, read buffers=%v (re-used cyclically), on a fresh connection: %s", from2, 1-from2, writes, reads, o2.detail)
					}
				}
			}
		}
		c.report(sig, k, detail)
	}
	if w.count%50021 == 0 {
		c.samples.Add(kase{Part: "stream", Writes: writes, Reads: reads})
	}
	w.count++
	prior := append([][2][]int(nil), w.prior...)
	if broken := w.after(writes, reads); broken && o.kind == "" {
		// a pattern whose bytes all arrived must leave a working connection behind
		c.report(map[string]string{"part": "secretconn-stream", "kind": "connection-broken-after-pattern", "shape": shape}, kase{Part: "stream", Writes: writes, Reads: reads, Prior: prior},
			fmt.Sprintf("after writes=%v reads=%v (all bytes received correctly) a 3-byte probe frame no longer gets through", writes, reads))
	}
}

// after brings the connection back to idle and probes it; a connection that
// fails the probe is dropped (the next pattern starts on a new one).
func (w *streamWorker) after(writes, reads []int) (broken bool) {
	if !settle(w.s) {
		w.s = nil
		w.prior = nil
		return true
	}
	w.prior = append(w.prior, [2][]int{append([]int(nil), writes...), append([]int(nil), reads...)})
	return false
}

func streamSig(o streamOutcome, shape string) map[string]string {
	zn := "no"
	if o.zeroNil {
		zn = "yes"
	}
	sig := map[string]string{"part": "secretconn-stream", "kind": o.kind, "shape": shape, "zero_nil_read": zn}
	if o.site != "" {
		sig["site"] = o.site
	}
	return sig
}

// replayStream re-creates the connection history of an artefact.
func (c *ctx) replayStream(k kase) {
	w := &streamWorker{c: c}
	for _, pr := range k.Prior {
		if w.s == nil && !w.fresh(k) {
			return
		}
		w.execute(pr[0], pr[1])
		w.after(pr[0], pr[1])
	}
	if w.s == nil && !w.fresh(k) {
		return
	}
	o, from := w.execute(k.Writes, k.Reads)
	if o.kind != "" {
		c.report(streamSig(o, c.streamShape(k.Writes, k.Reads)), k, fmt.Sprintf("direction %d->%d: %s", from, 1-from, o.detail))
		return
	}
	if !settle(w.s) {
		c.report(map[string]string{"part": "secretconn-stream", "kind": "connection-broken-after-pattern", "shape": c.streamShape(k.Writes, k.Reads)}, k, "probe frame does not get through after the pattern")
	}
}

// streamTasks: one task per (write sequence, first read buffer); inside a task
// the read sequences are enumerated depth-first: a sequence r1..rk is extended
// only while its buffers could not yet hold all written bytes (a longer
// sequence would never use its tail); at k==maxR the buffers are re-used
// cyclically.
type streamTask struct {
	writes []int
	r1     int
}

func streamTasks(maxW int) []streamTask {
	var out []streamTask
	var gen func(cur []int)
	gen = func(cur []int) {
		if len(cur) > 0 {
			for _, r := range sizeSet {
				out = append(out, streamTask{append([]int(nil), cur...), r})
			}
		}
		if len(cur) == maxW {
			return
		}
		for _, s := range sizeSet {
			gen(append(cur, s))
		}
	}
	gen(nil)
	sort.SliceStable(out, func(a, b int) bool { return len(out[a].writes) < len(out[b].writes) })
	return out
}

func (c *ctx) runStreamTask(t streamTask, maxR int) {
	w := &streamWorker{c: c}
	fl := c.begin(kase{Part: "stream", Writes: t.writes, Reads: []int{t.r1}}, map[string]string{"part": "secretconn-stream"})
	defer c.end(fl)
	total := sum(t.writes)
	var rec func(cur []int, acc int)
	rec = func(cur []int, acc int) {
		if acc >= total || len(cur) == maxR {
			reads := append([]int(nil), cur...)
			fl.at(kase{Part: "stream", Writes: t.writes, Reads: reads, Prior: w.prior})
			w.run(t.writes, reads)
			return
		}
		for _, s := range sizeSet {
			rec(append(cur, s), acc+s)
		}
	}
	rec([]int{t.r1}, t.r1)
}
