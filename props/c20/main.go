// C20 — P2P transport is authenticated, ordered and intact; admission rules hold.
//
// Three exhaustive bounded explorations on the real code (DESIGN §5 C20):
//
//	(a) p2p.SecretConnection over a recording in-memory duplex: every
//	    (write sizes, read-buffer sizes) pattern, every frame-level tampering;
//	(b) p2p.Channel packetisation: explicit-state search over send/pump/deliver;
//	(c) Switch.AddPeerWithConnection with the real refuseListFilter/authByCA
//	    closures: every admission configuration, before and after a validator change.
package main

import (
	"fmt"
	"os"
	"strings"
	"sync/atomic"
	"time"

	"go.uber.org/zap"

	"verif/core"

	crypto "github.com/dappledger/AnnChain/gemmill/go-crypto"
	log "github.com/dappledger/AnnChain/gemmill/modules/go-log"
	"github.com/dappledger/AnnChain/gemmill/p2p"
)

var run0 = time.Now()

func main() {
	run := core.Start("C20", "model_checking", "XSTATE")
	log.SetLog(zap.NewNop())
	crypto.NodeInit(crypto.CryptoType)
	c := &ctx{run: run, classes: newCounter(), samples: core.NewSampler(8, run.Seed), dataMax: p2p.VerifDataMaxSize}

	if run.ReplayPath != "" {
		var k kase
		if err := run.ReplayCase(&k); err != nil {
			core.Fatal("cannot load replay: %v", err)
		}
		c.runCase(k)
		run.Finish(nil, nil)
	}

	// debugging aid only: C20_SKIP=stream,mitm,chan,admit,mconn leaves parts out (evidence then says exhaustive=false)
	skipped := os.Getenv("C20_SKIP")
	skip := func(p string) bool { return strings.Contains(skipped, p) }
	progress := func(what string) {
		if os.Getenv("C20_VERBOSE") != "" {
			fmt.Fprintf(os.Stderr, "[%6.1fs] %s\n", time.Since(run0).Seconds(), what)
		}
	}
	// Safety caps for the thorough tier only (the quick tier is never cut, so its
	// counts do not depend on the machine): no new stream task is started after
	// streamBudget, no new channel depth after chanBudget when the projected time
	// of the level would not fit.  A cap sets exhaustive=false and is reported.
	streamBudget, chanBudget := 6*time.Minute, 13*time.Minute+30*time.Second
	var caps []string

	// (a) man in the middle, lying endpoints
	t0 := time.Now()
	mc := c.mitmCases_(run.Quick())
	if skip("mitm") {
		mc = nil
	}
	for _, sci := range []int{0, 1, 2} {
		c.foreign(sci)
	}
	core.Par(len(mc), func(i int) {
		c.runMitm(mc[i])
		if i%97 == 0 {
			c.samples.Add(mc[i])
		}
	})
	var ac []kase
	for _, lie := range authLies {
		for _, lo := range []bool{true, false} {
			ac = append(ac, kase{Part: "auth", Lie: lie, ALo: lo})
		}
	}
	core.Par(len(ac), func(i int) { c.runAuth(ac[i]) })
	c.samples.Add(ac[2])
	tMitm := time.Since(t0).Seconds()
	progress("mitm+auth done")

	// (c) admission
	t2 := time.Now()
	adm := admitCases()
	if skip("admit") {
		adm = nil
	}
	core.Par(len(adm), func(i int) {
		c.runAdmit(adm[i])
		if i%211 == 0 {
			c.samples.Add(adm[i])
		}
	})
	tAdmit := time.Since(t2).Seconds()
	progress("admission done")

	// (b') conformance subset on started MConnections
	t3 := time.Now()
	mres := c.runMConnSubset(skip("mconn"))
	tMconn := time.Since(t3).Seconds()
	progress("mconn done")

	// (a) streams
	t4 := time.Now()
	maxW, maxR := run.Pick(2, 3), run.Pick(3, 4)
	st := streamTasks(maxW)
	if skip("stream") {
		st = nil
	}
	progress(fmt.Sprintf("stream tasks: %d", len(st)))
	var streamSkipped int64
	core.Par(len(st), func(i int) {
		if !run.Quick() && time.Since(run0) > streamBudget {
			atomic.AddInt64(&streamSkipped, 1)
			return
		}
		c.runStreamTask(st[i], maxR)
	})
	if streamSkipped > 0 {
		caps = append(caps, fmt.Sprintf("stream: time cap %v reached, %d of %d (write sequence, first read buffer) tasks not run (tasks are ordered by number of writes: the <=%d-write space is complete if the skipped tasks are fewer than the %d-write ones)", streamBudget, streamSkipped, len(st), maxW-1, maxW))
	}
	c.samples.Add(kase{Part: "stream", Writes: []int{2}, Reads: []int{1, 1}})
	nStream := int(atomic.LoadInt64(&c.streamCases))
	tStream := time.Since(t4).Seconds()
	progress("stream done")

	// (b) channels
	depth := run.Pick(6, 8)
	if skip("chan") {
		depth = 0
	}
	t1 := time.Now()
	var deadline time.Time
	if !run.Quick() {
		deadline = run0.Add(chanBudget)
	}
	cs := c.exploreChan(depth, deadline, progress)
	if cs.maxDepth < depth {
		caps = append(caps, fmt.Sprintf("channel: depth %d not started (projected to end after the %v cap); largest depth completed exhaustively: %d", cs.maxDepth+1, chanBudget, cs.maxDepth))
	}
	tChan := time.Since(t1).Seconds()
	progress("chan done")

	cls := c.classes.Map()
	states := int(cs.states) + nStream + len(mc) + len(ac) + len(adm)
	run.Finish(core.Coverage{
		"states":                        states,
		"transitions":                   int(atomic.LoadInt64(&c.evals)),
		"traces_validated_against_impl": int(atomic.LoadInt64(&c.evals)),
		"evaluations":                   int(atomic.LoadInt64(&c.evals)),
		"distinct_nontrivial":           int(c.streamNontrivial) + int(c.mitmApplied) + len(ac) + int(cs.states) + len(adm),
		"distinct_outcome_classes":      len(cls),
		"rule": "(a) every write-size sequence of length 1.." + fmt.Sprint(maxW) + " and every read-buffer sequence of length 1.." + fmt.Sprint(maxR) +
			" over {0,1,2,1023,1024,1025,2047,2048,3000} (a read sequence is extended only while its buffers cannot yet hold all written bytes; at full length the buffers are re-used cyclically; what the enumerated buffers leave is fetched with 4096-byte reads), in both directions of a real connection made by the real handshake (at most 64 patterns back to back per connection, a probe frame in each direction after every pattern, violation artefacts carry the connection's history); every tampering kind {bit flip in authenticator/length/payload/padding, swap, replay, drop, insert, cross-session splice, truncate, cut, ephemeral-key substitution, reflection of the opposite direction's unit f-1/f/f+1} at every unit 0..4 for both orders of the ephemeral keys; every lying auth message; " +
			"(b) breadth-first over all histories of {send(ch,size) 2x8, pump(ch), poll(ch)=isSendPending only, deliver} up to the depth bound with deduplication on (queued sizes, message in transmission+offset, receiver fill, packets on the wire, dead), every transition followed by a drain that must deliver every accepted message; " +
			"(c) every combination of phase x refuse-list x announced-key x auth_by_ca x validator x non_validator_node_auth x signature kind x self; " +
			"all enumerated cases are distinct by construction; distinct_nontrivial = stream patterns that write at least one byte + tampering cases in which the delivered ciphertext really differs from the genuine one + lying-auth cases + distinct channel states (by the deduplication key) + admission configurations; distinct_outcome_classes counts the distinct (part, input class, outcome) classes observed (histogram in outcome_classes)",
		"exhaustive": skipped == "" && len(caps) == 0,
		"caps":       caps,
		"bounds": map[string]interface{}{
			"max_writes": maxW, "max_reads": maxR, "sizes": sizeSet,
			"mitm_units": "0..4", "chan_depth": depth, "chan_msg_sizes": msgSizes,
			"chan_send_queue": chanSendQueueCap, "chan_recv_capacity": chanRecvMsgCap,
		},
		"stream_cases":                    nStream,
		"stream_cases_with_leftover_read": int(c.leftoverCases),
		"stream_leftover_cases_failing":   int(c.leftoverFailing),
		"mitm_cases":                      len(mc),
		"auth_cases":                      len(ac),
		"chan_states":                     int(cs.states),
		"chan_transitions":                int(cs.transitions),
		"chan_merges":                     int(cs.merges),
		"chan_new_states_per_depth":       cs.perDepth,
		"chan_max_depth_completed":        cs.maxDepth,
		"chan_violating_transitions":      int(cs.violating),
		"admission_cases":                 len(adm),
		"mconn_conformance":               mres,
		"outcome_classes":                 cls,
		"samples":                         c.samples.List(),
		"wall_s_by_part":                  map[string]float64{"stream": tStream, "mitm+auth": tMitm, "channel": tChan, "admission": tAdmit, "mconn": tMconn},
	}, []string{
		"every enumerated case is executed on the real p2p.SecretConnection / p2p.Channel / p2p.Switch / gemmill.authByCA / refuse_list code (traces_validated_against_impl = all); reference models are used only as oracles",
		"the man in the middle knows no secrets (acts on ciphertext units only); unforgeability of ed25519 and secretbox is not what is being decided, only that the code uses them so that every frame-level manipulation is rejected",
		"(b) drives Channel objects directly (the harness, not MConnection's priority rule, picks the channel: a superset of the real interleavings, channels share no state); the routines themselves are only covered by the progress-based conformance subset",
		"(c) 'current validator set' = State.Validators after the real AdminOp.EndBlock + State.SetBlockAndValidators sequence of State.ExecBlock, on the same State object whose &Validators was given to authByCA (the path most favourable to the implementation)",
	})
}

func (c *ctx) runCase(k kase) {
	switch k.Part {
	case "stream":
		c.replayStream(k)
	case "mitm":
		c.runMitm(k)
	case "auth":
		c.runAuth(k)
	case "chan":
		c.runChanCase(k.Ops)
	case "admit":
		c.runAdmit(k)
	case "mconn":
		c.runMConnCase(k, true)
	default:
		core.Fatal("unknown case part %q", k.Part)
	}
}
