// C20 — P2P transport is authenticated, ordered and intact; admission rules hold.
//
// Exhaustive bounded explorations on the real code (DESIGN §5 C20):
//
//	(a) p2p.SecretConnection over a recording in-memory duplex: every
//	    (write sizes, read-buffer sizes) pattern; long honest streams (520 frames
//	    in each direction: the frame counters carry four times); every frame-level
//	    tampering on either direction at units 0..4, and on the long script every
//	    copy / exchange / displacement of an anchor unit at EVERY distance;
//	(b) p2p.Channel packetisation: explicit-state search over send/pump/deliver
//	    (sizes k*1024-1, k*1024, k*1024+1 ...); (b') real started MConnections;
//	(c) Switch.AddPeerWithConnection with the real refuseListFilter/authByCA
//	    closures: every admission configuration x direction of the connection
//	    (accepted | dialed), before and after a validator change.
//
// Nothing waits without a deadline: see watchdog.go.
package main

import (
	"fmt"
	"os"
	"runtime/pprof"
	"strings"
	"sync"
	"sync/atomic"
	"time"

	"go.uber.org/zap"

	"verif/core"

	crypto "github.com/dappledger/AnnChain/gemmill/go-crypto"
	log "github.com/dappledger/AnnChain/gemmill/modules/go-log"
	"github.com/dappledger/AnnChain/gemmill/p2p"
)

var run0 = time.Now()

// covState: what has been measured so far (the evidence is assembled from it by
// finish, normally at the end, by the stall watchdog if a case never returns).
type covState struct {
	mu       sync.Mutex
	once     sync.Once
	skipped  string
	caps     []string
	nMitm    int
	nAuth    int
	nAdmit   int
	nHist    int
	nRelay   int
	relayWhy string
	histB    map[string]interface{}
	nLong    int
	chans    []*chanStats // [0] = full alphabet, [1] = core alphabet
	mres     map[string]interface{}
	timing   map[string]float64
	maxW     int
	maxR     int
	depth    [2]int
}

// the sizes of the first version of this exploration: it is carried one level
// deeper than the exploration over all of msgSizes
var coreSizes = []int{0, 1, 1023, 1024, 1025, 2048, 4096, 4097}

func main() {
	run := core.Start("C20", "model_checking", "XSTATE")
	log.SetLog(zap.NewNop())
	crypto.NodeInit(crypto.CryptoType)
	c := &ctx{run: run, classes: newCounter(), samples: core.NewSampler(8, run.Seed), dataMax: p2p.VerifDataMaxSize, fl: &flights{}, cov: &covState{timing: map[string]float64{}}}
	checkRawMsgEncoding()

	if run.ReplayPath != "" {
		var k kase
		if err := run.ReplayCase(&k); err != nil {
			core.Fatal("cannot load replay: %v", err)
		}
		c.runCase(k)
		run.Finish(nil, nil)
	}
	c.startWatchdog()
	cov := c.cov
	if pf := os.Getenv("C20_CPUPROFILE"); pf != "" { // debugging aid only
		if f, err := os.Create(pf); err == nil {
			pprof.StartCPUProfile(f)
		}
	}

	// debugging aid only: C20_SKIP=stream,mitm,relay,chan,admit,hist,mconn,long leaves parts out (evidence then says exhaustive=false)
	cov.skipped = os.Getenv("C20_SKIP")
	skip := func(p string) bool { return strings.Contains(cov.skipped, p) }
	progress := func(what string) {
		if os.Getenv("C20_VERBOSE") != "" {
			fmt.Fprintf(os.Stderr, "[%6.1fs] %s\n", time.Since(run0).Seconds(), what)
		}
	}
	timed := func(name string, t0 time.Time) {
		cov.mu.Lock()
		cov.timing[name] = time.Since(t0).Seconds()
		cov.mu.Unlock()
		progress(name + " done")
	}
	addCap := func(s string) {
		cov.mu.Lock()
		cov.caps = append(cov.caps, s)
		cov.mu.Unlock()
	}
	// Safety caps for the thorough tier only (the quick tier is never cut, so its
	// counts do not depend on the machine): no new stream task is started once the
	// stream part has run for streamBudget (or the run for streamLatest), no new
	// channel depth after chanBudget when the projected time of the level would
	// not fit.  A cap sets exhaustive=false and is reported.
	streamBudget, streamLatest, chanBudget := 7*time.Minute+30*time.Second, 10*time.Minute, 13*time.Minute+30*time.Second

	// (a) man in the middle, lying endpoints
	t0 := time.Now()
	mc := c.mitmCases_(run.Quick())
	if skip("mitm") {
		mc = nil
	}
	if skip("long") {
		var short []kase
		for _, k := range mc {
			if k.Script != longScriptIdx {
				short = append(short, k)
			}
		}
		mc = short
	}
	cov.nMitm = len(mc)
	core.Par(len(mc), func(i int) {
		c.runMitm(mc[i])
		if i%977 == 0 {
			c.samples.Add(mc[i])
		}
	})
	var ac []kase
	for _, lie := range authLies {
		for _, lo := range []bool{true, false} {
			ac = append(ac, kase{Part: "auth", Lie: lie, ALo: lo})
		}
	}
	cov.nAuth = len(ac)
	core.Par(len(ac), func(i int) { c.runAuth(ac[i]) })
	c.samples.Add(ac[2])
	rc := relayCases()
	if skip("relay") {
		rc = nil
	}
	cov.nRelay = len(rc)
	core.Par(len(rc), func(i int) { c.runRelay(rc[i]) })
	if len(rc) > 0 {
		c.samples.Add(rc[0])
	}
	timed("mitm+auth", t0)

	// (a) long honest streams
	t5 := time.Now()
	lc := longStreamCases()
	if skip("long") {
		lc = nil
	}
	cov.nLong = len(lc)
	core.Par(len(lc), func(i int) { c.runLongStream(lc[i]) })
	if len(lc) > 0 {
		c.samples.Add(lc[len(lc)-1])
	}
	timed("longstream", t5)

	// (c) admission
	t2 := time.Now()
	adm := admitCases()
	if skip("admit") {
		adm = nil
	}
	cov.nAdmit = len(adm)
	core.Par(len(adm), func(i int) {
		c.runAdmit(adm[i])
		if i%811 == 0 {
			c.samples.Add(adm[i])
		}
	})
	timed("admission", t2)

	// (c') admission histories
	t6 := time.Now()
	hc, hb := allAdmitHistCases(run.Quick())
	if skip("hist") {
		hc = nil
	}
	cov.nHist, cov.histB = len(hc), hb
	core.Par(len(hc), func(i int) {
		c.runAdmitHist(hc[i])
		if i%4999 == 0 {
			c.samples.Add(hc[i])
		}
	})
	timed("admission-histories", t6)

	// (b') conformance subset on started MConnections
	t3 := time.Now()
	mres := c.runMConnSubset(skip("mconn"))
	cov.mu.Lock()
	cov.mres = mres
	cov.mu.Unlock()
	timed("mconn", t3)

	// (a) streams
	t4 := time.Now()
	cov.maxW, cov.maxR = run.Pick(2, 3), run.Pick(3, 4)
	maxW, maxR := cov.maxW, cov.maxR
	st := streamTasks(maxW)
	if skip("stream") {
		st = nil
	}
	progress(fmt.Sprintf("stream tasks: %d", len(st)))
	var streamSkipped int64
	core.Par(len(st), func(i int) {
		if !run.Quick() && (time.Since(t4) > streamBudget || time.Since(run0) > streamLatest) {
			atomic.AddInt64(&streamSkipped, 1)
			return
		}
		c.runStreamTask(st[i], maxR)
	})
	if streamSkipped > 0 {
		addCap(fmt.Sprintf("stream: time cap (%v for the part, %v into the run) reached, %d of %d (write sequence, first read buffer) tasks not run (tasks are ordered by number of writes: the <=%d-write space is complete if the skipped tasks are fewer than the %d-write ones)", streamBudget, streamLatest, streamSkipped, len(st), maxW-1, maxW))
	}
	c.samples.Add(kase{Part: "stream", Writes: []int{2}, Reads: []int{1, 1}})
	timed("stream", t4)

	// (b) channels: all of msgSizes to depth[0], then the core sizes one level deeper
	cov.depth = [2]int{run.Pick(5, 6), run.Pick(6, 8)}
	if v := os.Getenv("C20_CHAN_DEPTHS"); v != "" { // debugging aid only
		fmt.Sscanf(v, "%d,%d", &cov.depth[0], &cov.depth[1])
		cov.skipped += " chan-depths-overridden"
	}
	if skip("chan") {
		cov.depth = [2]int{0, 0}
	}
	t1 := time.Now()
	var deadline [2]time.Time
	if !run.Quick() {
		// the full alphabet gets the first 60% of what is left
		left := run0.Add(chanBudget).Sub(time.Now())
		deadline[0] = time.Now().Add(left * 6 / 10)
		deadline[1] = run0.Add(chanBudget)
	}
	full := c.exploreChan("all-sizes", cov.depth[0], chanAlphabet(msgSizes), nil, deadline[0], 9, progress)
	if full.maxDepth < cov.depth[0] {
		addCap(fmt.Sprintf("channel (all sizes): depth %d not started or not completed (time cap); largest depth completed exhaustively: %d", full.maxDepth+1, full.maxDepth))
	}
	coreSt := c.exploreChan("core-sizes", cov.depth[1], chanAlphabet(coreSizes), full, deadline[1], 5.5, progress)
	if coreSt.maxDepth < cov.depth[1] {
		addCap(fmt.Sprintf("channel (core sizes): depth %d not started or not completed (%v cap); largest depth completed exhaustively: %d", coreSt.maxDepth+1, chanBudget, coreSt.maxDepth))
	}
	if !verifyMsgCache() {
		core.Fatal("a shared message buffer was written to")
	}
	timed("channel", t1)

	c.finish("")
}

// finish assembles the evidence from what has been measured and ends the
// process (exit 0/1).  aborted != "": called by the stall watchdog.
func (c *ctx) finish(aborted string) {
	c.cov.once.Do(func() { c.finishOnce(aborted) })
	select {} // the first caller is exiting the process
}

func (c *ctx) finishOnce(aborted string) {
	atomic.StoreInt32(&c.fl.off, 1)
	pprof.StopCPUProfile()
	cov := c.cov
	cov.mu.Lock()
	defer cov.mu.Unlock()
	caps := append([]string(nil), cov.caps...)
	if aborted != "" {
		caps = append(caps, aborted)
	}
	cls := c.classes.Map()
	nStream := int(atomic.LoadInt64(&c.streamCases))
	var cs [2]chanStats
	for i := 0; i < 2 && i < len(cov.chans); i++ {
		cs[i] = *cov.chans[i]
	}
	// states that both explorations found (looked up by deduplication key) are counted once
	chanStates := int(cs[0].states) + int(cs[1].states) - int(cs[1].overlap)
	nFixed := cov.nMitm + cov.nAuth + cov.nRelay + cov.nLong + cov.nAdmit + cov.nHist
	evals := int(atomic.LoadInt64(&c.evals))
	c.run.Finish(core.Coverage{
		"states":                        chanStates + nStream + nFixed,
		"transitions":                   evals,
		"traces_validated_against_impl": evals,
		"evaluations":                   evals,
		"distinct_nontrivial":           int(c.streamNontrivial) + int(c.mitmApplied) + cov.nAuth + int(atomic.LoadInt64(&c.relayMounted)) + cov.nLong + chanStates + cov.nAdmit + cov.nHist,
		"distinct_outcome_classes":      len(cls),
		"rule": "(a) every write-size sequence of length 1.." + fmt.Sprint(cov.maxW) + " and every read-buffer sequence of length 1.." + fmt.Sprint(cov.maxR) +
			" over {0,1,2,1023,1024,1025,2047,2048,3000} (a read sequence is extended only while its buffers cannot yet hold all written bytes; at full length the buffers are re-used cyclically; what the enumerated buffers leave is fetched with 4096-byte reads), in both directions of a real connection made by the real handshake (at most 64 patterns back to back per connection, a probe frame in each direction after every pattern, violation artefacts carry the connection's history); " +
			"long honest streams: both parties write " + fmt.Sprint(longFrames) + " frames (four carries out of the last byte of the frame counter, in the even and in the odd series), each reads all of it, for both orders of the ephemeral keys x 4 cyclic read-buffer profiles; " +
			"man in the middle on either direction (what A writes | what B writes) for both orders of the ephemeral keys: every tampering kind {bit flip in authenticator/length/payload/padding, swap, replay, drop, insert, cross-session splice, truncate, cut, ephemeral-key substitution, reflection of the opposite direction's unit f-1/f/f+1} at every unit 0..4; on the long script (" + fmt.Sprint(longFrames) + " data frames in each direction) every far kind {copy of unit a delivered again before unit a+d, copy of a in the place of a+d, a and a+d exchanged, a+d moved in front of a, a moved behind a+d} for every anchor a in far_anchors (sealed handshake frame(s), first data frame(s), the frames on either side of the counter carries; handshake frames are only copied) and EVERY distance d = 1..(last unit - a); every lying auth message; an active attacker M between two honest handshakes who runs its own key exchange with each party with ephemeral keys of its choosing (one key for both sessions in position lowest|middle|highest relative to the two honest ephemeral keys, or two keys each lower|higher than the honest key of its session) x both orders of the honest keys x victim A|B, decrypts the victim's authentication message (key + signature of the challenge of the M-victim session) and delivers it re-encrypted as its own in the M-target session: the target must not return a connection authenticated as the victim (relay_attacks_mounted = cases in which M's delivery reached the target's verification); " +
			"(b) breadth-first over all histories of {send(ch,size) 2 channels x sizes, pump(ch), poll(ch)=isSendPending only, deliver} with deduplication on (queued sizes, message in transmission+offset, receiver fill, packets on the wire, dead), every transition followed by a drain that must deliver every accepted message; run twice: sizes = chan_msg_sizes (k*1024-1, k*1024, k*1024+1 for k=1..3, 0, 1, capacity, capacity+1) to depth chan_depth_all_sizes, and sizes = chan_core_sizes to chan_depth_core_sizes (states found by both runs - looked up by the deduplication key - are counted once); " +
			"(b') real started MConnections: every encoded size of chan_msg_sizes alone on a channel with and without a following message (completion by count: a message that is accepted and never delivered is a violation after 3 idle deadlines out of 3), pairs, mixes; ONE large message (mconn_large_sizes = 1 MiB and the 4 MiB receive capacity of the large-channel scenarios) with nothing after it, as the first thing on the connection and on an idle connection (handed to Send only when the small message before it has been delivered), on either channel, as a byte array (encoded by one copy) and as an array of 16-bit words (encoded element by element); a second large / a small message on the connection that has become idle after a large one; capacity+1 on an idle connection; no MConnection lives long enough for a ping (40 s) and neither pings nor the statistics/flush ticks make the send routine look at the queues, so nothing but the Send itself can get a message out; the encoded size is wire.BinaryBytes of the message (checked at start); " +
			"(c) every combination of direction (the switch under test accepts the connection | dials out) x phase x refuse-list x pub-key filter x announced-key x auth_by_ca x validator x non_validator_node_auth x signature kind x self; " +
			"(c') admission histories on ONE node (one State, one Switch, one authByCA closure): every applicable sequence of admission_histories.length steps over {peer key P|Q connects with a certificate by signer s} + {validator-set operation: remove-ca1, zero-power-ca1, add-ca3, restore-ca1, remove-ca3 - applied by the real AdminOp.EndBlock + State.SetBlockAndValidators}, at closure level (the closure Switch.AuthByCA calls, non_validator_node_auth off|on) and through Switch.AddPeerWithConnection (inbound|outbound; an admitted peer is disconnected before the next step); EVERY attempt of every history is judged: admitted iff the signer is an authority at that moment (histories that end with an operation are omitted: they are prefixes); " +
			"all enumerated cases are distinct by construction; distinct_nontrivial = stream patterns that write at least one byte + tampering cases in which the delivered ciphertext really differs from the genuine one + lying-auth cases + mounted handshake-relay attacks + long streams + distinct channel states (by the deduplication key) + admission configurations + admission histories; distinct_outcome_classes counts the distinct (part, input class, outcome) classes observed (histogram in outcome_classes)",
		"exhaustive": cov.skipped == "" && len(caps) == 0,
		"caps":       caps,
		"bounds": map[string]interface{}{
			"max_writes": cov.maxW, "max_reads": cov.maxR, "sizes": sizeSet,
			"mitm_units": "0..4", "mitm_directions": 2, "long_script_frames_per_direction": longFrames, "far_anchors": farAnchors(c.run.Quick()), "far_kinds": farKindList,
			"far_distances":        "1..(units-1-anchor), all",
			"chan_depth_all_sizes": cov.depth[0], "chan_depth_core_sizes": cov.depth[1], "chan_msg_sizes": msgSizes, "chan_core_sizes": coreSizes,
			"chan_send_queue": chanSendQueueCap, "chan_recv_capacity": chanRecvMsgCap,
			"mconn_large_sizes": mconnLargeSizes, "mconn_large_recv_capacity": mconnLargeCap, "mconn_large_encodings": []string{"byte-array", "array-of-16-bit-words"},
			"admission_directions": admitDirections, "admission_pubkey_filter": admitPKFilters,
			"admission_histories": cov.histB,
			"deadlines_s":         map[string]float64{"handshake": handshakeDeadline.Seconds(), "mconn_idle": mconnIdleDeadline.Seconds(), "stall": stallLimit.Seconds()},
		},
		"stream_cases":                    nStream,
		"stream_cases_with_leftover_read": int(c.leftoverCases),
		"stream_leftover_cases_failing":   int(c.leftoverFailing),
		"long_stream_cases":               cov.nLong,
		"mitm_cases":                      cov.nMitm,
		"mitm_cases_really_tampered":      int(c.mitmApplied),
		"auth_cases":                      cov.nAuth,
		"relay_cases":                     cov.nRelay,
		"relay_attacks_mounted":           int(atomic.LoadInt64(&c.relayMounted)),
		"relay_attacks_not_mounted":       map[string]interface{}{"count": int(atomic.LoadInt64(&c.relayNotMounted)), "first_reason": cov.relayWhy},
		"chan_states":                     chanStates,
		"chan_all_sizes":                  chanCov(cs[0]),
		"chan_core_sizes":                 chanCov(cs[1]),
		"admission_cases":                 cov.nAdmit,
		"admission_histories":             cov.nHist,
		"admission_history_attempts":      int(atomic.LoadInt64(&c.histAttempts)),
		"mconn_conformance":               cov.mres,
		"outcome_classes":                 cls,
		"samples":                         c.samples.List(),
		"wall_s_by_part":                  cov.timing,
	}, []string{
		"every enumerated case is executed on the real p2p.SecretConnection / p2p.Channel / p2p.Switch / gemmill.authByCA / refuse_list code (traces_validated_against_impl = all); reference models are used only as oracles",
		"the man in the middle knows no secrets (acts on ciphertext units only, may delay what it has seen for as long as it likes); unforgeability of ed25519 and secretbox is not what is being decided, only that the code uses them so that every frame-level manipulation is rejected",
		"(b) drives Channel objects directly (the harness, not MConnection's priority rule, picks the channel: a superset of the real interleavings, channels share no state); the routines themselves are only covered by the progress-based conformance subset",
		"(c) 'current validator set' = State.Validators after the real AdminOp.EndBlock + State.SetBlockAndValidators sequence of State.ExecBlock, on the same State object whose &Validators was given to authByCA (the path most favourable to the implementation); the outbound direction is AddPeerWithConnection(conn, true), which is what DialPeerWithAddress calls after dialing; the pub-key filter is the switch's second key-based admission hook (SetPubKeyFilter, same contract as the refuse-list hook: an error means the key is not admitted), installed by the harness with a filter that rejects exactly the peer's authenticated key",
		"deadlines (handshake, idle MConnection, stall watchdog) only turn code that never returns / a message that is never delivered into a verdict, after 3 occurrences out of 3; they are far above what the unchanged code needs on a heavily loaded machine and no verdict of a case that returns depends on the clock",
	})
}

func chanCov(cs chanStats) map[string]interface{} {
	return map[string]interface{}{
		"states": int(cs.states), "transitions": int(cs.transitions), "merges": int(cs.merges),
		"new_states_per_depth": cs.perDepth, "max_depth_completed": cs.maxDepth, "violating_transitions": int(cs.violating), "states_also_found_by_the_other_run": int(cs.overlap),
	}
}

func (c *ctx) runCase(k kase) {
	switch k.Part {
	case "stream":
		c.replayStream(k)
	case "mitm":
		c.runMitm(k)
	case "longstream":
		c.runLongStream(k)
	case "auth":
		c.runAuth(k)
	case "chan":
		c.runChanCase(k.Ops)
	case "admit":
		c.runAdmit(k)
	case "relay":
		c.runRelay(k)
	case "admithist":
		c.runAdmitHist(k)
	case "mconn":
		c.runMConnCase(k, true)
	default:
		core.Fatal("unknown case part %q", k.Part)
	}
}
