package main

import "sync"

// counter is a concurrent histogram of outcome classes.
type counter struct {
	mu sync.Mutex
	m  map[string]int
}

func newCounter() *counter { return &counter{m: map[string]int{}} }

func (c *counter) Add(k string) { c.AddN(k, 1) }

func (c *counter) AddN(k string, n int) {
	c.mu.Lock()
	c.m[k] += n
	c.mu.Unlock()
}

func (c *counter) Map() map[string]int {
	c.mu.Lock()
	defer c.mu.Unlock()
	o := map[string]int{}
	for k, v := range c.m {
		o[k] = v
	}
	return o
}
