package main

// Part (a), long honest streams: nobody in the middle, both parties write the
// long script (longFrames frames each, so the frame counters of both directions
// - one runs on the even, one on the odd values - carry out of their last byte
// four times), then each party reads all of it with a cyclic sequence of read
// buffers.  Sender and receiver must stay in step over all of it.

import (
	"bytes"
	"fmt"
	"sync/atomic"

	"verif/core"

	crypto "github.com/dappledger/AnnChain/gemmill/go-crypto"
)

var longReadProfiles = [][]int{{4096}, {1024}, {1000}, {1, 2, 1023, 1024, 1025, 2047, 2048, 3000}}

func longStreamCases() []kase {
	var out []kase
	for _, lo := range []bool{true, false} {
		for _, rp := range longReadProfiles {
			out = append(out, kase{Part: "longstream", ALo: lo, Script: longScriptIdx, Reads: rp})
		}
	}
	return out
}

func (c *ctx) runLongStream(k kase) {
	atomic.AddInt64(&c.evals, 1)
	atomic.AddInt64(&c.longStreamCases, 1)
	part := "secretconn-longstream"
	fl := c.begin(k, map[string]string{"part": part})
	defer c.end(fl)
	scr := [2]*scriptData{scriptOf(k.Script, 0), scriptOf(k.Script, 1)}
	var s *session
	for attempt := 1; ; attempt++ {
		fl.tick()
		s = orderedSession([2]crypto.PrivKey{keyA, keyB}, func() [2]*mitm { return [2]*mitm{} }, [2][][]byte{scr[0].msgs, scr[1].msgs}, k.ALo)
		if !s.hung || attempt == 3 {
			break
		}
	}
	if !c.checkCleanHandshake(k, s, part) {
		return
	}
	reads := k.Reads
	if len(reads) == 0 {
		reads = []int{4096}
	}
	for dir := 0; dir < 2; dir++ {
		fl.tick()
		rcv := 1 - dir
		plain := scr[dir].plain
		var got []byte
		var rerr error
		extra := 0
		p, v, st := core.Try(func() {
			got = make([]byte, 0, len(plain)+8192)
			for step := 0; len(got) < len(plain) && step < 4*len(plain); step++ {
				buf := make([]byte, reads[step%len(reads)])
				n, err := s.sc[rcv].Read(buf)
				if n < 0 || n > len(buf) {
					n = 0
				}
				got = append(got, buf[:n]...)
				if err != nil {
					rerr = err
					break
				}
			}
			if rerr == nil && len(got) >= len(plain) {
				// nothing may follow
				extra, _ = s.sc[rcv].Read(make([]byte, 4096))
			}
		})
		if p {
			c.report(map[string]string{"part": part, "kind": "panic", "site": core.PanicSite(st)}, k, "Read panicked: "+core.FirstLine(v))
			return
		}
		l := 0
		for l < len(got) && l < len(plain) && got[l] == plain[l] {
			l++
		}
		kind := ""
		switch {
		case bytes.Equal(got, plain) && extra == 0:
		case l == len(plain):
			kind = "bytes-duplicated"
		case l == len(got):
			kind = "bytes-lost"
		default:
			kind = "bytes-altered"
		}
		c.classes.Add(fmt.Sprintf("longstream/dir%d/%s", dir, orOK(kind)))
		if kind != "" {
			c.report(map[string]string{"part": part, "kind": kind}, k,
				fmt.Sprintf("nobody in the middle, direction %d->%d (A's key lo=%v): %d bytes written in %d frames, %d obtained with read buffers %v (cyclic), the streams agree on the first %d bytes (= %d whole frames of %d), final read error %v, %d bytes after the end",
					dir, rcv, k.ALo, len(plain), len(c.chunkSizes(mitmScripts[k.Script][dir])), len(got), reads, l, l/c.dataMax, c.dataMax, rerr, extra))
			return
		}
	}
}
