package main

// Part (b): channel packetisation, explicit-state search over real p2p.Channel
// objects (made by the real newChannel) on both ends of an in-memory "wire".

import (
	"bytes"
	"crypto/sha256"
	"fmt"
	"sort"
	"sync"
	"sync/atomic"
	"time"

	"verif/core"

	wire "github.com/dappledger/AnnChain/gemmill/go-wire"
	"github.com/dappledger/AnnChain/gemmill/p2p"
)

// msgSizes: lengths of the byte strings handed to the channel (= the encoded
// size of the message: MConnection.Send passes wire.BinaryBytes(msg)).  Around
// every multiple k of the packet payload (1024) up to the capacity: k*1024-1,
// k*1024, k*1024+1 (k = 1, 2, 3), the capacity itself and capacity+1.
var msgSizes = []int{0, 1, 1023, 1024, 1025, 2047, 2048, 2049, 3071, 3072, 3073, 4096, 4097}

const (
	chanSendQueueCap = 2
	chanRecvMsgCap   = 4096
)

// op = ch*nSizes + size index for the sends, then the five others
var (
	nSizes    = len(msgSizes)
	nSendOps  = 2 * nSizes
	opPump0   = nSendOps
	opPump1   = nSendOps + 1
	opPoll0   = nSendOps + 2
	opPoll1   = nSendOps + 3
	opDeliver = nSendOps + 4
	nChanOps  = nSendOps + 5
)

func opName(op int) string {
	switch {
	case op < nSendOps:
		return fmt.Sprintf("send(ch%d,%d)", op/nSizes, msgSizes[op%nSizes])
	case op == opPump0 || op == opPump1:
		return fmt.Sprintf("pump(ch%d)", op-opPump0)
	case op == opPoll0 || op == opPoll1:
		return fmt.Sprintf("poll(ch%d)", op-opPoll0)
	}
	return "deliver"
}

func opNames(ops []int) string {
	s := ""
	for i, o := range ops {
		if i > 0 {
			s += " "
		}
		s += opName(o)
	}
	return s
}

func sizeClass(n int) string {
	switch {
	case n == 0:
		return "zero"
	case n > chanRecvMsgCap:
		return "oversize"
	case n == chanRecvMsgCap:
		return "at-capacity"
	case n > p2p.VerifMaxMsgPacketPayloadSize:
		return "multi-packet"
	case n == p2p.VerifMaxMsgPacketPayloadSize:
		return "one-full-packet"
	}
	return "small"
}

// shapeClass: is the (encoded) size a whole number of packet payloads?
func shapeClass(n int) string {
	if n > 0 && n%p2p.VerifMaxMsgPacketPayloadSize == 0 {
		return "size-multiple-of-packet-payload"
	}
	return "size-not-multiple-of-packet-payload"
}

// shadow of the mechanism (only used to name states for deduplication)
type shCh struct {
	q       []int
	sending int // -1 none
	sent    int
	recv    int
}
type shPkt struct{ ch, n, eof int }

type refMsg struct {
	seq  int
	data []byte
}

type chanInst struct {
	snd, rcv [2]*p2p.Channel
	wire     *bytes.Buffer
	sh       [2]shCh
	shWire   []shPkt
	pending  [2][]refMsg // accepted and not yet delivered (reference model: per-channel FIFO)
	nextSeq  [2]int
	dead     bool // the receiver reported an error: the connection is over
	blocking bool // use sendBytes (blocking variant) for sends
	// zeroPolled[ch]: isSendPending was called again while a zero-length message
	// occupied the channel's transmission slot
	zeroPolled [2]bool
}

type chanViolation struct {
	kind, size, detail, site string
	chp1                     int // channel concerned + 1 (0 = unknown)
	bytes                    int // size of the message concerned (-1 = unknown)
}

func newChanInst() *chanInst {
	in := &chanInst{wire: wirePool.Get().(*bytes.Buffer)}
	in.wire.Reset()
	in.sh[0].sending, in.sh[1].sending = -1, -1
	return in
}

var chanPrio = []int{1, 5}

// mkChannel makes one end of channel i with the real constructor.
// RecvBufferCapacity is only the initial capacity of the reassembly buffer.
func mkChannel(i, recvBuf int) *p2p.Channel {
	return p2p.VerifNewChannel(nil, &p2p.ChannelDescriptor{ID: byte(0x20 + i), Priority: chanPrio[i], SendQueueCapacity: chanSendQueueCap, RecvBufferCapacity: recvBuf, RecvMessageCapacity: chanRecvMsgCap})
}

// sender / receiver: the channel objects are created on first use (an untouched
// channel is in its initial state either way).
func (in *chanInst) sender(i int) *p2p.Channel {
	if in.snd[i] == nil {
		in.snd[i] = mkChannel(i, 1)
	}
	return in.snd[i]
}

func (in *chanInst) receiver(i int) *p2p.Channel {
	if in.rcv[i] == nil {
		in.rcv[i] = mkChannel(i, 1152)
	}
	return in.rcv[i]
}

// message contents are a function of (channel, sequence number, size); they are
// generated once and shared (read-only: verifyMsgCache checks at the end that
// nothing wrote into them).
const maxSeq = 16

var (
	msgCache    [2][maxSeq][]([]byte)
	msgCacheSum [2][maxSeq][][32]byte
)

func init() {
	for ch := 0; ch < 2; ch++ {
		for seq := 0; seq < maxSeq; seq++ {
			for _, size := range msgSizes {
				m := pattern(size, uint64(1000+ch*100+seq))
				msgCache[ch][seq] = append(msgCache[ch][seq], m)
				msgCacheSum[ch][seq] = append(msgCacheSum[ch][seq], sha256.Sum256(m))
			}
		}
	}
}

var wirePool = sync.Pool{New: func() interface{} { return bytes.NewBuffer(make([]byte, 0, 16384)) }}

// release returns the wire buffer of a finished instance to the pool.
func (in *chanInst) release() {
	if in.wire != nil {
		wirePool.Put(in.wire)
		in.wire = nil
	}
}

func chanMsg(ch, seq, sizeIdx int) []byte {
	return msgCache[ch][seq][sizeIdx]
}

func verifyMsgCache() bool {
	for ch := 0; ch < 2; ch++ {
		for seq := 0; seq < maxSeq; seq++ {
			for i := range msgSizes {
				if sha256.Sum256(msgCache[ch][seq][i]) != msgCacheSum[ch][seq][i] {
					return false
				}
			}
		}
	}
	return true
}

func (in *chanInst) key() [16]byte {
	b := make([]byte, 0, 96)
	put := func(x int) { b = append(b, byte(x>>8), byte(x)) }
	for i := 0; i < 2; i++ {
		put(len(in.sh[i].q))
		for _, q := range in.sh[i].q {
			put(q)
		}
		put(in.sh[i].sending + 1)
		put(in.sh[i].sent)
		put(in.sh[i].recv)
	}
	put(len(in.shWire))
	for _, p := range in.shWire {
		b = append(b, byte(p.ch), byte(p.eof))
		put(p.n)
	}
	if in.dead {
		b = append(b, 1)
	}
	h := sha256.Sum256(b)
	var k [16]byte
	copy(k[:], h[:16])
	return k
}

func chIndex(id byte) int { return int(id) - 0x20 }

// apply executes one operation on the real objects, checks the oracle and
// returns an observation class.
func (in *chanInst) apply(op int) (obs string, viol *chanViolation) {
	switch {
	case op < nSendOps:
		ch, size := op/nSizes, msgSizes[op%nSizes]
		seq := in.nextSeq[ch]
		keep := chanMsg(ch, seq, op%nSizes)
		msg := keep
		var ok bool
		if in.blocking && len(in.sh[ch].q) < chanSendQueueCap {
			// the blocking variant (what MConnection.Send uses); it arms a 10 s timer
			// per call, so it is used for the operation under test only and never on
			// a full queue (where it would block for those 10 s)
			msg = append([]byte(nil), keep...)
			ok = in.sender(ch).VerifSendBytes(msg)
		} else {
			ok = in.sender(ch).VerifTrySendBytes(msg)
		}
		if ok {
			in.nextSeq[ch]++
			in.pending[ch] = append(in.pending[ch], refMsg{seq, keep})
			in.sh[ch].q = append(in.sh[ch].q, size)
		}
		return fmt.Sprintf("send/%s/accepted=%v", sizeClass(size), ok), nil
	case op == opPump0 || op == opPump1 || op == opPoll0 || op == opPoll1:
		ch := (op - opPump0) % 2
		pend := in.sender(ch).VerifIsSendPending()
		s := &in.sh[ch]
		if pend && s.sending < 0 && len(s.q) > 0 {
			s.sending, s.sent, s.q = s.q[0], 0, s.q[1:]
		}
		if op >= opPoll0 {
			if pend && s.sending == 0 {
				in.zeroPolled[ch] = true
			}
			return fmt.Sprintf("poll/pending=%v", pend), nil
		}
		if !pend {
			return "pump/idle", nil
		}
		before := in.wire.Len()
		n, err := in.sender(ch).VerifWriteMsgPacketTo(in.wire)
		if err != nil {
			return "", &chanViolation{kind: "write-error", size: "any", detail: fmt.Sprintf("writeMsgPacketTo into a buffer failed: %v", err)}
		}
		if n != in.wire.Len()-before {
			return "", &chanViolation{kind: "write-error", size: "any", detail: fmt.Sprintf("writeMsgPacketTo reported %d bytes, wrote %d", n, in.wire.Len()-before)}
		}
		// name the state by the packet the mechanism is documented to produce (the
		// real packet is decoded, and checked, by deliver)
		plen, eof := 0, 1
		if s.sending >= 0 {
			plen = s.sending - s.sent
			if plen > p2p.VerifMaxMsgPacketPayloadSize {
				plen, eof = p2p.VerifMaxMsgPacketPayloadSize, 0
			}
		}
		in.shWire = append(in.shWire, shPkt{ch, plen, eof})
		if eof == 1 {
			s.sending, s.sent = -1, 0
		} else {
			s.sent += plen
		}
		return fmt.Sprintf("pump/packet/eof=%d/full=%v", eof, plen == p2p.VerifMaxMsgPacketPayloadSize), nil
	default:
		if in.wire.Len() == 0 {
			return "deliver/empty", nil
		}
		pk, derr := decodePacket(in.wire)
		if derr != nil {
			return "", &chanViolation{kind: "codec", size: "any", detail: fmt.Sprintf("packet does not decode: %v", derr)}
		}
		if len(in.shWire) > 0 {
			in.shWire = in.shWire[1:]
		}
		ch := chIndex(pk.ChannelID)
		if ch < 0 || ch > 1 {
			return "", &chanViolation{kind: "codec", size: "any", detail: fmt.Sprintf("unknown channel id %x on the wire", pk.ChannelID)}
		}
		msgBytes, err := in.receiver(ch).VerifRecvMsgPacket(pk)
		if len(in.pending[ch]) == 0 {
			return "", &chanViolation{chp1: ch + 1, kind: "spurious-packet", size: "any", detail: "a packet arrived on a channel with no message outstanding"}
		}
		head := in.pending[ch][0]
		cls := sizeClass(len(head.data))
		oversize := len(head.data) > chanRecvMsgCap
		if err != nil {
			in.dead = true
			if !oversize {
				return "", &chanViolation{chp1: ch + 1, bytes: len(head.data), kind: "error-on-legit-message", size: cls, detail: fmt.Sprintf("recvMsgPacket returned %v while reassembling a %d-byte message (capacity %d)", err, len(head.data), chanRecvMsgCap)}
			}
			return "deliver/overflow-error", nil
		}
		if msgBytes == nil {
			in.sh[ch].recv += len(pk.Bytes)
			return "deliver/partial", nil
		}
		got := msgBytes // compared right here, "at the callback" (the slice aliases the channel's reassembly buffer)
		in.sh[ch].recv = 0
		in.pending[ch] = in.pending[ch][1:]
		if !bytes.Equal(got, head.data) {
			kind := "corrupted"
			switch {
			case len(got) < len(head.data) && bytes.HasPrefix(head.data, got):
				kind = "truncated"
			case len(in.pending[ch]) > 0 && bytes.Equal(got, in.pending[ch][0].data):
				kind = "order"
			}
			return "", &chanViolation{chp1: ch + 1, bytes: len(head.data), kind: kind, size: cls, detail: fmt.Sprintf("channel %d: delivered %d bytes, the oldest outstanding message (#%d) has %d bytes", ch, len(got), head.seq, len(head.data))}
		}
		if oversize {
			return "", &chanViolation{chp1: ch + 1, bytes: len(head.data), kind: "oversize-delivered", size: cls, detail: fmt.Sprintf("a %d-byte message was delivered through a channel with receive capacity %d", len(got), chanRecvMsgCap)}
		}
		return "deliver/complete/" + cls, nil
	}
}

func decodePacket(r interface {
	Read([]byte) (int, error)
}) (p2p.VerifMsgPacket, error) {
	var n int
	var err error
	typ := wire.ReadByte(r, &n, &err)
	if err != nil {
		return p2p.VerifMsgPacket{}, err
	}
	if typ != p2p.VerifPacketTypeMsg {
		return p2p.VerifMsgPacket{}, fmt.Errorf("packet type %x", typ)
	}
	pk := p2p.VerifMsgPacket{}
	wire.ReadBinaryPtr(&pk, r, p2p.VerifMaxMsgPacketTotalSize, &n, &err)
	return pk, err
}

// drain pumps and delivers everything: every accepted message must arrive
// (complete, in order) unless the connection ends with the overflow error of an
// oversize message.
func (in *chanInst) drain() *chanViolation {
	if in.dead {
		return nil
	}
	for ch := 0; ch < 2; ch++ {
		for guard := 0; guard < 64; guard++ {
			o, v := in.apply(opPump0 + ch)
			if v != nil {
				return v
			}
			if o == "pump/idle" {
				break
			}
		}
	}
	for guard := 0; guard < 256 && in.wire.Len() > 0 && !in.dead; guard++ {
		if _, v := in.apply(opDeliver); v != nil {
			return v
		}
	}
	if in.dead {
		return nil
	}
	for ch := 0; ch < 2; ch++ {
		if len(in.pending[ch]) > 0 {
			m := in.pending[ch][0]
			return &chanViolation{chp1: ch + 1, bytes: len(m.data), kind: "message-lost", size: sizeClass(len(m.data)), detail: fmt.Sprintf("channel %d: message #%d (%d bytes) was accepted for sending but never arrives although everything was pumped and delivered (%d outstanding)", ch, m.seq, len(m.data), len(in.pending[ch]))}
		}
	}
	return nil
}

// runChanOps replays a history on a fresh instance; checkFrom = index of the
// first op whose oracle result is reported; returns the instance.
func runChanOps(ops []int) (in *chanInst, obs string, viol *chanViolation, at int) {
	in = newChanInst()
	for i, op := range ops {
		// the blocking sendBytes arms a 10 s timer per call: it is used for the
		// operation under test of every history of length <= 4 (and by the
		// MConnection conformance runs); deeper levels use trySendBytes, which
		// performs the same queue operation
		in.blocking = i == len(ops)-1 && len(ops) <= 4
		if in.dead {
			return in, obs, nil, i
		}
		p, v, st := core.Try(func() { obs, viol = in.apply(op) })
		if p {
			return in, "", &chanViolation{kind: "panic", size: "any", site: core.PanicSite(st), detail: core.FirstLine(v)}, i
		}
		if viol != nil {
			return in, obs, viol, i
		}
	}
	return in, obs, nil, len(ops)
}

func (c *ctx) chanReport(in *chanInst, ops []int, v *chanViolation) {
	normalized := false
	if in != nil && v.chp1 > 0 && in.zeroPolled[v.chp1-1] && v.kind != "panic" {
		normalized = true
		// one defect, one class: once isSendPending has been called again on a
		// zero-length message in the transmission slot, that message is gone; what
		// is observed afterwards on this channel (nothing arrives / the next message
		// arrives in its place / its overflow error) is a consequence
		v = &chanViolation{chp1: v.chp1, kind: "message-lost", size: "zero", detail: "[" + v.kind + "] " + v.detail}
	}
	sig := map[string]string{"part": "channel", "kind": v.kind, "size": v.size}
	if v.size != "any" && !normalized {
		sig["shape"] = shapeClass(v.bytes)
	}
	if v.site != "" {
		sig["site"] = v.site
	}
	if normalized {
		sig["repeated_isSendPending"] = "yes"
	}
	c.report(sig, kase{Part: "chan", Ops: ops}, fmt.Sprintf("history: %s :: %s", opNames(ops), v.detail))
}

func (c *ctx) runChanCase(ops []int) {
	atomic.AddInt64(&c.evals, 1)
	in, _, v, _ := runChanOps(ops)
	if v == nil {
		p, pv, st := core.Try(func() { v = in.drain() })
		if p {
			v = &chanViolation{kind: "panic", size: "any", site: core.PanicSite(st), detail: core.FirstLine(pv)}
		}
	}
	if v != nil {
		c.chanReport(in, ops, v)
	}
}

type chanStats struct {
	states, transitions, merges int64
	perDepth                    []int
	maxDepth                    int
	violating                   int64
	// overlap: states that the exploration given as "also" had found too
	overlap int64
	seen    []*chanShard
}

const chanShards = 64

type chanShard struct {
	mu sync.Mutex
	m  map[[16]byte]struct{}
}

func (st *chanStats) has(k [16]byte) bool {
	if st == nil || st.seen == nil {
		return false
	}
	sh := st.seen[k[0]%chanShards]
	_, ok := sh.m[k] // only called when the exploration that owns st is over
	return ok
}

// exploreChan: breadth-first over operation histories with state
// deduplication.  A state is (per channel: queued sizes, message in
// transmission and bytes already packetised, bytes reassembled at the
// receiver; packets on the wire in order; connection dead).  Message contents
// are a function of (channel, sequence number, size) and do not influence
// control flow, so two histories reaching the same named state have the same
// futures up to renaming of contents.
func (c *ctx) exploreChan(name string, maxDepth int, alphabet []int, also *chanStats, deadline time.Time, growth float64, progress func(string)) *chanStats {
	stp := &chanStats{}
	c.cov.mu.Lock()
	c.cov.chans = append(c.cov.chans, stp)
	c.cov.mu.Unlock()
	return c.exploreChanInto(stp, name, maxDepth, alphabet, also, deadline, growth, progress)
}

// chanAlphabet: the operations with the given message sizes on both channels + the five others.
func chanAlphabet(sizes []int) []int {
	var ops []int
	for ch := 0; ch < 2; ch++ {
		for i, s := range msgSizes {
			for _, w := range sizes {
				if s == w {
					ops = append(ops, ch*nSizes+i)
				}
			}
		}
	}
	for op := nSendOps; op < nChanOps; op++ {
		ops = append(ops, op)
	}
	return ops
}

func (c *ctx) exploreChanInto(stp *chanStats, name string, maxDepth int, alphabet []int, also *chanStats, deadline time.Time, growth float64, progress func(string)) *chanStats {
	st := chanStats{}
	defer func() { *stp = st }()
	var lastLevel time.Duration
	const shards = chanShards
	seen := make([]*chanShard, shards)
	for i := range seen {
		seen[i] = &chanShard{m: map[[16]byte]struct{}{}}
	}
	st.seen = seen
	root := newChanInst()
	rk := root.key()
	seen[rk[0]%shards].m[rk] = struct{}{}
	st.states = 1
	if also.has(rk) {
		st.overlap = 1
	}
	frontier := [][]byte{{}}
	for depth := 1; depth <= maxDepth; depth++ {
		// a level takes about growth x the time of the previous one; a level that
		// nevertheless runs past the deadline is abandoned (and not counted)
		if !deadline.IsZero() && depth > 5 && time.Now().Add(time.Duration(float64(lastLevel)*growth)).After(deadline) {
			break
		}
		levelStart := time.Now()
		var aborted int32
		before := st
		type nxt struct {
			mu sync.Mutex
			m  map[[16]byte][]byte
		}
		next := make([]*nxt, shards)
		for i := range next {
			next[i] = &nxt{m: map[[16]byte][]byte{}}
		}
		core.Par(len(frontier), func(i int) {
			if !deadline.IsZero() && depth > 5 && (atomic.LoadInt32(&aborted) != 0 || time.Now().After(deadline.Add(30*time.Second))) {
				atomic.StoreInt32(&aborted, 1)
				return
			}
			h := frontier[i]
			ops := make([]int, len(h)+1)
			for j, b := range h {
				ops[j] = int(b)
			}
			local := map[string]int{}
			defer func() {
				for k, n := range local {
					c.classes.AddN(k, n)
				}
			}()
			// cur is an instance known to be in the parent state (history h, possibly
			// followed by operations that changed nothing - trail lists what was
			// really applied to it); an operation that changes nothing leaves it usable
			var cur *chanInst
			var trail []int
			var parentKey [16]byte
			fl := c.begin(kase{Part: "chan", Ops: ops[:len(h)]}, map[string]string{"part": "channel"})
			defer c.end(fl)
			for _, op := range alphabet {
				if cur == nil {
					var v0 *chanViolation
					cur, _, v0, _ = runChanOps(ops[:len(h)])
					if v0 != nil || cur.dead {
						core.Fatal("history %v no longer replays cleanly", ops[:len(h)])
					}
					trail = append(trail[:0], ops[:len(h)]...)
					parentKey = cur.key()
				}
				in := cur
				ops[len(h)] = op
				trail = append(trail, op)
				fl.at(kase{Part: "chan", Ops: trail})
				in.blocking = len(ops) <= 4
				var obs string
				var v *chanViolation
				if p, pv, stk := core.Try(func() { obs, v = in.apply(op) }); p {
					v = &chanViolation{kind: "panic", size: "any", site: core.PanicSite(stk), detail: core.FirstLine(pv)}
				}
				atomic.AddInt64(&st.transitions, 1)
				atomic.AddInt64(&c.evals, 1)
				if v == nil {
					k := in.key()
					local["chan/"+obs]++
					if k == parentKey {
						continue // nothing changed: keep using the instance
					}
					cur = nil
					dead := in.dead
					sh := seen[k[0]%shards]
					sh.mu.Lock()
					_, old := sh.m[k]
					sh.mu.Unlock()
					nx := next[k[0]%shards]
					nh := make([]byte, len(ops))
					for j, o := range ops {
						nh[j] = byte(o)
					}
					if !old {
						nx.mu.Lock()
						if curh, ok := nx.m[k]; ok {
							old = true
							if bytes.Compare(nh, curh) < 0 {
								nx.m[k] = nh
							}
						}
						nx.mu.Unlock()
					}
					if old {
						// the state was reached before (and drained then)
						in.release()
						continue
					}
					p, pv, stk := core.Try(func() { v = in.drain() })
					if p {
						v = &chanViolation{kind: "panic", size: "any", site: core.PanicSite(stk), detail: core.FirstLine(pv)}
					}
					if v == nil {
						in.release()
						if dead {
							// terminal: count as a state, do not expand
							sh.mu.Lock()
							if _, dup := sh.m[k]; !dup {
								sh.m[k] = struct{}{}
								atomic.AddInt64(&st.states, 1)
								if also.has(k) {
									atomic.AddInt64(&st.overlap, 1)
								}
							}
							sh.mu.Unlock()
							continue
						}
						nx.mu.Lock()
						if curh, ok := nx.m[k]; !ok || bytes.Compare(nh, curh) < 0 {
							nx.m[k] = nh
						}
						nx.mu.Unlock()
						continue
					}
				}
				cur = nil
				atomic.AddInt64(&st.violating, 1)
				c.chanReport(in, append([]int(nil), trail...), v)
				in.release()
			}
			if cur != nil {
				cur.release()
			}
		})
		if aborted != 0 {
			// incomplete level: keep the violations it found, not its counts
			before.violating = st.violating
			st = before
			break
		}
		frontier = frontier[:0]
		for i := range next {
			for k, h := range next[i].m {
				seen[i].m[k] = struct{}{}
				frontier = append(frontier, h)
				if also.has(k) {
					st.overlap++
				}
			}
		}
		sort.Slice(frontier, func(a, b int) bool { return bytes.Compare(frontier[a], frontier[b]) < 0 })
		st.states += int64(len(frontier))
		st.merges = st.transitions - st.violating - (st.states - 1)
		st.perDepth = append(st.perDepth, len(frontier))
		st.maxDepth = depth
		lastLevel = time.Since(levelStart)
		*stp = st
		progress(fmt.Sprintf("channel[%s] depth %d: %d new states, %d transitions so far", name, depth, len(frontier), st.transitions))
		if len(frontier) > 0 && depth%3 == 0 {
			h := frontier[len(frontier)/2]
			ops := make([]int, len(h))
			for j, b := range h {
				ops[j] = int(b)
			}
			c.samples.Add(kase{Part: "chan", Ops: ops})
		}
	}
	return stp
}
