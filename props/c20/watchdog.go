package main

// Every wait of this driver has its own generous deadline (handshakeDeadline,
// the idle deadline of the MConnection scenarios, the handshake timeout of the
// switch).  The stall watchdog is the net under all of them: every case that is
// being executed is registered as a "flight" and gives a sign of life whenever
// it makes a step; a flight without a sign of life for stallLimit is executing
// code under test that does not return (nothing in the harness blocks without a
// deadline).  The case is then run again, twice, on fresh goroutines; if it
// stalls 3 times out of 3 it is reported as a violation ("never-terminates")
// and the run is concluded at once with what has been measured so far
// (exhaustive=false) - the stuck goroutine cannot be recovered, so the
// enumeration cannot be continued.  A stall that does not reproduce is an
// internal error (exit 2), never a verdict.  No verdict of a case that returns
// depends on the clock.

import (
	"fmt"
	"os"
	"runtime"
	"sync"
	"sync/atomic"
	"time"

	"verif/core"
)

const (
	stallLimit = 90 * time.Second
	stallScan  = 2 * time.Second
)

type flight struct {
	id   int64
	last int64 // unix nano of the last sign of life
	mu   sync.Mutex
	k    kase
	sig  map[string]string
}

type flights struct {
	mu     sync.Mutex
	m      map[int64]*flight
	nextID int64
	off    int32 // set while the watchdog itself re-runs a case / when the run is over
}

func (c *ctx) begin(k kase, sig map[string]string) *flight {
	f := &flight{k: k, sig: sig, last: time.Now().UnixNano()}
	c.fl.mu.Lock()
	if c.fl.m == nil {
		c.fl.m = map[int64]*flight{}
	}
	c.fl.nextID++
	f.id = c.fl.nextID
	c.fl.m[f.id] = f
	c.fl.mu.Unlock()
	return f
}

func (c *ctx) end(f *flight) {
	c.fl.mu.Lock()
	delete(c.fl.m, f.id)
	c.fl.mu.Unlock()
}

// tick: a sign of life.
func (f *flight) tick() { atomic.StoreInt64(&f.last, time.Now().UnixNano()) }

// at: a sign of life + the case that is being executed now (for flights that
// cover many cases: a stream task, the expansion of one channel state).
func (f *flight) at(k kase) {
	f.mu.Lock()
	f.k = k
	f.mu.Unlock()
	f.tick()
}

func (f *flight) snapshot() (kase, map[string]string) {
	f.mu.Lock()
	defer f.mu.Unlock()
	k := f.k
	k.Ops = append([]int(nil), k.Ops...)
	sig := map[string]string{}
	for a, b := range f.sig {
		sig[a] = b
	}
	return k, sig
}

// startWatchdog starts the scanner; it never returns a verdict for a case that returns.
func (c *ctx) startWatchdog() {
	go func() {
		for {
			time.Sleep(stallScan)
			if atomic.LoadInt32(&c.fl.off) != 0 {
				continue
			}
			now := time.Now().UnixNano()
			var stalled *flight
			c.fl.mu.Lock()
			for _, f := range c.fl.m {
				if time.Duration(now-atomic.LoadInt64(&f.last)) > stallLimit {
					if stalled == nil || f.id < stalled.id {
						stalled = f
					}
				}
			}
			c.fl.mu.Unlock()
			if stalled != nil {
				c.onStall(stalled)
			}
		}
	}()
}

func (c *ctx) onStall(f *flight) {
	atomic.StoreInt32(&c.fl.off, 1)
	k, sig := f.snapshot()
	buf := make([]byte, 1<<20)
	buf = buf[:runtime.Stack(buf, true)]
	fmt.Fprintf(os.Stderr, "C20: case %+v gave no sign of life for %v; goroutines:\n%s\n", k, stallLimit, buf)
	// twice more, on fresh goroutines, with a context of its own (its counters are
	// thrown away; its flights are watched in the same way)
	for attempt := 2; attempt <= 3; attempt++ {
		c2 := &ctx{run: c.run, classes: newCounter(), samples: core.NewSampler(1, 0), dataMax: c.dataMax, fl: &flights{}}
		started := time.Now().UnixNano()
		done := make(chan struct{})
		go func() {
			defer close(done)
			core.Try(func() { c2.runCase(k) })
		}()
		for stalledAgain := false; !stalledAgain; {
			select {
			case <-done:
				core.Fatal("case %+v stalled for %v once and returned when it was run again (attempt %d): the enumeration cannot be continued and this is not a verdict", k, stallLimit, attempt)
			case <-time.After(stallScan):
			}
			last := started
			c2.fl.mu.Lock()
			for _, g := range c2.fl.m {
				if l := atomic.LoadInt64(&g.last); l > last {
					last = l
				}
			}
			c2.fl.mu.Unlock()
			stalledAgain = time.Duration(time.Now().UnixNano()-last) > stallLimit
		}
	}
	sig["kind"] = "never-terminates"
	c.report(sig, k, fmt.Sprintf("the case does not return: no sign of life for %v, 3 times out of 3 (the code under test blocks for ever; nothing in the harness waits without a deadline); the run was concluded here", stallLimit))
	c.finish(fmt.Sprintf("run concluded early: a case never terminated (%v)", sig))
}
