package main

import (
	"bytes"
	"errors"
	"io"
	"sync"
)

// duplex is an in-memory two-way byte pipe between parties 0 ("A") and 1 ("B").
// Writes never block (unbounded buffering).  Every Write call of a party is
// recorded as one "unit" (SecretConnection issues exactly one Write per frame:
// unit 0 = ephemeral key, 1 = sealed auth length, 2 = sealed auth body, 3.. =
// sealed data frames).  While live (handshake phase, real goroutines) a Read
// on an empty direction blocks until data arrives or the writing party is done;
// afterwards (single-threaded phase) it returns io.EOF at once, so the
// deterministic part of a case can never hang.
type duplex struct {
	mu   sync.Mutex
	cond *sync.Cond
	live bool
	mute bool          // stop recording units / delivered bytes (long-lived stream connections)
	dir  [2]*direction // dir[i] carries what party i writes
}

type direction struct {
	buf        []byte   // muted mode only: delivered, not yet read
	base       []byte   // backing array of buf when it was last empty
	units      [][]byte // genuine units in write order
	delivered  []byte   // everything handed to the reader so far (after tampering)
	rd         int      // how much of delivered has been read
	writerDone bool     // the writing party will not write any more in this phase
	cut        bool     // man in the middle closed this direction: later units are discarded
	mitm       *mitm
}

type endpoint struct {
	d      *duplex
	me     int
	closed bool
}

// newDuplex: hint[i] = expected number of bytes party i writes (capacity only).
func newDuplex(hint [2]int) (*duplex, *endpoint, *endpoint) {
	d := &duplex{live: true}
	d.cond = sync.NewCond(&d.mu)
	d.dir[0], d.dir[1] = &direction{}, &direction{}
	for i, h := range hint {
		if h > 0 {
			if b, ok := bigPool.Get().([]byte); ok && cap(b) >= h {
				d.dir[i].delivered = b[:0]
			} else {
				if h < bigBuf {
					h = bigBuf
				}
				d.dir[i].delivered = make([]byte, 0, h)
			}
		}
	}
	return d, &endpoint{d: d, me: 0}, &endpoint{d: d, me: 1}
}

// bigPool recycles the delivered-bytes buffers of sessions with long scripts
// (a fresh 0.5 MB buffer per case costs more than the cryptography).
var bigPool sync.Pool

const bigBuf = (longFrames + 16) * 1042

func (d *duplex) recycle() {
	d.mu.Lock()
	defer d.mu.Unlock()
	for _, dr := range d.dir {
		if cap(dr.delivered) >= bigBuf {
			bigPool.Put(dr.delivered[:0])
		}
		dr.delivered, dr.rd = nil, 0
	}
}

func (e *endpoint) Read(p []byte) (int, error) {
	d := e.d
	d.mu.Lock()
	defer d.mu.Unlock()
	in := d.dir[1-e.me]
	if len(p) == 0 {
		return 0, nil
	}
	for len(in.buf) == 0 && in.rd == len(in.delivered) {
		if e.closed {
			return 0, io.ErrClosedPipe
		}
		if !d.live || in.writerDone || in.cut {
			return 0, io.EOF
		}
		d.cond.Wait()
	}
	if in.rd < len(in.delivered) {
		n := copy(p, in.delivered[in.rd:])
		in.rd += n
		return n, nil
	}
	n := copy(p, in.buf)
	in.buf = in.buf[n:]
	if len(in.buf) == 0 && in.base != nil {
		in.buf = in.base[:0] // reuse the backing array
	}
	return n, nil
}

func (e *endpoint) Write(p []byte) (int, error) {
	d := e.d
	d.mu.Lock()
	defer d.mu.Unlock()
	if e.closed {
		return 0, io.ErrClosedPipe
	}
	out := d.dir[e.me]
	if d.mute && out.mitm == nil {
		out.buf = append(out.buf, p...)
		if len(out.buf) == len(p) {
			out.base = out.buf
		}
		return len(p), nil
	}
	idx := len(out.units)
	unit := append([]byte(nil), p...)
	out.units = append(out.units, unit)
	if out.mitm != nil {
		out.mitm.process(d, out, d.dir[1-e.me], idx, unit)
	} else {
		out.deliver(unit)
	}
	d.cond.Broadcast()
	return len(p), nil
}

func (e *endpoint) Close() error {
	d := e.d
	d.mu.Lock()
	defer d.mu.Unlock()
	e.closed = true
	d.dir[e.me].writerDone = true
	d.cond.Broadcast()
	return nil
}

func (dr *direction) deliver(b []byte) {
	if dr.cut {
		return
	}
	dr.delivered = append(dr.delivered, b...)
}

// partyDone marks that party i will write nothing more in the live phase.
func (d *duplex) partyDone(i int) {
	d.mu.Lock()
	d.dir[i].writerDone = true
	if m := d.dir[i].mitm; m != nil {
		m.flush(d.dir[i])
	}
	d.cond.Broadcast()
	d.mu.Unlock()
}

// freeze ends the live phase.
func (d *duplex) freeze() {
	d.mu.Lock()
	d.live = false
	d.cond.Broadcast()
	d.mu.Unlock()
}

func (d *duplex) pending(i int) int {
	d.mu.Lock()
	defer d.mu.Unlock()
	return len(d.dir[i].buf) + len(d.dir[i].delivered) - d.dir[i].rd
}

// genuine returns the concatenation of the genuine units of direction i and the unit boundaries.
func (d *duplex) genuine(i int) ([]byte, []int) {
	d.mu.Lock()
	defer d.mu.Unlock()
	var all []byte
	var ends []int
	for _, u := range d.dir[i].units {
		all = append(all, u...)
		ends = append(ends, len(all))
	}
	return all, ends
}

// divergence compares what was delivered in direction i with the genuine units:
// number of genuine units, index of the first unit that did not arrive unaltered
// at its place (= number of units if only extra bytes follow the last one), and
// whether anything differs at all.
func (d *duplex) divergence(i int) (nUnits, firstBad int, tampered bool) {
	d.mu.Lock()
	defer d.mu.Unlock()
	dr := d.dir[i]
	del := dr.delivered
	off := 0
	for idx, u := range dr.units {
		if off+len(u) > len(del) || !bytes.Equal(del[off:off+len(u)], u) {
			return len(dr.units), idx, true
		}
		off += len(u)
	}
	return len(dr.units), len(dr.units), off != len(del)
}

func (d *duplex) deliveredBytes(i int) []byte {
	d.mu.Lock()
	defer d.mu.Unlock()
	return append([]byte(nil), d.dir[i].delivered...)
}

func (d *duplex) unit(i, k int) []byte {
	d.mu.Lock()
	defer d.mu.Unlock()
	if k < 0 || k >= len(d.dir[i].units) {
		return nil
	}
	return d.dir[i].units[k]
}

// ---------------------------------------------------------------- man in the middle

// mitm tampers with the units of one direction.  It knows no secrets: it sees
// and forwards ciphertext units only.
type mitm struct {
	Kind   string // flip | swap | replay | drop | trunc | cut | subst | reflect | splice | insert | far-*
	Frame  int    // target unit
	Arg    int    // flip: byte offset; trunc/cut: bytes kept; reflect: unit index of the opposite direction; far-*: distance d
	Bit    int    // flip: bit number
	Other  []byte // splice/subst/insert: the foreign unit
	held   []byte
	hasHld bool
	// far-* kinds: units Frame..Frame+Arg held back until the last of them exists
	heldFar [][]byte
	// applied reports that the tampering really took place (e.g. the reflected unit existed)
	applied bool
}

var errNoUnit = errors.New("unit not available")

func (m *mitm) process(d *duplex, out, opp *direction, idx int, unit []byte) {
	if farKinds[m.Kind] {
		m.processFar(out, idx, unit)
		return
	}
	if idx != m.Frame {
		if m.Kind == "swap" && idx == m.Frame+1 && m.hasHld {
			out.deliver(unit)
			out.deliver(m.held)
			m.hasHld = false
			m.applied = true
			return
		}
		out.deliver(unit)
		return
	}
	switch m.Kind {
	case "flip":
		q := append([]byte(nil), unit...)
		if m.Arg >= 0 && m.Arg < len(q) {
			q[m.Arg] ^= 1 << uint(m.Bit)
			m.applied = true
		}
		out.deliver(q)
	case "swap":
		m.held, m.hasHld = unit, true
	case "replay":
		out.deliver(unit)
		out.deliver(unit)
		m.applied = true
	case "drop":
		m.applied = true
	case "trunc":
		k := m.Arg
		if k > len(unit) {
			k = len(unit)
		}
		out.deliver(unit[:k])
		m.applied = k < len(unit)
	case "cut":
		k := m.Arg
		if k > len(unit) {
			k = len(unit)
		}
		out.deliver(unit[:k])
		out.cut = true
		m.applied = true
	case "subst", "splice":
		out.deliver(m.Other)
		m.applied = !bytes.Equal(m.Other, unit)
	case "insert":
		out.deliver(m.Other)
		out.deliver(unit)
		m.applied = true
	case "reflect":
		// wait until the opposite party has produced the wanted unit (it does so
		// without needing anything beyond what has already been delivered to it)
		for len(opp.units) <= m.Arg && !opp.writerDone && d.live {
			d.cond.Wait()
		}
		if m.Arg >= 0 && m.Arg < len(opp.units) {
			out.deliver(opp.units[m.Arg])
			m.applied = true
		} else {
			out.deliver(unit)
		}
	default:
		out.deliver(unit)
	}
}

// The far-* kinds act on the anchor unit a = Frame and the unit a+d, d = Arg >= 1
// (a man in the middle may delay what it has seen for as long as it likes):
//
//	far-replay     unit a is delivered a second time just before unit a+d
//	far-overwrite  unit a is delivered a second time in the place of unit a+d
//	far-swap       units a and a+d change places
//	far-advance    unit a+d is delivered before unit a (a .. a+d-1 follow)
//	far-delay      unit a is delivered after unit a+d
var farKinds = map[string]bool{"far-replay": true, "far-overwrite": true, "far-swap": true, "far-advance": true, "far-delay": true}

var farKindList = []string{"far-replay", "far-overwrite", "far-swap", "far-advance", "far-delay"}

func (m *mitm) processFar(out *direction, idx int, unit []byte) {
	a, b := m.Frame, m.Frame+m.Arg
	if m.Arg < 1 || idx < a || idx > b {
		out.deliver(unit)
		return
	}
	switch m.Kind {
	case "far-replay", "far-overwrite":
		// nothing needs to be held back: remember the anchor
		if idx == a {
			m.held, m.hasHld = unit, true
			out.deliver(unit)
			return
		}
		if idx < b {
			out.deliver(unit)
			return
		}
		out.deliver(m.held)
		if m.Kind == "far-replay" {
			out.deliver(unit)
		}
		m.hasHld = false
		m.applied = true
		return
	}
	m.heldFar = append(m.heldFar, unit)
	if idx < b {
		return
	}
	h := m.heldFar
	m.heldFar = nil
	n := len(h) // == d+1: h[0] = unit a, h[n-1] = unit a+d
	switch m.Kind {
	case "far-swap":
		out.deliver(h[n-1])
		for _, u := range h[1 : n-1] {
			out.deliver(u)
		}
		out.deliver(h[0])
	case "far-advance":
		out.deliver(h[n-1])
		for _, u := range h[:n-1] {
			out.deliver(u)
		}
	case "far-delay":
		for _, u := range h[1:] {
			out.deliver(u)
		}
		out.deliver(h[0])
	}
	m.applied = true
}

// flush releases a unit still held when the writer finishes (swap with no successor).
func (m *mitm) flush(out *direction) {
	if farKinds[m.Kind] {
		// the script ended before unit a+d existed: everything goes out untouched
		for _, u := range m.heldFar {
			out.deliver(u)
		}
		m.heldFar = nil
		m.hasHld = false
		return
	}
	if m.hasHld {
		out.deliver(m.held)
		m.hasHld = false
	}
}
