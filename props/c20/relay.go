package main

// Part (a''): an ACTIVE attacker during the handshake.  M sits between two
// honest parties A and B (two real MakeSecretConnection calls, each believing
// it talks to its peer) and runs its own key exchange with each of them, with
// ephemeral keys of ITS choosing (the position of M's key relative to the two
// honest ephemeral keys is enumerated: lowest / middle / highest with one key
// for both sessions, lower|higher than the honest key of each session with two
// keys).  M holds both session keys, so it can decrypt the authentication
// message (identity key + signature of the challenge) that the victim sends in
// the M-victim session and deliver it, re-encrypted, as its own authentication
// message in the M-target session.  M never holds the victim's private key.
//
// Oracle, from the property ("the authenticated peer identity is the key that
// signed the handshake challenge"): the victim signed the challenge of ANOTHER
// session; if the target's handshake returns a connection whose RemotePubKey()
// is the victim's key, the target has authenticated a party (M, who reads the
// plaintext) as a key that did not sign this session's challenge.
//
// M speaks the protocol with the node's own building blocks (re-exported with
// build tag verif: ephemeral key generation, shared secret, nonces, frame
// encryption), so that it follows the implementation whatever it does.

import (
	"bytes"
	"encoding/binary"
	"fmt"
	"net"
	"sync/atomic"
	"time"

	"verif/core"

	crypto "github.com/dappledger/AnnChain/gemmill/go-crypto"
	"github.com/dappledger/AnnChain/gemmill/p2p"
)

type relayCase struct {
	ALo    bool   `json:"a_is_lo"` // order of the two honest ephemeral keys
	Eph    string `json:"eph"`     // one-key | two-keys
	Pos    string `json:"pos"`     // one-key: lowest | middle | highest ; two-keys: <lo|hi towards A>-<lo|hi towards B>
	Victim int    `json:"victim"`  // whose authentication message is relayed: 0 = A's (to B), 1 = B's (to A)
}

func relayCases() []kase {
	var out []kase
	for _, alo := range []bool{true, false} {
		for victim := 0; victim < 2; victim++ {
			for _, pos := range []string{"lowest", "middle", "highest"} {
				out = append(out, kase{Part: "relay", Relay: &relayCase{ALo: alo, Eph: "one-key", Pos: pos, Victim: victim}})
			}
			for _, pos := range []string{"lo-lo", "lo-hi", "hi-lo", "hi-hi"} {
				out = append(out, kase{Part: "relay", Relay: &relayCase{ALo: alo, Eph: "two-keys", Pos: pos, Victim: victim}})
			}
		}
	}
	return out
}

type ephKey struct{ pub, priv *[32]byte }

const relayKeyTries = 20000

// pickEph draws ephemeral keys (the node's own generator) until one satisfies ok.
func pickEph(ok func(pub []byte) bool) *ephKey {
	for i := 0; i < relayKeyTries; i++ {
		pub, priv := p2p.VerifGenEphKeys()
		if ok(pub[:]) {
			return &ephKey{pub, priv}
		}
	}
	return nil
}

type relayOutcome struct {
	retry    bool   // the honest keys came out in the other order / no suitable key found: try again
	mounted  bool   // M decrypted the victim's authentication message and delivered it to the target
	why      string // if not mounted
	accepted bool   // the target's handshake returned a connection
	asVictim bool   // ... whose RemotePubKey() is the victim's key
	remote   string
	terr     error
	readable bool // M decrypted what the target then wrote
	pan      string
	site     string
}

func relayOnce(k relayCase) (o relayOutcome) {
	keys := [2]crypto.PrivKey{keyA, keyB}
	var honest, mside [2]net.Conn
	for i := 0; i < 2; i++ {
		honest[i], mside[i] = net.Pipe()
		honest[i].SetDeadline(time.Now().Add(handshakeDeadline))
		mside[i].SetDeadline(time.Now().Add(handshakeDeadline))
	}
	type hres struct {
		sc   *p2p.SecretConnection
		err  error
		pan  string
		site string
	}
	var done [2]chan hres
	for i := 0; i < 2; i++ {
		done[i] = make(chan hres, 1)
		go func(i int) {
			var r hres
			p, v, st := core.Try(func() { r.sc, r.err = p2p.MakeSecretConnection(honest[i], keys[i]) })
			if p {
				r.pan, r.site, r.sc = core.FirstLine(v), core.PanicSite(st), nil
			}
			done[i] <- r
		}(i)
	}
	closeAll := func() {
		for i := 0; i < 2; i++ {
			honest[i].Close()
			mside[i].Close()
		}
	}
	abandon := func() {
		closeAll()
		for i := 0; i < 2; i++ {
			select {
			case <-done[i]:
			case <-time.After(handshakeDeadline + 10*time.Second):
			}
		}
	}

	// 1. both honest parties send their ephemeral keys unconditionally
	var eph [2][32]byte
	for i := 0; i < 2; i++ {
		if _, err := readFull(mside[i], eph[i][:]); err != nil {
			abandon()
			o.why = fmt.Sprintf("no ephemeral key from party %d: %v", i, err)
			return
		}
	}
	if (bytes.Compare(eph[0][:], eph[1][:]) < 0) != k.ALo {
		abandon()
		o.retry = true
		return
	}
	lo, hi := eph[0][:], eph[1][:]
	if !k.ALo {
		lo, hi = hi, lo
	}
	// 2. M's ephemeral key(s)
	var mk [2]*ephKey
	below := func(x []byte) func([]byte) bool { return func(p []byte) bool { return bytes.Compare(p, x) < 0 } }
	above := func(x []byte) func([]byte) bool { return func(p []byte) bool { return bytes.Compare(p, x) > 0 } }
	if k.Eph == "one-key" {
		var e *ephKey
		switch k.Pos {
		case "lowest":
			e = pickEph(below(lo))
		case "highest":
			e = pickEph(above(hi))
		case "middle":
			e = pickEph(func(p []byte) bool { return bytes.Compare(p, lo) > 0 && bytes.Compare(p, hi) < 0 })
		default:
			core.Fatal("unknown position %q", k.Pos)
		}
		mk[0], mk[1] = e, e
	} else {
		for i := 0; i < 2; i++ {
			if k.Pos[3*i:3*i+2] == "lo" {
				mk[i] = pickEph(below(eph[i][:]))
			} else {
				mk[i] = pickEph(above(eph[i][:]))
			}
		}
	}
	if mk[0] == nil || mk[1] == nil {
		abandon()
		o.retry = true // (honest keys too close to each other / to the end of the range: new ones)
		return
	}
	// 3. M's ends of the two encrypted sessions
	var ms [2]*p2p.SecretConnection
	for i := 0; i < 2; i++ {
		if _, err := mside[i].Write(mk[i].pub[:]); err != nil {
			abandon()
			o.why = fmt.Sprintf("party %d does not take M's ephemeral key: %v", i, err)
			return
		}
		rem := eph[i]
		mIsLo := bytes.Compare(mk[i].pub[:], rem[:]) < 0
		l, h := mk[i].pub, &rem
		if !mIsLo {
			l, h = &rem, mk[i].pub
		}
		recvNonce, sendNonce := p2p.VerifGenNonces(l, h, mIsLo)
		ms[i] = p2p.VerifSecretConnectionOf(mside[i], recvNonce, sendNonce, p2p.VerifComputeSharedSecret(&rem, mk[i].priv))
	}
	victim, target := k.Victim, 1-k.Victim
	// the target sends its own authentication message at the same time: M takes it (and ignores it)
	targetAuthRead := make(chan bool, 1)
	go func() {
		_, _, err := readAuth(ms[target])
		targetAuthRead <- err == nil
	}()
	// 4. the victim's authentication message, sent in the M-victim session
	lengthBs, body, err := readAuth(ms[victim])
	if err != nil {
		abandon()
		o.why = "M cannot read the victim's authentication message: " + err.Error()
		return
	}
	// 5. ... delivered to the target as M's own
	if _, err = ms[target].Write(lengthBs); err == nil {
		_, err = ms[target].Write(body)
	}
	if err != nil {
		abandon()
		o.why = "M cannot deliver to the target: " + err.Error()
		return
	}
	o.mounted = true
	var tr hres
	select {
	case tr = <-done[target]:
		done[target] <- tr // (for abandon)
	case <-time.After(handshakeDeadline + 10*time.Second):
		// a target that never answers has not accepted anything
		abandon()
		o.terr = errHung
		return
	}
	o.terr, o.pan, o.site = tr.err, tr.pan, tr.site
	if tr.pan == "" && tr.err == nil && tr.sc != nil {
		o.accepted = true
		if rk := tr.sc.RemotePubKey(); rk != nil {
			o.remote = fmt.Sprintf("%v", rk)
			o.asVictim = rk.Equals(keys[victim].PubKey())
		}
		// what the target now writes "to its peer" is read by M
		if ok := <-targetAuthRead; ok {
			probe := pattern(64, 77)
			go func() { core.Try(func() { tr.sc.Write(probe) }) }()
			got := make([]byte, len(probe))
			if n, err := ms[target].Read(got); err == nil && bytes.Equal(got[:n], probe) {
				o.readable = true
			}
		}
	}
	abandon()
	return
}

func readFull(c net.Conn, b []byte) (int, error) {
	n := 0
	for n < len(b) {
		m, err := c.Read(b[n:])
		n += m
		if err != nil {
			return n, err
		}
	}
	return n, nil
}

// readAuth reads the two messages of the authentication round (4-byte length,
// body) from M's end of a session.
func readAuth(sc *p2p.SecretConnection) (lengthBs, body []byte, err error) {
	p, v, _ := core.Try(func() {
		lengthBs = make([]byte, 4)
		var n int
		if n, err = sc.Read(lengthBs); err != nil {
			return
		}
		if n != 4 {
			err = fmt.Errorf("length message of %d bytes", n)
			return
		}
		l := int(binary.LittleEndian.Uint32(lengthBs))
		if l <= 0 || l > p2p.VerifDataMaxSize {
			err = fmt.Errorf("length %d", l)
			return
		}
		body = make([]byte, l)
		if n, err = sc.Read(body); err == nil && n != l {
			err = fmt.Errorf("body of %d bytes, announced %d", n, l)
		}
	})
	if p {
		err = fmt.Errorf("panic: %s", core.FirstLine(v))
	}
	return
}

func (c *ctx) runRelay(k kase) {
	atomic.AddInt64(&c.evals, 1)
	r := *k.Relay
	sig := func(kind string) map[string]string {
		return map[string]string{"part": "secretconn-auth", "kind": kind, "attacker": "handshake-relay", "attacker_eph": r.Eph + "/" + r.Pos}
	}
	fl := c.begin(k, sig(""))
	defer c.end(fl)
	var o relayOutcome
	for try := 0; ; try++ {
		fl.tick()
		o = relayOnce(r)
		if !o.retry {
			break
		}
		if try > 400 {
			core.Fatal("relay: cannot obtain honest ephemeral keys in the wanted order / a key of M in position %s", r.Pos)
		}
	}
	if o.pan != "" {
		m := sig("panic")
		m["site"] = o.site
		c.report(m, k, "the target's handshake panicked: "+o.pan)
		return
	}
	if !o.mounted {
		c.classes.Add(fmt.Sprintf("relay/%s/%s/not-mounted", r.Eph, r.Pos))
		if atomic.AddInt64(&c.relayNotMounted, 1) == 1 {
			c.cov.mu.Lock()
			c.cov.relayWhy = o.why
			c.cov.mu.Unlock()
		}
		return
	}
	atomic.AddInt64(&c.relayMounted, 1)
	c.classes.Add(fmt.Sprintf("relay/%s/%s/accepted=%v", r.Eph, r.Pos, o.accepted))
	if !o.accepted {
		return
	}
	names := []string{"A", "B"}
	if o.asVictim {
		c.report(sig("signature-of-another-session-accepted"), k,
			fmt.Sprintf("%s's handshake returned a connection with RemotePubKey()=%s = %s's key, but the other end is M, who does not hold that key: %s signed the challenge of the M-%s session only, M decrypted that authentication message and delivered it in the M-%s session (M's ephemeral key(s): %s/%s; M reads what %s then writes: %v)",
				names[1-r.Victim], o.remote, names[r.Victim], names[r.Victim], names[r.Victim], names[1-r.Victim], r.Eph, r.Pos, names[1-r.Victim], o.readable))
		return
	}
	c.report(sig("wrong-remote-pubkey"), k, fmt.Sprintf("the target accepted the relayed authentication message and reports RemotePubKey()=%s", o.remote))
}
