// Execution of one transaction on ONE of the two EVMs.  This file drives the
// in-tree copy (github.com/dappledger/AnnChain/eth/...).  side_ref.go is
// generated from it by gen.sh (import paths and the _IT suffix replaced) and
// drives upstream go-ethereum v1.8.27, so both harness sides are the same text.
// Everything that has to differ between the sides lives in cfg_intree.go /
// cfg_ref.go.
package main

import (
	"math/big"
	"sort"
	"strings"
	"time"

	"github.com/dappledger/AnnChain/eth/common"
	"github.com/dappledger/AnnChain/eth/core/state"
	"github.com/dappledger/AnnChain/eth/core/vm"
	"github.com/dappledger/AnnChain/eth/crypto"
	"github.com/dappledger/AnnChain/eth/ethdb"
)

// tracer_IT counts the work done (never changes behaviour except for the
// cancellation once the work limit is exceeded; the run is discarded then).
type tracer_IT struct {
	m         *meter
	cancelled bool
}

func (t *tracer_IT) CaptureStart(from common.Address, to common.Address, call bool, input []byte, gas uint64, value *big.Int) error {
	return nil
}

func (t *tracer_IT) CaptureState(env *vm.EVM, pc uint64, op vm.OpCode, gas, cost uint64, memory *vm.Memory, stack *vm.Stack, contract *vm.Contract, depth int, err error) error {
	m := t.m
	if err != nil {
		// the step did not execute
		if err == vm.ErrOutOfGas {
			m.OOGFaults++
			if cost != 0 && cost < starveThreshold {
				m.Starved = true
			}
		}
		return nil
	}
	m.Steps++
	if depth > m.MaxDepth {
		m.MaxDepth = depth
	}
	switch op {
	case vm.CALL, vm.CALLCODE, vm.DELEGATECALL, vm.STATICCALL:
		// cost contains the gas forwarded to the callee: count the base fee only
		if cost < callBaseGas {
			m.Work += cost
		} else {
			m.Work += callBaseGas
		}
		m.Calls++
	case vm.CREATE, vm.CREATE2:
		m.Work += cost
		m.Calls++
	case vm.SSTORE:
		m.Work += cost
		m.SStores++
	default:
		m.Work += cost
	}
	if m.Work > m.Limit && !t.cancelled {
		t.cancelled = true
		m.Cancelled = true
		env.Cancel()
	}
	return nil
}

func (t *tracer_IT) CaptureFault(env *vm.EVM, pc uint64, op vm.OpCode, gas, cost uint64, memory *vm.Memory, stack *vm.Stack, contract *vm.Contract, depth int, err error) error {
	return nil
}

func (t *tracer_IT) CaptureEnd(output []byte, gasUsed uint64, tm time.Duration, err error) error {
	return nil
}

// recDB_IT records which addresses executed SELFDESTRUCT (attempts; the final
// set is filtered through HasSuicided so that reverted frames do not count).
type recDB_IT struct {
	*state.StateDB
	attempts []common.Address
}

func (r *recDB_IT) Suicide(a common.Address) bool {
	r.attempts = append(r.attempts, a)
	return r.StateDB.Suicide(a)
}

func addr_IT(a string) common.Address { return common.BytesToAddress(unhex(a)) }

func buildState_IT(pre []account) (*state.StateDB, error) {
	db := state.NewDatabase(ethdb.NewMemDatabase())
	sdb, err := state.New(common.Hash{}, db)
	if err != nil {
		return nil, err
	}
	for _, a := range pre {
		ad := addr_IT(a.Addr)
		sdb.CreateAccount(ad)
		sdb.SetNonce(ad, a.Nonce)
		sdb.SetBalance(ad, new(big.Int).SetUint64(a.Balance))
		if len(a.Code) > 0 {
			sdb.SetCode(ad, unhex(a.Code))
		}
		for _, kv := range a.Storage {
			sdb.SetState(ad, common.BytesToHash(unhex(kv[0])), common.BytesToHash(unhex(kv[1])))
		}
	}
	root, err := sdb.Commit(false)
	if err != nil {
		return nil, err
	}
	return state.New(root, db)
}

var revertErr_IT error

// calibrate_IT learns the error value a plain REVERT produces on this side so
// that the class of an outcome never depends on an error message text.
func calibrate_IT() {
	k := &txCase{
		Pre:   []account{{Addr: hexAddr(addrOrigin), Balance: 1}, {Addr: hexAddr(addrA), Balance: 1, Nonce: 1, Code: "60006000fd"}},
		To:    hexAddr(addrA),
		Input: "",
	}
	sdb, err := buildState_IT(k.Pre)
	if err != nil {
		return
	}
	evm := vm.NewEVM(context_IT(k), sdb, chainConfig_IT(k.Mode), vmConfig_IT(nil))
	_, _, err = evm.Call(vm.AccountRef(addr_IT(k.Origin())), addr_IT(k.To), nil, ampleGas, new(big.Int))
	revertErr_IT = err
}

func context_IT(k *txCase) vm.Context {
	return vm.Context{
		CanTransfer: func(db vm.StateDB, a common.Address, amount *big.Int) bool {
			return db.GetBalance(a).Cmp(amount) >= 0
		},
		Transfer: func(db vm.StateDB, sender, recipient common.Address, amount *big.Int) {
			db.SubBalance(sender, amount)
			db.AddBalance(recipient, amount)
		},
		GetHash: func(n uint64) common.Hash {
			return common.BytesToHash(crypto.Keccak256([]byte(new(big.Int).SetUint64(n).String())))
		},
		Origin:      addr_IT(k.Origin()),
		GasPrice:    new(big.Int),
		Coinbase:    addr_IT(hexAddr(addrCoinbase)),
		GasLimit:    ctxGasLimit,
		BlockNumber: new(big.Int).SetUint64(ctxBlockNumber),
		Time:        new(big.Int).SetUint64(ctxTime),
		Difficulty:  new(big.Int).SetUint64(ctxDifficulty),
	}
}

// exec_IT runs the transaction and returns the canonical outcome record.
func exec_IT(k *txCase, workLimit uint64) *outcome {
	out := &outcome{}
	out.Meter.Limit = workLimit
	base, err := buildState_IT(k.Pre)
	if err != nil {
		out.Class = "harness-error: " + err.Error()
		return out
	}
	sdb := &recDB_IT{StateDB: base}
	tr := &tracer_IT{m: &out.Meter}
	evm := vm.NewEVM(context_IT(k), sdb, chainConfig_IT(k.Mode), vmConfig_IT(tr))
	origin := addr_IT(k.Origin())
	value := new(big.Int).SetUint64(k.Value)
	var ret []byte
	var created common.Address
	if k.Create {
		ret, created, _, err = evm.Create(vm.AccountRef(origin), unhex(k.Input), ampleGas, value)
		_ = created
	} else {
		sdb.SetNonce(origin, sdb.GetNonce(origin)+1)
		ret, _, err = evm.Call(vm.AccountRef(origin), addr_IT(k.To), unhex(k.Input), ampleGas, value)
	}
	switch {
	case err == nil:
		out.Class = "success"
	case err == revertErr_IT:
		out.Class = "revert"
	default:
		out.Class = "failure"
		out.ErrText = err.Error() // informational only, never compared
	}
	out.Ret = hexs(ret)

	// logs
	var lb strings.Builder
	for _, l := range sdb.Logs() {
		lb.WriteString(hexs(l.Address[:]))
		lb.WriteString("[")
		for i, t := range l.Topics {
			if i > 0 {
				lb.WriteString(",")
			}
			lb.WriteString(hexs(t[:]))
		}
		lb.WriteString("]")
		lb.WriteString(hexs(l.Data))
		lb.WriteString(";")
		out.NLogs++
	}
	out.Logs = lb.String()

	// self-destruct set
	seen := map[common.Address]bool{}
	var sd []string
	for _, a := range sdb.attempts {
		if !seen[a] && sdb.HasSuicided(a) {
			sd = append(sd, hexs(a[:]))
		}
		seen[a] = true
	}
	sort.Strings(sd)
	out.Suicides = strings.Join(sd, ",")

	// post-state: what a block commit would persist (empty accounts deleted)
	if _, err := sdb.Commit(true); err != nil {
		out.State = "commit-error: " + err.Error()
		return out
	}
	d := sdb.RawDump()
	addrs := make([]string, 0, len(d.Accounts))
	for a := range d.Accounts {
		addrs = append(addrs, a)
	}
	sort.Strings(addrs)
	var sb, nb strings.Builder // nb: the same without code bytes (for counting distinct outcomes)
	for _, a := range addrs {
		acc := d.Accounts[a]
		keys := make([]string, 0, len(acc.Storage))
		for s := range acc.Storage {
			keys = append(keys, s)
		}
		sort.Strings(keys)
		var st strings.Builder
		for _, s := range keys {
			st.WriteString(s)
			st.WriteString("=")
			st.WriteString(acc.Storage[s])
			st.WriteString(",")
		}
		out.accts = append(out.accts, acctOut{a, utoa(acc.Nonce), acc.Balance, acc.Code, st.String()})
		sb.WriteString(a + " nonce=" + utoa(acc.Nonce) + " balance=" + acc.Balance + " code=" + acc.Code + " storage={" + st.String() + "}\n")
		nb.WriteString(a + " " + utoa(acc.Nonce) + " " + acc.Balance + " " + utoa(uint64(len(acc.Code))) + " {" + st.String() + "}\n")
	}
	out.State = sb.String()
	out.stateNoCode = nb.String()
	return out
}
