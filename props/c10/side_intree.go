// Execution of one transaction on ONE of the two EVMs.  This file drives the
// in-tree copy (github.com/dappledger/AnnChain/eth/...).  side_ref.go is
// generated from it by gen.sh (import paths and the _IT suffix replaced) and
// drives upstream go-ethereum v1.8.27, so both harness sides are the same text.
// Everything that has to differ between the sides lives in cfg_intree.go /
// cfg_ref.go.
package main

import (
	"math/big"
	"time"

	"github.com/dappledger/AnnChain/eth/common"
	"github.com/dappledger/AnnChain/eth/core/state"
	"github.com/dappledger/AnnChain/eth/core/vm"
	"github.com/dappledger/AnnChain/eth/crypto"
	"github.com/dappledger/AnnChain/eth/ethdb"
)

// tracer_IT counts the work done (never changes behaviour except for the
// cancellation once the work limit is exceeded; the run is discarded then).
type tracer_IT struct {
	m         *meter
	cancelled bool
	rec       *[]stepRec // non-nil: record every step (only for naming the culprit of a disagreement)
}

func (t *tracer_IT) record(pc uint64, op vm.OpCode, memory *vm.Memory, stack *vm.Stack, depth int, fault bool) {
	if len(*t.rec) >= maxTraceSteps {
		return
	}
	s := stepRec{Depth: depth, PC: pc, Op: byte(op), Fault: fault}
	if stack != nil {
		d := stack.Data()
		s.SLen = len(d)
		switch op {
		case vm.CALL, vm.CALLCODE, vm.DELEGATECALL, vm.STATICCALL:
			// the top of the stack is the gas operand (not comparable by the documented deviation)
		default:
			if len(d) > 0 {
				s.Top = string(d[len(d)-1].Bytes())
			}
		}
	}
	if memory != nil {
		s.Mem = memDigest(memory.Data())
	}
	*t.rec = append(*t.rec, s)
}

func (t *tracer_IT) CaptureStart(from common.Address, to common.Address, call bool, input []byte, gas uint64, value *big.Int) error {
	return nil
}

func (t *tracer_IT) CaptureState(env *vm.EVM, pc uint64, op vm.OpCode, gas, cost uint64, memory *vm.Memory, stack *vm.Stack, contract *vm.Contract, depth int, err error) error {
	m := t.m
	if t.rec != nil {
		t.record(pc, op, memory, stack, depth, err != nil)
	}
	if err != nil {
		// the step did not execute
		if err == vm.ErrOutOfGas {
			m.OOGFaults++
			if cost != 0 && cost < m.Starve {
				m.Starved = true
			}
		}
		return nil
	}
	m.Steps++
	if depth > m.MaxDepth {
		m.MaxDepth = depth
	}
	switch op {
	case vm.CALL, vm.CALLCODE, vm.DELEGATECALL, vm.STATICCALL:
		// cost contains the gas forwarded to the callee: count the base fee only
		if cost < callBaseGas {
			m.Work += cost
		} else {
			m.Work += callBaseGas
		}
		m.Calls++
	case vm.CREATE, vm.CREATE2:
		m.Work += cost
		m.Calls++
	case vm.SSTORE:
		m.Work += cost
		m.SStores++
	default:
		m.Work += cost
	}
	if m.Work > m.Limit && !t.cancelled {
		t.cancelled = true
		m.Cancelled = true
		env.Cancel()
	}
	return nil
}

func (t *tracer_IT) CaptureFault(env *vm.EVM, pc uint64, op vm.OpCode, gas, cost uint64, memory *vm.Memory, stack *vm.Stack, contract *vm.Contract, depth int, err error) error {
	if t.rec != nil {
		t.record(pc, op, nil, nil, depth, true)
	}
	return nil
}

func (t *tracer_IT) CaptureEnd(output []byte, gasUsed uint64, tm time.Duration, err error) error {
	return nil
}

// recDB_IT is the StateDB the EVM sees: the real StateDB plus a record of every
// location the transaction wrote (the post-state is read back at exactly the
// union of the locations either side wrote plus the whole pre-state) and of
// every SELFDESTRUCT.
type recDB_IT struct {
	*state.StateDB
	w        *written
	attempts []common.Address
}

func (r *recDB_IT) CreateAccount(a common.Address) {
	r.w.addr(address(a))
	r.StateDB.CreateAccount(a)
}

func (r *recDB_IT) SubBalance(a common.Address, v *big.Int) {
	r.w.addr(address(a))
	r.StateDB.SubBalance(a, v)
}

func (r *recDB_IT) AddBalance(a common.Address, v *big.Int) {
	r.w.addr(address(a))
	r.StateDB.AddBalance(a, v)
}

func (r *recDB_IT) SetNonce(a common.Address, n uint64) {
	r.w.addr(address(a))
	r.StateDB.SetNonce(a, n)
}

func (r *recDB_IT) SetCode(a common.Address, c []byte) {
	r.w.addr(address(a))
	r.StateDB.SetCode(a, c)
}

func (r *recDB_IT) SetState(a common.Address, k, v common.Hash) {
	r.w.slot(address(a), word(k))
	r.StateDB.SetState(a, k, v)
}

func (r *recDB_IT) Suicide(a common.Address) bool {
	r.w.addr(address(a))
	r.attempts = append(r.attempts, a)
	return r.StateDB.Suicide(a)
}

// base_IT: a committed pre-state without contract code (code is installed per
// case).  Never written again after its construction.
type base_IT struct {
	db   state.Database
	root common.Hash
}

type sideCtx_IT struct {
	bases map[string]*base_IT
}

func (c *sideCtx_IT) base(k *txCase) (*base_IT, error) {
	key := k.baseKey()
	if b, ok := c.bases[key]; ok {
		return b, nil
	}
	db := state.NewDatabase(ethdb.NewMemDatabase())
	sdb, err := state.New(common.Hash{}, db)
	if err != nil {
		return nil, err
	}
	for _, a := range k.Pre {
		ad := common.Address(a.Addr)
		sdb.CreateAccount(ad)
		sdb.SetNonce(ad, a.Nonce)
		sdb.SetBalance(ad, new(big.Int).SetUint64(a.Balance))
		for _, s := range a.Storage {
			sdb.SetState(ad, common.Hash(s.Key), common.Hash(s.Val))
		}
	}
	root, err := sdb.Commit(false)
	if err != nil {
		return nil, err
	}
	if c.bases == nil || len(c.bases) > 256 {
		c.bases = map[string]*base_IT{}
	}
	b := &base_IT{db, root}
	c.bases[key] = b
	return b, nil
}

var revertErr_IT error

// calibrate_IT learns the error value a plain REVERT produces on this side so
// that the class of an outcome never depends on an error message text.
func calibrate_IT() {
	k := &txCase{
		Pre: []account{{Addr: addrOrigin, Balance: 1}, {Addr: addrA, Balance: 1, Nonce: 1, Code: []byte{0x60, 0, 0x60, 0, 0xfd}}},
		To:  addrA,
	}
	r := start_IT(&sideCtx_IT{}, k, workLimitDefault, nil)
	revertErr_IT = r.err
}

func context_IT(k *txCase) vm.Context {
	return vm.Context{
		CanTransfer: func(db vm.StateDB, a common.Address, amount *big.Int) bool {
			return db.GetBalance(a).Cmp(amount) >= 0
		},
		Transfer: func(db vm.StateDB, sender, recipient common.Address, amount *big.Int) {
			db.SubBalance(sender, amount)
			db.AddBalance(recipient, amount)
		},
		GetHash: func(n uint64) common.Hash {
			return common.BytesToHash(crypto.Keccak256([]byte(new(big.Int).SetUint64(n).String())))
		},
		Origin:      common.Address(addrOrigin),
		GasPrice:    new(big.Int),
		Coinbase:    common.Address(addrCoinbase),
		GasLimit:    ctxGasLimit,
		BlockNumber: new(big.Int).SetUint64(ctxBlockNumber),
		Time:        new(big.Int).SetUint64(ctxTime),
		Difficulty:  new(big.Int).SetUint64(ctxDifficulty),
	}
}

// run_IT is a transaction that has been executed but whose post-state has not
// been read yet.
type run_IT struct {
	out *outcome
	sdb *recDB_IT
	err error
}

// start_IT executes the transaction.
func start_IT(c *sideCtx_IT, k *txCase, workLimit uint64, rec *[]stepRec) *run_IT {
	out := &outcome{w: newWritten()}
	out.Meter.Limit = workLimit
	out.Meter.Starve = k.gas() - k.workLimit()
	r := &run_IT{out: out}
	b, err := c.base(k)
	var inner *state.StateDB
	if err == nil {
		inner, err = state.New(b.root, b.db)
	}
	if err != nil {
		out.Class = "harness-error: " + err.Error()
		return r
	}
	// what earlier transactions of the block did: deploy the code, bump the sender's nonce
	for _, a := range k.Pre {
		if len(a.Code) > 0 {
			inner.SetCode(common.Address(a.Addr), a.Code)
		}
	}
	origin := common.Address(addrOrigin)
	if !k.Create {
		inner.SetNonce(origin, inner.GetNonce(origin)+1)
	}
	inner.Finalise(true)

	sdb := &recDB_IT{StateDB: inner, w: out.w}
	r.sdb = sdb
	tr := &tracer_IT{m: &out.Meter, rec: rec}
	evm := vm.NewEVM(context_IT(k), sdb, chainConfig_IT(k.Mode), vmConfig_IT(tr, k.gas()))
	value := new(big.Int).SetUint64(k.Value)
	var ret []byte
	if k.Create {
		ret, _, _, err = evm.Create(vm.AccountRef(origin), k.Input, k.gas(), value)
	} else {
		ret, _, err = evm.Call(vm.AccountRef(origin), common.Address(k.To), k.Input, k.gas(), value)
	}
	r.err = err
	switch {
	case err == nil:
		out.Class = "success"
	case err == revertErr_IT:
		out.Class = "revert"
	default:
		out.Class = "failure"
		out.ErrText = err.Error() // informational only, never compared
	}
	out.Ret = string(ret)

	// logs
	var lb []byte
	for _, l := range sdb.Logs() {
		lb = append(lb, l.Address[:]...)
		lb = append(lb, byte(len(l.Topics)))
		for _, t := range l.Topics {
			lb = append(lb, t[:]...)
		}
		lb = appendLen(lb, len(l.Data))
		lb = append(lb, l.Data...)
		out.NLogs++
	}
	out.Logs = string(lb)

	// self-destruct set (before the end-of-transaction clean-up removes the accounts)
	seen := map[common.Address]bool{}
	for _, a := range sdb.attempts {
		if !seen[a] && sdb.HasSuicided(a) {
			out.suicided = append(out.suicided, address(a))
		}
		seen[a] = true
	}
	sortAddrs(out.suicided)
	var sd []byte
	for _, a := range out.suicided {
		sd = append(sd, a[:]...)
	}
	out.Suicides = string(sd)
	return r
}

// finish applies the end-of-transaction clean-up (self-destructed and touched
// empty accounts disappear, as in a block) and reads the post-state at the given
// locations.
func (r *run_IT) finish(locs *written) {
	out, sdb := r.out, r.sdb
	if sdb == nil {
		return
	}
	sdb.StateDB.Finalise(true)
	var sb []byte
	for _, a := range locs.sortedAddrs() {
		ad := common.Address(a)
		if !sdb.Exist(ad) {
			continue
		}
		acc := acctOut{Addr: a, Nonce: sdb.GetNonce(ad), Balance: sdb.GetBalance(ad).String(), Code: string(sdb.GetCode(ad))}
		var st []byte
		for _, k := range locs.sortedSlots(a) {
			v := sdb.GetState(ad, common.Hash(k))
			if v != (common.Hash{}) {
				st = append(st, k[:]...)
				st = append(st, v[:]...)
				acc.nslots++
			}
		}
		acc.Storage = string(st)
		out.accts = append(out.accts, acc)
		sb = append(sb, a[:]...)
		sb = appendLen(sb, int(acc.Nonce))
		sb = appendLen(sb, len(acc.Balance))
		sb = append(sb, acc.Balance...)
		sb = appendLen(sb, len(acc.Code))
		sb = append(sb, acc.Code...)
		sb = appendLen(sb, len(st))
		sb = append(sb, st...)
	}
	out.State = string(sb)
}
