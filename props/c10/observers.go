package main

import (
	"fmt"
	"strings"
)

// ---------------------------------------------------------------- family 6: account observers after touch histories inside ONE transaction
//
// What EXTCODEHASH, EXTCODESIZE and BALANCE report about an account depends on
// whether the account is absent, present but empty (no nonce, no balance, no
// code), or non-empty - and an absent account becomes "present but empty" for
// the rest of the transaction once something touches it.  A driver contract
// (A) performs every sequence of 0..maxLen touch steps on a target T and
// records after every step (and before the first) EXTCODEHASH(T),
// EXTCODESIZE(T) and BALANCE(T) in its return data, the last EXTCODEHASH in
// storage.  Touch steps:
//
//	call0           CALL T, value 0
//	static          STATICCALL T
//	call1           CALL T, value 1
//	reverted-call1  CALL helper C with value 1; C calls T with that value, then REVERTs
//	destruct-to     CALL helper B, which SELFDESTRUCTs to T (B holds no balance: a zero-value credit)
//
// Targets: an absent account, an account that is present but empty in the
// pre-state, a balance-only account, a nonce-only account, a contract, a
// precompile, the driver itself.

var f6Steps = []string{"call0", "static", "call1", "reverted-call1", "destruct-to"}

var f6Targets = []string{"absent", "empty", "balance-only", "nonce-only", "contract", "precompile", "self"}

var (
	addrG = addrOf(0x90, 0x99) // family 6: present but empty in the pre-state
	addrH = addrOf(0x80, 0x88) // family 6: nonce only
)

type f6Spec struct {
	Steps  []int
	Target string
}

const f6ObsBase = 0x100

func f6Target(t string) address {
	switch t {
	case "absent":
		return addrE
	case "empty":
		return addrG
	case "balance-only":
		return addrF
	case "nonce-only":
		return addrH
	case "contract":
		return addrD
	case "precompile":
		var p address
		p[19] = 2
		return p
	case "self":
		return addrA
	}
	panic("harness: unknown target " + t)
}

// f6Destructor: B.  SELFDESTRUCT(T).
func f6Destructor(t address) []byte {
	return newAsm().pushAddr(t).op(opSELFDESTRUCT).bytes()
}

// f6Helper: C.  Calls T with the value it received, then reverts.
func f6Helper(t address) []byte {
	a := newAsm()
	a.pushU(0).pushU(0).pushU(0).pushU(0).op(opCALLVALUE).pushAddr(t).op(opGAS, opCALL, opPOP)
	a.pushU(0).pushU(0).op(opREVERT)
	return a.bytes()
}

func f6Observe(a *asm, t address, off uint64, slot uint64) {
	a.pushAddr(t).op(0x3f /* EXTCODEHASH */, opDUP1).pushU(slot).op(opSSTORE)
	a.pushU(off).op(opMSTORE)
	a.pushAddr(t).op(0x3b /* EXTCODESIZE */).pushU(off + 32).op(opMSTORE)
	a.pushAddr(t).op(0x31 /* BALANCE */).pushU(off + 64).op(opMSTORE)
}

// f6Driver: A.
func f6Driver(s f6Spec) []byte {
	t := f6Target(s.Target)
	a := newAsm()
	f6Observe(a, t, f6ObsBase, 0x20)
	for i, st := range s.Steps {
		off := uint64(f6ObsBase + 128*(i+1))
		a.pushU(0).pushU(0).pushU(0).pushU(0) // no output, no input
		switch f6Steps[st] {
		case "call0":
			a.pushU(0).pushAddr(t).op(opGAS, opCALL)
		case "static":
			a.pushAddr(t).op(opGAS, opSTATICCALL)
		case "call1":
			a.pushU(1).pushAddr(t).op(opGAS, opCALL)
		case "reverted-call1":
			a.pushU(1).pushAddr(addrC).op(opGAS, opCALL)
		case "destruct-to":
			a.pushU(0).pushAddr(addrB).op(opGAS, opCALL)
		default:
			panic("harness: unknown step")
		}
		a.pushU(off + 96).op(opMSTORE)
		f6Observe(a, t, off, uint64(0x21+i))
	}
	a.pushU(uint64(128 * (len(s.Steps) + 1))).pushU(f6ObsBase).op(opRETURN)
	return a.bytes()
}

func family6Case(s f6Spec, mode string) *txCase {
	t := f6Target(s.Target)
	k := &txCase{Family: "history", Mode: mode, To: addrA, Input: calldataPattern[:4]}
	k.Pre = []account{
		{Addr: addrOrigin, Balance: 1000000, Nonce: 5},
		{Addr: addrA, Balance: 100, Nonce: 1, Code: f6Driver(s), Storage: []slot{{wordU(1), wordU(0x11)}}},
		{Addr: addrB, Balance: 0, Nonce: 1, Code: f6Destructor(t)},
		{Addr: addrC, Balance: 0, Nonce: 1, Code: f6Helper(t)},
		{Addr: addrD, Balance: 0, Nonce: 1, Code: []byte{opSTOP}},
		{Addr: addrF, Balance: 3},
		{Addr: addrG},
		{Addr: addrH, Nonce: 1},
	}
	names := make([]string, len(s.Steps))
	for i, st := range s.Steps {
		names[i] = f6Steps[st]
	}
	k.Label = fmt.Sprintf("A observes EXTCODEHASH/EXTCODESIZE/BALANCE of a target (%s) before and after: %s", s.Target, strings.Join(names, ", "))
	k.Sig = map[string]string{"family": "history", "config": mode, "target": s.Target, "static": "no"}
	return k
}

// family6Specs: every step sequence of length 0..maxLen x target.
func family6Specs(maxLen int) []f6Spec {
	var out []f6Spec
	n := len(f6Steps)
	for L := 0; L <= maxLen; L++ {
		total := 1
		for i := 0; i < L; i++ {
			total *= n
		}
		for x := 0; x < total; x++ {
			steps := make([]int, L)
			y := x
			for i := L - 1; i >= 0; i-- {
				steps[i] = y % n
				y /= n
			}
			for _, t := range f6Targets {
				out = append(out, f6Spec{Steps: steps, Target: t})
			}
		}
	}
	return out
}
