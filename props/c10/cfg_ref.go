package main

import (
	"math/big"

	"github.com/ethereum/go-ethereum/core/vm"
	"github.com/ethereum/go-ethereum/params"
)

// chainConfig_RF: the reference always runs the Constantinople rule set from
// block 0.  Upstream treats a nil PetersburgBlock as "Petersburg together with
// Constantinople" (params.ChainConfig.IsPetersburg), which would silently drop
// EIP-1283; the in-tree gasSStore keeps EIP-1283, so Petersburg is pushed to an
// unreachable block number: Constantinople WITHOUT Petersburg.
func chainConfig_RF(mode string) *params.ChainConfig {
	return &params.ChainConfig{
		ChainID:             big.NewInt(1),
		HomesteadBlock:      big.NewInt(0),
		EIP150Block:         big.NewInt(0),
		EIP155Block:         big.NewInt(0),
		EIP158Block:         big.NewInt(0),
		ByzantiumBlock:      big.NewInt(0),
		ConstantinopleBlock: big.NewInt(0),
		PetersburgBlock:     new(big.Int).SetUint64(1 << 62),
	}
}

func vmConfig_RF(tr *tracer_RF, gas uint64) vm.Config {
	c := vm.Config{}
	if tr != nil {
		c.Debug = true
		c.Tracer = tr
	}
	return c
}
