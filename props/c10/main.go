// C10 — EVM conformance: the in-tree EVM (eth/core/vm on eth/core/state) against
// upstream go-ethereum v1.8.27 linked into the same binary (DESIGN §4.5, §5 C10,
// §6.5).  Five exhaustively enumerated families of transactions (1 opcode x
// operands, 2 short programs, 3 call graphs, 4 stack-depth boundaries:
// boundary.go, 5 self-destruct histories: histories.go); oracle: the
// canonical outcome records of the two sides are equal (class, return data,
// logs, self-destruct set, accounts/nonces/balances/code/storage).
//
// Documented deviations are neutralised by construction of the harness, never
// by exceptions in the comparison:
//   - gas price 0; the reference runs with ample gas and the in-tree EVM with the
//     same amount as its budget (EVMGasLimit): 2^40 for the call graphs, 2^33
//     for the flat families (see ampleGasFlat for why not more);
//   - the GAS opcode only ever appears as the gas operand of a CALL-family
//     instruction (the reference then forwards 63/64 of ample gas, the in-tree
//     code ignores the operand), or directly followed by POP (family 4: only
//     its stack effect is kept);
//   - a case is excluded (and counted) when the reference does more than the work
//     limit of instruction work (loops that only a gas limit ends: that limit is
//     per call on the reference and per transaction in-tree), or when a step that
//     would fit into the in-tree budget fails for lack of gas on the reference
//     (caller-supplied-gas starvation, e.g. at the bottom of a 1024-deep recursion);
//   - address 0xfe (the governance precompile) is never called or referenced.
package main

import (
	"fmt"
	"hash/fnv"
	"os"
	"runtime/pprof"
	"sort"
	"strings"
	"sync"
	"sync/atomic"
	"time"

	"verif/core"
)

// ---------------------------------------------------------------- statistics

type famStats struct {
	mu            sync.Mutex
	Cases         int64
	Compared      int64
	Excluded      map[string]int64
	Classes       map[string]int64
	Disagreements int64
	WithStorage   int64
	WithLogs      int64
	WithCalls     int64
	WithSuicide   int64
	MaxWork       uint64
	WorkHist      map[string]int64
	distinct      map[uint64]struct{}
}

func newFamStats() *famStats {
	return &famStats{Excluded: map[string]int64{}, Classes: map[string]int64{}, WorkHist: map[string]int64{}, distinct: map[uint64]struct{}{}}
}

func (s *famStats) merge(o *famStats) {
	s.mu.Lock()
	defer s.mu.Unlock()
	s.Cases += o.Cases
	s.Compared += o.Compared
	s.Disagreements += o.Disagreements
	s.WithStorage += o.WithStorage
	s.WithLogs += o.WithLogs
	s.WithCalls += o.WithCalls
	s.WithSuicide += o.WithSuicide
	if o.MaxWork > s.MaxWork {
		s.MaxWork = o.MaxWork
	}
	for k, v := range o.Excluded {
		s.Excluded[k] += v
	}
	for k, v := range o.Classes {
		s.Classes[k] += v
	}
	for k, v := range o.WorkHist {
		s.WorkHist[k] += v
	}
	for k := range o.distinct {
		s.distinct[k] = struct{}{}
	}
}

func (s *famStats) summary() map[string]interface{} {
	return map[string]interface{}{
		"cases":                                s.Cases,
		"compared":                             s.Compared,
		"excluded":                             s.Excluded,
		"reference_outcome_classes":            s.Classes,
		"distinct_outcome_records":             len(s.distinct),
		"cases_executing_sstore":               s.WithStorage,
		"cases_emitting_logs":                  s.WithLogs,
		"cases_with_nested_call_create":        s.WithCalls,
		"cases_with_selfdestruct":              s.WithSuicide,
		"disagreements":                        s.Disagreements,
		"max_work_gas_of_a_compared_case":      s.MaxWork,
		"work_gas_histogram_of_compared_cases": s.WorkHist,
	}
}

func (s *famStats) account(r *pairResult) {
	s.Cases++
	if r.excluded != "" {
		s.Excluded[r.excluded]++
		if debugExcluded && r.excluded != "reference-work-above-limit" {
			fmt.Fprintf(os.Stderr, "EXCLUDED %s: %s\n", r.excluded, r.label)
		}
		return
	}
	s.Compared++
	s.Classes[r.ref.Class]++
	if r.ref.Meter.SStores > 0 {
		s.WithStorage++
	}
	if r.ref.NLogs > 0 {
		s.WithLogs++
	}
	if r.ref.Meter.Calls > 0 {
		s.WithCalls++
	}
	if r.ref.Suicides != "" {
		s.WithSuicide++
	}
	if r.ref.Meter.Work > s.MaxWork {
		s.MaxWork = r.ref.Meter.Work
	}
	switch w := r.ref.Meter.Work; {
	case w < 10000:
		s.WorkHist["<1e4"]++
	case w < 100000:
		s.WorkHist["<1e5"]++
	case w < 1000000:
		s.WorkHist["<1e6"]++
	case w < 3000000:
		s.WorkHist["<3e6"]++
	default:
		s.WorkHist[">=3e6"]++
	}
	s.distinct[digest(r.ref)] = struct{}{}
	if r.differs != "" {
		s.Disagreements++
	}
}

// digest of a record with code bytes replaced by their length (programs differ
// in their own code; that alone must not make outcomes "distinct")
func digest(o *outcome) uint64 {
	h := fnv.New64a()
	w := func(s string) { h.Write([]byte(s)); h.Write([]byte{0xff, 0}) }
	w(o.Class)
	w(o.Ret)
	w(o.Logs)
	w(o.Suicides)
	for _, a := range o.accts {
		h.Write(a.Addr[:])
		w(fmt.Sprint(a.Nonce, len(a.Code)))
		w(a.Balance)
		w(a.Storage)
	}
	return h.Sum64()
}

// ---------------------------------------------------------------- one case on both sides

var debugExcluded = os.Getenv("C10_DEBUG_EXCLUDED") != ""

type pairResult struct {
	label    string
	excluded string
	ref, it  *outcome
	differs  string
	site     string
}

// sideCtx: per-goroutine caches of the two harness sides (committed pre-states).
type sideCtx struct {
	it sideCtx_IT
	rf sideCtx_RF
}

var ctxPool = sync.Pool{New: func() interface{} { return &sideCtx{} }}

// runPair executes one case on both EVMs and reads both post-states at the union
// of the pre-state and of every location either side wrote.  With traces != nil
// both instruction traces are recorded as well.
func runPair(k *txCase, traces *[2][]stepRec) pairResult {
	c := ctxPool.Get().(*sideCtx)
	defer ctxPool.Put(c)
	r := pairResult{label: k.Label}
	var rr *run_RF
	var ri *run_IT
	var recR, recI *[]stepRec
	if traces != nil {
		recR, recI = &traces[0], &traces[1]
	}
	if p, v, _ := core.Try(func() { rr = start_RF(&c.rf, k, k.workLimit(), recR) }); p {
		r.excluded = "reference-panicked"
		r.site = core.FirstLine(v)
		return r
	}
	r.ref = rr.out
	switch {
	case r.ref.Meter.Cancelled:
		r.excluded = "reference-work-above-limit"
		return r
	case r.ref.Meter.Starved:
		r.excluded = "reference-frame-starved-of-caller-supplied-gas"
		return r
	case strings.HasPrefix(r.ref.Class, "harness-error"):
		core.Fatal("reference state construction failed: %s", r.ref.Class)
	}
	if p, v, st := core.Try(func() { ri = start_IT(&c.it, k, 4*k.workLimit(), recI) }); p {
		r.it = &outcome{Class: "panic", Panic: core.FirstLine(v)}
		r.differs = "panic"
		r.site = core.PanicSite(st)
		return r
	}
	r.it = ri.out
	if strings.HasPrefix(r.it.Class, "harness-error") {
		core.Fatal("in-tree state construction failed: %s", r.it.Class)
	}
	if r.it.Meter.Cancelled {
		r.differs = "in-tree-exceeds-4x-the-work-limit"
		return r
	}
	locs := k.preLocations()
	locs.merge(r.ref.w)
	locs.merge(r.it.w)
	if p, v, _ := core.Try(func() { rr.finish(locs) }); p {
		r.excluded = "reference-panicked"
		r.site = core.FirstLine(v)
		return r
	}
	if p, v, st := core.Try(func() { ri.finish(locs) }); p {
		r.it.Panic = core.FirstLine(v)
		r.differs = "panic"
		r.site = core.PanicSite(st)
		return r
	}
	r.differs = firstDifference(r.ref, r.it)
	return r
}

// ---------------------------------------------------------------- findings

type finding struct {
	sig    map[string]string
	k      *txCase
	detail string
	size   int
	cases  int64
}

type driver struct {
	run      *core.Run
	samples  *core.Sampler
	n        int64
	fmu      sync.Mutex
	findings map[string]*finding
	// observe (optional): called for every case runCases executed, with its index
	observe func(i int, k *txCase, r *pairResult)
}

func caseSize(k *txCase) int {
	n := len(k.Input)
	for _, a := range k.Pre {
		n += len(a.Code)
	}
	return n
}

func sigString(sig map[string]string) string {
	ks := make([]string, 0, len(sig))
	for k := range sig {
		ks = append(ks, k)
	}
	sort.Strings(ks)
	var b strings.Builder
	for _, k := range ks {
		b.WriteString(k + "=" + sig[k] + ";")
	}
	return b.String()
}

// signature of a disagreement: the instruction whose effect differs first
// between the two instruction traces (found by re-running the case with step
// recording) and the kind of frame it ran in; falls back to the case shape and
// the symptom when the traces are identical.
func (d *driver) signature(k *txCase, r *pairResult) (map[string]string, string) {
	sig := map[string]string{"config": k.Mode}
	if r.differs == "panic" {
		sig["culprit"] = "panic"
		sig["site"] = r.site
		return sig, "in-tree EVM panicked: " + r.it.Panic
	}
	var tr [2][]stepRec
	runPair(k, &tr)
	op, depth, ok := culprit(tr[0], tr[1])
	runaway := r.it != nil && r.it.Meter.Cancelled
	sym := "runaway"
	if !runaway {
		sym = symptom(r.ref, r.it)
	}
	if ok {
		sig["culprit"] = opTable[op].name
		sig["frame"] = "top"
		if depth > 1 {
			sig["frame"] = "nested"
		}
		return sig, fmt.Sprintf("first divergence of the instruction traces: effect of %s at call depth %d; symptom: %s", opTable[op].name, depth, sym)
	}
	if runaway {
		sig["culprit"] = "runaway"
		sig["family"] = k.Family
		return sig, "in-tree EVM did more than 4x the work limit while the reference stayed below the limit"
	}
	sig["culprit"] = "side-effect-not-visible-in-trace"
	sig["symptom"] = sym
	return sig, "instruction traces (pc, opcode, stack top, memory) identical; symptom: " + sym
}

func (d *driver) disagreement(k *txCase, r *pairResult) {
	sig, why := d.signature(k, r)
	key := sigString(sig)
	// the case kept per class: simplest family first, then fewest executed instructions, then least code
	size := caseSize(k) + map[string]int{"opcode": 0, "stackdepth": 1 << 49, "program": 1 << 50, "callgraph": 2 << 50, "history": 3 << 50}[k.Family]
	if r.ref != nil {
		size += int(r.ref.Meter.Steps) << 24
	}
	d.fmu.Lock()
	defer d.fmu.Unlock()
	f := d.findings[key]
	if f == nil {
		f = &finding{sig: sig, size: int(^uint(0) >> 1)}
		d.findings[key] = f
	}
	f.cases++
	if size < f.size || (size == f.size && k.Label < f.k.Label) {
		f.size, f.k = size, k
		refS, itS := "(none)", "(none)"
		if r.ref != nil {
			refS = r.ref.render()
		}
		if r.it != nil {
			itS = r.it.render()
		}
		f.detail = fmt.Sprintf("%s [family %s, in-tree config %s]: records differ in %s; %s\n   reference: %s\n   in-tree:   %s", k.Label, k.Family, k.Mode, r.differs, why, refS, itS)
	}
}

func (d *driver) sample(k *txCase, r *pairResult) {
	if atomic.AddInt64(&d.n, 1)%7919 == 1 && r.excluded == "" {
		code := ""
		for _, a := range k.Pre {
			if a.Addr == addrA {
				code = trunc(hexs(a.Code), 160)
			}
		}
		d.samples.Add(map[string]interface{}{"family": k.Family, "case": k.Label, "config": k.Mode, "code_of_called_contract": code, "calldata": trunc(hexs(k.Input), 80),
			"reference_class": r.ref.Class, "reference_return": trunc(hexs([]byte(r.ref.Ret)), 80), "reference_steps": r.ref.Meter.Steps, "agree": r.differs == ""})
	}
}

func trunc(s string, n int) string {
	if len(s) > n {
		return s[:n] + "…"
	}
	return s
}

// runCases runs n generated cases in parallel.
func (d *driver) runCases(n int, gen func(i int) *txCase, st *famStats, perOp map[string]*[2]int64) {
	var mu sync.Mutex
	const chunk = 64
	core.Par((n+chunk-1)/chunk, func(c int) {
		loc := newFamStats()
		for i := c * chunk; i < (c+1)*chunk && i < n; i++ {
			k := gen(i)
			r := runPair(k, nil)
			loc.account(&r)
			if perOp != nil && r.excluded == "" && k.Sig["ctx"] == "direct" {
				mu.Lock()
				e := perOp[k.Sig["op"]]
				if e == nil {
					e = &[2]int64{}
					perOp[k.Sig["op"]] = e
				}
				e[0]++
				if r.ref.Class == "success" {
					e[1]++
				}
				mu.Unlock()
			}
			d.sample(k, &r)
			if d.observe != nil {
				d.observe(i, k, &r)
			}
			if r.differs != "" {
				d.disagreement(k, &r)
			}
		}
		st.merge(loc)
	})
}

// ---------------------------------------------------------------- family 2 driver

type f2Result struct {
	maxLenCompleted int
	partialLen      int
	partialDone     int64
	partialTotal    int64
	programs        int64
}

// runFamily2 runs every token sequence of length 1..maxLen.  Programs of length
// >= reduceFrom run only with the variants they can observe syntactically: the
// three call data only when a call-data token occurs, both pre-states only when
// a storage token (or SELFDESTRUCT) occurs; shorter programs run with all six.
func (d *driver) runFamily2(mode string, maxLen, reduceFrom int, deadline time.Time, st *famStats) f2Result {
	n := len(alphabet)
	var res f2Result
	for L := 1; L <= maxLen; L++ {
		// chunks: the first min(L,2) tokens fixed
		fix := 2
		if L < 2 {
			fix = L
		}
		chunks := 1
		for i := 0; i < fix; i++ {
			chunks *= n
		}
		per := int64(1)
		for i := fix; i < L; i++ {
			per *= int64(n)
		}
		var done int64
		var skipped int32
		core.Par(chunks, func(c int) {
			if !deadline.IsZero() && time.Now().After(deadline) {
				atomic.StoreInt32(&skipped, 1)
				return
			}
			loc := newFamStats()
			toks := make([]int, L)
			x := c
			for i := fix - 1; i >= 0; i-- {
				toks[i] = x % n
				x /= n
			}
			for p := int64(0); p < per; p++ {
				y := p
				for i := L - 1; i >= fix; i-- {
					toks[i] = int(y % int64(n))
					y /= int64(n)
				}
				code := family2Code(toks)
				for _, v := range family2Variants(toks, L >= reduceFrom) {
					k := family2Case(toks, code, v, mode)
					r := runPair(k, nil)
					loc.account(&r)
					d.sample(k, &r)
					if r.differs != "" {
						d.disagreement(k, &r)
					}
				}
			}
			st.merge(loc)
			atomic.AddInt64(&done, per)
		})
		res.programs += done
		if skipped != 0 {
			res.partialLen, res.partialDone, res.partialTotal = L, done, int64(chunks)*per
			break
		}
		res.maxLenCompleted = L
	}
	return res
}

// ---------------------------------------------------------------- main

func determinismProbe(cases []*txCase) {
	for _, k := range cases {
		a, b := runPair(k, nil), runPair(k, nil)
		if a.excluded != b.excluded || a.differs != b.differs {
			core.Fatal("harness not deterministic on %s", k.Label)
		}
		if a.excluded == "" && a.ref != nil && b.ref != nil {
			if firstDifference(a.ref, b.ref) != "" || (a.it != nil && b.it != nil && a.differs != "panic" && firstDifference(a.it, b.it) != "") {
				core.Fatal("EVM run not deterministic on %s", k.Label)
			}
		}
	}
}

func main() {
	run := core.Start("C10", "exploration", "DIFFREF")
	// every case allocates two EVMs (two 18 KB jump tables each) on a tiny live heap: collect less often
	calibrate_IT()
	calibrate_RF()
	if revertErr_RF == nil {
		core.Fatal("reference did not fail on a plain REVERT")
	}
	d := &driver{run: run, samples: core.NewSampler(8, run.Seed), findings: map[string]*finding{}}

	if run.ReplayPath != "" {
		var k txCase
		if err := run.ReplayCase(&k); err != nil {
			core.Fatal("cannot load replay: %v", err)
		}
		r := runPair(&k, nil)
		if r.excluded != "" {
			fmt.Printf("case is excluded: %s\n", r.excluded)
		} else if r.differs != "" {
			d.disagreement(&k, &r)
			for _, f := range d.findings {
				run.Report(f.sig, f.k, f.detail)
			}
		}
		run.Finish(nil, nil)
	}

	// development knobs (never set by vcheck): C10_FAMILIES=1,2,3,4,5 restricts the run,
	// C10_F2LEN=<n> sets the program length, C10_CPUPROFILE=<file> profiles it
	want := func(f string) bool {
		v := os.Getenv("C10_FAMILIES")
		return v == "" || strings.Contains(","+v+",", ","+f+",")
	}
	if pf := os.Getenv("C10_CPUPROFILE"); pf != "" {
		if f, err := os.Create(pf); err == nil {
			pprof.StartCPUProfile(f)
		}
	}
	start := time.Now()
	thorough := !run.Quick()
	modes := []string{"aligned", "app"}
	cov := core.Coverage{}
	total := newFamStats()

	// ---- family 1: every opcode byte × operand tuples × {direct, behind a CALL, behind a STATICCALL}
	type f1Item struct {
		p    f1Prog
		ctx  string
		mode string
	}
	var f1items []f1Item
	nonExhaustiveOps := []string{}
	for c := 0; c < 256; c++ {
		progs, exh := family1Programs(c, thorough)
		if c == opGAS {
			continue
		}
		if !exh {
			nonExhaustiveOps = append(nonExhaustiveOps, opTable[c].name)
		}
		for _, p := range progs {
			for _, m := range modes {
				for _, ctx := range []string{"direct", "nested", "static"} {
					f1items = append(f1items, f1Item{p, ctx, m})
				}
			}
		}
	}
	gen1 := func(i int) *txCase { return family1Case(f1items[i].p, f1items[i].ctx, f1items[i].mode) }
	determinismProbe([]*txCase{gen1(0), gen1(len(f1items) / 2), gen1(len(f1items) - 1)})
	st1 := newFamStats()
	perOp := map[string]*[2]int64{}
	n1 := len(f1items)
	if !want("1") {
		n1 = 0
	}
	d.runCases(n1, gen1, st1, perOp)
	var never []string
	for c := 0; c < 256; c++ {
		if !opTable[c].defined || c == opGAS {
			continue
		}
		if e := perOp[opTable[c].name]; e == nil || e[1] == 0 {
			never = append(never, opTable[c].name)
		}
	}
	sort.Strings(never)
	s1 := st1.summary()
	s1["opcode_bytes"] = 256
	s1["operand_domain"] = domainNames
	s1["opcodes_with_pairwise_instead_of_full_product"] = nonExhaustiveOps
	s1["defined_opcodes_without_any_successful_case"] = never
	s1["opcodes_excluded_by_documented_deviation"] = []string{"GAS"}
	s1["wall_s"] = time.Since(start).Seconds()
	cov["family1_opcode_x_operands"] = s1
	total.merge(st1)

	// ---- family 3: call graphs
	t3 := time.Now()
	specs := family3Specs()
	var tops []*txCase
	for _, m := range modes {
		tops = append(tops, family3TopCreates(m)...)
	}
	n3 := len(specs)*len(modes) + len(tops)
	gen3 := func(i int) *txCase {
		if i < len(specs)*len(modes) {
			return family3Case(specs[i/len(modes)], modes[i%len(modes)])
		}
		return tops[i-len(specs)*len(modes)]
	}
	determinismProbe([]*txCase{gen3(0), gen3(n3 / 3)})
	st3 := newFamStats()
	if !want("3") {
		n3 = 0
	}
	d.runCases(n3, gen3, st3, nil)
	s3 := st3.summary()
	s3["wall_s"] = time.Since(t3).Seconds()
	cov["family3_call_graphs"] = s3
	total.merge(st3)

	// ---- family 4: every opcode byte on a stack of exactly d items, d around the overflow and the underflow limit
	t4 := time.Now()
	type f4Item struct {
		p    f4Prog
		ctx  string
		mode string
	}
	var f4items []f4Item
	for c := 0; c < 256; c++ {
		for _, p := range family4Programs(c, thorough) {
			for _, m := range modes {
				for _, ctx := range []string{"direct", "nested", "static"} {
					f4items = append(f4items, f4Item{p, ctx, m})
				}
			}
		}
	}
	gen4 := func(i int) *txCase { return family4Case(f4items[i].p, f4items[i].ctx, f4items[i].mode) }
	determinismProbe([]*txCase{gen4(0), gen4(len(f4items) / 2), gen4(len(f4items) - 1)})
	st4 := newFamStats()
	n4 := len(f4items)
	if !want("4") {
		n4 = 0
	}
	// reference outcome of the stack-growing opcodes by the depth they bring the stack to (called contract, aligned run)
	var gmu sync.Mutex
	growTo := map[string]map[string]int64{}
	lowSide := map[string]map[string]int64{}
	d.observe = func(i int, k *txCase, r *pairResult) {
		it := f4items[i]
		if r.excluded != "" || it.ctx != "direct" || it.mode != "aligned" {
			return
		}
		gmu.Lock()
		defer gmu.Unlock()
		bump := func(m map[string]map[string]int64, key string) {
			if m[key] == nil {
				m[key] = map[string]int64{}
			}
			m[key][r.ref.Class]++
		}
		if it.p.Tail == "keep-top" {
			if stackDelta(it.p.Op) == 1 && opTable[it.p.Op].defined {
				bump(growTo, fmt.Sprint(it.p.Depth+1))
			}
		} else if opTable[it.p.Op].defined {
			switch pops := opTable[it.p.Op].pops; {
			case it.p.Depth < pops:
				bump(lowSide, "fewer-items-than-needed")
			case it.p.Depth == pops:
				bump(lowSide, "exactly-the-items-needed")
			default:
				bump(lowSide, "one-item-more-than-needed")
			}
		}
	}
	d.runCases(n4, gen4, st4, nil)
	d.observe = nil
	s4 := st4.summary()
	s4["opcode_bytes"] = 256
	s4["fillers"] = f4Fills
	s4["depths_before_the_opcode_overflow_side"] = []int{run.Pick(1021, 1015), 1024}
	s4["depths_before_the_opcode_underflow_side"] = "items needed -1, +0, +1"
	if thorough {
		s4["depths_before_the_opcode_underflow_side"] = "0 .. items needed +1"
	}
	s4["reference_class_of_stack_growing_opcodes_by_resulting_depth"] = growTo
	s4["reference_class_by_items_available"] = lowSide
	s4["wall_s"] = time.Since(t4).Seconds()
	cov["family4_stack_depth_boundaries"] = s4
	total.merge(st4)

	// ---- family 5: self-destruct histories inside one transaction
	t5 := time.Now()
	f5Len := run.Pick(4, 6)
	specs5 := family5Specs(f5Len)
	gen5 := func(i int) *txCase { return family5Case(specs5[i/len(modes)], modes[i%len(modes)]) }
	n5 := len(specs5) * len(modes)
	determinismProbe([]*txCase{gen5(0), gen5(n5 / 2), gen5(n5 - 1)})
	st5 := newFamStats()
	if !want("5") {
		n5 = 0
	}
	d.runCases(n5, gen5, st5, nil)
	s5 := st5.summary()
	s5["steps"] = f5Steps
	s5["beneficiaries"] = f5Beneficiaries
	s5["max_steps"] = f5Len
	s5["wall_s"] = time.Since(t5).Seconds()
	cov["family5_selfdestruct_histories"] = s5
	total.merge(st5)

	// ---- family 6: account observers after touch histories inside one transaction
	t6 := time.Now()
	f6Len := run.Pick(3, 4)
	specs6 := family6Specs(f6Len)
	gen6 := func(i int) *txCase { return family6Case(specs6[i/len(modes)], modes[i%len(modes)]) }
	n6 := len(specs6) * len(modes)
	determinismProbe([]*txCase{gen6(0), gen6(n6 / 2), gen6(n6 - 1)})
	st6 := newFamStats()
	if !want("6") {
		n6 = 0
	}
	d.runCases(n6, gen6, st6, nil)
	s6 := st6.summary()
	s6["steps"] = f6Steps
	s6["targets"] = f6Targets
	s6["max_steps"] = f6Len
	s6["wall_s"] = time.Since(t6).Seconds()
	cov["family6_account_observer_histories"] = s6
	total.merge(st6)

	// ---- family 2: every short program
	maxLen := run.Pick(3, 4)
	// thorough tier: the aligned run may use the time up to minute 10, the (smaller) app-config run up to minute 13.5
	var deadline, appDeadline time.Time
	appReduceFrom := 3
	if thorough {
		deadline = start.Add(10 * time.Minute)
		appDeadline = start.Add(13*time.Minute + 30*time.Second)
		appReduceFrom = 1
	}
	if !want("2") {
		maxLen = 0
	} else if v := os.Getenv("C10_F2LEN"); v != "" {
		fmt.Sscan(v, &maxLen)
	}
	reduceFrom := run.Pick(3, 4)

	t2 := time.Now()
	st2 := newFamStats()
	r2 := d.runFamily2("aligned", maxLen, reduceFrom, deadline, st2)
	s2 := st2.summary()
	s2["alphabet"] = len(alphabet)
	s2["tokens_excluded_by_documented_deviation"] = []string{"GAS"}
	s2["programs"] = r2.programs
	s2["max_length_completed"] = r2.maxLenCompleted
	if r2.partialLen > 0 {
		s2["partial_length"] = map[string]int64{"length": int64(r2.partialLen), "programs_done": r2.partialDone, "programs_total": r2.partialTotal}
	}
	s2["wall_s"] = time.Since(t2).Seconds()
	cov["family2_programs"] = s2
	total.merge(st2)

	// family 2 under the application's chain configuration, one token shorter
	t2b := time.Now()
	st2b := newFamStats()
	appLen := maxLen - 1
	if appLen < 0 {
		appLen = 0
	}
	r2b := d.runFamily2("app", appLen, appReduceFrom, appDeadline, st2b)
	s2b := st2b.summary()
	s2b["programs"] = r2b.programs
	s2b["max_length_completed"] = r2b.maxLenCompleted
	s2b["all_six_variants_below_length"] = appReduceFrom
	if r2b.partialLen > 0 {
		s2b["partial_length"] = map[string]int64{"length": int64(r2b.partialLen), "programs_done": r2b.partialDone, "programs_total": r2b.partialTotal}
	}
	s2b["wall_s"] = time.Since(t2b).Seconds()
	cov["family2_programs_app_config"] = s2b
	total.merge(st2b)

	// ---- report
	var keys []string
	for k := range d.findings {
		keys = append(keys, k)
	}
	sort.Strings(keys)
	var flist []map[string]interface{}
	for _, k := range keys {
		f := d.findings[k]
		f.detail = fmt.Sprintf("%d disagreeing cases in this class; smallest: %s", f.cases, f.detail)
		run.Report(f.sig, f.k, f.detail)
		flist = append(flist, map[string]interface{}{"sig": f.sig, "cases": f.cases, "smallest_case": f.k.Label})
	}

	exhaustive := r2.maxLenCompleted == maxLen && r2b.maxLenCompleted == appLen
	cov["evaluations"] = total.Compared
	cov["programs"] = total.Cases                         // transactions enumerated (each has its own byte code / call graph)
	cov["disagreements_checked"] = total.Disagreements    // every disagreement was re-run with instruction tracing to name the culprit
	cov["states"] = len(total.distinct)                   // distinct reference outcome records (post-states incl. return data, logs)
	cov["transitions"] = total.Compared                   // transactions executed on both EVMs and compared
	cov["traces_validated_against_impl"] = total.Compared // every case runs on the real in-tree EVM
	cov["cases_enumerated"] = total.Cases
	cov["cases_excluded"] = total.Excluded
	cov["distinct_nontrivial"] = len(total.distinct)
	cov["outcome_classes"] = total.Classes
	cov["disagreeing_cases"] = total.Disagreements
	cov["disagreement_classes"] = flist
	cov["exhaustive"] = exhaustive
	cov["exhaustive_note"] = "family 1: full operand product for arity <= 3 (quick tier: <= 2), pairwise-covering orthogonal array (169 tuples) + all-equal tuples for arity 4..6 (opcodes listed in family1_opcode_x_operands); family 2: every token sequence up to max_length_completed; family 3: every listed combination; family 4: every (opcode byte, depth, filler, frame kind) combination listed; family 5: every step sequence up to max_steps x beneficiary x victim balance; family 6: every touch sequence up to max_steps x target"
	cov["bounds"] = map[string]interface{}{"family2_max_len": maxLen, "family2_app_config_max_len": appLen, "family2_time_cap_s": 600, "family2_all_six_variants_below_length": reduceFrom, "family4_min_depth_overflow_side": run.Pick(1021, 1015), "family5_max_steps": f5Len, "family6_max_steps": f6Len,
		"work_limit_gas_families_1_3": workLimitDefault, "work_limit_gas_family_2": workLimitShort, "ample_gas_family_3": ampleGas, "ample_gas_families_1_2": ampleGasFlat}
	cov["rule"] = "a case = one transaction (pre-state, callee or creation, call data) executed on the in-tree EVM and on upstream go-ethereum v1.8.27 (Constantinople without Petersburg) in one binary; cases: (1) every opcode byte x boundary operand tuples, executed as the called contract, behind a CALL and behind a STATICCALL, (2) every sequence of <= max_length tokens of a 47-token alphabet between a prologue pushing two words and an epilogue returning memory[0:64], top of stack, MSIZE and keccak(memory), x 3 call data x 2 pre-states (programs of the longest length: only the variants they can observe syntactically - call data variants iff a CALLDATA* token occurs, pre-state variants iff SLOAD/SSTORE/SELFDESTRUCT occurs), (3) caller {CALL,CALLCODE,DELEGATECALL,STATICCALL,CREATE,CREATE2} x value {0,1} x callee {self, two contracts, precompiles 1-8 x 7 inputs, nonexistent, plain account} x 19 callee bodies x 19 inner bodies (depth 3) x caller balance / address collision, plus creation transactions, (4) every opcode byte executed on an operand stack of exactly d items, d = 1021..1024 (thorough 1015..1024: the stack-growing opcodes PUSHn, DUPn and the zero-operand opcodes reach exactly 1022, 1023, 1024 and 1025 items) and d = items needed -1, +0, +1 (thorough 0..items needed +1), the d items produced by d straight-line fillers of 3 kinds (PUSH1 0 / PC / PUSH32 2^256-1; GAS as the gas operand of the CALL family), as the called contract, behind a CALL and behind a STATICCALL, (6) account observers after touch histories inside one transaction: a driver records EXTCODEHASH, EXTCODESIZE and BALANCE of a target {absent, present-but-empty, balance-only, nonce-only, contract, precompile, the driver itself} before and after every step of every sequence of 0..max_steps touch steps {CALL value 0, STATICCALL, CALL value 1, CALL value 1 in a helper frame that REVERTs, a helper SELFDESTRUCTs to the target}, (5) self-destruct histories inside one transaction: a driver contract performs every sequence of 1..max_steps steps {kill = call the victim which SELFDESTRUCTs, kill with value 3, fund the victim with value 5 without running SELFDESTRUCT, kill with value 3 inside a helper frame that then REVERTs} on one victim contract x beneficiary {nonexistent account, plain account, the caller, the victim itself} x initial victim balance {0, 7}, recording after every step the call flag, BALANCE(victim), BALANCE(beneficiary) in its return data and BALANCE(victim) in its storage; each under the in-tree chain configs 'aligned' (all forks at block 0) and 'app' (params.MainnetChainConfig as chain/app/evm uses it); distinct_nontrivial counts distinct reference outcome records (class, return data, logs, self-destructs, accounts/nonces/balances/storage, code length)"
	cov["samples"] = d.samples.List()
	run.Notes = append(run.Notes, fmt.Sprintf("wall: family1 %.1fs family3 %.1fs family4 %.1fs family5 %.1fs family2 %.1fs family2(app) %.1fs", s1["wall_s"], s3["wall_s"], s4["wall_s"], s5["wall_s"], s2["wall_s"], s2b["wall_s"]))
	pprof.StopCPUProfile()
	run.Finish(cov, []string{
		"upstream go-ethereum v1.8.27 core/vm + core/state is the trusted reference",
		"gas is not observable: refund, gas used and the value of the GAS opcode are not part of the outcome record (the property's own exception)",
		"block context fixed (number 300, one coinbase/time/difficulty/blockhash function)",
		"the failure class is one class: kinds of failure (stack, jump, opcode, write protection, gas) are not distinguished",
		"the post-state is read through the StateDB interface after the end-of-transaction clean-up at every pre-state location and every location either EVM wrote; trie commitment is C11's subject",
	})
}
