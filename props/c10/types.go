package main

import (
	"bytes"
	"encoding/hex"
	"encoding/json"
	"fmt"
	"math/big"
	"sort"
)

// ---------------------------------------------------------------- constants of the harness

const (
	ampleGas         = uint64(1) << 40 // gas of the reference / budget of the in-tree EVM where calls nest deeply (family 3): leaves 10^5 gas at depth 1024 under the 63/64 rule
	ampleGasFlat     = uint64(1) << 33 // the same for families 1 and 2 (no deep nesting, arbitrary memory offsets): from 3*2^32 gas on, memoryGasCost of v1.8.27 (both copies) wraps around for 2^37-byte expansions and the process would try to allocate 137 GB
	workLimitDefault = uint64(3000000) // cases doing more work than this on the reference are excluded (families 1 and 3)
	workLimitShort   = uint64(250000)  // the same for family 2, whose loop-free programs need < 10^5
	callBaseGas      = uint64(700)
	ctxGasLimit      = uint64(8000000)
	ctxBlockNumber   = uint64(300)
	ctxTime          = uint64(1500000000)
	ctxDifficulty    = uint64(0x20000)
	maxTraceSteps    = 200000 // steps recorded when the culprit of a disagreement is looked for
)

type address [20]byte

func (a address) MarshalText() ([]byte, error) { return []byte(hex.EncodeToString(a[:])), nil }
func (a *address) UnmarshalText(b []byte) error {
	if len(b) == 0 {
		*a = address{}
		return nil
	}
	d, err := hex.DecodeString(string(b))
	if err != nil || len(d) != 20 {
		return fmt.Errorf("bad address %q", b)
	}
	copy(a[:], d)
	return nil
}

type word [32]byte

func (w word) MarshalText() ([]byte, error) { return []byte(hex.EncodeToString(w[:])), nil }
func (w *word) UnmarshalText(b []byte) error {
	d, err := hex.DecodeString(string(b))
	if err != nil || len(d) != 32 {
		return fmt.Errorf("bad word %q", b)
	}
	copy(w[:], d)
	return nil
}

type hexBytes []byte

func (h hexBytes) MarshalText() ([]byte, error) { return []byte(hex.EncodeToString(h)), nil }
func (h *hexBytes) UnmarshalText(b []byte) error {
	d, err := hex.DecodeString(string(b))
	if err != nil {
		return err
	}
	*h = d
	return nil
}

// addresses of the fixed cast
var (
	addrOrigin   = addrOf(0x0a, 0x01)
	addrCoinbase = addrOf(0x0c, 0x0b)
	addrA        = addrOf(0xa0, 0xaa)
	addrB        = addrOf(0xb0, 0xbb)
	addrC        = addrOf(0xc0, 0xcc)
	addrD        = addrOf(0xd0, 0xdd) // never exists: self-destruct beneficiary
	addrE        = addrOf(0xe0, 0xee) // never exists: callee "nonexistent account"
	addrF        = addrOf(0xf0, 0x0f) // exists, balance only
	addrW        = addrOf(0x70, 0x77) // STATICCALL wrapper
)

func addrOf(hi, lo byte) address {
	var a address
	a[0] = hi
	for i := 1; i < 19; i++ {
		a[i] = byte(0x10 + i)
	}
	a[19] = lo
	return a
}

func hexs(b []byte) string { return hex.EncodeToString(b) }

func bigHex(s string) *big.Int {
	v, ok := new(big.Int).SetString(s, 16)
	if !ok {
		panic("harness: bad number " + s)
	}
	return v
}

func wordU(v uint64) word {
	var w word
	for i := 0; i < 8; i++ {
		w[31-i] = byte(v >> (8 * uint(i)))
	}
	return w
}

func appendLen(b []byte, n int) []byte {
	return append(b, byte(n>>24), byte(n>>16), byte(n>>8), byte(n))
}

func sortAddrs(a []address) {
	sort.Slice(a, func(i, j int) bool { return bytes.Compare(a[i][:], a[j][:]) < 0 })
}

// ---------------------------------------------------------------- case

type slot struct {
	Key word `json:"key"`
	Val word `json:"val"`
}

type account struct {
	Addr    address  `json:"addr"`
	Nonce   uint64   `json:"nonce,omitempty"`
	Balance uint64   `json:"balance,omitempty"`
	Code    hexBytes `json:"code,omitempty"`
	Storage []slot   `json:"storage,omitempty"`
}

// txCase is one concrete transaction on one concrete pre-state: everything
// needed to re-run the case.
type txCase struct {
	Family string            `json:"family"`
	Label  string            `json:"label"`
	Sig    map[string]string `json:"sig"`
	Mode   string            `json:"mode"` // in-tree chain configuration: aligned | app
	Pre    []account         `json:"pre"`
	To     address           `json:"to"`
	Create bool              `json:"create,omitempty"`
	Input  hexBytes          `json:"input"`
	Value  uint64            `json:"value,omitempty"`
	// WorkLimit: the case is excluded when the reference does more than this much
	// gas worth of instruction work (0 = workLimitDefault)
	WorkLimit uint64 `json:"work_limit,omitempty"`
	// Gas: gas of the reference transaction = budget (EVMGasLimit) and gas of the in-tree one (0 = ampleGas)
	Gas uint64 `json:"gas,omitempty"`
}

func (k *txCase) gas() uint64 {
	if k.Gas == 0 {
		return ampleGas
	}
	return k.Gas
}

func (k *txCase) workLimit() uint64 {
	if k.WorkLimit == 0 {
		return workLimitDefault
	}
	return k.WorkLimit
}

// baseKey identifies the pre-state without the contract code.
func (k *txCase) baseKey() string {
	var b []byte
	for _, a := range k.Pre {
		b = append(b, a.Addr[:]...)
		b = appendLen(b, int(a.Nonce))
		b = appendLen(b, int(a.Balance))
		b = append(b, byte(len(a.Storage)))
		for _, s := range a.Storage {
			b = append(b, s.Key[:]...)
			b = append(b, s.Val[:]...)
		}
	}
	return string(b)
}

// preLocations: every account and storage slot of the pre-state.
func (k *txCase) preLocations() *written {
	w := newWritten()
	for _, a := range k.Pre {
		w.addr(a.Addr)
		for _, s := range a.Storage {
			w.slot(a.Addr, s.Key)
		}
	}
	return w
}

// written: a set of accounts and storage slots.
type written struct {
	m map[address]map[word]struct{}
}

func newWritten() *written { return &written{m: map[address]map[word]struct{}{}} }

func (w *written) addr(a address) {
	if _, ok := w.m[a]; !ok {
		w.m[a] = nil
	}
}

func (w *written) slot(a address, k word) {
	s := w.m[a]
	if s == nil {
		s = map[word]struct{}{}
		w.m[a] = s
	}
	s[k] = struct{}{}
}

func (w *written) merge(o *written) {
	for a, s := range o.m {
		w.addr(a)
		for k := range s {
			w.slot(a, k)
		}
	}
}

func (w *written) sortedAddrs() []address {
	l := make([]address, 0, len(w.m))
	for a := range w.m {
		l = append(l, a)
	}
	sortAddrs(l)
	return l
}

func (w *written) sortedSlots(a address) []word {
	s := w.m[a]
	l := make([]word, 0, len(s))
	for k := range s {
		l = append(l, k)
	}
	sort.Slice(l, func(i, j int) bool { return bytes.Compare(l[i][:], l[j][:]) < 0 })
	return l
}

// ---------------------------------------------------------------- outcome

type meter struct {
	Steps     int64  `json:"steps"`
	Work      uint64 `json:"work"`
	Limit     uint64 `json:"-"`
	Starve    uint64 `json:"-"` // a step cheaper than this that fails for gas on the reference = caller-supplied-gas artefact
	MaxDepth  int    `json:"max_depth"`
	Calls     int    `json:"calls"`
	SStores   int    `json:"sstores"`
	OOGFaults int    `json:"oog_faults"`
	Starved   bool   `json:"starved,omitempty"`
	Cancelled bool   `json:"cancelled,omitempty"`
}

type acctOut struct {
	Addr    address
	Nonce   uint64
	Balance string
	Code    string // raw bytes
	Storage string // raw key‖value pairs, sorted by key
	nslots  int
}

// outcome is the canonical outcome record of one side (raw byte strings; render
// makes it readable).
type outcome struct {
	Class    string // success | revert | failure
	Ret      string
	Logs     string
	Suicides string
	State    string
	ErrText  string
	Panic    string
	Meter    meter

	NLogs    int
	suicided []address
	accts    []acctOut
	w        *written
}

// firstDifference names the first field of the record in which the two sides
// differ ("" = equal).  Nothing but the record is compared.
func firstDifference(ref, it *outcome) string {
	switch {
	case ref.Class != it.Class:
		return "class"
	case ref.Ret != it.Ret:
		return "return-data"
	case ref.Logs != it.Logs:
		return "logs"
	case ref.Suicides != it.Suicides:
		return "selfdestructs"
	case ref.State != it.State:
		return "state"
	}
	return ""
}

// render: the record as readable JSON.
func (o *outcome) render() string {
	type acc struct {
		Nonce   uint64            `json:"nonce"`
		Balance string            `json:"balance"`
		Code    string            `json:"code"`
		Storage map[string]string `json:"storage,omitempty"`
	}
	accts := map[string]acc{}
	for _, a := range o.accts {
		x := acc{Nonce: a.Nonce, Balance: a.Balance, Code: hexs([]byte(a.Code))}
		for i := 0; i+64 <= len(a.Storage); i += 64 {
			if x.Storage == nil {
				x.Storage = map[string]string{}
			}
			x.Storage[new(big.Int).SetBytes([]byte(a.Storage[i:i+32])).Text(16)] = new(big.Int).SetBytes([]byte(a.Storage[i+32 : i+64])).Text(16)
		}
		accts[hexs(a.Addr[:])] = x
	}
	var sd []string
	for _, a := range o.suicided {
		sd = append(sd, hexs(a[:]))
	}
	b, _ := json.Marshal(map[string]interface{}{
		"class": o.Class, "return": hexs([]byte(o.Ret)), "logs": hexs([]byte(o.Logs)), "selfdestructs": sd,
		"accounts": accts, "err_text_informational": o.ErrText, "panic": o.Panic, "meter": o.Meter,
	})
	return string(b)
}

// symptom classifies HOW two differing records differ (part of the signature of a
// disagreement, so that different defects reached through the same opcode or
// call shape are told apart).
func symptom(ref, it *outcome) string {
	if ref.Class != it.Class {
		return "class:" + ref.Class + "->" + it.Class
	}
	ra, ia := map[address]acctOut{}, map[address]acctOut{}
	for _, a := range ref.accts {
		ra[a.Addr] = a
	}
	for _, a := range it.accts {
		ia[a.Addr] = a
	}
	for a := range ra {
		if _, ok := ia[a]; !ok {
			return "account-missing-in-tree"
		}
	}
	for a := range ia {
		if _, ok := ra[a]; !ok {
			return "extra-account-in-tree"
		}
	}
	for _, f := range []string{"code", "nonce", "storage", "balance"} {
		for a, x := range ra {
			y := ia[a]
			switch {
			case f == "code" && x.Code != y.Code, f == "nonce" && x.Nonce != y.Nonce,
				f == "storage" && x.Storage != y.Storage, f == "balance" && x.Balance != y.Balance:
				return f
			}
		}
	}
	switch {
	case ref.Logs != it.Logs:
		return "logs"
	case ref.Suicides != it.Suicides:
		return "selfdestructs"
	case ref.Ret != it.Ret:
		return "return-data"
	}
	return "state-encoding"
}

// ---------------------------------------------------------------- naming the culprit of a disagreement

// stepRec: what one side's tracer saw before one instruction (or at a fault).
type stepRec struct {
	Depth int
	PC    uint64
	Op    byte
	Fault bool
	SLen  int
	Top   string
	Mem   uint64
}

func memDigest(b []byte) uint64 {
	h := uint64(14695981039346656037)
	for _, c := range b {
		h ^= uint64(c)
		h *= 1099511628211
	}
	return h ^ uint64(len(b))
}

// culprit compares the two instruction traces of a disagreeing case and names
// the instruction whose effect differs first: (opcode byte, call depth).
// ok=false: the traces are identical (the difference is not visible on the
// stack or in memory).
func culprit(ref, it []stepRec) (op byte, depth int, ok bool) {
	n := len(ref)
	if len(it) < n {
		n = len(it)
	}
	i := 0
	for i < n && ref[i] == it[i] {
		i++
	}
	if i == len(ref) && i == len(it) {
		return 0, 0, false
	}
	if i < n {
		a, b := ref[i], it[i]
		if a.Depth == b.Depth && a.PC == b.PC && a.Op == b.Op {
			// (a faulting step is captured before its memory expansion, an accepted one after it:
			// memory is only comparable between two steps of the same kind)
			if a.SLen == b.SLen && a.Top == b.Top && (a.Fault != b.Fault || a.Mem == b.Mem) {
				return a.Op, a.Depth, true // same machine state, but only one side accepts the instruction
			}
			// same instruction about to run on different data: blame the previous instruction of this frame
			for j := i - 1; j >= 0; j-- {
				if ref[j].Depth == a.Depth {
					return ref[j].Op, ref[j].Depth, true
				}
				if ref[j].Depth < a.Depth {
					return ref[j].Op, ref[j].Depth, true // the frame started differently: blame the instruction that entered it
				}
			}
			return a.Op, a.Depth, true
		}
	}
	// control flow differs (or one side stopped): blame the last common step
	if i > 0 {
		return ref[i-1].Op, ref[i-1].Depth, true
	}
	if len(ref) > 0 {
		return ref[0].Op, ref[0].Depth, true
	}
	if len(it) > 0 {
		return it[0].Op, it[0].Depth, true
	}
	return 0, 0, false
}
