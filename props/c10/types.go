package main

import (
	"encoding/hex"
	"math/big"
	"strconv"
)

// ---------------------------------------------------------------- constants of the harness

const (
	ampleGas         = uint64(1) << 40             // gas of the reference / budget of the in-tree EVM
	workLimitDefault = uint64(10000000)            // cases doing more work than this on the reference are excluded (families 1 and 3)
	workLimitShort   = uint64(250000)              // the same for family 2, whose loop-free programs need < 10^5
	starveThreshold  = ampleGas - workLimitDefault // a step cheaper than this that fails for gas on the reference = caller-supplied-gas artefact
	callBaseGas      = uint64(700)
	ctxGasLimit      = uint64(8000000)
	ctxBlockNumber   = uint64(300)
	ctxTime          = uint64(1500000000)
	ctxDifficulty    = uint64(0x20000)
)

// addresses of the fixed cast
var (
	addrOrigin   = addrOf(0x0a, 0x01)
	addrCoinbase = addrOf(0x0c, 0x0b)
	addrA        = addrOf(0xa0, 0xaa)
	addrB        = addrOf(0xb0, 0xbb)
	addrC        = addrOf(0xc0, 0xcc)
	addrD        = addrOf(0xd0, 0xdd) // never exists: self-destruct beneficiary
	addrE        = addrOf(0xe0, 0xee) // never exists: callee "empty account"
	addrF        = addrOf(0xf0, 0x0f) // exists, balance only
	addrW        = addrOf(0x70, 0x77) // STATICCALL wrapper
)

func addrOf(hi, lo byte) [20]byte {
	var a [20]byte
	a[0] = hi
	for i := 1; i < 19; i++ {
		a[i] = byte(0x10 + i)
	}
	a[19] = lo
	return a
}

func hexAddr(a [20]byte) string { return hex.EncodeToString(a[:]) }

func unhex(s string) []byte {
	b, err := hex.DecodeString(s)
	if err != nil {
		panic("harness: bad hex " + s)
	}
	return b
}

func hexs(b []byte) string { return hex.EncodeToString(b) }

func utoa(u uint64) string { return strconv.FormatUint(u, 10) }

func bigHex(s string) *big.Int {
	v, ok := new(big.Int).SetString(s, 16)
	if !ok {
		panic("harness: bad number " + s)
	}
	return v
}

// ---------------------------------------------------------------- case and outcome

type account struct {
	Addr    string      `json:"addr"`
	Nonce   uint64      `json:"nonce,omitempty"`
	Balance uint64      `json:"balance,omitempty"`
	Code    string      `json:"code,omitempty"`
	Storage [][2]string `json:"storage,omitempty"`
}

// txCase is one concrete transaction on one concrete pre-state: everything
// needed to re-run the case.
type txCase struct {
	Family string            `json:"family"`
	Label  string            `json:"label"`
	Sig    map[string]string `json:"sig"`
	Mode   string            `json:"mode"` // in-tree chain configuration: aligned | app
	Pre    []account         `json:"pre"`
	To     string            `json:"to,omitempty"`
	Create bool              `json:"create,omitempty"`
	Input  string            `json:"input"`
	Value  uint64            `json:"value,omitempty"`
	// WorkLimit: the case is excluded when the reference does more than this much
	// gas worth of instruction work (0 = workLimitDefault)
	WorkLimit uint64 `json:"work_limit,omitempty"`
}

func (k *txCase) workLimit() uint64 {
	if k.WorkLimit == 0 {
		return workLimitDefault
	}
	return k.WorkLimit
}

func (k *txCase) Origin() string { return hexAddr(addrOrigin) }

type meter struct {
	Steps     int64  `json:"steps"`
	Work      uint64 `json:"work"`
	Limit     uint64 `json:"-"`
	MaxDepth  int    `json:"max_depth"`
	Calls     int    `json:"calls"`
	SStores   int    `json:"sstores"`
	OOGFaults int    `json:"oog_faults"`
	Starved   bool   `json:"starved,omitempty"`
	Cancelled bool   `json:"cancelled,omitempty"`
}

// outcome is the canonical outcome record of one side.
type outcome struct {
	Class    string `json:"class"` // success | revert | failure
	Ret      string `json:"return"`
	Logs     string `json:"logs"`
	Suicides string `json:"selfdestructs"`
	State    string `json:"state"`
	ErrText  string `json:"err_text_informational,omitempty"`
	Panic    string `json:"panic,omitempty"`
	Meter    meter  `json:"meter"`

	NLogs       int `json:"-"`
	stateNoCode string
	accts       []acctOut
}

type acctOut struct {
	Addr, Nonce, Balance, Code, Storage string
}

// symptom classifies HOW two differing records differ (part of the signature of a
// disagreement, so that different defects reached through the same opcode or
// call shape are told apart).
func symptom(ref, it *outcome) string {
	if ref.Class != it.Class {
		return "class:" + ref.Class + "->" + it.Class
	}
	ra, ia := map[string]acctOut{}, map[string]acctOut{}
	for _, a := range ref.accts {
		ra[a.Addr] = a
	}
	for _, a := range it.accts {
		ia[a.Addr] = a
	}
	for a := range ra {
		if _, ok := ia[a]; !ok {
			return "account-missing-in-tree"
		}
	}
	for a := range ia {
		if _, ok := ra[a]; !ok {
			return "extra-account-in-tree"
		}
	}
	for _, f := range []string{"code", "nonce", "storage", "balance"} {
		for a, x := range ra {
			y := ia[a]
			switch {
			case f == "code" && x.Code != y.Code, f == "nonce" && x.Nonce != y.Nonce,
				f == "storage" && x.Storage != y.Storage, f == "balance" && x.Balance != y.Balance:
				return f
			}
		}
	}
	switch {
	case ref.Logs != it.Logs:
		return "logs"
	case ref.Suicides != it.Suicides:
		return "selfdestructs"
	case ref.Ret != it.Ret:
		return "return-data"
	}
	return "state-text"
}

// firstDifference names the first field of the record in which the two sides
// differ ("" = equal).  Nothing but the record is compared.
func firstDifference(ref, it *outcome) string {
	switch {
	case ref.Class != it.Class:
		return "class"
	case ref.Ret != it.Ret:
		return "return-data"
	case ref.Logs != it.Logs:
		return "logs"
	case ref.Suicides != it.Suicides:
		return "selfdestructs"
	case ref.State != it.State:
		return "state"
	}
	return ""
}
