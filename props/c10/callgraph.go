package main

import (
	"fmt"
	"math/big"

	refcommon "github.com/ethereum/go-ethereum/common"
	refcrypto "github.com/ethereum/go-ethereum/crypto"
	refbn256 "github.com/ethereum/go-ethereum/crypto/bn256"
)

// ---------------------------------------------------------------- callee bodies

// childInit: init code of the contracts created by the create bodies: writes a
// storage slot and deploys 5 bytes of runtime code (or none).
func childInit(emptyRuntime bool) []byte {
	a := newAsm()
	a.pushU(0x2a).pushU(0).op(opSSTORE)
	if emptyRuntime {
		a.pushU(0).pushU(0).op(opRETURN)
		return a.bytes()
	}
	a.pushBytes([]byte{0x60, 0x01, 0x60, 0x00, 0xf3}).pushU(0).op(opMSTORE)
	a.pushU(5).pushU(27).op(opRETURN)
	return a.bytes()
}

var plainBodies = []string{"store", "log", "revert-data", "return-ctx", "selfdestruct-fresh", "selfdestruct-self",
	"reenter", "loop", "create", "create-empty-code", "create2", "invalid", "returndatacopy-oob", "returndatasize-at-entry"}

var fwdBodies = []string{"fwd-call", "fwd-call-value", "fwd-callcode", "fwd-delegatecall", "fwd-staticcall", "fwd-call-then-store", "fwd-call-copy-all", "fwd-call-after-identity"}

func isFwd(b string) bool { return len(b) > 4 && b[:4] == "fwd-" }

func bodyCode(name string, next address) []byte {
	a := newAsm()
	switch name {
	case "store":
		a.pushU(0xaa).pushU(1).op(opSSTORE)
		a.op(opCALLER).pushU(2).op(opSSTORE)
		a.op(opADDRESS).pushU(0).op(opMSTORE)
		a.pushU(0x20).pushU(0).op(opRETURN)
	case "log":
		a.op(opCALLVALUE).pushU(0).op(opMSTORE)
		a.op(opADDRESS, opCALLER).pushU(0x20).pushU(0).op(opLOG2)
		a.op(opSTOP)
	case "revert-data":
		a.pushU(0xbb).pushU(1).op(opSSTORE)
		a.pushU(0xdead).pushU(0).op(opMSTORE)
		a.pushU(0x20).pushU(0).op(opREVERT)
	case "return-ctx":
		a.op(opCALLER).pushU(0).op(opMSTORE)
		a.op(opADDRESS).pushU(0x20).op(opMSTORE)
		a.op(opCALLVALUE).pushU(0x40).op(opMSTORE)
		a.op(opCALLDATASIZE).pushU(0x60).op(opMSTORE)
		a.pushU(0x80).pushU(0).op(opRETURN)
	case "selfdestruct-fresh":
		a.pushAddr(addrD).op(opSELFDESTRUCT)
	case "selfdestruct-self":
		a.op(opADDRESS, opSELFDESTRUCT)
	case "reenter":
		a.pushU(0x40).pushU(0x40).pushU(0).pushU(0).pushU(0).op(opCALLER, opGAS, opCALL)
		relayReturn(a)
	case "loop":
		a.op(opJUMPDEST).pushU(0).op(opJUMP)
	case "create", "create-empty-code", "create2":
		init := childInit(name == "create-empty-code")
		a.pushBytes(init).pushU(0).op(opMSTORE)
		if name == "create2" {
			a.pushU(7)
		}
		a.pushU(uint64(len(init))).pushU(uint64(32 - len(init))).pushU(0)
		if name == "create2" {
			a.op(opCREATE2)
		} else {
			a.op(opCREATE)
		}
		a.pushU(0).op(opMSTORE)
		a.pushU(0x20).pushU(0).op(opRETURN)
	case "invalid":
		a.pushU(0xcc).pushU(1).op(opSSTORE)
		a.op(opINVALID)
	case "returndatasize-at-entry":
		// a fresh frame starts with an empty return-data buffer, whatever its caller called before
		a.op(opRETURNDATASIZE).op(opDUP1).pushU(3).op(opSSTORE)
		a.pushU(0).op(opMSTORE)
		a.pushU(0x20).pushU(0).op(opRETURN)
	case "returndatacopy-oob":
		a.pushU(0x20).pushU(0).pushU(0).op(opRETURNDATACOPY)
		a.op(opSTOP)
	case "fwd-call":
		return forwarder(opCALL, 0, next, "")
	case "fwd-call-value":
		return forwarder(opCALL, 1, next, "")
	case "fwd-callcode":
		return forwarder(opCALLCODE, 0, next, "")
	case "fwd-delegatecall":
		return forwarder(opDELEGATECALL, 0, next, "")
	case "fwd-staticcall":
		return forwarder(opSTATICCALL, 0, next, "")
	case "fwd-call-then-store":
		return forwarder(opCALL, 0, next, "store-after")
	case "fwd-call-copy-all":
		return forwarder(opCALL, 0, next, "copy-all")
	case "fwd-call-after-identity":
		return forwarder(opCALL, 0, next, "after-identity")
	default:
		panic("harness: unknown body " + name)
	}
	return a.bytes()
}

// ---------------------------------------------------------------- caller

var outAreaFill = bigHex("eeeeeeeeeeeeeeeeeeeeeeeeeeeeeeeeeeeeeeeeeeeeeeeeeeeeeeeeeeeeeeeeee"[:64])

// callerCode: contract A.  Performs ONE call/create and makes the result
// observable: storage[0x10] = result word; returns result ‖ RETURNDATASIZE ‖
// the 128-byte output area of the call (pre-filled with 0xee).
func callerCode(op int, value uint64, target address, init []byte) []byte {
	a := newAsm()
	switch op {
	case opCREATE, opCREATE2:
		a.pushU(uint64(len(init))).pushLabel("blob").pushU(0x300).op(opCODECOPY)
		if op == opCREATE2 {
			a.pushU(0x5a17)
		}
		a.pushU(uint64(len(init))).pushU(0x300).pushU(value).op(byte(op))
	default:
		a.op(opCALLDATASIZE).pushU(0).pushU(0x300).op(opCALLDATACOPY)
		for i := uint64(0); i < 4; i++ {
			a.push32(outAreaFill).pushU(0x200 + 32*i).op(opMSTORE)
		}
		a.pushU(0x80).pushU(0x200).op(opCALLDATASIZE).pushU(0x300)
		if op == opCALL || op == opCALLCODE {
			a.pushU(value)
		}
		a.pushAddr(target).op(opGAS, byte(op))
	}
	// storage[0x10] = result; return result ‖ RETURNDATASIZE ‖ output area (fixed size)
	a.op(opDUP1).pushU(0x10).op(opSSTORE)
	a.pushU(0x1c0).op(opMSTORE)
	a.op(opRETURNDATASIZE).pushU(0x1e0).op(opMSTORE)
	a.pushU(0xc0).pushU(0x1c0).op(opRETURN)
	if op == opCREATE || op == opCREATE2 {
		// the init code blob sits behind the code; "blob" must not be a JUMPDEST: patch by hand
		code := a.b
		pos := len(code)
		for p, l := range a.fixups {
			if l == "blob" {
				code[p] = byte(pos >> 8)
				code[p+1] = byte(pos)
			}
		}
		return append(append([]byte(nil), code...), init...)
	}
	return a.bytes()
}

// ---------------------------------------------------------------- call data for precompiles

type namedData struct {
	name string
	data []byte
}

func pad32(b []byte) []byte {
	o := make([]byte, 32)
	copy(o[32-len(b):], b)
	return o
}

func precompileInputs() []namedData {
	var out []namedData
	out = append(out, namedData{"zeros128", make([]byte, 128)})
	ff := make([]byte, 128)
	for i := range ff {
		ff[i] = 0xff
	}
	out = append(out, namedData{"ff128", ff})
	// a genuine signature for ECRECOVER
	key, err := refcrypto.ToECDSA(pad32([]byte{0x42, 0x17}))
	if err != nil {
		panic("harness: key: " + err.Error())
	}
	h := refcrypto.Keccak256([]byte("c10"))
	sig, err := refcrypto.Sign(h, key)
	if err != nil {
		panic("harness: sign: " + err.Error())
	}
	ec := append([]byte{}, h...)
	ec = append(ec, pad32([]byte{sig[64] + 27})...)
	ec = append(ec, sig[:64]...)
	out = append(out, namedData{"ecrecover-valid", ec})
	// bn256: generator + generator (valid for ADD; for MUL: generator × 1... the third word is the scalar)
	g1 := new(refbn256.G1).ScalarBaseMult(big.NewInt(1)).Marshal()
	out = append(out, namedData{"bn256-g1-g1", append(append([]byte{}, g1...), g1...)})
	// modexp: 3^5 mod 7 with 1-byte operands
	me := append(append(append([]byte{}, pad32([]byte{1})...), pad32([]byte{1})...), pad32([]byte{1})...)
	me = append(me, 3, 5, 7)
	out = append(out, namedData{"modexp-3-5-7", me})
	// pairing: e(P,Q)·e(−P,Q) = 1
	g2 := new(refbn256.G2).ScalarBaseMult(big.NewInt(1)).Marshal()
	neg := new(refbn256.G1).Neg(new(refbn256.G1).ScalarBaseMult(big.NewInt(1))).Marshal()
	pr := append(append(append(append([]byte{}, g1...), g2...), neg...), g2...)
	out = append(out, namedData{"pairing-true", pr})
	out = append(out, namedData{"pairing-one-pair", append(append([]byte{}, g1...), g2...)})
	return out
}

// ---------------------------------------------------------------- the cases

type f3Spec struct {
	Op       int
	Value    uint64
	Target   string // A | B | C | P1..P8 | E | F | - (create)
	BodyB    string // body of B (or init code of the created contract)
	BodyC    string
	Prestate string // rich | poor | collide
	Data     namedData
}

func yesno(b bool) string {
	if b {
		return "yes"
	}
	return "no"
}

func precompileAddr(n int) address {
	var a address
	a[19] = byte(n)
	return a
}

func targetAddr(t string) address {
	switch t {
	case "A":
		return addrA
	case "B":
		return addrB
	case "C":
		return addrC
	case "E":
		return addrE
	case "F":
		return addrF
	}
	var n int
	fmt.Sscanf(t, "P%d", &n)
	return precompileAddr(n)
}

func family3Case(s f3Spec, mode string) *txCase {
	k := &txCase{Family: "callgraph", Mode: mode, Input: s.Data.data, To: addrA}
	bodyB, bodyC := s.BodyB, s.BodyC
	if bodyB == "" {
		bodyB = "return-ctx"
	}
	if bodyC == "" {
		bodyC = "return-ctx"
	}
	var init []byte
	isCreate := s.Op == opCREATE || s.Op == opCREATE2
	if isCreate {
		init = bodyCode(bodyB, addrC) // a created contract that forwards, forwards to C
	}
	codeA := callerCode(s.Op, s.Value, targetAddr(s.Target), init)
	balA := uint64(10)
	if s.Prestate == "poor" {
		balA = 0
	}
	k.Pre = []account{
		{Addr: addrOrigin, Balance: 1000000, Nonce: 5},
		{Addr: addrA, Balance: balA, Nonce: 1, Code: codeA, Storage: []slot{{wordU(1), wordU(0x11)}}},
		{Addr: addrB, Balance: 5, Nonce: 1, Code: bodyCode(bodyB, addrC), Storage: []slot{{wordU(1), wordU(0x22)}}},
		{Addr: addrC, Balance: 5, Nonce: 1, Code: bodyCode(bodyC, addrF), Storage: []slot{{wordU(1), wordU(0x33)}}},
		{Addr: addrF, Balance: 3},
	}
	if s.Prestate == "collide" {
		var at refcommon.Address
		if s.Op == opCREATE {
			at = refcrypto.CreateAddress(refcommon.BytesToAddress(addrA[:]), 1)
		} else {
			var salt [32]byte
			salt[30], salt[31] = 0x5a, 0x17
			at = refcrypto.CreateAddress2(refcommon.BytesToAddress(addrA[:]), salt, refcrypto.Keccak256(init))
		}
		k.Pre = append(k.Pre, account{Addr: address(at), Nonce: 1, Balance: 2})
	}
	// signature: the leaf behaviour of the call chain, the instruction that enters
	// the leaf frame, the depth of the leaf frame and whether a STATICCALL is on the way
	leaf, via, depth, static := "", opTable[s.Op].name, 2, s.Op == opSTATICCALL
	switch {
	case isCreate || s.Target == "B":
		leaf = s.BodyB
		if isFwd(s.BodyB) {
			leaf, depth = s.BodyC, 3
			via = map[string]string{"fwd-call": "CALL", "fwd-call-value": "CALL", "fwd-callcode": "CALLCODE", "fwd-delegatecall": "DELEGATECALL",
				"fwd-staticcall": "STATICCALL", "fwd-call-then-store": "CALL", "fwd-call-copy-all": "CALL", "fwd-call-after-identity": "CALL"}[s.BodyB]
			if s.BodyB == "fwd-staticcall" {
				static = true
			}
			if s.BodyB == "fwd-call-then-store" {
				leaf = s.BodyC + "+store-after"
			}
		}
	case s.Target == "C":
		leaf = s.BodyC
	case s.Target == "A":
		leaf = "self-recursion"
	case s.Target == "E":
		leaf = "nonexistent-account"
	case s.Target == "F":
		leaf = "plain-account"
	default:
		leaf = "precompile-" + s.Target[1:]
	}
	k.Label = fmt.Sprintf("A: %s value=%d -> %s; B=%s C=%s; prestate=%s data=%s", opTable[s.Op].name, s.Value, s.Target, s.BodyB, s.BodyC, s.Prestate, s.Data.name)
	k.Sig = map[string]string{"family": "callgraph", "config": mode, "op": opTable[s.Op].name, "via": via, "leaf": leaf, "depth": fmt.Sprint(depth), "static": yesno(static)}
	return k
}

func family3Specs() []f3Spec {
	var out []f3Spec
	pre := precompileInputs()
	generic := []namedData{{"empty", nil}, {"selector+word", calldataPattern[:36]}}
	type ov struct {
		op    int
		value uint64
	}
	calls := []ov{{opCALL, 0}, {opCALL, 1}, {opCALLCODE, 0}, {opCALLCODE, 1}, {opDELEGATECALL, 0}, {opSTATICCALL, 0}}
	creates := []ov{{opCREATE, 0}, {opCREATE, 1}, {opCREATE2, 0}, {opCREATE2, 1}}
	allBodies := append(append([]string{}, plainBodies...), fwdBodies...)
	for _, c := range calls {
		for _, ps := range []string{"rich", "poor"} {
			if ps == "poor" && c.value == 0 {
				continue // the caller's balance only matters when value is sent
			}
			// contracts
			for _, d := range generic {
				out = append(out, f3Spec{Op: c.op, Value: c.value, Target: "A", Prestate: ps, Data: d})
				for _, b := range allBodies {
					if !isFwd(b) {
						out = append(out, f3Spec{Op: c.op, Value: c.value, Target: "B", BodyB: b, Prestate: ps, Data: d})
						out = append(out, f3Spec{Op: c.op, Value: c.value, Target: "C", BodyC: b, Prestate: ps, Data: d})
						continue
					}
					for _, b2 := range allBodies {
						out = append(out, f3Spec{Op: c.op, Value: c.value, Target: "B", BodyB: b, BodyC: b2, Prestate: ps, Data: d})
					}
				}
			}
			// precompiles, the non-existent account, the plain account
			for _, d := range pre {
				for n := 1; n <= 8; n++ {
					out = append(out, f3Spec{Op: c.op, Value: c.value, Target: fmt.Sprintf("P%d", n), Prestate: ps, Data: d})
				}
			}
			for _, d := range generic {
				out = append(out, f3Spec{Op: c.op, Value: c.value, Target: "E", Prestate: ps, Data: d})
				out = append(out, f3Spec{Op: c.op, Value: c.value, Target: "F", Prestate: ps, Data: d})
			}
		}
	}
	for _, c := range creates {
		for _, ps := range []string{"rich", "poor", "collide"} {
			if ps == "poor" && c.value == 0 {
				continue
			}
			for _, b := range allBodies {
				if !isFwd(b) {
					out = append(out, f3Spec{Op: c.op, Value: c.value, Target: "-", BodyB: b, Prestate: ps, Data: generic[1]})
					continue
				}
				if ps == "collide" {
					continue
				}
				for _, b2 := range allBodies {
					out = append(out, f3Spec{Op: c.op, Value: c.value, Target: "-", BodyB: b, BodyC: b2, Prestate: ps, Data: generic[1]})
				}
			}
		}
	}
	return out
}

// top-level creations: every body as the init code of a creation transaction
func family3TopCreates(mode string) []*txCase {
	var out []*txCase
	for _, b := range append(append([]string{}, plainBodies...), fwdBodies...) {
		for _, v := range []uint64{0, 1} {
			k := &txCase{Family: "callgraph", Mode: mode, Create: true, Input: bodyCode(b, addrC), Value: v}
			k.Pre = []account{
				{Addr: addrOrigin, Balance: 1000000, Nonce: 5},
				{Addr: addrC, Balance: 5, Nonce: 1, Code: bodyCode("return-ctx", addrF)},
			}
			k.Label = fmt.Sprintf("creation transaction, init code = %s, value %d", b, v)
			k.Sig = map[string]string{"family": "callgraph", "config": mode, "op": "TX-CREATE", "via": "TX-CREATE", "leaf": b, "depth": "1", "static": "no"}
			out = append(out, k)
		}
	}
	return out
}
