package main

import (
	"fmt"
	"math/big"
	"strings"
)

// ---------------------------------------------------------------- tiny assembler

const (
	opSTOP           = 0x00
	opADD            = 0x01
	opMUL            = 0x02
	opSUB            = 0x03
	opDIV            = 0x04
	opSDIV           = 0x05
	opMOD            = 0x06
	opEXP            = 0x0a
	opSIGNEXTEND     = 0x0b
	opLT             = 0x10
	opEQ             = 0x14
	opISZERO         = 0x15
	opAND            = 0x16
	opNOT            = 0x19
	opBYTE           = 0x1a
	opSHL            = 0x1b
	opSHR            = 0x1c
	opSAR            = 0x1d
	opSHA3           = 0x20
	opADDRESS        = 0x30
	opORIGIN         = 0x32
	opCALLER         = 0x33
	opCALLVALUE      = 0x34
	opCALLDATALOAD   = 0x35
	opCALLDATASIZE   = 0x36
	opCALLDATACOPY   = 0x37
	opCODECOPY       = 0x39
	opRETURNDATASIZE = 0x3d
	opRETURNDATACOPY = 0x3e
	opPOP            = 0x50
	opMLOAD          = 0x51
	opMSTORE         = 0x52
	opMSTORE8        = 0x53
	opSLOAD          = 0x54
	opSSTORE         = 0x55
	opJUMP           = 0x56
	opJUMPI          = 0x57
	opPC             = 0x58
	opMSIZE          = 0x59
	opGAS            = 0x5a
	opJUMPDEST       = 0x5b
	opPUSH1          = 0x60
	opPUSH2          = 0x61
	opPUSH20         = 0x73
	opPUSH32         = 0x7f
	opDUP1           = 0x80
	opSWAP1          = 0x90
	opLOG0           = 0xa0
	opLOG1           = 0xa1
	opLOG2           = 0xa2
	opCREATE         = 0xf0
	opCALL           = 0xf1
	opCALLCODE       = 0xf2
	opRETURN         = 0xf3
	opDELEGATECALL   = 0xf4
	opCREATE2        = 0xf5
	opSTATICCALL     = 0xfa
	opREVERT         = 0xfd
	opINVALID        = 0xfe
	opSELFDESTRUCT   = 0xff
)

type asm struct {
	b      []byte
	labels map[string]int
	fixups map[int]string
}

func newAsm() *asm { return &asm{labels: map[string]int{}, fixups: map[int]string{}} }

func (a *asm) op(ops ...byte) *asm { a.b = append(a.b, ops...); return a }

// push emits the shortest PUSH for v.
func (a *asm) push(v *big.Int) *asm {
	b := v.Bytes()
	if len(b) == 0 {
		b = []byte{0}
	}
	if len(b) > 32 {
		panic("harness: push too wide")
	}
	a.b = append(a.b, byte(opPUSH1+len(b)-1))
	a.b = append(a.b, b...)
	return a
}

func (a *asm) pushU(v uint64) *asm { return a.push(new(big.Int).SetUint64(v)) }

func (a *asm) push32(v *big.Int) *asm {
	var w [32]byte
	b := v.Bytes()
	copy(w[32-len(b):], b)
	a.b = append(a.b, opPUSH32)
	a.b = append(a.b, w[:]...)
	return a
}

func (a *asm) pushAddr(ad address) *asm {
	a.b = append(a.b, opPUSH20)
	a.b = append(a.b, ad[:]...)
	return a
}

func (a *asm) pushBytes(b []byte) *asm {
	if len(b) == 0 || len(b) > 32 {
		panic("harness: pushBytes width")
	}
	a.b = append(a.b, byte(opPUSH1+len(b)-1))
	a.b = append(a.b, b...)
	return a
}

func (a *asm) pushLabel(l string) *asm {
	a.b = append(a.b, opPUSH2, 0, 0)
	a.fixups[len(a.b)-2] = l
	return a
}

func (a *asm) label(l string) *asm { a.labels[l] = len(a.b); a.b = append(a.b, opJUMPDEST); return a }

func (a *asm) pc() int { return len(a.b) }

func (a *asm) bytes() []byte {
	out := append([]byte(nil), a.b...)
	for pos, l := range a.fixups {
		t, ok := a.labels[l]
		if !ok {
			panic("harness: undefined label " + l)
		}
		out[pos] = byte(t >> 8)
		out[pos+1] = byte(t)
	}
	return out
}

// ---------------------------------------------------------------- opcode table (Yellow Paper, Constantinople)

type opInfo struct {
	name    string
	pops    int
	pushes  int
	defined bool
}

var opTable [256]opInfo

func init() {
	def := func(c int, n string, pops, pushes int) { opTable[c] = opInfo{n, pops, pushes, true} }
	for c := 0; c < 256; c++ {
		opTable[c] = opInfo{name: fmt.Sprintf("UNDEFINED_%02x", c)}
	}
	def(0x00, "STOP", 0, 0)
	for i, n := range []string{"ADD", "MUL", "SUB", "DIV", "SDIV", "MOD", "SMOD"} {
		def(0x01+i, n, 2, 1)
	}
	def(0x08, "ADDMOD", 3, 1)
	def(0x09, "MULMOD", 3, 1)
	def(0x0a, "EXP", 2, 1)
	def(0x0b, "SIGNEXTEND", 2, 1)
	for i, n := range []string{"LT", "GT", "SLT", "SGT", "EQ"} {
		def(0x10+i, n, 2, 1)
	}
	def(0x15, "ISZERO", 1, 1)
	def(0x16, "AND", 2, 1)
	def(0x17, "OR", 2, 1)
	def(0x18, "XOR", 2, 1)
	def(0x19, "NOT", 1, 1)
	def(0x1a, "BYTE", 2, 1)
	def(0x1b, "SHL", 2, 1)
	def(0x1c, "SHR", 2, 1)
	def(0x1d, "SAR", 2, 1)
	def(0x20, "SHA3", 2, 1)
	def(0x30, "ADDRESS", 0, 1)
	def(0x31, "BALANCE", 1, 1)
	def(0x32, "ORIGIN", 0, 1)
	def(0x33, "CALLER", 0, 1)
	def(0x34, "CALLVALUE", 0, 1)
	def(0x35, "CALLDATALOAD", 1, 1)
	def(0x36, "CALLDATASIZE", 0, 1)
	def(0x37, "CALLDATACOPY", 3, 0)
	def(0x38, "CODESIZE", 0, 1)
	def(0x39, "CODECOPY", 3, 0)
	def(0x3a, "GASPRICE", 0, 1)
	def(0x3b, "EXTCODESIZE", 1, 1)
	def(0x3c, "EXTCODECOPY", 4, 0)
	def(0x3d, "RETURNDATASIZE", 0, 1)
	def(0x3e, "RETURNDATACOPY", 3, 0)
	def(0x3f, "EXTCODEHASH", 1, 1)
	def(0x40, "BLOCKHASH", 1, 1)
	def(0x41, "COINBASE", 0, 1)
	def(0x42, "TIMESTAMP", 0, 1)
	def(0x43, "NUMBER", 0, 1)
	def(0x44, "DIFFICULTY", 0, 1)
	def(0x45, "GASLIMIT", 0, 1)
	def(0x50, "POP", 1, 0)
	def(0x51, "MLOAD", 1, 1)
	def(0x52, "MSTORE", 2, 0)
	def(0x53, "MSTORE8", 2, 0)
	def(0x54, "SLOAD", 1, 1)
	def(0x55, "SSTORE", 2, 0)
	def(0x56, "JUMP", 1, 0)
	def(0x57, "JUMPI", 2, 0)
	def(0x58, "PC", 0, 1)
	def(0x59, "MSIZE", 0, 1)
	def(0x5a, "GAS", 0, 1)
	def(0x5b, "JUMPDEST", 0, 0)
	for i := 0; i < 32; i++ {
		def(0x60+i, fmt.Sprintf("PUSH%d", i+1), 0, 1)
	}
	for i := 0; i < 16; i++ {
		def(0x80+i, fmt.Sprintf("DUP%d", i+1), i+1, i+2)
		def(0x90+i, fmt.Sprintf("SWAP%d", i+1), i+2, i+2)
	}
	for i := 0; i < 5; i++ {
		def(0xa0+i, fmt.Sprintf("LOG%d", i), 2+i, 0)
	}
	def(0xf0, "CREATE", 3, 1)
	def(0xf1, "CALL", 7, 1)
	def(0xf2, "CALLCODE", 7, 1)
	def(0xf3, "RETURN", 2, 0)
	def(0xf4, "DELEGATECALL", 6, 1)
	def(0xf5, "CREATE2", 4, 1)
	def(0xfa, "STATICCALL", 6, 1)
	def(0xfd, "REVERT", 2, 0)
	def(0xfe, "INVALID", 0, 0)
	def(0xff, "SELFDESTRUCT", 1, 0)
}

func isCallFamily(c int) bool {
	return c == opCALL || c == opCALLCODE || c == opDELEGATECALL || c == opSTATICCALL
}

// ---------------------------------------------------------------- shared fragments

var (
	two256   = new(big.Int).Lsh(big.NewInt(1), 256)
	maxU256  = new(big.Int).Sub(two256, big.NewInt(1))
	two255   = new(big.Int).Lsh(big.NewInt(1), 255)
	max160   = new(big.Int).Sub(new(big.Int).Lsh(big.NewInt(1), 160), big.NewInt(1))
	sentinel = bigHex("5e5e5e5e5e5e5e5e5e5e5e5e5e5e5e5e5e5e5e5e5e5e5e5e5e5e5e5e5e5e5e5e")
	// the two words family-2 programs find on the stack: S1 (top) positive, S2 negative as a signed word
	sentS1 = bigHex("0102030405060708090a0b0c0d0e0f101112131415161718191a1b1c1d1e1f20")
	sentS2 = bigHex("fffefdfcfbfaf9f8f7f6f5f4f3f2f1f0efeeedecebeae9e8e7e6e5e4e3e2e1e0")
)

func addrBig(a address) *big.Int { return new(big.Int).SetBytes(a[:]) }

// epilogue makes the machine state observable: it returns
// memory[0:64] ‖ top of stack ‖ MSIZE ‖ keccak(memory[0:MSIZE]).
func epilogue(a *asm) {
	a.op(opJUMPDEST)
	a.op(opMSIZE)                       // ms top
	a.op(opDUP1).pushU(0).op(opSHA3)    // h ms top
	a.pushU(0x80).op(opMSTORE)          // mem[0x80]=h
	a.pushU(0x60).op(opMSTORE)          // mem[0x60]=ms
	a.pushU(0x40).op(opMSTORE)          // mem[0x40]=top
	a.pushU(0xa0).pushU(0).op(opRETURN) // return mem[0:0xa0]
}

// relayReturn: [flag] on the stack, the call's output area at mem[0x40:0x80] ->
// return flag ‖ RETURNDATASIZE ‖ output area (a fixed 128 bytes, so that
// recursion does not make return data grow)
func relayReturn(a *asm) {
	a.pushU(0).op(opMSTORE)
	a.op(opRETURNDATASIZE).pushU(0x20).op(opMSTORE)
	a.pushU(0x80).pushU(0).op(opRETURN)
}

// ---------------------------------------------------------------- pre-states

var calldataPattern = func() []byte {
	b := []byte{0xa9, 0x05, 0x9c, 0xbb}
	for i := 0; i < 64; i++ {
		b = append(b, byte(0xf0-i*3))
	}
	return b
}()

var allOnes = func() word {
	var w word
	for i := range w {
		w[i] = 0xff
	}
	return w
}()

var storageSet = []slot{
	{wordU(0), wordU(7)},
	{wordU(1), allOnes},
	{wordU(32), wordU(0x20)},
}

// ctxContract: code of the "code address" of family 1: reports its context and,
// when called with data, writes storage and logs.
func ctxContract() []byte {
	a := newAsm()
	a.op(opCALLER).pushU(0).op(opMSTORE)
	a.op(opADDRESS).pushU(0x20).op(opMSTORE)
	a.op(opCALLVALUE).pushU(0x40).op(opMSTORE)
	a.op(opCALLDATASIZE, opISZERO).pushLabel("end").op(opJUMPI)
	a.op(opCALLVALUE).pushU(1).op(opADD).pushU(1).op(opSSTORE)
	a.op(opCALLER).pushU(0x20).pushU(0).op(opLOG1)
	a.label("end")
	a.pushU(0x60).pushU(0).op(opRETURN)
	return a.bytes()
}

// forwarder: relay the call data to next with the given call opcode.
// variant "store-after": SSTORE the result flag afterwards; "copy-all": return
// flag ‖ all return data (RETURNDATACOPY of RETURNDATASIZE bytes).
func forwarder(callOp int, value uint64, next address, variant string) []byte {
	a := newAsm()
	if variant == "after-identity" {
		// first a call that returns 32 bytes (identity precompile), so that this frame's
		// return-data buffer is non-empty when the next frame starts
		a.pushU(0x1234).pushU(0).op(opMSTORE)
		a.pushU(0x20).pushU(0x80).pushU(0x20).pushU(0).pushU(0).pushU(4).op(opGAS, opCALL, opPOP)
	}
	a.op(opCALLDATASIZE).pushU(0).pushU(0x100).op(opCALLDATACOPY)
	a.pushU(0x40).pushU(0x40).op(opCALLDATASIZE).pushU(0x100)
	if callOp == opCALL || callOp == opCALLCODE {
		a.pushU(value)
	}
	a.pushAddr(next).op(opGAS, byte(callOp))
	switch variant {
	case "store-after":
		a.op(opDUP1).pushU(3).op(opSSTORE)
	case "copy-all":
		a.pushU(0).op(opMSTORE)
		a.op(opRETURNDATASIZE).pushU(0).pushU(0x20).op(opRETURNDATACOPY)
		a.op(opRETURNDATASIZE).pushU(0x20).op(opADD).pushU(0).op(opRETURN)
		return a.bytes()
	}
	relayReturn(a)
	return a.bytes()
}

// ---------------------------------------------------------------- family 1: opcode × operands

var domainB = []*big.Int{
	big.NewInt(0), big.NewInt(1), big.NewInt(2), big.NewInt(31), big.NewInt(32), big.NewInt(33),
	big.NewInt(255), big.NewInt(256), max160, two255, maxU256, addrBig(addrB), big.NewInt(4),
}

var domainNames = []string{"0", "1", "2", "31", "32", "33", "255", "256", "2^160-1", "2^255", "2^256-1", "codeaddr", "precompile4"}

// operandTuples enumerates index tuples into a domain of size n for the given arity:
// the full product when full, otherwise an orthogonal array covering every pair
// of positions with every pair of values (n prime, arity <= n+1) plus the
// all-equal tuples.
func operandTuples(n, arity int, full bool) [][]int {
	if arity == 0 {
		return [][]int{{}}
	}
	var out [][]int
	if full {
		idx := make([]int, arity)
		for {
			out = append(out, append([]int(nil), idx...))
			p := arity - 1
			for p >= 0 {
				idx[p]++
				if idx[p] < n {
					break
				}
				idx[p] = 0
				p--
			}
			if p < 0 {
				return out
			}
		}
	}
	seen := map[string]bool{}
	add := func(t []int) {
		k := fmt.Sprint(t)
		if !seen[k] {
			seen[k] = true
			out = append(out, t)
		}
	}
	for i := 0; i < n; i++ {
		for j := 0; j < n; j++ {
			t := make([]int, arity)
			for c := 0; c < arity; c++ {
				if c == arity-1 {
					t[c] = j
				} else {
					t[c] = (i + c*j) % n
				}
			}
			add(t)
		}
	}
	for v := 0; v < n; v++ {
		t := make([]int, arity)
		for c := range t {
			t[c] = v
		}
		add(t)
	}
	return out
}

type f1Prog struct {
	Op       int
	Operands []*big.Int // Operands[0] ends on top of the stack
	Names    []string
	Variant  string // "", "underflow", "truncated", "swap-deep"
}

// family1Code builds: JUMPDEST, sentinel, operands, [GAS], opcode, epilogue.
func family1Code(p f1Prog) []byte {
	a := newAsm()
	a.op(opJUMPDEST)
	if p.Variant != "underflow" {
		a.push32(sentinel) // keeps the epilogue alive when the opcode pushes nothing
	}
	for i := len(p.Operands) - 1; i >= 0; i-- {
		a.push32(p.Operands[i])
	}
	if isCallFamily(p.Op) {
		a.op(opGAS)
	}
	a.op(byte(p.Op))
	if p.Op >= opPUSH1 && p.Op <= opPUSH32 {
		n := p.Op - opPUSH1 + 1
		if p.Variant == "truncated" {
			n--
		}
		for i := 0; i < n; i++ {
			a.op(byte(0xa1 + i))
		}
		if p.Variant == "truncated" {
			return a.bytes()
		}
	}
	if p.Variant == "swap-deep" {
		for i := 0; i < p.Op-opSWAP1+1; i++ {
			a.op(opPOP)
		}
	}
	epilogue(a)
	return a.bytes()
}

// family1Programs lists the programs of one opcode.
func family1Programs(c int, fullArity3 bool) (progs []f1Prog, exhaustive bool) {
	info := opTable[c]
	exhaustive = true
	switch {
	case c == opGAS:
		return nil, true // excluded (documented deviation); counted by the caller
	case c >= opPUSH1 && c <= opPUSH32:
		return []f1Prog{{Op: c}, {Op: c, Variant: "truncated"}}, true
	case c >= opDUP1 && c < opDUP1+16, c >= opSWAP1 && c < opSWAP1+16:
		need := info.pops
		mk := func(n int) []*big.Int {
			var o []*big.Int
			for i := 0; i < n; i++ {
				o = append(o, new(big.Int).Add(bigHex("d0d0d0d0d0d0d0d0d0d0d0d0d0d0d0d0d0d0d0d0d0d0d0d0d0d0d0d0d0d000"), big.NewInt(int64(i+1))))
			}
			return o
		}
		progs = append(progs, f1Prog{Op: c, Operands: mk(need)}, f1Prog{Op: c, Operands: mk(need - 1), Variant: "underflow"})
		if c >= opSWAP1 {
			progs = append(progs, f1Prog{Op: c, Operands: mk(need), Variant: "swap-deep"})
		}
		return progs, true
	}
	arity := info.pops
	if isCallFamily(c) {
		arity-- // the gas operand is always the GAS opcode
	}
	dom, names := domainB, domainNames
	if c == opJUMP || c == opJUMPI {
		// plus one valid destination: the JUMPDEST that starts the epilogue
		epi := 1 + 33*(1+arity) + 1
		dom = append(append([]*big.Int{}, domainB...), big.NewInt(int64(epi)))
		names = append(append([]string{}, domainNames...), "epilogue")
	}
	full := arity <= 2 || (arity == 3 && fullArity3)
	if !full {
		exhaustive = false
	}
	n := len(dom)
	var tuples [][]int
	if full {
		tuples = operandTuples(n, arity, true)
	} else {
		tuples = operandTuples(len(domainB), arity, false) // 13 is prime; the extra jump target only occurs with arity <= 2
	}
	for _, t := range tuples {
		p := f1Prog{Op: c}
		for _, i := range t {
			p.Operands = append(p.Operands, dom[i])
			p.Names = append(p.Names, names[i])
		}
		progs = append(progs, p)
	}
	if arity > 0 {
		p := f1Prog{Op: c, Variant: "underflow"}
		for i := 0; i < arity-1; i++ {
			p.Operands = append(p.Operands, big.NewInt(1))
			p.Names = append(p.Names, "1")
		}
		progs = append(progs, p)
	}
	return progs, exhaustive
}

var (
	ctxContractCode = ctxContract()
	staticWrapCode  = forwarder(opSTATICCALL, 0, addrA, "copy-all")
	callWrapCode    = forwarder(opCALL, 0, addrA, "copy-all")
)

func family1Case(p f1Prog, ctx string, mode string) *txCase {
	code := family1Code(p)
	k := &txCase{Family: "opcode", Mode: mode, Input: calldataPattern, Gas: ampleGasFlat}
	k.Pre = []account{
		{Addr: addrOrigin, Balance: 1000000, Nonce: 5},
		{Addr: addrA, Balance: 1000, Nonce: 1, Code: code, Storage: storageSet},
		{Addr: addrB, Balance: 7, Nonce: 1, Code: ctxContractCode},
		{Addr: addrF, Balance: 3},
	}
	k.To = addrA
	switch ctx {
	case "static":
		k.Pre = append(k.Pre, account{Addr: addrW, Balance: 9, Nonce: 1, Code: staticWrapCode})
		k.To = addrW
	case "nested":
		k.Pre = append(k.Pre, account{Addr: addrW, Balance: 9, Nonce: 1, Code: callWrapCode})
		k.To = addrW
	}
	v := p.Variant
	if v == "" {
		v = "plain"
	}
	k.Label = fmt.Sprintf("%s(%s) %s ctx=%s", opTable[p.Op].name, strings.Join(p.Names, ","), v, ctx)
	k.Sig = map[string]string{"family": "opcode", "op": opTable[p.Op].name, "ctx": ctx, "config": mode, "static": yesno(ctx == "static")}
	return k
}

// ---------------------------------------------------------------- family 2: all short programs

type token struct {
	name string
	code []byte
}

var alphabet []token

func init() {
	pushTok := func(name string, v *big.Int, wide bool) {
		a := newAsm()
		if wide {
			a.push32(v)
		} else {
			a.push(v)
		}
		alphabet = append(alphabet, token{name, a.bytes()})
	}
	pushTok("PUSH(0)", big.NewInt(0), false)
	pushTok("PUSH(1)", big.NewInt(1), false)
	pushTok("PUSH(32)", big.NewInt(32), false)
	pushTok("PUSH(70)", big.NewInt(70), false) // 70 = body start + 3: a forward jump destination when a JUMPDEST is put there
	pushTok("PUSH(2^255)", two255, true)
	pushTok("PUSH(2^256-1)", maxU256, true)
	for _, c := range []int{opDUP1, opSWAP1, opPOP, opADD, opSUB, opMUL, opDIV, opSDIV, opMOD, opEXP, opSIGNEXTEND,
		opLT, opEQ, opISZERO, opAND, opNOT, opBYTE, opSHL, opSHR, opSAR, opSHA3, opMLOAD, opMSTORE, opMSTORE8,
		opSLOAD, opSSTORE, opJUMP, opJUMPI, opJUMPDEST, opPC, opMSIZE, opCALLDATALOAD, opCALLDATACOPY, opCODECOPY,
		opRETURNDATASIZE, opLOG1, opRETURN, opREVERT, opSTOP, opINVALID, opSELFDESTRUCT} {
		alphabet = append(alphabet, token{opTable[c].name, []byte{byte(c)}})
	}
}

const family2BodyStart = 67

func family2Code(toks []int) []byte {
	a := newAsm()
	a.op(opJUMPDEST).push32(sentS2).push32(sentS1)
	if a.pc() != family2BodyStart {
		panic("harness: family 2 layout")
	}
	for _, t := range toks {
		a.op(alphabet[t].code...)
	}
	epilogue(a)
	return a.bytes()
}

var family2Calldata = [][]byte{
	nil,
	func() []byte { w := wordU(5); return w[:] }(),
	calldataPattern,
}

func family2Name(toks []int) string {
	n := make([]string, len(toks))
	for i, t := range toks {
		n[i] = alphabet[t].name
	}
	return strings.Join(n, " ")
}

// family2Case: variant = calldata index*2 + prestate index
func family2Case(toks []int, code []byte, variant int, mode string) *txCase {
	cd, ps := variant/2, variant%2
	k := &txCase{Family: "program", Mode: mode, Input: family2Calldata[cd], To: addrA, WorkLimit: workLimitShort, Gas: ampleGasFlat}
	a := account{Addr: addrA, Balance: 1000, Nonce: 1, Code: code}
	if ps == 1 {
		a.Storage = storageSet
	}
	k.Pre = []account{{Addr: addrOrigin, Balance: 1000000, Nonce: 5}, a}
	k.Label = fmt.Sprintf("[%s] calldata#%d prestate#%d", family2Name(toks), cd, ps)
	k.Sig = map[string]string{"family": "program", "config": mode, "static": "no"}
	return k
}

var (
	calldataTokens = map[string]bool{"CALLDATALOAD": true, "CALLDATACOPY": true}
	storageTokens  = map[string]bool{"SLOAD": true, "SSTORE": true, "SELFDESTRUCT": true}
	allVariants    = []int{0, 1, 2, 3, 4, 5}
)

// family2Variants: variant = calldata index*2 + prestate index.
func family2Variants(toks []int, reduce bool) []int {
	if !reduce {
		return allVariants
	}
	cd, st := false, false
	for _, t := range toks {
		cd = cd || calldataTokens[alphabet[t].name]
		st = st || storageTokens[alphabet[t].name]
	}
	var out []int
	for c := 0; c < 3; c++ {
		if !cd && c != 2 {
			continue
		}
		for p := 0; p < 2; p++ {
			if !st && p != 1 {
				continue
			}
			out = append(out, c*2+p)
		}
	}
	return out
}
