#!/bin/bash
# keep the reference side of the harness textually identical to the in-tree side
exec "$(dirname "$0")/gen.sh"
