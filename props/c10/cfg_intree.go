package main

import (
	"math/big"

	"github.com/dappledger/AnnChain/eth/core/vm"
	"github.com/dappledger/AnnChain/eth/params"
)

// chainConfig_IT: the configuration the in-tree EVM runs under.
//
//	"aligned": every fork up to Constantinople active from block 0 (the
//	           configuration under which the in-tree code is meant to equal the
//	           reference);
//	"app":     exactly what chain/app/evm passes to vm.NewEVM in production:
//	           params.MainnetChainConfig of the in-tree copy (evm.go: chainConfig:
//	           params.MainnetChainConfig) at a chain height far below the mainnet
//	           fork blocks.
func chainConfig_IT(mode string) *params.ChainConfig {
	if mode == "app" {
		return params.MainnetChainConfig
	}
	return &params.ChainConfig{
		ChainID:             big.NewInt(1),
		HomesteadBlock:      big.NewInt(0),
		EIP150Block:         big.NewInt(0),
		EIP155Block:         big.NewInt(0),
		EIP158Block:         big.NewInt(0),
		ByzantiumBlock:      big.NewInt(0),
		ConstantinopleBlock: big.NewInt(0),
	}
}

// vmConfig_IT: the in-tree EVM meters against a per-transaction budget
// (documented deviation); it gets an ample one.
func vmConfig_IT(tr *tracer_IT, gas uint64) vm.Config {
	c := vm.Config{EVMGasLimit: gas}
	if tr != nil {
		c.Debug = true
		c.Tracer = tr
	}
	return c
}
