package main

import (
	"fmt"
)

// ---------------------------------------------------------------- family 4: operand-stack depth boundaries
//
// Every opcode byte is executed with EXACTLY d items on the operand stack of its
// frame, for every d around the two limits of the stack:
//
//	overflow side:  d in {1021, 1022, 1023, 1024} (thorough: 1015..1024); an
//	                opcode that grows the stack by one (PUSHn, DUPn, the
//	                zero-operand environment opcodes, ...) brings it to exactly
//	                1022, 1023, 1024 (all legal) and 1025 items (stack overflow);
//	                opcodes that keep or shrink the stack must still work on a
//	                full stack;
//	underflow side: d in {pops-1, pops, pops+1} (thorough: 0..pops+1), pops =
//	                the number of items the opcode needs.
//
// The d items are produced by a straight line of d filler instructions of one of
// three kinds (so the opcode's operands are all zero / small distinct numbers /
// all 2^256-1); for the CALL family the last filler is GAS (the gas operand, see
// the documented deviations in main.go).  The frame is the called contract, a
// frame behind a CALL, or a frame behind a STATICCALL.

var f4Fills = []string{"zero", "pc", "max"}

type f4Prog struct {
	Op    int
	Depth int    // items on the stack immediately before the opcode
	Fill  string // zero: PUSH1 0 | pc: the PC opcode (values 1..d) | max: PUSH32 2^256-1
	Tail  string // how the machine state is made observable afterwards
}

func stackDelta(c int) int { return opTable[c].pushes - opTable[c].pops }

func family4Code(p f4Prog) []byte {
	a := newAsm()
	a.op(opJUMPDEST)
	n := p.Depth
	gasLast := isCallFamily(p.Op) && n > 0
	if gasLast {
		n--
	}
	for i := 0; i < n; i++ {
		switch p.Fill {
		case "zero":
			a.op(opPUSH1, 0)
		case "pc":
			a.op(opPC)
		case "max":
			a.push32(maxU256)
		default:
			panic("harness: unknown fill " + p.Fill)
		}
	}
	if gasLast {
		a.op(opGAS)
	}
	a.op(byte(p.Op))
	if p.Op >= opPUSH1 && p.Op <= opPUSH32 {
		for i := 0; i < p.Op-opPUSH1+1; i++ {
			a.op(byte(0xa1 + i))
		}
	}
	if p.Op == opGAS {
		a.op(opPOP) // the value GAS pushes is not comparable (documented deviation): only its stack effect is kept
	}
	switch p.Tail {
	case "keep-top":
		// near the limit the epilogue needs three free slots: drop the four items below the top
		for i := 0; i < 4; i++ {
			a.op(opSWAP1, opPOP)
		}
	case "sentinel":
		a.push32(sentinel) // the opcode may have emptied the stack
	case "top":
	default:
		panic("harness: unknown tail " + p.Tail)
	}
	epilogue(a)
	return a.bytes()
}

// family4Programs lists the programs of one opcode byte.
func family4Programs(c int, thorough bool) []f4Prog {
	var out []f4Prog
	pops := opTable[c].pops
	lo, hi := pops-1, pops+1
	over := 1021
	if thorough {
		lo, over = 0, 1015
	}
	if lo < 0 {
		lo = 0
	}
	for _, f := range f4Fills {
		for d := lo; d <= hi; d++ {
			tail := "top"
			if d == pops {
				tail = "sentinel"
			}
			out = append(out, f4Prog{Op: c, Depth: d, Fill: f, Tail: tail})
		}
		for d := over; d <= 1024; d++ {
			out = append(out, f4Prog{Op: c, Depth: d, Fill: f, Tail: "keep-top"})
		}
	}
	return out
}

// flatCase: a contract at A with the given code, called directly, behind a CALL
// or behind a STATICCALL (the pre-state of family 1).
func flatCase(code []byte, ctx, mode string) *txCase {
	k := &txCase{Mode: mode, Input: calldataPattern, Gas: ampleGasFlat}
	k.Pre = []account{
		{Addr: addrOrigin, Balance: 1000000, Nonce: 5},
		{Addr: addrA, Balance: 1000, Nonce: 1, Code: code, Storage: storageSet},
		{Addr: addrB, Balance: 7, Nonce: 1, Code: ctxContractCode},
		{Addr: addrF, Balance: 3},
	}
	k.To = addrA
	switch ctx {
	case "static":
		k.Pre = append(k.Pre, account{Addr: addrW, Balance: 9, Nonce: 1, Code: staticWrapCode})
		k.To = addrW
	case "nested":
		k.Pre = append(k.Pre, account{Addr: addrW, Balance: 9, Nonce: 1, Code: callWrapCode})
		k.To = addrW
	}
	return k
}

func family4Case(p f4Prog, ctx, mode string) *txCase {
	k := flatCase(family4Code(p), ctx, mode)
	k.Family = "stackdepth"
	k.WorkLimit = workLimitShort
	k.Label = fmt.Sprintf("%s on a stack of exactly %d items (filled with %s) ctx=%s", opTable[p.Op].name, p.Depth, p.Fill, ctx)
	k.Sig = map[string]string{"family": "stackdepth", "op": opTable[p.Op].name, "ctx": ctx, "config": mode, "static": yesno(ctx == "static")}
	return k
}
