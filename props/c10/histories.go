package main

import (
	"fmt"
	"strings"
)

// ---------------------------------------------------------------- family 5: self-destruct histories inside ONE transaction
//
// A driver contract (A) performs a sequence of steps on a victim contract (B);
// B self-destructs to a beneficiary whenever it is called with call data and
// just accepts the value when called without.  A self-destructed contract stays
// callable and can receive value until the end of the transaction, so B can
// self-destruct again and again.  Steps (the alphabet):
//
//	kill             CALL B with data, value 0            (B: SELFDESTRUCT)
//	kill+3           CALL B with data, value 3            (value arrives, then SELFDESTRUCT)
//	fund+5           CALL B without data, value 5         (B only receives)
//	reverted-kill+3  CALL helper C with value 3; C calls B with data and that
//	                 value, then REVERTs: the self-destruct and both transfers
//	                 are rolled back
//
// After every step the driver records the CALL's result flag, BALANCE(B) and
// BALANCE(beneficiary) in its return data and BALANCE(B) in its storage.
// Every sequence of 1..maxLen steps x beneficiary {an account that does not
// exist, an existing plain account, the caller of B, B itself} x B's initial
// balance {0, 7}.

var f5Steps = []string{"kill", "kill+3", "fund+5", "reverted-kill+3"}

var f5Beneficiaries = []string{"fresh", "plain", "caller", "self"}

type f5Spec struct {
	Steps       []int
	Beneficiary string
	VictimBal   uint64
}

const f5ObsBase = 0x100

// f5Victim: B.  No call data: STOP (receive).  Otherwise SELFDESTRUCT(beneficiary).
func f5Victim(ben string) []byte {
	a := newAsm()
	a.op(opCALLDATASIZE, opISZERO).pushLabel("end").op(opJUMPI)
	switch ben {
	case "fresh":
		a.pushAddr(addrD)
	case "plain":
		a.pushAddr(addrF)
	case "caller":
		a.op(opCALLER)
	case "self":
		a.op(opADDRESS)
	default:
		panic("harness: unknown beneficiary " + ben)
	}
	a.op(opSELFDESTRUCT)
	a.label("end")
	a.op(opSTOP)
	return a.bytes()
}

// f5Helper: C.  Calls B with one byte of call data and the value it received, then reverts.
func f5Helper() []byte {
	a := newAsm()
	a.pushU(0).pushU(0).pushU(1).pushU(0).op(opCALLVALUE).pushAddr(addrB).op(opGAS, opCALL, opPOP)
	a.pushU(0).pushU(0).op(opREVERT)
	return a.bytes()
}

// f5Driver: A.
func f5Driver(s f5Spec) []byte {
	a := newAsm()
	for i, st := range s.Steps {
		off := uint64(f5ObsBase + 96*i)
		a.pushU(0).pushU(0) // no output area
		switch f5Steps[st] {
		case "kill":
			a.pushU(1).pushU(0).pushU(0).pushAddr(addrB)
		case "kill+3":
			a.pushU(1).pushU(0).pushU(3).pushAddr(addrB)
		case "fund+5":
			a.pushU(0).pushU(0).pushU(5).pushAddr(addrB)
		case "reverted-kill+3":
			a.pushU(1).pushU(0).pushU(3).pushAddr(addrC)
		default:
			panic("harness: unknown step")
		}
		a.op(opGAS, opCALL)
		a.pushU(off).op(opMSTORE)
		a.pushAddr(addrB).op(0x31 /* BALANCE */, opDUP1).pushU(uint64(0x20 + i)).op(opSSTORE)
		a.pushU(off + 32).op(opMSTORE)
		switch s.Beneficiary {
		case "fresh":
			a.pushAddr(addrD)
		case "plain":
			a.pushAddr(addrF)
		case "caller":
			a.op(opADDRESS) // B's caller in the kill steps is this contract
		case "self":
			a.pushAddr(addrB)
		}
		a.op(0x31).pushU(off + 64).op(opMSTORE)
	}
	a.pushU(uint64(96 * len(s.Steps))).pushU(f5ObsBase).op(opRETURN)
	return a.bytes()
}

func family5Case(s f5Spec, mode string) *txCase {
	k := &txCase{Family: "history", Mode: mode, To: addrA, Input: calldataPattern[:4]}
	k.Pre = []account{
		{Addr: addrOrigin, Balance: 1000000, Nonce: 5},
		{Addr: addrA, Balance: 100, Nonce: 1, Code: f5Driver(s), Storage: []slot{{wordU(1), wordU(0x11)}}},
		{Addr: addrB, Balance: s.VictimBal, Nonce: 1, Code: f5Victim(s.Beneficiary), Storage: []slot{{wordU(1), wordU(0x22)}}},
		{Addr: addrC, Balance: 0, Nonce: 1, Code: f5Helper()},
		{Addr: addrF, Balance: 3},
	}
	names := make([]string, len(s.Steps))
	for i, st := range s.Steps {
		names[i] = f5Steps[st]
	}
	k.Label = fmt.Sprintf("A drives B (balance %d, self-destructs to %s): %s", s.VictimBal, s.Beneficiary, strings.Join(names, ", "))
	k.Sig = map[string]string{"family": "history", "config": mode, "beneficiary": s.Beneficiary, "static": "no"}
	return k
}

// family5Specs: every step sequence of length 1..maxLen x beneficiary x initial balance of B.
func family5Specs(maxLen int) []f5Spec {
	var out []f5Spec
	n := len(f5Steps)
	for L := 1; L <= maxLen; L++ {
		total := 1
		for i := 0; i < L; i++ {
			total *= n
		}
		for x := 0; x < total; x++ {
			steps := make([]int, L)
			y := x
			for i := L - 1; i >= 0; i-- {
				steps[i] = y % n
				y /= n
			}
			for _, b := range f5Beneficiaries {
				for _, vb := range []uint64{0, 7} {
					out = append(out, f5Spec{Steps: steps, Beneficiary: b, VictimBal: vb})
				}
			}
		}
	}
	return out
}
