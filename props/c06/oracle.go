package main

import (
	"fmt"
	"io/ioutil"
	"os"
	"path/filepath"
	"reflect"
	"sort"
	"strings"
	"sync/atomic"

	"verif/core"
)

// reference is what the uncrashed run of a workload produced.
type reference struct {
	Kind  string
	W     int
	Sites []string // normalised durable-write sites of heights 3..4, in order
	Dump  *dumpRec
}

func (r *reference) siteHistogram() map[string]int {
	m := map[string]int{}
	for _, s := range r.Sites {
		m[s]++
	}
	return m
}

// reference runs the workload without a crash (twice: the write sequence must
// be reproducible, DESIGN §1.2) and validates the reference run itself against
// the clauses of the property that do not involve a crash.
func (c *ctx) reference(kind string) *reference {
	c.refMu.Lock()
	defer c.refMu.Unlock()
	if r, ok := c.refs[kind]; ok {
		return r
	}
	var runs []*reference
	for attempt := 0; attempt < 6 && len(runs) < 2; attempt++ {
		dir := filepath.Join(c.work, fmt.Sprintf("ref_%s_%d", kind, attempt))
		p := c.vnodeRun("writelog", "-dir", filepath.Join(dir, "n"), "-workload", kind, "-log", filepath.Join(dir, "w.log"), "-out", filepath.Join(dir, "dump.json"), "-until", "6")
		if !p.Dumped {
			if p.TimedOut {
				continue
			}
			core.Fatal("reference run of workload %s failed: exit %d\n%s", kind, p.Exit, tail(p.Stderr, 2000))
		}
		sites, _ := readWriteLog(filepath.Join(dir, "w.log"))
		d, err := readDump(filepath.Join(dir, "dump.json"))
		if err != nil {
			core.Fatal("reference dump: %v", err)
		}
		var n int
		if !p.last("WRITES", &n) || n != len(sites) || n == 0 {
			core.Fatal("reference run of %s: WRITES line (%d) and write log (%d) disagree", kind, n, len(sites))
		}
		ref := &reference{Kind: kind, W: n, Sites: sites, Dump: d}
		if len(runs) == 1 && !reflect.DeepEqual(runs[0].Sites, sites) {
			// a background writer interleaved differently: take a fresh pair
			atomic.AddInt64(&c.retries, 1)
			runs = nil
			continue
		}
		// the reference must itself satisfy the property (no crash involved)
		if len(runs) == 0 {
			rx, rp := c.reexecRun(filepath.Join(dir, "n"), filepath.Join(dir, "re"), nil)
			if rx == nil {
				core.Fatal("reexec of the reference run of %s failed: exit %d\n%s", kind, rp.Exit, tail(rp.Stderr, 2000))
			}
			if vs := c.evaluate(kase{Workload: kind}, ref, nil, nil, d, rx, nil); len(vs) > 0 {
				for _, v := range vs {
					v.Sig["phase"] = "uncrashed-reference-run"
					c.run.Report(v.Sig, kase{Workload: kind}, "uncrashed reference run: "+v.Detail)
				}
			}
		}
		runs = append(runs, ref)
	}
	if len(runs) < 2 {
		core.Fatal("no two identical write sequences for workload %s in 6 reference runs", kind)
	}
	// app-level results of the two reference runs must agree (determinism of the comparison basis)
	if !reflect.DeepEqual(runs[0].Dump.App, runs[1].Dump.App) || !equalStrings(powers(runs[0].Dump.Validators), powers(runs[1].Dump.Validators)) {
		core.Fatal("two uncrashed runs of workload %s disagree on application-level results:\n%+v\n%+v", kind, runs[0].Dump.App, runs[1].Dump.App)
	}
	c.refs[kind] = runs[0]
	return runs[0]
}

func tail(s string, n int) string {
	if len(s) > n {
		return "…" + s[len(s)-n:]
	}
	return s
}

func head(s string, n int) string {
	if len(s) > n {
		return s[:n] + "…"
	}
	return s
}

type violation struct {
	Sig    map[string]string
	Detail string
}

// outcome of one crash case.
type outcome struct {
	Case         kase
	Class        string   // coverage class: persisted heights at restart, heights after NewNode, verdict
	WRec         int      // durable writes of the recovery run (first restart)
	RecSites     []string // their sites, in order
	Restarted    bool     // the restarted node reached its dump
	Inconclusive string
	Violations   []*violation
}

func (o *outcome) summary() string {
	s := o.Class
	if o.Inconclusive != "" {
		s += " INCONCLUSIVE(" + o.Inconclusive + ")"
	}
	for _, v := range o.Violations {
		s += "\n  VIOLATION " + sigString(v.Sig) + " :: " + head(v.Detail, 400)
	}
	return s
}

// shape names the relation of the three persisted heights found at a restart.
func shape(in *inspectRec) string {
	d := func(x int64) string {
		switch {
		case x == 0:
			return "+0"
		case x > 0:
			return fmt.Sprintf("+%d", x)
		}
		return fmt.Sprint(x)
	}
	return fmt.Sprintf("store%s_app%s_vs_state", d(in.StoreHeight-in.StateHeight), d(in.AppHeight-in.StateHeight))
}

// runCase executes one crash scenario; a run whose write log is not a prefix of
// the reference log is repeated (≤ 3 times), then counted inconclusive.
func (c *ctx) runCase(k kase, ref *reference) *outcome {
	var o *outcome
	for attempt := 0; attempt < 3; attempt++ {
		var retry bool
		o, retry = c.runCaseOnce(k, ref)
		if !retry {
			return o
		}
		atomic.AddInt64(&c.retries, 1)
	}
	if o.Inconclusive == "" {
		o.Inconclusive = "write-log-not-a-prefix-of-reference"
	}
	o.Violations = nil
	o.Class = "inconclusive"
	return o
}

func (c *ctx) runCaseOnce(k kase, ref *reference) (o *outcome, retry bool) {
	o = &outcome{Case: k}
	dir := c.caseDir(k)
	defer func() {
		// keep the directories of violating cases for inspection (the whole work
		// directory is removed when the check ends)
		if len(o.Violations) == 0 {
			os.RemoveAll(dir)
		}
	}()
	ndir := filepath.Join(dir, "n")
	atomic.AddInt64(&c.crashRuns, 1)
	inconclusive := func(why string) (*outcome, bool) {
		o.Inconclusive = why
		o.Class = "inconclusive"
		return o, false
	}

	// ---- the run that dies before write k ----
	// (second level: the directory image the first-level case (workload, k) left
	// behind when it died is reused, when there is one — the first crash is
	// literally the same)
	var preCommits []commitRec
	snapKey := fmt.Sprintf("%s/%d", k.Workload, k.K)
	c.refMu.Lock()
	snap := c.snaps[snapKey]
	c.refMu.Unlock()
	if k.K2 > 0 && snap != nil && copyDir(snap.dir, ndir) == nil {
		preCommits = snap.preCommits
	} else {
		os.RemoveAll(ndir)
		w1 := filepath.Join(dir, "w1.log")
		p1 := c.vnodeRun("crash", "-dir", ndir, "-workload", k.Workload, "-k", fmt.Sprint(k.K), "-log", w1)
		if p1.TimedOut {
			return inconclusive("deadline:crash-run")
		}
		sites, crashed := readWriteLog(w1)
		if p1.Exit == 7 { // fewer writes than the reference this time
			o.Inconclusive = "write-log-shorter-than-reference"
			return o, true
		}
		if p1.Exit != 86 || !crashed {
			// the node died on its own before the crash point: not a C06 case
			line, site := parsePanic(p1.Stderr)
			return inconclusive(fmt.Sprintf("node-died-before-crash-point exit=%d %s %s", p1.Exit, site, head(line, 120)))
		}
		if len(sites) != k.K || !equalStrings(sites[:k.K-1], ref.Sites[:k.K-1]) || sites[k.K-1] != ref.Sites[k.K-1] {
			o.Inconclusive = "write-log-not-a-prefix-of-reference"
			return o, true
		}
		for _, raw := range p1.Lines["COMMIT"] {
			var cr commitRec
			if jsonUnmarshal(raw, &cr) {
				preCommits = append(preCommits, cr)
			}
		}
		if c.keepSnaps && k.K2 == 0 && snap == nil {
			sd := filepath.Join(c.work, "snap", fmt.Sprintf("%s_k%d", k.Workload, k.K))
			if copyDir(ndir, sd) == nil {
				c.refMu.Lock()
				c.snaps[snapKey] = &snapshot{dir: sd, preCommits: preCommits}
				c.refMu.Unlock()
			}
		}
	}

	// ---- restart(s) of the same directory, no operator action ----
	var peeks []*inspectRec
	var lifetimes []int64
	var last *procResult
	var start startRec
	levels := 1
	if k.K2 > 0 {
		levels = 2
	}
	for lvl := 1; lvl <= levels; lvl++ {
		args := []string{"restart", "-dir", ndir, "-workload", k.Workload, "-log", filepath.Join(dir, fmt.Sprintf("w2_%d.log", lvl)), "-out", filepath.Join(dir, "dump.json")}
		secondCrash := lvl == 1 && k.K2 > 0
		if secondCrash {
			args = append(args, "-k2", fmt.Sprint(k.K2))
		}
		p := c.vnodeRun(args...)
		last = p
		pk := &inspectRec{}
		if !p.last("PEEK", pk) {
			if p.TimedOut {
				return inconclusive("deadline:restart-before-peek")
			}
			return inconclusive(fmt.Sprintf("restart printed no PEEK line: exit=%d %s", p.Exit, tail(p.Stderr, 300)))
		}
		peeks = append(peeks, pk)
		lifetimes = append(lifetimes, pk.AppHeight)
		p.last("START", &start)
		if secondCrash {
			if p.Exit == 86 {
				// died during recovery as planned; its write log must be a prefix of
				// the recovery log of the first-level case (k)
				got, crashed := readWriteLog(filepath.Join(dir, "w2_1.log"))
				want := c.recoveryLog(k, ref)
				if !crashed || len(got) != k.K2 || len(want) < k.K2 || !equalStrings(got, want[:k.K2]) {
					o.Inconclusive = "recovery-write-log-not-a-prefix-of-first-level-log"
					return o, true
				}
				continue // restart again
			}
			if p.Dumped {
				// the recovery run was shorter than W_rec(k) measured before
				o.Inconclusive = "recovery-write-log-shorter-than-measured"
				return o, true
			}
			// anything else is judged below like a first-level restart
		}
		break
	}
	pk := peeks[len(peeks)-1]
	o.Class = fmt.Sprintf("persisted[%s] afterNewNode[store%+d,app%+d vs state]", shape(pk), start.Store-start.State, start.App-start.State)
	if len(peeks) == 2 {
		o.Class = "2nd-level " + o.Class
	}
	var rec struct {
		Writes int `json:"writes"`
	}
	if last.last("RECOVERED", &rec) && k.K2 == 0 {
		o.WRec = rec.Writes
		sites, _ := readWriteLog(filepath.Join(dir, "w2_1.log"))
		if len(sites) >= rec.Writes {
			o.RecSites = sites[:rec.Writes]
		}
	}

	if !last.Dumped {
		if last.TimedOut && !last.Stalled {
			return inconclusive("deadline:restart")
		}
		if last.Stalled {
			// real time: by itself inconclusive (DESIGN §1.3) — but a node that
			// makes no progress is what the property forbids, so it becomes a
			// candidate that must reproduce 5/5 (with the same generous deadline)
			var stall struct {
				RoundState string `json:"round_state"`
			}
			last.last("STALL", &stall)
			o.Class += " → no-progress"
			o.Violations = append(o.Violations, &violation{
				Sig:    map[string]string{"kind": "no-progress-after-restart", "persisted": shape(pk), "workload_class": wlClass(k.Workload)},
				Detail: fmt.Sprintf("%s: restarted node ran for %s (its own clock) without committing a block; last lines %v; round state %s", k, stallLimit, lastKw(last, 6), head(stall.RoundState, 300)),
			})
			return o, false
		}
		if last.Exit == 3 {
			return inconclusive("vnode-internal: " + tail(strings.TrimSpace(last.Stderr), 200))
		}
		line, site := parsePanic(last.Stderr)
		kind := "restart-panic"
		if line == "" {
			kind = "restart-exit"
			line = tail(strings.TrimSpace(last.Stderr), 300)
		}
		if site == "" {
			site = "unknown"
		}
		phase := "at-start"
		if len(last.Lines["START"]) > 0 {
			phase = "after-start"
		}
		o.Class += " → " + kind
		o.Violations = append(o.Violations, &violation{
			Sig: map[string]string{"kind": kind, "site": site, "persisted": shape(pk), "phase": phase},
			Detail: fmt.Sprintf("%s (crash before write %d = %s): restart with persisted heights store=%d state=%d app=%d exits %d: %s",
				k, k.K, ref.Sites[k.K-1], pk.StoreHeight, pk.StateHeight, pk.AppHeight, last.Exit, line),
		})
		return o, false
	}
	o.Restarted = true
	if k.K2 == 0 && o.RecSites != nil {
		c.refMu.Lock()
		c.recLogs[fmt.Sprintf("%s/%d", k.Workload, k.K)] = o.RecSites
		c.refMu.Unlock()
	}

	d, err := readDump(filepath.Join(dir, "dump.json"))
	if err != nil {
		return inconclusive("dump unreadable: " + err.Error())
	}
	// ReceiptsHash depends on how many KV records the PROCESS has applied (C05
	// finding): if the single-lifetime re-execution misses only receipts hashes,
	// it is repeated with the application re-opened where the node was restarted.
	// (Second level, workloads with KV transactions: the lifetime-matched
	// re-execution runs first and, when it reproduces every hash, is the only one —
	// the known C05 class is established by the first level.)
	var rx, rxLife *reexecRec
	var rp *procResult
	if k.K2 > 0 && wlClass(k.Workload) == "with-kv" {
		rx, rp = c.reexecRun(ndir, filepath.Join(dir, "re2"), lifetimes)
		if rx != nil && (len(rx.Mismatches) > 0 || rx.Error != "") {
			rxLife = rx
			rx, rp = c.reexecRun(ndir, filepath.Join(dir, "re"), nil)
		}
	} else {
		rx, rp = c.reexecRun(ndir, filepath.Join(dir, "re"), nil)
		if rx != nil && len(rx.Mismatches) > 0 && onlyField(rx.Mismatches, "ReceiptsHash") {
			rxLife, _ = c.reexecRun(ndir, filepath.Join(dir, "re2"), lifetimes)
		}
	}
	if rx == nil {
		if rp.TimedOut {
			return inconclusive("deadline:reexec")
		}
		return inconclusive("reexec failed: " + tail(rp.Stderr, 300))
	}
	o.Violations = c.evaluate(k, ref, peeks, preCommits, d, rx, rxLife)
	if len(o.Violations) == 0 {
		o.Class += " → recovered"
	} else {
		var ks []string
		for _, v := range o.Violations {
			ks = append(ks, v.Sig["kind"])
		}
		sort.Strings(ks)
		o.Class += " → " + strings.Join(uniqStrings(ks), "+")
	}
	return o, false
}

// snapshot is the runtime directory of a first-level case as the dying node left it.
type snapshot struct {
	dir        string
	preCommits []commitRec
}

// copyDir copies a directory tree (regular files only).
func copyDir(src, dst string) error {
	return filepath.Walk(src, func(p string, info os.FileInfo, err error) error {
		if err != nil {
			return err
		}
		rel, _ := filepath.Rel(src, p)
		t := filepath.Join(dst, rel)
		if info.IsDir() {
			return os.MkdirAll(t, 0755)
		}
		if !info.Mode().IsRegular() {
			return nil
		}
		b, err := ioutil.ReadFile(p)
		if err != nil {
			return err
		}
		return ioutil.WriteFile(t, b, info.Mode().Perm())
	})
}

// recoveryLog returns the write sites of the recovery run of the first-level
// case (workload, k); it runs that case if it has not been run in this process
// (replay of a second-level case).
func (c *ctx) recoveryLog(k kase, ref *reference) []string {
	key := fmt.Sprintf("%s/%d", k.Workload, k.K)
	c.refMu.Lock()
	l, ok := c.recLogs[key]
	c.refMu.Unlock()
	if ok {
		return l
	}
	o := c.runCase(kase{Workload: k.Workload, K: k.K}, ref)
	return o.RecSites
}

func wlClass(kind string) string {
	switch kind {
	case "kv", "mixed":
		return "with-kv"
	}
	return kind
}

func lastKw(p *procResult, n int) []string {
	if len(p.Order) > n {
		return p.Order[len(p.Order)-n:]
	}
	return p.Order
}

func onlyField(ms []mismatch, f string) bool {
	for _, m := range ms {
		if m.Field != f {
			return false
		}
	}
	return true
}

func equalStrings(a, b []string) bool {
	if len(a) != len(b) {
		return false
	}
	for i := range a {
		if a[i] != b[i] {
			return false
		}
	}
	return true
}

func uniqStrings(a []string) []string {
	var o []string
	for i, s := range a {
		if i == 0 || s != a[i-1] {
			o = append(o, s)
		}
	}
	return o
}

// evaluate is the oracle: the clauses of the property, on the recovered node.
//
//	peeks       persisted stores found at each restart (nil for the reference run)
//	preCommits  COMMIT lines of the run that crashed
//	d           dump of the (recovered) node at a quiescent point, through its query interfaces
//	rx          offline inspection + re-execution (single application lifetime)
//	rxLife      re-execution with the application re-opened at the restart points (only when rx misses receipts hashes only)
func (c *ctx) evaluate(k kase, ref *reference, peeks []*inspectRec, preCommits []commitRec, d *dumpRec, rx, rxLife *reexecRec) []*violation {
	var vs []*violation
	add := func(kind, site, detail string, extra ...string) {
		sig := map[string]string{"kind": kind, "site": site}
		for i := 0; i+1 < len(extra); i += 2 {
			sig[extra[i]] = extra[i+1]
		}
		if len(peeks) > 0 && kind != "receipts-hash-depends-on-process-lifetime" { // one defect = one class
			sig["persisted"] = shape(peeks[len(peeks)-1])
		}
		vs = append(vs, &violation{Sig: sig, Detail: fmt.Sprintf("%s: %s", k, detail)})
	}
	in := rx.Inspect
	H := d.Height

	// (1) block store, consensus state and application agree on one height …
	if d.StoreHeight != H || d.StateHeight != H || d.AppHeight != H {
		add("heights-disagree", "running-node", fmt.Sprintf("after height %d was committed the node reports store=%d state=%d app=%d", H, d.StoreHeight, d.StateHeight, d.AppHeight))
	}
	if in.StoreHeight != H || in.StateHeight != H || in.AppHeight != H {
		add("heights-disagree", "persisted-stores", fmt.Sprintf("node idle after committing height %d, persisted: block store %d, state %d, application %d", H, in.StoreHeight, in.StateHeight, in.AppHeight))
	}
	if len(in.Errors) > 0 {
		add("store-unreadable", "persisted-stores", strings.Join(in.Errors, "; "))
	}
	// … and on the hashes for it
	if in.StateHeight == in.AppHeight && in.StateAppHash != in.AppHash {
		add("hashes-disagree", "state.AppHash-vs-application", fmt.Sprintf("height %d: state.AppHash %s, application last block hash %s", in.StateHeight, in.StateAppHash, in.AppHash))
	}
	if d.AppHash != in.AppHash && d.AppHeight == in.AppHeight {
		add("hashes-disagree", "application-Info-vs-persisted", fmt.Sprintf("Info() %s, persisted %s", d.AppHash, in.AppHash))
	}
	if n := int(in.StateHeight); n >= 1 && n <= len(in.Blocks) && in.Blocks[n-1].Readable && in.StateBlockID != in.Blocks[n-1].BlockHash {
		add("hashes-disagree", "state.LastBlockID-vs-block-store", fmt.Sprintf("height %d: state.LastBlockID %s, stored block hashes to %s", n, in.StateBlockID, in.Blocks[n-1].BlockHash))
	}

	// (2) every stored block is readable, at its height, and links to its predecessor
	for i, b := range in.Blocks {
		h := int64(i + 1)
		switch {
		case !b.Readable:
			add("block-unreadable", "block-store", fmt.Sprintf("block %d of %d: %s", h, in.StoreHeight, b.Err))
		case b.Err != "":
			add("block-wrong", "block-store", fmt.Sprintf("block %d: %s", h, b.Err))
		case b.MetaHash != b.BlockHash:
			add("block-wrong", "block-store", fmt.Sprintf("block %d: meta hash %s, parts hash to %s", h, b.MetaHash, b.BlockHash))
		case i > 0 && in.Blocks[i-1].Readable && b.LastBlockID != in.Blocks[i-1].BlockHash:
			add("chain-broken", "block-store", fmt.Sprintf("block %d names %s as its predecessor, block %d hashes to %s", h, b.LastBlockID, h-1, in.Blocks[i-1].BlockHash))
		}
	}
	// the running node served the same bytes
	for i, b := range d.Blocks {
		if i < len(in.Blocks) && b.BytesHash != in.Blocks[i].BytesHash {
			add("block-changed", "running-vs-persisted", fmt.Sprintf("block %d: GetBlock gave %s, store holds %s (%s)", i+1, b.BytesHash, in.Blocks[i].BytesHash, b.Err))
		}
	}
	// every block that was readable before is still readable and unchanged
	for li, pk := range peeks {
		if len(pk.Errors) > 0 {
			add("store-unreadable", "persisted-stores-at-restart", fmt.Sprintf("restart %d: %s", li+1, strings.Join(pk.Errors, "; ")))
		}
		for i, b := range pk.Blocks {
			h := int64(i + 1)
			if !b.Readable {
				// the store advertised height pk.StoreHeight ≥ h without holding block h
				add("store-advertises-unreadable-block", "block-store", fmt.Sprintf("restart %d: persisted block store says height %d but block %d cannot be loaded (%s)", li+1, pk.StoreHeight, h, b.Err))
				continue
			}
			if i >= len(in.Blocks) || !in.Blocks[i].Readable {
				add("block-lost", "block-store", fmt.Sprintf("block %d was readable at restart %d and is not after recovery", h, li+1))
				continue
			}
			if in.Blocks[i].BytesHash != b.BytesHash || (i < len(pk.RawParts) && i < len(in.RawParts) && pk.RawParts[i] != in.RawParts[i]) {
				add("block-changed", "block-store", fmt.Sprintf("block %d differs from what the store held at restart %d (bytes %s → %s)", h, li+1, b.BytesHash, in.Blocks[i].BytesHash))
			}
		}
	}
	for _, cr := range preCommits {
		i := int(cr.Height - 1)
		if cr.BytesHash != "" && (i >= len(in.Blocks) || in.Blocks[i].BytesHash != cr.BytesHash) {
			add("block-changed", "block-store", fmt.Sprintf("block %d differs from what the node served before the crash", cr.Height))
		}
	}

	// (3) every transaction of every committed block applied exactly once
	want := map[string]bool{}
	for _, t := range d.WorkloadTxs {
		want[t] = true
	}
	seen := map[string]int64{}
	for _, b := range in.Blocks {
		for _, t := range b.Txs {
			if h0, dup := seen[t]; dup {
				add("tx-committed-twice", "block-store", fmt.Sprintf("transaction %s… is in block %d and block %d", t[:12], h0, b.Height))
			}
			seen[t] = b.Height
			if !want[t] {
				add("tx-unknown", "block-store", fmt.Sprintf("block %d holds a transaction nobody submitted", b.Height))
			}
		}
	}
	var missing []string
	for t := range want {
		if _, ok := seen[t]; !ok {
			missing = append(missing, t[:12])
		}
	}
	if len(missing) > 0 {
		sort.Strings(missing)
		// (a submitted transaction that never reaches a block is not a C06 matter by
		// itself, but then the application-level comparison below has no basis)
		add("workload-not-committed", "driver", fmt.Sprintf("%d workload transactions are in no block: %v", len(missing), missing))
	}
	if len(d.QueryPanics) > 0 {
		add("query-panic", "application-query", head(d.QueryPanics[0], 300))
	}
	if ref != nil && ref.Dump != d && len(missing) == 0 {
		var diffs []string
		for _, f := range diffApp(ref.Dump.App, d.App) {
			diffs = append(diffs, fmt.Sprintf("%s: uncrashed run %s, recovered node %s", f.name, f.want, f.got))
		}
		if !equalStrings(powers(ref.Dump.Validators), powers(d.Validators)) {
			diffs = append(diffs, fmt.Sprintf("voting powers of the validator set: uncrashed run %v, recovered node %v", powers(ref.Dump.Validators), powers(d.Validators)))
		}
		if len(diffs) > 0 {
			// one class whatever the fields: a committed transaction was not applied exactly once
			add("application-state-differs", "application-query", fmt.Sprintf("%d differences; %s", len(diffs), head(strings.Join(diffs, "; "), 700)))
		}
	}
	if !equalStrings(d.Validators, in.StateVals) {
		add("hashes-disagree", "validators-running-vs-persisted", fmt.Sprintf("running %v, persisted %v", d.Validators, in.StateVals))
	}

	// (4) the node commits two further blocks
	for li, pk := range peeks {
		if li == len(peeks)-1 && H < pk.StoreHeight+2 {
			add("no-further-blocks", "running-node", fmt.Sprintf("store height at restart %d, dump at %d", pk.StoreHeight, H))
		}
	}

	// (5) re-executing the recovered chain on a fresh application reproduces every recorded hash
	if rx.Error != "" {
		add("reexec-fails", "reexec", rx.Error)
	}
	if len(rx.Mismatches) > 0 {
		m := rx.Mismatches[0]
		if rxLife != nil && rxLife.Error == "" && len(rxLife.Mismatches) == 0 && (wlClass(k.Workload) == "with-kv") {
			add("receipts-hash-depends-on-process-lifetime", "EVMApp.OnCommit",
				fmt.Sprintf("%d recorded ReceiptsHash values (first: %s of height %d: recorded %s, re-executed %s) are reproduced only when the fresh application is re-opened after heights %v like the crashed node was (EVMApp.kvs is never reset: property C05's finding)", len(rx.Mismatches), m.Where, m.Height, m.Want, m.Got, rxLife.Lifetimes))
		} else {
			fields := map[string]bool{}
			for _, x := range rx.Mismatches {
				fields[x.Field] = true
			}
			var fl []string
			for f := range fields {
				fl = append(fl, f)
			}
			sort.Strings(fl)
			extra := ""
			if rxLife != nil {
				extra = fmt.Sprintf("; with the application re-opened after heights %v: %d mismatches %s", rxLife.Lifetimes, len(rxLife.Mismatches), rxLife.Error)
			}
			site := "ReceiptsHash"
			for _, f := range []string{"AppHash", "ValidatorsHash", "LastBlockID"} {
				if fields[f] {
					site = f
					break
				}
			}
			add("recorded-hash-not-reproduced", site, fmt.Sprintf("fields %s; "+"%d hashes; first: %s of height %d (%s): recorded %s, re-executed %s%s", strings.Join(fl, "+"), len(rx.Mismatches), m.Field, m.Height, m.Where, m.Want, m.Got, extra))
		}
	}
	return dedupe(vs)
}

func dedupe(vs []*violation) []*violation {
	seen := map[string]bool{}
	var out []*violation
	for _, v := range vs {
		k := sigString(v.Sig)
		if !seen[k] {
			seen[k] = true
			out = append(out, v)
		}
	}
	return out
}

// powers strips the (per-directory) validator addresses: sorted voting powers.
func powers(vals []string) []string {
	var o []string
	for _, v := range vals {
		if i := strings.IndexByte(v, '='); i >= 0 {
			v = v[i+1:]
		}
		o = append(o, v)
	}
	sort.Strings(o)
	return o
}

type appDiff struct{ field, name, want, got string }

func diffApp(want, got appView) []appDiff {
	var out []appDiff
	cmpU := func(field string, a, b map[string]uint64) {
		for _, k := range keysU(a, b) {
			if a[k] != b[k] {
				out = append(out, appDiff{field, field + "[" + k + "]", fmt.Sprint(a[k]), fmt.Sprint(b[k])})
			}
		}
	}
	cmpS := func(field string, a, b map[string]string) {
		for _, k := range keysS(a, b) {
			if a[k] != b[k] {
				out = append(out, appDiff{field, field + "[" + k + "]", a[k], b[k]})
			}
		}
	}
	cmpU("nonce", want.Nonces, got.Nonces)
	cmpS("balance", want.Balances, got.Balances)
	cmpS("storage", want.Storage, got.Storage)
	cmpS("kv", want.KV, got.KV)
	cmpS("kv-update-history", want.KVHistory, got.KVHistory)
	cmpS("receipt", want.Receipts, got.Receipts)
	return out
}

func keysU(a, b map[string]uint64) []string {
	m := map[string]bool{}
	for k := range a {
		m[k] = true
	}
	for k := range b {
		m[k] = true
	}
	return sortedKeys(m)
}

func keysS(a, b map[string]string) []string {
	m := map[string]bool{}
	for k := range a {
		m[k] = true
	}
	for k := range b {
		m[k] = true
	}
	return sortedKeys(m)
}

func sortedKeys(m map[string]bool) []string {
	var o []string
	for k := range m {
		o = append(o, k)
	}
	sort.Strings(o)
	return o
}
