package main

import (
	"bufio"
	"bytes"
	"encoding/json"
	"fmt"
	"io/ioutil"
	"os"
	"os/exec"
	"path/filepath"
	"strings"
	"sync"
	"sync/atomic"
	"syscall"
	"time"

	"verif/core"
)

// buildVnode builds verif/cmd/vnode from /repo's current working tree (the
// harness module's replace directive), so a change of the anchored code
// reaches every run of this check.
func (c *ctx) buildVnode() {
	c.vnode = filepath.Join(c.work, "vnode")
	args := []string{"build", "-tags", "verif"}
	// VERIF_VNODE_BUILDFLAGS: extra `go build` flags for the node binary (used by
	// mutants.sh to apply a -overlay mutation; never set by vcheck)
	if extra := strings.Fields(os.Getenv("VERIF_VNODE_BUILDFLAGS")); len(extra) > 0 {
		args = append(args, extra...)
	}
	args = append(args, "-o", c.vnode, "verif/cmd/vnode")
	cmd := exec.Command("go", args...)
	cmd.Dir = "/verif"
	cmd.Env = append(os.Environ(), "GOFLAGS=-mod=mod", "GOPROXY=off", "GOSUMDB=off", "GOTOOLCHAIN=local")
	out, err := cmd.CombinedOutput()
	if err != nil {
		core.Fatal("cannot build vnode: %v\n%s", err, out)
	}
}

// procResult is what one vnode subprocess did.
type procResult struct {
	Exit     int // -1: killed by us
	Dumped   bool
	TimedOut bool
	Stalled  bool                         // the node's watchdog reported no commit for stallLimit of its own running time
	Lines    map[string][]json.RawMessage // keyword → payloads
	Order    []string
	Stderr   string
}

func (p *procResult) last(kw string, v interface{}) bool {
	l := p.Lines[kw]
	if len(l) == 0 {
		return false
	}
	return json.Unmarshal(l[len(l)-1], v) == nil
}

// vnodeRun starts vnode and waits until it exits, prints DUMPED (then it is
// killed: the node idles with its consensus goroutine parked) or the deadline
// expires.
func (c *ctx) vnodeRun(args ...string) *procResult {
	atomic.AddInt64(&c.procs, 1)
	t0 := time.Now()
	defer func() { c.phase(args[0], time.Since(t0)) }()
	cmd := exec.Command(c.vnode, args...)
	cmd.Env = os.Environ() // GOMAXPROCS as given by vcheck (16): fewer Ps make the application's spin-wait loops slower, not cheaper (measured)
	cmd.SysProcAttr = &syscall.SysProcAttr{Setpgid: true}
	stdout, _ := cmd.StdoutPipe()
	var stderr bytes.Buffer
	cmd.Stderr = &stderr
	res := &procResult{Lines: map[string][]json.RawMessage{}, Exit: -1}
	if err := cmd.Start(); err != nil {
		core.Fatal("cannot start vnode: %v", err)
	}
	var mu sync.Mutex
	dumped := make(chan struct{})
	stalled := make(chan struct{}, 1)
	readDone := make(chan struct{})
	go func() {
		defer close(readDone)
		sc := bufio.NewScanner(stdout)
		sc.Buffer(make([]byte, 1<<20), 16<<20)
		for sc.Scan() {
			line := sc.Text()
			kw, rest := line, ""
			if i := strings.IndexByte(line, ' '); i > 0 {
				kw, rest = line[:i], line[i+1:]
			}
			mu.Lock()
			res.Lines[kw] = append(res.Lines[kw], json.RawMessage(rest))
			res.Order = append(res.Order, kw)
			mu.Unlock()
			if kw == "DUMPED" {
				close(dumped)
				return
			}
			if kw == "STALL" {
				// the node's own watchdog: it has been running (ticks of its own
				// clock) without committing a block for idle_ms
				var st struct {
					IdleMs int64 `json:"idle_ms"`
				}
				if json.Unmarshal([]byte(rest), &st) == nil && st.IdleMs >= stallLimit.Milliseconds() {
					select {
					case stalled <- struct{}{}:
					default:
					}
				}
			}
		}
	}()
	waitCh := make(chan error, 1)
	go func() {
		<-readDone
		select {
		case <-dumped:
			return // the main path kills the process
		default:
		}
		waitCh <- cmd.Wait()
	}()
	kill := func() {
		syscall.Kill(-cmd.Process.Pid, syscall.SIGKILL)
		cmd.Process.Kill()
	}
	select {
	case <-dumped:
		res.Dumped = true
		kill()
		cmd.Wait()
	case err := <-waitCh:
		if err == nil {
			res.Exit = 0
		} else if ee, ok := err.(*exec.ExitError); ok {
			res.Exit = ee.ExitCode()
		}
	case <-stalled:
		res.TimedOut, res.Stalled = true, true
		kill()
		<-readDone
		select {
		case <-waitCh:
		case <-time.After(5 * time.Second):
		}
	case <-time.After(procDeadline):
		res.TimedOut = true
		kill()
		<-readDone
		select {
		case <-waitCh:
		case <-time.After(5 * time.Second):
		}
	}
	mu.Lock()
	res.Stderr = stderr.String()
	mu.Unlock()
	return res
}

// parsePanic extracts the panic line and the innermost repository frame.
func parsePanic(stderr string) (line, site string) {
	idx := strings.Index(stderr, "panic: ")
	if idx < 0 {
		idx = strings.Index(stderr, "fatal error: ")
	}
	if idx < 0 {
		return "", ""
	}
	rest := stderr[idx:]
	if j := strings.IndexByte(rest, '\n'); j >= 0 {
		line = rest[:j]
	} else {
		line = rest
	}
	if len(line) > 300 {
		line = line[:300]
	}
	for _, l := range strings.Split(rest, "\n") {
		if strings.HasPrefix(l, "github.com/dappledger/AnnChain/") && !strings.Contains(l, "go-common.Panic") && !strings.Contains(l, "utils/verifhook") {
			fn := l
			if j := strings.LastIndex(fn, "("); j > 0 {
				fn = fn[:j]
			}
			site = strings.TrimPrefix(fn, "github.com/dappledger/AnnChain/")
			break
		}
	}
	return
}

// readWriteLog returns the normalised site sequence after the (last) ARM line
// of a verifhook write log, and whether the log ends with the crash marker.
func readWriteLog(path string) (sites []string, crashed bool) {
	b, err := ioutil.ReadFile(path)
	if err != nil {
		return nil, false
	}
	for _, l := range strings.Split(string(b), "\n") {
		l = strings.TrimSpace(l)
		switch {
		case l == "":
		case l == "ARM":
			sites = nil
		case strings.HasPrefix(l, "CRASH before"):
			crashed = true
		default:
			f := strings.SplitN(l, " ", 2)
			if len(f) == 2 {
				sites = append(sites, normSite(f[1]))
			}
		}
	}
	return
}

// normSite removes the run directory from a site name.
func normSite(s string) string {
	if i := strings.IndexByte(s, ':'); i >= 0 {
		return s[:i+1] + filepath.Base(s[i+1:])
	}
	return s
}

// ---------------------------------------------------------------- records printed by vnode (subset of its types)

type blockRec struct {
	Height       int64    `json:"height"`
	Readable     bool     `json:"readable"`
	Err          string   `json:"err"`
	BytesHash    string   `json:"bytes_hash"`
	BlockHash    string   `json:"block_hash"`
	MetaHash     string   `json:"meta_hash"`
	LastBlockID  string   `json:"last_block_id"`
	AppHash      string   `json:"app_hash"`
	ReceiptsHash string   `json:"receipts_hash"`
	ValsHash     string   `json:"validators_hash"`
	Txs          []string `json:"txs"`
	ExTxs        int      `json:"extxs"`
}

type appView struct {
	Nonces    map[string]uint64 `json:"nonces"`
	Balances  map[string]string `json:"balances"`
	Storage   map[string]string `json:"storage"`
	KV        map[string]string `json:"kv"`
	KVHistory map[string]string `json:"kv_history"`
	Receipts  map[string]string `json:"receipts"`
}

type dumpRec struct {
	Height      int64      `json:"height"`
	StoreHeight int64      `json:"store_height"`
	StateHeight int64      `json:"state_height"`
	AppHeight   int64      `json:"app_height"`
	AppHash     string     `json:"app_hash"`
	Validators  []string   `json:"validators"`
	ValsHash    string     `json:"validators_hash"`
	Blocks      []blockRec `json:"blocks"`
	App         appView    `json:"app"`
	QueryPanics []string   `json:"query_panics"`
	WorkloadTxs []string   `json:"workload_txs"`
}

type inspectRec struct {
	StoreHeight   int64      `json:"store_height"`
	Blocks        []blockRec `json:"blocks"`
	RawParts      []string   `json:"raw_parts"`
	SeenCommit    []bool     `json:"seen_commit"`
	StateHeight   int64      `json:"state_height"`
	StateAppHash  string     `json:"state_app_hash"`
	StateRcptHash string     `json:"state_receipts_hash"`
	StateBlockID  string     `json:"state_last_block_id"`
	StateValsHash string     `json:"state_validators_hash"`
	StateVals     []string   `json:"state_validators"`
	AppHeight     int64      `json:"app_height"`
	AppHash       string     `json:"app_hash"`
	Errors        []string   `json:"errors"`
}

type mismatch struct {
	Height int64  `json:"height"`
	Field  string `json:"field"`
	Where  string `json:"where"`
	Want   string `json:"recorded"`
	Got    string `json:"reexecuted"`
}

type reexecRec struct {
	Inspect    *inspectRec `json:"inspect"`
	Blocks     int64       `json:"blocks_reexecuted"`
	Lifetimes  []int64     `json:"lifetimes"`
	Mismatches []mismatch  `json:"mismatches"`
	Error      string      `json:"error"`
}

type startRec struct {
	Store int64 `json:"store"`
	State int64 `json:"state"`
	App   int64 `json:"app"`
}

type commitRec struct {
	Height    int64  `json:"height"`
	BytesHash string `json:"bytes_hash"`
	NTxs      int    `json:"ntxs"`
	LoadErr   string `json:"load_err"`
	LoadPanic string `json:"load_panic"`
}

func readDump(path string) (*dumpRec, error) {
	b, err := ioutil.ReadFile(path)
	if err != nil {
		return nil, err
	}
	d := &dumpRec{}
	if err := json.Unmarshal(b, d); err != nil {
		return nil, err
	}
	return d, nil
}

// reexecRun runs the offline pass over dir.
func (c *ctx) reexecRun(dir, scratch string, lifetimes []int64) (*reexecRec, *procResult) {
	os.RemoveAll(scratch)
	args := []string{"reexec", "-dir", dir, "-scratch", scratch}
	if len(lifetimes) > 0 {
		var s []string
		for _, l := range lifetimes {
			s = append(s, fmt.Sprint(l))
		}
		args = append(args, "-lifetimes", strings.Join(s, ","))
	}
	p := c.vnodeRun(args...)
	r := &reexecRec{}
	if !p.last("REEXEC", r) || r.Inspect == nil {
		return nil, p
	}
	return r, p
}

func jsonUnmarshal(raw json.RawMessage, v interface{}) bool { return json.Unmarshal(raw, v) == nil }

// phase accumulates the wall time of the subprocesses per vnode mode.
func (c *ctx) phase(name string, d time.Duration) {
	c.phaseMu.Lock()
	defer c.phaseMu.Unlock()
	if c.phaseN == nil {
		c.phaseN, c.phaseT = map[string]int{}, map[string]time.Duration{}
	}
	c.phaseN[name]++
	c.phaseT[name] += d
}

func (c *ctx) phaseReport() map[string]string {
	c.phaseMu.Lock()
	defer c.phaseMu.Unlock()
	m := map[string]string{}
	for k, n := range c.phaseN {
		m[k] = fmt.Sprintf("%d runs, mean %.2fs", n, c.phaseT[k].Seconds()/float64(n))
	}
	return m
}
