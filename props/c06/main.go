// C06 — crash-atomic commit.  CRASHNODE (DESIGN §4.4, §5 C06): the real node
// (verif/cmd/vnode = chain/core.NewNode, LevelDB, loopback p2p) runs as a
// subprocess, dies (exit 86) immediately before the k-th durable write it issues
// while committing blocks 3 and 4, is restarted on the same directory without
// any operator action, and the recovered node is compared with the property.
// Every k in 1..W is enumerated (W = length of the durable-write sequence of
// heights 3..4, measured by a `writelog` run); the thorough tier adds a second
// crash before every write k2 of the recovery run.
package main

import (
	"fmt"
	"os"
	"path/filepath"
	"sort"
	"strings"
	"sync"
	"sync/atomic"
	"time"

	"verif/core"
)

// kase identifies one crash scenario (replayable).
type kase struct {
	Workload string `json:"workload"`
	K        int    `json:"k"`            // crash before the k-th armed write of heights 3..4
	K2       int    `json:"k2,omitempty"` // 0: none; else a second crash before the k2-th write of the recovery run
}

func (c kase) String() string {
	if c.K2 > 0 {
		return fmt.Sprintf("%s/k=%d/k2=%d", c.Workload, c.K, c.K2)
	}
	return fmt.Sprintf("%s/k=%d", c.Workload, c.K)
}

type ctx struct {
	run       *core.Run
	vnode     string
	work      string
	refs      map[string]*reference
	recLogs   map[string][]string  // "<workload>/<k>" → write sites of the recovery run
	snaps     map[string]*snapshot // "<workload>/<k>" → directory image left by the first crash (thorough)
	keepSnaps bool
	refMu     sync.Mutex

	phaseMu sync.Mutex
	phaseN  map[string]int
	phaseT  map[string]time.Duration
	marks   []string

	procs        int64 // subprocesses started
	crashRuns    int64
	inconclusive int64
	retries      int64
	classes      *core.Counter
	samples      *core.Sampler
	inconcl      *core.Counter
	seq          int64
}

const (
	procDeadline = 240 * time.Second // per subprocess; expiry = inconclusive (DESIGN §1.3)
	stallLimit   = 45 * time.Second  // no commit for this long by the node's own watchdog (consensus timeouts are ≤ 5.1 s)
)

// parallel subprocess pipelines (VERIF_C06_PAR overrides, for development on a loaded machine)
var parallel = func() int {
	n := 16
	if v := os.Getenv("VERIF_C06_PAR"); v != "" {
		fmt.Sscan(v, &n)
	}
	if n < 1 {
		n = 1
	}
	return n
}()

func main() {
	run := core.Start("C06", "fault_enumeration", "CRASHNODE")
	c := &ctx{run: run, work: run.WorkDir(), refs: map[string]*reference{}, recLogs: map[string][]string{}, snaps: map[string]*snapshot{}, keepSnaps: !run.Quick() && run.ReplayPath == "", classes: core.NewCounter(), samples: core.NewSampler(8, run.Seed), inconcl: core.NewCounter()}
	os.RemoveAll(c.work)
	os.MkdirAll(c.work, 0755)
	t0 := time.Now()
	c.buildVnode()
	c.mark("build vnode", t0)

	if run.ReplayPath != "" {
		var k kase
		if err := run.ReplayCase(&k); err != nil {
			core.Fatal("cannot load replay: %v", err)
		}
		ref := c.reference(k.Workload) // reports violations of the uncrashed run itself
		if k.K <= 0 {
			run.Finish(nil, nil)
		}
		o := c.runCase(k, ref)
		fmt.Printf("replay %s: %s\n", k, o.summary())
		for _, v := range o.Violations {
			// a replay re-executes the case once more per confirmation round
			if c.confirm(k, ref, v, 2) {
				run.Report(v.Sig, k, v.Detail)
			}
		}
		run.Finish(nil, nil)
	}

	kinds := []string{"mixed"}
	if !run.Quick() {
		kinds = []string{"empty", "evm", "kv", "valset"}
	}
	if v := os.Getenv("VERIF_C06_KINDS"); v != "" { // development only
		kinds = strings.Split(v, ",")
	}
	start := time.Now()
	// wall-clock budget of the enumeration (cap reported in the evidence): cases not
	// started by then are skipped.  Normal load: quick ≈ 30 s, first level of the
	// thorough tier ≈ 2 min, the rest of the budget goes to the second level.
	budget := 10 * time.Minute
	if !run.Quick() {
		budget = 12 * time.Minute
	}
	if v := os.Getenv("VERIF_C06_BUDGET_MIN"); v != "" { // development only
		var m int
		fmt.Sscan(v, &m)
		if m > 0 {
			budget = time.Duration(m) * time.Minute
		}
	}

	// ---- references (write sequence W, reference dump) ----
	t0 = time.Now()
	for _, kind := range kinds {
		c.reference(kind)
	}
	c.mark("reference runs", t0)
	t0 = time.Now()

	// ---- first level: every k in 1..W ----
	var first []kase
	for _, kind := range kinds {
		for k := 1; k <= c.refs[kind].W; k++ {
			first = append(first, kase{Workload: kind, K: k})
		}
	}
	// kinds interleaved, so that a cut by the budget covers every kind equally
	sort.SliceStable(first, func(a, b int) bool { return first[a].K < first[b].K })
	outcomes := c.runAll(first, start.Add(budget))
	c.mark("first level", t0)
	t0 = time.Now()
	firstDone := 0
	for _, o := range outcomes {
		if o != nil {
			firstDone++
		}
	}

	// ---- second level (thorough): every k2 in 1..W_rec(k) ----
	var second []kase
	secondPlanned, secondDone := 0, 0
	wrecTotal := map[string]int{}
	{
		// quick: the second crash is enumerated for ONE first-level crash point per restart class (the
		// lowest k whose restart found that combination of persisted store/state/application heights)
		repOf := map[string]bool{}
		for i, o := range outcomes {
			if run.Quick() && o != nil {
				if repOf[o.Class] {
					continue
				}
				repOf[o.Class] = true
			}
			if o != nil && o.WRec > 0 && o.Restarted {
				wrecTotal[first[i].Workload] += o.WRec
				for k2 := 1; k2 <= o.WRec; k2++ {
					second = append(second, kase{Workload: first[i].Workload, K: first[i].K, K2: k2})
				}
			}
		}
		secondPlanned = len(second)
		// Under the cap the enumeration is cut by wall clock; the order interleaves
		// the kinds and the first-level crash points so that a cut still covers
		// every k of every kind with its first recovery writes.
		sort.SliceStable(second, func(a, b int) bool {
			if second[a].K2 != second[b].K2 {
				return second[a].K2 < second[b].K2
			}
			return second[a].K < second[b].K
		})
		out2 := c.runAll(second, start.Add(budget))
		for _, o := range out2 {
			if o != nil {
				secondDone++
			}
		}
		outcomes = append(outcomes, out2...)
		first = append(first, second...)
	}

	c.mark("second level", t0)
	t0 = time.Now()
	// ---- candidates → 5/5 confirmation → report ----
	type cand struct {
		k kase
		v *violation
	}
	bySig := map[string][]cand{}
	var sigOrder []string
	for i, o := range outcomes {
		if o == nil {
			continue
		}
		for _, v := range o.Violations {
			key := sigString(v.Sig)
			if _, ok := bySig[key]; !ok {
				sigOrder = append(sigOrder, key)
			}
			bySig[key] = append(bySig[key], cand{first[i], v})
		}
	}
	sort.Strings(sigOrder)
	confirmed, unconfirmed := 0, 0
	var cmu sync.Mutex
	var wg sync.WaitGroup
	sem := make(chan struct{}, 4)
	for _, key := range sigOrder {
		cs := bySig[key]
		wg.Add(1)
		go func(key string, cs []cand) {
			defer wg.Done()
			sem <- struct{}{}
			defer func() { <-sem }()
			// the class is confirmed by its first member that reproduces 5/5 (at most
			// three members are tried)
			rep, ok := cs[0], false
			for i := 0; i < len(cs) && i < 3 && !ok; i++ {
				rep = cs[i]
				ok = c.confirm(rep.k, c.refs[rep.k.Workload], rep.v, 5)
			}
			cmu.Lock()
			defer cmu.Unlock()
			if !ok {
				unconfirmed++
				c.inconcl.Add("candidate-not-reproduced-5/5:" + key)
				c.run.Notes = append(c.run.Notes, fmt.Sprintf("candidate %s at %s did not reproduce 5/5 — not reported (DESIGN §1.3)", key, rep.k))
				return
			}
			confirmed++
			var also []string
			for _, o := range cs {
				if o.k != rep.k {
					also = append(also, o.k.String())
				}
			}
			d := rep.v.Detail
			if len(also) > 0 {
				if len(also) > 40 {
					also = append(also[:40], fmt.Sprintf("… %d more", len(also)-40))
				}
				d += fmt.Sprintf("  [same class, single run each: %s]", strings.Join(also, ", "))
			}
			c.run.Report(rep.v.Sig, rep.k, d)
			for _, o := range cs {
				if o.k != rep.k {
					c.run.Report(o.v.Sig, o.k, o.v.Detail) // same class: counted, not listed again
				}
			}
		}(key, cs)
	}
	wg.Wait()
	c.mark("confirmation", t0)

	// ---- evidence ----
	wInfo := map[string]interface{}{}
	for _, kind := range kinds {
		r := c.refs[kind]
		wInfo[kind] = map[string]interface{}{"W": r.W, "writes_by_site": r.siteHistogram(), "sum_W_rec": wrecTotal[kind]}
	}
	evals := 0
	restartClasses := map[string]int{}
	for _, o := range outcomes {
		if o == nil {
			continue
		}
		evals++
		restartClasses[o.Class]++
	}
	exhaustive := c.inconclusive == 0 && firstDone == len(first)-len(second) && secondDone == secondPlanned && unconfirmed == 0
	cov := core.Coverage{
		"evaluations":         evals,
		"distinct_nontrivial": c.classes.Len(),
		"rule": "crash point = (workload kind, k) with k ranging over EVERY durable write (LevelDB set/batch of block store, state DB, plugin DB, application DBs; WAL write; three file operations of the signer file) issued after height 2 is committed until height 4 is committed; additionally (kind, k, k2) with k2 over every durable write of the recovery run (process start until two further heights are committed: the interrupted one and the next) - thorough: for every k, quick: for the lowest k of every restart class (combination of persisted store/state/application heights found at the restart). " +
			"A case = fresh runtime directory, real node subprocess dies (exit 86) immediately before write k, same directory restarted with the same command line, two further blocks, dump through the node's query interfaces, offline inspection of the three stores, offline re-execution of the recovered chain on a fresh application. " +
			"distinct_nontrivial counts distinct (persisted store/state/application heights found at restart, heights after NewNode, verdict) classes",
		"workloads":                 wInfo,
		"crash_runs":                int(c.crashRuns),
		"subprocesses":              int(c.procs),
		"first_level_cases":         len(first) - len(second),
		"first_level_done":          firstDone,
		"second_level_planned":      secondPlanned,
		"second_level_done":         secondDone,
		"cap":                       fmt.Sprintf("wall-clock budget %s for the enumeration (first level, then second level); first level ordered by (k, kind), second level by (k2, k, kind), so a cut covers every kind and every first-level point with its earliest recovery writes", budget),
		"inconclusive":              int(c.inconclusive),
		"inconclusive_reasons":      c.inconcl.Map(),
		"retries_write_log_differs": int(c.retries),
		"candidates_confirmed_5of5": confirmed,
		"candidates_not_reproduced": unconfirmed,
		"outcome_classes":           c.classes.Map(),
		"exhaustive":                exhaustive,
		"wall_by_stage":             c.marks,
		"subprocess_wall":           c.phaseReport(),
		"samples":                   c.samples.List(),
		"not_covered":               "raft engine (gemmill/consensus/raft/fsm.go Apply) — out of scope of this driver; power-loss semantics; multi-validator recovery; multi-part blocks",
	}
	run.Finish(cov, []string{
		"crash model = process death between system calls: completed writes are visible after restart, nothing torn or reordered (DESIGN §6.4)",
		"application genesis = repository DefaultGenesis + balances for three workload accounts, written with the repository's own functions before the first start (the repository's genesis funds nobody, so no transfer could be valid otherwise)",
		"the workload driver is attached through the application's OnNewRound hook (exported field EVMApp.AngineHooks): batch h is handed to Angine.BroadcastTx while the consensus goroutine waits in enterNewRound(h,0); after a restart the batch of the first uncommitted height is handed in again, as a client would",
		"real goroutines, real time: a subprocess deadline of 240 s (typical run: < 2 s) that expires counts as inconclusive, never as a verdict; a restarted node whose own watchdog reports 45 s of running time without a commit (consensus timeouts ≤ 5.1 s) is a no-progress candidate; every violation candidate is re-run 5× and reported only if it reproduces 5/5",
		"interpretation of 'block store, consensus state and application agree on one height': the block store found at a restart must be able to load every block up to the height its own descriptor advertises (the descriptor is what makes a block visible, property anchors); a descriptor ahead of a complete block is reported as store-advertises-unreadable-block even though pbft's WAL replay later rewrites the block",
		"single validator; validator-set change = the validator raises its own voting power through the admin-operation path (a second, absent validator would add proposer rounds that depend on timeouts, and the cached-proposer finding of C07/C16 would interfere)",
	})
}

func (c *ctx) mark(what string, t0 time.Time) {
	c.marks = append(c.marks, fmt.Sprintf("%s %.1fs", what, time.Since(t0).Seconds()))
}

func sigString(sig map[string]string) string {
	ks := make([]string, 0, len(sig))
	for k := range sig {
		ks = append(ks, k)
	}
	sort.Strings(ks)
	var b strings.Builder
	for _, k := range ks {
		fmt.Fprintf(&b, "%s=%s;", k, sig[k])
	}
	return b.String()
}

// runAll runs the cases on `parallel` workers.  With a non-zero deadline, cases
// not started by then are skipped (nil outcome).
func (c *ctx) runAll(cases []kase, deadline time.Time) []*outcome {
	out := make([]*outcome, len(cases))
	var next int64 = -1
	var wg sync.WaitGroup
	for w := 0; w < parallel; w++ {
		wg.Add(1)
		go func() {
			defer wg.Done()
			for {
				i := int(atomic.AddInt64(&next, 1))
				if i >= len(cases) {
					return
				}
				if !deadline.IsZero() && time.Now().After(deadline) {
					continue
				}
				k := cases[i]
				o := c.runCase(k, c.refs[k.Workload])
				out[i] = o
				c.classes.Add(o.Class)
				if o.Inconclusive != "" {
					atomic.AddInt64(&c.inconclusive, 1)
					c.inconcl.Add(o.Inconclusive)
				}
				if i%17 == 0 {
					c.samples.Add(map[string]interface{}{"case": k, "class": o.Class, "w_rec": o.WRec})
				}
			}
		}()
	}
	wg.Wait()
	return out
}

// confirm re-runs a candidate n times; true iff the same violation class shows
// up every time.
func (c *ctx) confirm(k kase, ref *reference, v *violation, n int) bool {
	want := sigString(v.Sig)
	res := make([]bool, n)
	var wg sync.WaitGroup
	for i := 0; i < n; i++ {
		wg.Add(1)
		go func(i int) {
			defer wg.Done()
			o := c.runCase(k, ref)
			for _, v2 := range o.Violations {
				if sigString(v2.Sig) == want {
					res[i] = true
				}
			}
		}(i)
	}
	wg.Wait()
	for _, ok := range res {
		if !ok {
			return false
		}
	}
	return true
}

func (c *ctx) caseDir(k kase) string {
	n := atomic.AddInt64(&c.seq, 1)
	d := filepath.Join(c.work, fmt.Sprintf("%s_k%d_%d_%d", k.Workload, k.K, k.K2, n))
	os.MkdirAll(d, 0755)
	return d
}
