#!/bin/bash
# Detection demos for C06: the node binary (verif/cmd/vnode) is built against
# mutated copies of the anchored sources (go build -overlay, passed through
# VERIF_VNODE_BUILDFLAGS; /repo is never touched) and the quick tier runs in a
# private VERIF_ROOT.  Expected: 'none' exits 0 (with the proposed known: line),
# every mutant exits 1.
#   props/c06/mutants.sh [mutant ...]        (default: all)
# Environment: VERIF_C06_PAR=n lowers the number of parallel node pipelines (busy machine).
set -u
ROOT=$(cd "$(dirname "$0")/../.." && pwd)
REPO=${VERIF_REPO:-/repo}
export GOFLAGS=-mod=mod GOPROXY=off GOSUMDB=off GOTOOLCHAIN=local
W=$ROOT/.work/c06/mut
mkdir -p "$W"

gen() { # $1 = mutant name ; writes $W/$1/overlay.json
  python3 - "$1" "$REPO" "$W/$1" <<'EOF'
import json, os, sys
name, repo, out = sys.argv[1:4]
os.makedirs(out, exist_ok=True)
store = repo + "/gemmill/blockchain/store.go"
execu = repo + "/gemmill/state/execution.go"
cstate = repo + "/gemmill/consensus/pbft/state.go"
angine = repo + "/gemmill/angine.go"
evm = repo + "/chain/app/evm/evm.go"
def patch(path, pairs):
    s = open(path).read()
    for old, new in pairs:
        assert s.count(old) == 1, (name, "pattern not found exactly once", old)
        s = s.replace(old, new)
    dst = os.path.join(out, os.path.basename(path))
    open(dst, "w").write(s)
    return {path: dst}
rep = {}
if name == "descriptor-first":
    # (a) BlockStore.SaveBlock writes the height descriptor BEFORE meta, parts and commits
    rep.update(patch(store, [
        ("\t// Save new BlockStoreStateJSON descriptor\n\tBlockStoreStateJSON{Height: height, OriginHeight: bs.originHeight}.Save(bs.db)\n", ""),
        ("\t// Save block meta\n\tmeta := types.NewBlockMeta(block, blockParts)\n\tmetaBytes := wire.BinaryBytes(meta)\n\tbs.db.Set(calcBlockMetaKey(height), metaBytes)\n\n\t// Save block parts\n\tfor i := 0; i < blockParts.Total(); i++ {\n\t\tbs.saveBlockPart(",
         "\tBlockStoreStateJSON{Height: height, OriginHeight: bs.originHeight}.Save(bs.db)\n\t// Save block meta\n\tmeta := types.NewBlockMeta(block, blockParts)\n\tmetaBytes := wire.BinaryBytes(meta)\n\tbs.db.Set(calcBlockMetaKey(height), metaBytes)\n\n\t// Save block parts\n\tfor i := 0; i < blockParts.Total(); i++ {\n\t\tbs.saveBlockPart("),
    ]))
elif name == "state-save-before-app-commit":
    # (b) State.ApplyBlock persists the state before the commit hook (application commit) has run
    rep.update(patch(execu, [
        ("\t// lock mempool, commit state, update mempoool\n\terr = s.CommitStateUpdateMempool(", "\ts.Save()\n\t// lock mempool, commit state, update mempoool\n\terr = s.CommitStateUpdateMempool("),
    ]))
elif name == "no-wal-catchup":
    # (c) ConsensusState.OnStart no longer replays the write-ahead log of the unfinished height
    rep.update(patch(cstate, [
        ("\tif err := cs.catchupReplay(cs.Height); err != nil {", "\tif err := error(nil); err != nil {"),
    ]))
elif name == "recover-off-by-one":
    # (d) RecoverFromCrash: "the application is ahead" test off by one
    rep.update(patch(angine, [
        ("\tif storeBlockHeight < appBlockHeight {\n", "\tif storeBlockHeight <= appBlockHeight {\n"),
    ]))
elif name == "lastblock-before-trie":
    # (e) EVMApp.OnCommit records the new last block BEFORE the trie nodes of its root are on disk
    rep.update(patch(evm, [
        ("\tif err := app.currentState.Database().TrieDB().Commit(appHash, false); err != nil {", "\tapp.SaveLastBlock(LastBlockInfo{Height: height, AppHash: appHash.Bytes()})\n\tif err := app.currentState.Database().TrieDB().Commit(appHash, false); err != nil {"),
    ]))
elif name == "none":
    pass  # baseline: the unchanged tree, must exit 0 with the proposed known: lines
else:
    sys.exit("unknown mutant " + name)
json.dump({"Replace": rep}, open(os.path.join(out, "overlay.json"), "w"), indent=1)
EOF
}

ALL="none descriptor-first state-save-before-app-commit no-wal-catchup recover-off-by-one"
[ $# -gt 0 ] && ALL="$*"
( cd "$ROOT" && go build -tags verif -o "$W/bin" ./props/c06 ) || { echo "driver does not compile"; exit 2; }
rc=0
for m in $ALL; do
  gen "$m" || { echo "MUTANT $m: generation failed"; rc=2; continue; }
  # compile check of the mutated node first (the driver would report it as an internal error)
  ( cd "$ROOT" && go build -tags verif -overlay "$W/$m/overlay.json" -o /dev/null ./cmd/vnode ) || { echo "MUTANT $m: does not compile"; rc=2; continue; }
  mkdir -p "$W/$m/root"
  # the mutant is judged by what it adds to the findings of the unchanged tree
  cat "$ROOT/known_findings.txt" "$ROOT/props/c06/PROPOSED_KNOWN.txt" > "$W/$m/root/known_findings.txt"
  VERIF_VNODE_BUILDFLAGS="-overlay $W/$m/overlay.json" VERIF_ROOT="$W/$m/root" "$W/bin" quick > "$W/$m/out.txt" 2>&1
  code=$?
  echo "MUTANT $m: exit $code  ($(grep -c '^VIOLATION' "$W/$m/out.txt") violation classes; $(tail -1 "$W/$m/out.txt"))"
  grep -A1 '^VIOLATION' "$W/$m/out.txt" | grep 'sig:' | sed 's/^/      /' | head -8
  if [ "$m" = none ]; then [ $code -eq 0 ] || rc=1; else [ $code -eq 1 ] || rc=1; fi
done
exit $rc
