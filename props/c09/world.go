package main

import (
	"bytes"
	"errors"
	"fmt"
	"math/big"
	"os"
	"path/filepath"
	"strings"
	"sync"

	"verif/core"
	"verif/evmkit"

	rtypes "github.com/dappledger/AnnChain/chain/types"
	"github.com/dappledger/AnnChain/eth/common"
	"github.com/dappledger/AnnChain/eth/crypto"
	"github.com/dappledger/AnnChain/eth/rlp"
)

// ---------------------------------------------------------------- the fixed base state
//
// genesis: DefaultGenesis (admin contract) + n grid senders funded with F and
// nonce 1 each (one fresh sender per case, so that cases chained on one
// application instance do not disturb each other's nonce), eoa with 1000
// block 1: dep deploys Store and Loop, dep puts KV k=base
// all other accounts (neighbour / tail senders, carol) have nonce 0, balance 0.

var (
	dep       = evmkit.Key(0)
	alice     = gridSender(0)
	bob       = evmkit.Key(2) // nonce 0, no balance
	mutSender = evmkit.Key(5) // funded, nonce 1 (base of the mutated transfer)
	eoa       = evmkit.Key(3)
	carol     = evmkit.Key(4)

	fresh     = common.HexToAddress("0x00000000000000000000000000000000c0ffee00")
	storeAddr = evmkit.CreatedAddress(dep.Addr, 0)
	loopAddr  = evmkit.CreatedAddress(dep.Addr, 1)

	fundF      = new(big.Int).Exp(big.NewInt(10), big.NewInt(24), nil)
	aliceNonce = uint64(1)

	maxU256  = new(big.Int).Sub(new(big.Int).Lsh(big.NewInt(1), 256), big.NewInt(1))
	maxU64   = ^uint64(0)
	secp256N = crypto.S256().Params().N

	bigKey = bytes.Repeat([]byte{'K'}, 257)  // > evm.MaxKey
	bigVal = bytes.Repeat([]byte{'V'}, 4097) // > evm.MaxValue
)

func baseBlock() [][]byte {
	return [][]byte{
		evmkit.Create(dep, 0, evmkit.StoreInit()),
		evmkit.Create(dep, 1, evmkit.LoopInit()),
		evmkit.KVPut(dep, 2, []byte("k"), []byte("base")),
	}
}

var keyCache sync.Map

func cachedKey(i int) *evmkit.Account {
	if v, ok := keyCache.Load(i); ok {
		return v.(*evmkit.Account)
	}
	a := evmkit.Key(i)
	keyCache.Store(i, a)
	return a
}

// gridSender(i) sends the grid tx of case i; neighbour(i) sends the two valid
// txs around it in the "between" placement; tailSender(i) the valid tx that
// closes raw block i.
func gridSender(i int) *evmkit.Account { return cachedKey(1000 + i) }
func neighbour(i int) *evmkit.Account  { return cachedKey(1000000 + i) }
func tailSender(i int) *evmkit.Account { return cachedKey(2000000 + i) }

// globalAccounts / globalKeys are observed after every block of every run.
var globalAccounts = []common.Address{eoa.Addr, fresh, storeAddr, loopAddr, evmkit.AdminTo, evmkit.AdminPrecompile, {} /* coinbase */, common.BytesToAddress([]byte{1})}
var globalKeys = [][]byte{[]byte("k"), []byte("gk"), []byte("kB"), []byte("kO"), bigKey, {}}

// adminCallback is installed into the AdminOP precompile: stateless, accepts
// exactly the payloads ending in "ok".
func adminCallback(from []byte, data []byte) error {
	if bytes.HasSuffix(data, []byte("ok")) {
		return nil
	}
	return errors.New("admin op refused")
}

// buildTemplate creates the base chain directory and a read-only base chain for
// pre-state queries.
func buildTemplate(work string, senders int) (tpl string, base *evmkit.Chain) {
	tpl = filepath.Join(work, "tpl")
	os.RemoveAll(tpl)
	alloc := map[common.Address]*big.Int{eoa.Addr: big.NewInt(1000)}
	nonces := map[common.Address]uint64{mutSender.Addr: aliceNonce}
	alloc[mutSender.Addr] = fundF
	for i := 0; i < senders; i++ {
		a := gridSender(i).Addr
		alloc[a] = fundF
		nonces[a] = aliceNonce
	}
	c, err := evmkit.Open(evmkit.Options{Dir: tpl, Alloc: alloc, AllocNonce: nonces})
	if err != nil {
		core.Fatal("cannot open template chain: %v", err)
	}
	r, err := c.ExecBlock(baseBlock())
	if err != nil || len(r.Valid) != 3 || len(r.Invalid) != 0 {
		core.Fatal("base block failed: %v %+v", err, r)
	}
	if c.Nonce(alice.Addr) != aliceNonce || c.BalanceVia(storeAddr, alice.Addr).Cmp(fundF) != 0 {
		core.Fatal("base state unexpected: alice nonce %d balance %v", c.Nonce(alice.Addr), c.BalanceVia(storeAddr, alice.Addr))
	}
	if len(c.CallContract(alice, storeAddr, evmkit.StoreGet())) != 32 {
		core.Fatal("store fixture not deployed")
	}
	c.Close()
	// one more open/close so that copies have no LevelDB journal to replay
	if c, err = evmkit.Open(evmkit.Options{Dir: tpl}); err != nil {
		core.Fatal("reopen template: %v", err)
	}
	c.Close()
	bdir := filepath.Join(work, "base")
	os.RemoveAll(bdir)
	if err := evmkit.CopyDir(tpl, bdir); err != nil {
		core.Fatal("copy template: %v", err)
	}
	base, err = evmkit.Open(evmkit.Options{Dir: bdir})
	if err != nil {
		core.Fatal("open base chain: %v", err)
	}
	// executing (not committing) an empty block sets the header contract queries need
	if _, err := base.Execute(base.MakeBlock(nil)); err != nil {
		core.Fatal("base chain: %v", err)
	}
	return tpl, base
}

// ---------------------------------------------------------------- the transaction grid

type txSpec struct {
	R  string `json:"rcpt"`      // create pc1..pc8 fe admin eoa fresh store loop self
	P  string `json:"payload"`   // see payloads
	N  int    `json:"nonce_off"` // -1 0 +1 relative to the sender's current nonce
	G  string `json:"gas"`       // 0 1 std max
	Pr string `json:"price"`     // 0 1 max
	V  string `json:"value"`     // 0 bal bal+1
	S  string `json:"sig"`       // valid vflip v29 r0 shigh eip155c1 eip155c9
}

func (s txSpec) String() string {
	return fmt.Sprintf("to=%s payload=%s nonce%+d gas=%s price=%s value=%s sig=%s", s.R, s.P, s.N, s.G, s.Pr, s.V, s.S)
}

var (
	recipients = []string{"create", "pc1", "pc2", "pc3", "pc4", "pc5", "pc6", "pc7", "pc8", "fe", "admin", "eoa", "fresh", "store", "loop", "self"}
	payloads   = []string{"empty", "b1", "b31", "b32", "b33", "b51", "b52", "z52", "h52", "kvprefix", "kvbad", "kv", "kvbigkey", "kvbigval", "set", "fail", "spin", "adminok", "adminbad"}
	nonceOffs  = []int{0, -1, 1}
	gasLimits  = []string{"0", "1", "std", "max"}
	gasPrices  = []string{"0", "1", "max"}
	values     = []string{"0", "bal", "bal+1"}
	sigs       = []string{"valid", "vflip", "v29", "r0", "shigh", "eip155c1", "eip155c9"}
)

func pattern(n int) []byte {
	b := make([]byte, n)
	for i := range b {
		b[i] = byte(i + 1)
	}
	return b
}

func payloadBytes(p string) []byte {
	switch p {
	case "empty":
		return nil
	case "b1":
		return []byte{0x01}
	case "b31":
		return pattern(31)
	case "b32":
		return pattern(32)
	case "b33":
		return pattern(33)
	case "b51":
		return pattern(51)
	case "b52":
		return pattern(52) // first word huge: AdminOP clamps the length
	case "z52":
		return make([]byte, 52) // first word 0: AdminOP's data slice would start after its end
	case "h52":
		b := make([]byte, 52) // first word 2^63: AdminOP's int conversion of the length goes negative
		b[24] = 0x80
		return b
	case "kvprefix":
		return append([]byte{}, rtypes.KVTxType...)
	case "kvbad":
		return append(append([]byte{}, rtypes.KVTxType...), 0xff, 0x01)
	case "kv":
		return evmkit.KVPayload([]byte("gk"), []byte("gv"))
	case "kvbigkey":
		return evmkit.KVPayload(bigKey, []byte("v"))
	case "kvbigval":
		return evmkit.KVPayload([]byte("gk"), bigVal)
	case "set":
		return evmkit.StoreSet(0x77)
	case "fail":
		return evmkit.StoreFail()
	case "spin":
		return evmkit.LoopRuntime() // as init code: a constructor that never returns
	case "adminok":
		return evmkit.AdminCalldata([]byte("ok"))
	case "adminbad":
		return evmkit.AdminCalldata([]byte("no"))
	}
	panic("unknown payload " + p)
}

func recipientAddr(r string) *common.Address {
	var a common.Address
	switch r {
	case "create":
		return nil
	case "pc1", "pc2", "pc3", "pc4", "pc5", "pc6", "pc7", "pc8":
		a = common.BytesToAddress([]byte{r[2] - '0'})
	case "fe":
		a = evmkit.AdminPrecompile
	case "admin":
		a = evmkit.AdminTo
	case "eoa":
		a = eoa.Addr
	case "fresh":
		a = fresh
	case "store":
		a = storeAddr
	case "loop":
		a = loopAddr
	case "self":
		a = common.Address{} // replaced by the sender's own address in buildTx
	default:
		panic("unknown recipient " + r)
	}
	return &a
}

// buildTx encodes the grid transaction for the given sender (current nonce aliceNonce, balance fundF).
func buildTx(s txSpec, alice *evmkit.Account) []byte {
	spec := evmkit.TxSpec{Nonce: uint64(int64(aliceNonce) + int64(s.N)), To: recipientAddr(s.R), Data: payloadBytes(s.P)}
	if s.R == "self" {
		self := alice.Addr
		spec.To = &self
	}
	switch s.G {
	case "0":
		spec.Gas = 0
	case "1":
		spec.Gas = 1
	case "std":
		spec.Gas = evmkit.DefaultGas
	case "h63":
		spec.Gas = 1 << 63
	case "max":
		spec.Gas = maxU64
	default:
		panic("gas " + s.G)
	}
	switch s.Pr {
	case "0":
		spec.GasPrice = big.NewInt(0)
	case "1":
		spec.GasPrice = big.NewInt(1)
	case "max":
		spec.GasPrice = maxU256
	default:
		panic("price " + s.Pr)
	}
	switch s.V {
	case "0":
		spec.Value = big.NewInt(0)
	case "bal":
		spec.Value = new(big.Int).Set(fundF)
	case "bal+1":
		spec.Value = new(big.Int).Add(fundF, big.NewInt(1))
	default:
		panic("value " + s.V)
	}
	switch s.S {
	case "valid":
		return evmkit.Sign(alice, spec)
	case "eip155c1":
		return evmkit.SignEIP155(alice, spec, 1)
	case "eip155c9":
		return evmkit.SignEIP155(alice, spec, 9)
	}
	v, r, sv := evmkit.SigValues(alice, spec)
	if strings.HasPrefix(s.S, "vrs:") {
		// signature-field boundary family: "vrs:<v>:<r>:<s>", each a name of sigFieldValue ("own" = the
		// value of the sender's genuine signature); encoded by hand, nothing is checked
		f := strings.Split(s.S, ":")
		if len(f) != 4 {
			panic("sig " + s.S)
		}
		return evmkit.EncodeTx(spec, sigFieldValue(f[1], v), sigFieldValue(f[2], r), sigFieldValue(f[3], sv))
	}
	switch s.S {
	case "vflip": // a valid signature — of some other address
		v = new(big.Int).Sub(big.NewInt(55), v)
	case "v29":
		v = big.NewInt(29)
	case "r0":
		r = big.NewInt(0)
	case "shigh": // the mathematically equivalent high-s signature
		sv = new(big.Int).Sub(secp256N, sv)
		v = new(big.Int).Sub(big.NewInt(55), v)
	default:
		panic("sig " + s.S)
	}
	return evmkit.EncodeTx(spec, v, r, sv)
}

// Signature-field boundary values.  N is the order of secp256k1; R and S are
// scalars mod N, the application's signer (Homestead) also demands S <= N/2;
// V is 27/28 (Homestead), 35+2c / 36+2c (EIP-155, chain c); the RLP integer
// fields have no length limit, so values of 33 bytes decode fine.
var (
	sigRNames = []string{"0", "1", "N-1", "N", "N+1", "2^256-1", "2^256", "2^264-1"}
	sigSNames = []string{"0", "1", "N/2", "N/2+1", "N-1", "N", "N+1", "2^256-1", "2^256", "2^264-1"}
	sigVNames = []string{"0", "1", "26", "27", "28", "29", "35", "36", "37", "38", "53", "54", "255", "256", "2^64"}
)

func sigFieldValue(name string, own *big.Int) *big.Int {
	pow := func(n uint) *big.Int { return new(big.Int).Lsh(big.NewInt(1), n) }
	add := func(x *big.Int, d int64) *big.Int { return new(big.Int).Add(x, big.NewInt(d)) }
	switch name {
	case "own":
		return new(big.Int).Set(own)
	case "N-1":
		return add(secp256N, -1)
	case "N":
		return new(big.Int).Set(secp256N)
	case "N+1":
		return add(secp256N, 1)
	case "N/2":
		return new(big.Int).Rsh(secp256N, 1)
	case "N/2+1":
		return add(new(big.Int).Rsh(secp256N, 1), 1)
	case "2^256-1":
		return add(pow(256), -1)
	case "2^256":
		return pow(256)
	case "2^264-1":
		return add(pow(264), -1)
	case "2^64":
		return pow(64)
	}
	n, ok := new(big.Int).SetString(name, 10)
	if !ok {
		panic("signature field value " + name)
	}
	return n
}

// spinning reports whether executing the tx runs the interpreter into its budget (≈ 0.6 s).
func (s txSpec) spinning() bool {
	if s.N != 0 || s.S != "valid" || (s.G != "std" && s.G != "max") || s.Pr == "max" || s.V == "bal+1" {
		return false
	}
	if s.Pr == "1" && s.V == "bal" {
		return false
	}
	if bytes.HasPrefix(payloadBytes(s.P), rtypes.KVTxType) {
		return false
	}
	return s.R == "loop" || (s.R == "create" && s.P == "spin")
}

func def() txSpec { return txSpec{R: "eoa", P: "empty", N: 0, G: "std", Pr: "0", V: "0", S: "valid"} }

// grid enumerates the structured grid; the exact product sets are spelled out
// in the evidence `rule`.
func grid(quick bool) []txSpec {
	var out []txSpec
	seen := map[txSpec]bool{}
	add := func(s txSpec) {
		if !seen[s] {
			seen[s] = true
			out = append(out, s)
		}
	}
	in := func(x string, set ...string) bool {
		for _, y := range set {
			if x == y {
				return true
			}
		}
		return false
	}
	// A: recipient × payload × nonce
	for _, r := range recipients {
		for _, p := range payloads {
			for _, n := range nonceOffs {
				if quick && n != 0 && !in(p, "empty", "kv", "set") {
					continue
				}
				if r == "loop" && (!in(p, "empty", "set", "kv", "b52") || (quick && !in(p, "empty", "kv"))) {
					continue // every non-KV payload spins the same way (~0.6 s per execution); keep three (quick: one) and a KV one
				}
				s := def()
				s.R, s.P, s.N = r, p, n
				add(s)
			}
		}
	}
	// B: recipient × gas limit × gas price × value
	for _, r := range recipients {
		for _, g := range gasLimits {
			for _, pr := range gasPrices {
				for _, v := range values {
					if quick && (g == "0" || pr == "max" || v == "bal") {
						continue
					}
					s := def()
					s.R, s.G, s.Pr, s.V = r, g, pr, v
					if s.spinning() && !(g == "max" && pr == "1" && v == "0") && !(g == "std" && pr == "0" && v == "bal") {
						continue // keep two executing loop calls (≈ 0.6 s each), and all failing ones
					}
					add(s)
				}
			}
		}
	}
	// C: signature × nonce × payload × recipient
	for _, sg := range sigs {
		for _, n := range nonceOffs {
			for _, p := range []string{"empty", "kv", "set"} {
				for _, r := range []string{"create", "fe", "store", "eoa", "self"} {
					if quick && (p == "empty" || in(r, "create", "eoa")) {
						continue
					}
					s := def()
					s.S, s.N, s.P, s.R = sg, n, p, r
					add(s)
				}
			}
		}
	}
	// F: signature × every recipient, signature × every payload
	for _, sg := range sigs {
		for _, r := range recipients {
			if r == "loop" && sg == "valid" {
				continue
			}
			s := def()
			s.S, s.R = sg, r
			add(s)
		}
		if quick {
			continue
		}
		for _, p := range payloads {
			s := def()
			s.S, s.P, s.R = sg, p, "store"
			add(s)
		}
	}
	// H: signature fields at their boundaries.  R x S x V in full (thorough; "own" = the genuine
	// value as a further member of each dimension); quick: R x S for V in {27, 28}, and every V
	// for (R,S) in {(own,own), (1,1), (2^256,1), (1,2^256)}
	withOwn := func(a []string) []string { return append([]string{"own"}, a...) }
	for _, v := range withOwn(sigVNames) {
		for _, r := range withOwn(sigRNames) {
			for _, sv := range withOwn(sigSNames) {
				if v == "own" && r == "own" && sv == "own" {
					continue // the valid signature
				}
				if quick {
					rs := r + "," + sv
					full := in(v, "27", "28") && r != "own" && sv != "own"
					if !full && !(v != "own" && in(rs, "own,own", "1,1", "2^256,1", "1,2^256")) {
						continue
					}
				}
				s := def()
				s.S = "vrs:" + v + ":" + r + ":" + sv
				add(s)
			}
		}
	}
	// I: gas limit 2^63 (two of them exceed 2^64) x gas price x value
	for _, r := range []string{"eoa", "store", "create"} {
		for _, pr := range gasPrices {
			for _, v := range values {
				if quick && (pr == "max" || v == "bal") {
					continue
				}
				s := def()
				s.R, s.G, s.Pr, s.V = r, "h63", pr, v
				add(s)
			}
		}
	}
	if quick {
		return out
	}
	// D: payload × gas limit × gas price, three recipients
	for _, r := range []string{"store", "fe", "create"} {
		for _, p := range payloads {
			for _, g := range gasLimits {
				for _, pr := range gasPrices {
					s := def()
					s.R, s.P, s.G, s.Pr = r, p, g, pr
					if s.spinning() && !(g == "max" && pr == "1") {
						continue
					}
					add(s)
				}
			}
		}
	}
	// E: payload × value, four recipients
	for _, r := range []string{"store", "fe", "create", "eoa"} {
		for _, p := range payloads {
			for _, v := range values {
				s := def()
				s.R, s.P, s.V = r, p, v
				if s.spinning() && v != "0" {
					continue
				}
				add(s)
			}
		}
	}
	// G: nonce × gas limit × gas price × value, four recipients
	for _, r := range []string{"store", "eoa", "create", "fe"} {
		for _, n := range nonceOffs {
			for _, g := range gasLimits {
				for _, pr := range gasPrices {
					for _, v := range values {
						s := def()
						s.R, s.N, s.G, s.Pr, s.V = r, n, g, pr, v
						add(s)
					}
				}
			}
		}
	}
	return out
}

// ---------------------------------------------------------------- classification of inputs (for signatures and histograms)

type txInfo struct {
	raw       []byte
	decodable bool
	signed    bool // sender recoverable with the application's signer
	from      common.Address
	nonce     uint64
	create    bool
	to        common.Address
	created   common.Address
	isKV      bool // data starts with the KV marker
	kvOK      bool
	kvKey     []byte
	kvVal     []byte
	hashes    [][]byte // hash of the bytes and, if different, of the re-encoding
	class     string
	decPanic  string // non-empty: decoding / sender recovery panicked (site)
	decVal    string
}

func analyse(raw []byte) *txInfo {
	ti := &txInfo{raw: raw, hashes: [][]byte{evmkit.TxHash(raw)}}
	if len(raw) == 0 {
		ti.class = "zero-length-tx"
		return ti
	}
	p, v, st := core.Try(func() {
		tx, from, err := evmkit.Decode(raw)
		if tx == nil {
			return
		}
		ti.decodable = true
		ti.signed = err == nil
		ti.from = from
		ti.nonce = tx.Nonce()
		if tx.To() == nil {
			ti.create = true
			ti.created = evmkit.CreatedAddress(from, tx.Nonce())
		} else {
			ti.to = *tx.To()
		}
		if re, e := rlp.EncodeToBytes(tx); e == nil && !bytes.Equal(re, raw) {
			ti.hashes = append(ti.hashes, evmkit.TxHash(re))
		}
		d := tx.Data()
		if bytes.HasPrefix(d, rtypes.KVTxType) {
			ti.isKV = true
			kv := &rtypes.KV{}
			if rlp.DecodeBytes(d[len(rtypes.KVTxType):], kv) == nil {
				ti.kvOK, ti.kvKey, ti.kvVal = true, kv.Key, kv.Value
			}
		}
	})
	if p {
		ti.decPanic, ti.decVal = core.PanicSite(st), core.FirstLine(v)
		ti.class = "undecodable-bytes"
		return ti
	}
	switch {
	case !ti.decodable:
		ti.class = "undecodable-bytes"
	case !ti.signed:
		ti.class = "bad-signature"
	case ti.isKV:
		ti.class = "kv"
	case ti.create:
		ti.class = "create"
	case ti.to == evmkit.AdminPrecompile:
		ti.class = "to-adminop-precompile"
	case ti.to == evmkit.AdminTo:
		ti.class = "to-admin-contract"
	case ti.to.Big().BitLen() <= 8 && ti.to.Big().Sign() > 0 && ti.to.Big().Uint64() <= 8:
		ti.class = "to-precompile"
	case ti.to == storeAddr || ti.to == loopAddr:
		ti.class = "to-contract"
	default:
		ti.class = "to-account"
	}
	return ti
}
