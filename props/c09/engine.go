package main

import (
	"bytes"
	"encoding/hex"
	"fmt"
	"os"
	"path/filepath"
	"regexp"
	"sort"
	"strings"
	"sync"
	"sync/atomic"

	"verif/core"
	"verif/evmkit"

	"github.com/dappledger/AnnChain/eth/common"
)

// ---------------------------------------------------------------- running a block sequence on a fresh clone of the base state

type blockRec struct {
	Valid, Invalid [][]byte
	Errs           []string
	AppHash        []byte
	ReceiptsHash   []byte
	Obs            map[string]string // observable state after the commit
	Logs           map[string]int    // tx hash (hex) → number of logs in its receipt
}

type seqRec struct {
	Blocks     []*blockRec
	Panic      bool // a panic (or a panic that would hit a goroutine the app spawns) at block PanicAt
	PanicAt    int
	PanicPhase string // decode | execute | commit
	PanicSite  string
	PanicVal   string
	PanicTx    int // decode phase: index of the tx
}

type engine struct {
	run      *core.Run
	tpl      string
	work     string
	base     *evmkit.Chain
	baseMu   sync.Mutex
	baseMemo map[string]string

	dirSeq int64
	runs   int64 // sequences executed on the real application
	blocks int64
	txs    int64

	memoMu sync.Mutex
	memo   map[string]*memoEntry

	infoMu sync.Mutex
	infos  map[string]*txInfo

	progress int64
}

type memoEntry struct {
	once sync.Once
	rec  *seqRec
}

func (e *engine) info(raw []byte) *txInfo {
	k := string(raw)
	e.infoMu.Lock()
	ti := e.infos[k]
	e.infoMu.Unlock()
	if ti != nil {
		return ti
	}
	ti = analyse(raw)
	e.infoMu.Lock()
	e.infos[k] = ti
	e.infoMu.Unlock()
	return ti
}

func seqKey(blocks [][][]byte, hdr [][][]byte) string {
	var parts []interface{}
	for _, b := range blocks {
		parts = append(parts, "B", len(b))
		for _, t := range b {
			parts = append(parts, hex.EncodeToString(evmkit.TxHash(t)))
		}
	}
	if hdr != nil {
		for _, b := range hdr {
			parts = append(parts, "H", len(b))
			for _, t := range b {
				parts = append(parts, hex.EncodeToString(evmkit.TxHash(t)))
			}
		}
	}
	return core.Hash(parts...)
}

// watch set of a sequence: the global accounts/keys plus what its own
// transactions name (senders, created addresses, KV keys, tx hashes).
type watch struct {
	accts []common.Address
	keys  [][]byte
	txh   [][]byte
}

func (e *engine) watchOf(blocks [][][]byte) *watch {
	w := &watch{}
	seenA := map[common.Address]bool{}
	seenK := map[string]bool{}
	seenH := map[string]bool{}
	for _, a := range globalAccounts {
		if !seenA[a] {
			seenA[a] = true
			w.accts = append(w.accts, a)
		}
	}
	for _, k := range globalKeys {
		if !seenK[string(k)] {
			seenK[string(k)] = true
			w.keys = append(w.keys, k)
		}
	}
	for _, b := range blocks {
		for _, raw := range b {
			ti := e.info(raw)
			for _, h := range ti.hashes {
				if !seenH[string(h)] {
					seenH[string(h)] = true
					w.txh = append(w.txh, h)
				}
			}
			if ti.signed {
				if !seenA[ti.from] {
					seenA[ti.from] = true
					w.accts = append(w.accts, ti.from)
				}
				if ti.create && !seenA[ti.created] {
					seenA[ti.created] = true
					w.accts = append(w.accts, ti.created)
				}
			}
			if ti.kvOK && !seenK[string(ti.kvKey)] {
				seenK[string(ti.kvKey)] = true
				w.keys = append(w.keys, ti.kvKey)
			}
		}
	}
	return w
}

func receiptObs(c *evmkit.Chain, h []byte) (string, int) {
	rc, raw, ok := c.Receipt(h)
	if !ok {
		return "", 0
	}
	if rc == nil {
		return "undecodable:" + core.Hash(hex.EncodeToString(raw)), 0
	}
	// positional metadata (block hash, tx index, log index) is left out on purpose
	var b strings.Builder
	fmt.Fprintf(&b, "status=%d gas=%d contract=%x txhash=%x logs=[", rc.Status, rc.GasUsed, rc.ContractAddress, rc.TxHash)
	for _, l := range rc.Logs {
		fmt.Fprintf(&b, "{%x %x %x}", l.Address, l.Topics, l.Data)
	}
	b.WriteString("]")
	return b.String(), len(rc.Logs)
}

func obsKeyAcct(kind string, a common.Address) string { return kind + ":" + hex.EncodeToString(a.Bytes()) }
func obsKeyKV(k []byte) string                        { return "kv:" + hex.EncodeToString(k) }
func obsKeyRcpt(h []byte) string                      { return "rcpt:" + hex.EncodeToString(h) }

func observe(c *evmkit.Chain, w *watch) (map[string]string, map[string]int) {
	o := map[string]string{}
	logs := map[string]int{}
	for _, a := range w.accts {
		o[obsKeyAcct("nonce", a)] = fmt.Sprint(c.Nonce(a))
		o[obsKeyAcct("bal", a)] = c.BalanceVia(storeAddr, a).String()
	}
	for i := uint64(0); i < 3; i++ {
		o[fmt.Sprintf("store.slot%d", i)] = hex.EncodeToString(c.CallContract(alice, storeAddr, evmkit.StoreGetSlot(i)))
	}
	for _, k := range w.keys {
		v, ok := c.KVGet(k)
		if ok {
			o[obsKeyKV(k)] = "=" + hex.EncodeToString(v)
		} else {
			o[obsKeyKV(k)] = ""
		}
	}
	for _, h := range w.txh {
		s, n := receiptObs(c, h)
		o[obsKeyRcpt(h)] = s
		if n > 0 {
			logs[hex.EncodeToString(h)] = n
		}
	}
	return o, logs
}

// baseObs is the value of an observation key in the base state.
func (e *engine) baseObs(key string) string {
	e.baseMu.Lock()
	defer e.baseMu.Unlock()
	if v, ok := e.baseMemo[key]; ok {
		return v
	}
	i := strings.IndexByte(key, ':')
	var v string
	if i < 0 {
		var n uint64
		fmt.Sscanf(key, "store.slot%d", &n)
		v = hex.EncodeToString(e.base.CallContract(alice, storeAddr, evmkit.StoreGetSlot(n)))
	} else {
		arg, _ := hex.DecodeString(key[i+1:])
		switch key[:i] {
		case "nonce":
			v = fmt.Sprint(e.base.Nonce(common.BytesToAddress(arg)))
		case "bal":
			v = e.base.BalanceVia(storeAddr, common.BytesToAddress(arg)).String()
		case "kv":
			if val, ok := e.base.KVGet(arg); ok {
				v = "=" + hex.EncodeToString(val)
			}
		case "rcpt":
			v, _ = receiptObs(e.base, arg)
		}
	}
	e.baseMemo[key] = v
	return v
}

// exec runs the sequence on a fresh copy of the template.  hdr, when non-nil,
// gives for each block the tx list its header (DataHash, NumTxs ⇒ block hash) is
// computed from — used to keep the block hash of a counterfactual identical to
// the original's when receipts embed it.
func (e *engine) exec(blocks [][][]byte, hdr [][][]byte) *seqRec {
	rec := &seqRec{}
	// a panic while decoding / recovering the sender would happen on a goroutine
	// spawned by the application and kill the process: pre-screen on this goroutine
	for bi, b := range blocks {
		for ti, raw := range b {
			if inf := e.info(raw); inf.decPanic != "" {
				rec.Panic, rec.PanicAt, rec.PanicPhase, rec.PanicSite, rec.PanicVal, rec.PanicTx = true, bi, "decode", inf.decPanic, inf.decVal, ti
				return rec
			}
		}
	}
	w := e.watchOf(blocks)
	dir := filepath.Join(e.work, fmt.Sprintf("r%d", atomic.AddInt64(&e.dirSeq, 1)))
	if err := evmkit.CopyDir(e.tpl, dir); err != nil {
		core.Fatal("copy template: %v", err)
	}
	c, err := evmkit.Open(evmkit.Options{Dir: dir})
	if err != nil {
		core.Fatal("open clone: %v", err)
	}
	defer func() {
		core.Try(c.Close)
		os.RemoveAll(dir)
	}()
	atomic.AddInt64(&e.runs, 1)
	for bi, txs := range blocks {
		atomic.AddInt64(&e.blocks, 1)
		atomic.AddInt64(&e.txs, int64(len(txs)))
		blk := c.MakeBlock(txs)
		if hdr != nil {
			blk = evmkit.MakeBlockAt(c.Tip, hdr[bi])
			blk.Data.Txs = c.MakeBlock(txs).Data.Txs
		}
		br := &blockRec{}
		var execErr error
		if p, v, st := core.Try(func() {
			er, err := c.Execute(blk)
			execErr = err
			if err == nil && er.Error != nil {
				execErr = er.Error
			}
			br.Valid, br.Invalid, br.Errs = evmkit.SplitResult(er)
		}); p {
			rec.Panic, rec.PanicAt, rec.PanicPhase, rec.PanicSite, rec.PanicVal = true, bi, "execute", core.PanicSite(st), core.FirstLine(v)
			return rec
		}
		if execErr != nil {
			core.Fatal("OnExecute returned an error (machinery, not a verdict): %v", execErr)
		}
		if p, v, st := core.Try(func() {
			cr, err := c.Commit(blk)
			if err != nil {
				core.Fatal("OnCommit returned an error (machinery, not a verdict): %v", err)
			}
			br.AppHash, br.ReceiptsHash = cr.AppHash, cr.ReceiptsHash
			br.Obs, br.Logs = observe(c, w)
		}); p {
			rec.Panic, rec.PanicAt, rec.PanicPhase, rec.PanicSite, rec.PanicVal = true, bi, "commit", core.PanicSite(st), core.FirstLine(v)
			return rec
		}
		rec.Blocks = append(rec.Blocks, br)
	}
	atomic.AddInt64(&e.progress, 1)
	return rec
}

// execMemo runs a sequence once per distinct (tx lists, header source).
func (e *engine) execMemo(blocks [][][]byte, hdr [][][]byte) *seqRec {
	k := seqKey(blocks, hdr)
	e.memoMu.Lock()
	m := e.memo[k]
	if m == nil {
		m = &memoEntry{}
		e.memo[k] = m
	}
	e.memoMu.Unlock()
	m.once.Do(func() { m.rec = e.exec(blocks, hdr) })
	return m.rec
}

// ---------------------------------------------------------------- the oracle

type finding struct {
	sig    map[string]string
	detail string
	txIdx  [2]int // block, position of the transaction concerned (-1: none)
}

type verdicts struct {
	valid [][]bool // per block, per position
}

var reDigits = regexp.MustCompile(`[0-9a-fA-Fx]{6,}|[0-9]+`)

func errClass(s string) string {
	s = reDigits.ReplaceAllString(s, "#")
	if len(s) > 60 {
		s = s[:60]
	}
	return s
}

// check evaluates the property on the sequence and returns the findings plus a
// short description of the outcome (for the class histogram).
func (e *engine) check(blocks [][][]byte) (fs []finding, outcome string, rec *seqRec) {
	rec = e.execMemo(blocks, nil)
	var oc []string
	if rec.Panic {
		b := blocks[rec.PanicAt]
		cls := "block"
		idx := [2]int{rec.PanicAt, -1}
		if rec.PanicPhase == "decode" {
			cls = e.info(b[rec.PanicTx]).class
			idx[1] = rec.PanicTx
		} else if len(b) == 1 {
			cls = e.info(b[0]).class
			idx[1] = 0
		} else {
			// name the class if all non-neighbour txs share one
			set := map[string]bool{}
			for _, t := range b {
				set[e.info(t).class] = true
			}
			if len(set) == 1 {
				cls = e.info(b[0]).class
			}
		}
		fs = append(fs, finding{sig: map[string]string{"kind": "panic", "phase": rec.PanicPhase, "site": rec.PanicSite, "input": cls},
			detail: fmt.Sprintf("panic in %s of block %d (%d txs): %s [at %s]", rec.PanicPhase, rec.PanicAt+1, len(b), rec.PanicVal, rec.PanicSite), txIdx: idx})
		return fs, "panic@" + rec.PanicSite, rec
	}
	// (2) every tx of a block is reported exactly once; derive per-position verdicts
	vd := make([][]bool, len(blocks))
	anyInvalid := false
	model := map[common.Address]uint64{} // sender nonces, seeded from the base state
	nonceOf := func(a common.Address) uint64 {
		if n, ok := model[a]; ok {
			return n
		}
		var n uint64
		fmt.Sscan(e.baseObs(obsKeyAcct("nonce", a)), &n)
		model[a] = n
		return n
	}
	appliedBefore := map[string]int{} // tx bytes → times applied so far
	kvModel := map[string]string{}
	for bi, txs := range blocks {
		br := rec.Blocks[bi]
		cntB, cntV, cntI := map[string]int{}, map[string]int{}, map[string]int{}
		for _, t := range txs {
			cntB[string(t)]++
		}
		for _, t := range br.Valid {
			cntV[string(t)]++
		}
		for _, t := range br.Invalid {
			cntI[string(t)]++
		}
		bad := len(br.Valid)+len(br.Invalid) != len(txs)
		for k, n := range cntB {
			if cntV[k]+cntI[k] != n {
				bad = true
			}
		}
		for k := range cntV {
			if cntB[k] == 0 {
				bad = true
			}
		}
		for k := range cntI {
			if cntB[k] == 0 {
				bad = true
			}
		}
		if bad {
			cls := "block"
			for _, t := range txs {
				if cntV[string(t)]+cntI[string(t)] != cntB[string(t)] {
					cls = e.info(t).class
					break
				}
			}
			fs = append(fs, finding{sig: map[string]string{"kind": "not-reported-exactly-once", "input": cls},
				detail: fmt.Sprintf("block %d has %d txs; ValidTxs %d + InvalidTxs %d; some tx is not in exactly one list", bi+1, len(txs), len(br.Valid), len(br.Invalid)), txIdx: [2]int{bi, -1}})
			return fs, "partition-broken", rec
		}
		vd[bi] = make([]bool, len(txs))
		used := map[string]int{}
		errOf := map[string]string{}
		for i, t := range br.Invalid {
			errOf[string(t)] = br.Errs[i]
		}
		var pat []string
		for i, t := range txs {
			k := string(t)
			if used[k] < cntV[k] { // identical copies: the first cntV are taken as the valid ones
				vd[bi][i] = true
			}
			used[k]++
			ti := e.info(t)
			if !vd[bi][i] {
				anyInvalid = true
				pat = append(pat, "I("+ti.class+":"+errClass(errOf[k])+")")
				continue
			}
			pat = append(pat, "V("+ti.class+")")
			// (4) a valid tx is signed, carries the sender's current nonce, and bumps it by one
			if !ti.signed {
				fs = append(fs, finding{sig: map[string]string{"kind": "valid-without-sender", "input": ti.class},
					detail: fmt.Sprintf("block %d tx %d is reported valid but has no recoverable sender (decodable=%v)", bi+1, i, ti.decodable), txIdx: [2]int{bi, i}})
				continue
			}
			cur := nonceOf(ti.from)
			if ti.nonce != cur {
				kind := "applied-with-wrong-nonce"
				if appliedBefore[k] > 0 {
					kind = "applied-twice"
				}
				fs = append(fs, finding{sig: map[string]string{"kind": kind, "rule": "nonce", "input": ti.class},
					detail: fmt.Sprintf("block %d tx %d (%s) reported valid with tx nonce %d while the sender's nonce is %d (copies of these bytes applied before: %d)", bi+1, i, ti.class, ti.nonce, cur, appliedBefore[k]), txIdx: [2]int{bi, i}})
			}
			model[ti.from] = cur + 1
			appliedBefore[k]++
			if ti.kvOK {
				kvModel[string(ti.kvKey)] = "=" + hex.EncodeToString(ti.kvVal)
			}
		}
		oc = append(oc, strings.Join(pat, ","))
		// after the commit: nonces as modelled, receipts / KV records exist
		for a, n := range model {
			if got := br.Obs[obsKeyAcct("nonce", a)]; got != fmt.Sprint(n) {
				fs = append(fs, finding{sig: map[string]string{"kind": "nonce-not-raised-by-one-per-applied-tx", "rule": "nonce"},
					detail: fmt.Sprintf("after block %d sender %x has nonce %s; %d expected (base nonce + number of its txs reported valid)", bi+1, a, got, n), txIdx: [2]int{bi, -1}})
			}
		}
		for i, t := range txs {
			if !vd[bi][i] {
				continue
			}
			ti := e.info(t)
			has := false
			for _, h := range ti.hashes {
				if br.Obs[obsKeyRcpt(h)] != "" {
					has = true
				}
			}
			if !has && ti.kvOK {
				has = br.Obs[obsKeyKV(ti.kvKey)] == kvModel[string(ti.kvKey)]
			}
			if !has {
				fs = append(fs, finding{sig: map[string]string{"kind": "valid-without-receipt", "input": ti.class},
					detail: fmt.Sprintf("block %d tx %d (%s) is reported valid but has neither a receipt nor a KV record after the commit", bi+1, i, ti.class), txIdx: [2]int{bi, i}})
			}
		}
	}
	outcome = strings.Join(oc, " | ")
	if !anyInvalid {
		return fs, outcome, rec
	}
	// (3) the same blocks without the invalid txs, on a fresh identical state
	cf := make([][][]byte, len(blocks))
	needHdr := false
	positional := make([]bool, len(blocks))
	for bi, txs := range blocks {
		removedBefore := false
		for i, t := range txs {
			if !vd[bi][i] {
				removedBefore = true
				continue
			}
			cf[bi] = append(cf[bi], t)
			for _, h := range e.info(t).hashes {
				if rec.Blocks[bi].Logs[hex.EncodeToString(h)] > 0 {
					needHdr = true // its receipt embeds the block hash
					if removedBefore {
						positional[bi] = true // … and its tx index, which shifts
					}
				}
			}
		}
	}
	var hdr [][][]byte
	if needHdr {
		hdr = blocks
	}
	cr := e.execMemo(cf, hdr)
	firstInvalid := func() (string, [2]int, string) {
		for bi, txs := range blocks {
			for i, t := range txs {
				if !vd[bi][i] {
					errs := ""
					for j, it := range rec.Blocks[bi].Invalid {
						if bytes.Equal(it, t) {
							errs = rec.Blocks[bi].Errs[j]
						}
					}
					return e.info(t).class, [2]int{bi, i}, errs
				}
			}
		}
		return "?", [2]int{-1, -1}, ""
	}
	cls, idx, cause := firstInvalid()
	if cr.Panic {
		// the counterfactual is a sub-sequence of valid txs: its panic is reported when it is checked itself
		fs = append(fs, finding{sig: map[string]string{"kind": "panic", "phase": cr.PanicPhase, "site": cr.PanicSite, "input": "counterfactual"},
			detail: fmt.Sprintf("the sequence without its invalid txs panics: %s", cr.PanicVal), txIdx: idx})
		return fs, outcome, rec
	}
	for bi := range blocks {
		p, q := rec.Blocks[bi], cr.Blocks[bi]
		diff := ""
		switch {
		case !bytes.Equal(p.AppHash, q.AppHash):
			diff = "apphash"
		case !bytes.Equal(p.ReceiptsHash, q.ReceiptsHash) && !positional[bi]:
			diff = "receiptshash"
		}
		var keys []string
		for k := range p.Obs {
			keys = append(keys, k)
		}
		sort.Strings(keys)
		var od []string
		for _, k := range keys {
			want, ok := q.Obs[k]
			if !ok {
				want = e.baseObs(k) // named only by txs that were never applied
			}
			if p.Obs[k] != want {
				od = append(od, fmt.Sprintf("%s: %q, without the invalid txs %q", k, p.Obs[k], want))
				if diff == "" {
					diff = "state:" + k[:strings.IndexAny(k+":", ":.")]
				}
			}
		}
		if diff != "" {
			fs = append(fs, finding{sig: map[string]string{"kind": "invalid-tx-changed-state", "diff": diff, "input": cls},
				detail: fmt.Sprintf("after block %d: app hash %x vs %x, receipts hash %x vs %x (with vs without the txs reported invalid; first invalid: block %d tx %d, %s, error %q); observable differences: %s",
					bi+1, p.AppHash, q.AppHash, p.ReceiptsHash, q.ReceiptsHash, idx[0]+1, idx[1], cls, cause, strings.Join(od, "; ")), txIdx: idx})
			break
		}
	}
	return fs, outcome, rec
}
