package main

import (
	"bytes"
	"encoding/hex"
	"fmt"
	"os"
	"path/filepath"
	"regexp"
	"sort"
	"strings"
	"sync"
	"sync/atomic"

	"verif/core"
	"verif/evmkit"

	"github.com/dappledger/AnnChain/eth/common"
)

// ---------------------------------------------------------------- running a block sequence on a fresh clone of the base state

type blockRec struct {
	Valid, Invalid [][]byte
	Errs           []string
	AppHash        []byte
	ReceiptsHash   []byte
	Obs            map[string]string // observable state after the commit
	Logs           map[string]int    // tx hash (hex) → number of logs in its receipt
	Tip            evmkit.Tip        // the consensus tip the block's header was built from
}

type seqRec struct {
	Blocks     []*blockRec
	Panic      bool // a panic (or one that would hit a goroutine the app spawns) at block PanicAt
	PanicAt    int
	PanicPhase string // decode | execute | commit
	PanicSite  string
	PanicVal   string
	PanicTx    int // decode phase: index of the tx
}

type engine struct {
	run      *core.Run
	tpl      string
	work     string
	base     *evmkit.Chain
	baseMu   sync.Mutex
	baseMemo map[string]string

	dirSeq int64
	runs   int64 // sequences (chains) executed on the real application
	blocks int64
	txs    int64

	infoMu sync.Mutex
	infos  map[string]*txInfo

	positionalSkips   int64
	singleRemovalRuns int64
}

func (e *engine) info(raw []byte) *txInfo {
	k := string(raw)
	e.infoMu.Lock()
	ti := e.infos[k]
	e.infoMu.Unlock()
	if ti != nil {
		return ti
	}
	ti = analyse(raw)
	e.infoMu.Lock()
	e.infos[k] = ti
	e.infoMu.Unlock()
	return ti
}

// watch set: what is observed after a block — the global accounts/keys plus
// what the given transactions name (senders, created addresses, KV keys, tx hashes).
type watch struct {
	full  bool // also the balances of the global accounts (final observation of a sequence)
	nGlob int  // the first nGlob accounts are the global ones
	accts []common.Address
	keys  [][]byte
	txh   [][]byte
}

func (e *engine) watchOf(txs [][]byte) *watch {
	w := &watch{}
	seenA := map[common.Address]bool{}
	seenK := map[string]bool{}
	seenH := map[string]bool{}
	for _, a := range globalAccounts {
		if !seenA[a] {
			seenA[a] = true
			w.accts = append(w.accts, a)
		}
	}
	w.nGlob = len(w.accts)
	for _, k := range globalKeys {
		if !seenK[string(k)] {
			seenK[string(k)] = true
			w.keys = append(w.keys, k)
		}
	}
	for _, raw := range txs {
		ti := e.info(raw)
		for _, h := range ti.hashes {
			if !seenH[string(h)] {
				seenH[string(h)] = true
				w.txh = append(w.txh, h)
			}
		}
		if ti.signed {
			if !seenA[ti.from] {
				seenA[ti.from] = true
				w.accts = append(w.accts, ti.from)
			}
			if ti.create && !seenA[ti.created] {
				seenA[ti.created] = true
				w.accts = append(w.accts, ti.created)
			}
		}
		if ti.kvOK && !seenK[string(ti.kvKey)] {
			seenK[string(ti.kvKey)] = true
			w.keys = append(w.keys, ti.kvKey)
		}
	}
	return w
}

func receiptObs(c *evmkit.Chain, h []byte) (string, int) {
	rc, raw, ok := c.Receipt(h)
	if !ok {
		return "", 0
	}
	if rc == nil {
		return "undecodable:" + core.Hash(hex.EncodeToString(raw)), 0
	}
	// positional metadata (block hash, tx index, log index) is left out on purpose
	var b strings.Builder
	fmt.Fprintf(&b, "status=%d gas=%d contract=%x txhash=%x logs=[", rc.Status, rc.GasUsed, rc.ContractAddress, rc.TxHash)
	for _, l := range rc.Logs {
		fmt.Fprintf(&b, "{%x %x %x}", l.Address, l.Topics, l.Data)
	}
	b.WriteString("]")
	return b.String(), len(rc.Logs)
}

func obsKeyAcct(kind string, a common.Address) string {
	return kind + ":" + hex.EncodeToString(a.Bytes())
}
func obsKeyKV(k []byte) string   { return "kv:" + hex.EncodeToString(k) }
func obsKeyRcpt(h []byte) string { return "rcpt:" + hex.EncodeToString(h) }

func observe(c *evmkit.Chain, w *watch) (map[string]string, map[string]int) {
	o := map[string]string{}
	logs := map[string]int{}
	for i, a := range w.accts {
		o[obsKeyAcct("nonce", a)] = fmt.Sprint(c.Nonce(a))
		if w.full || i >= w.nGlob { // balances need an EVM call each; AppHash covers the rest at every block
			o[obsKeyAcct("bal", a)] = c.BalanceVia(storeAddr, a).String()
		}
	}
	for i := uint64(0); i < 3; i++ {
		o[fmt.Sprintf("store.slot%d", i)] = hex.EncodeToString(c.CallContract(alice, storeAddr, evmkit.StoreGetSlot(i)))
	}
	for _, k := range w.keys {
		v, ok := c.KVGet(k)
		if ok {
			o[obsKeyKV(k)] = "=" + hex.EncodeToString(v)
		} else {
			o[obsKeyKV(k)] = ""
		}
	}
	for _, h := range w.txh {
		s, n := receiptObs(c, h)
		o[obsKeyRcpt(h)] = s
		if n > 0 {
			logs[hex.EncodeToString(h)] = n
		}
	}
	return o, logs
}

// baseNonce is the nonce of an account in the base state.
func (e *engine) baseNonce(a common.Address) uint64 {
	key := obsKeyAcct("nonce", a)
	e.baseMu.Lock()
	defer e.baseMu.Unlock()
	if v, ok := e.baseMemo[key]; ok {
		var n uint64
		fmt.Sscan(v, &n)
		return n
	}
	n := e.base.Nonce(a)
	e.baseMemo[key] = fmt.Sprint(n)
	return n
}

// exec runs the block sequence on a fresh copy of the template.  What is
// observed after block i is named by watchSrc[i] (the ORIGINAL sequence's
// block, also when a counterfactual is run), plus, after the last block,
// everything named anywhere in watchSrc.  hdrSrc, when non-nil, gives for each
// block the tx list its header (DataHash, NumTxs ⇒ block hash) is computed from
// — used to keep the block hashes of a counterfactual identical to the
// original's, because receipts of log-emitting txs embed the block hash.
func (e *engine) exec(blocks [][][]byte, watchSrc [][][]byte, hdrSrc [][][]byte) *seqRec {
	return e.execOpt(blocks, watchSrc, hdrSrc, false, nil)
}

// execOpt: light = verdicts and hashes only (no observation queries after the blocks).
// hdrFrom (with hdrSrc): the headers are built from the tips of that run, not from this
// chain's own tip, so that every block hashes exactly like the original's whatever the
// receipts hashes of the earlier blocks were (the application never looks at the header's
// AppHash / ReceiptsHash / LastBlockID).
func (e *engine) execOpt(blocks [][][]byte, watchSrc [][][]byte, hdrSrc [][][]byte, light bool, hdrFrom *seqRec) *seqRec {
	rec := &seqRec{}
	// a panic while decoding / recovering the sender would happen on a goroutine
	// spawned by the application and kill the process: pre-screen on this goroutine
	for bi, b := range blocks {
		for ti, raw := range b {
			if inf := e.info(raw); inf.decPanic != "" {
				rec.Panic, rec.PanicAt, rec.PanicPhase, rec.PanicSite, rec.PanicVal, rec.PanicTx = true, bi, "decode", inf.decPanic, inf.decVal, ti
				return rec
			}
		}
	}
	var all [][]byte
	for _, b := range watchSrc {
		all = append(all, b...)
	}
	dir := filepath.Join(e.work, fmt.Sprintf("r%d", atomic.AddInt64(&e.dirSeq, 1)))
	if err := evmkit.CopyDir(e.tpl, dir); err != nil {
		core.Fatal("copy template: %v", err)
	}
	c, err := evmkit.Open(evmkit.Options{Dir: dir})
	if err != nil {
		core.Fatal("open clone: %v", err)
	}
	defer func() {
		core.Try(c.Close)
		os.RemoveAll(dir)
	}()
	atomic.AddInt64(&e.runs, 1)
	for bi, txs := range blocks {
		atomic.AddInt64(&e.blocks, 1)
		atomic.AddInt64(&e.txs, int64(len(txs)))
		blk := c.MakeBlock(txs)
		tip := c.Tip
		if hdrSrc != nil {
			if hdrFrom != nil {
				tip = hdrFrom.Blocks[bi].Tip
			}
			blk = evmkit.MakeBlockAt(tip, hdrSrc[bi])
			blk.Data.Txs = c.MakeBlock(txs).Data.Txs
		}
		br := &blockRec{Tip: tip}
		var execErr error
		if p, v, st := core.Try(func() {
			er, err := c.Execute(blk)
			execErr = err
			if err == nil && er.Error != nil {
				execErr = er.Error
			}
			br.Valid, br.Invalid, br.Errs = evmkit.SplitResult(er)
		}); p {
			rec.Panic, rec.PanicAt, rec.PanicPhase, rec.PanicSite, rec.PanicVal = true, bi, "execute", core.PanicSite(st), core.FirstLine(v)
			return rec
		}
		if execErr != nil {
			core.Fatal("OnExecute returned an error (machinery, not a verdict): %v", execErr)
		}
		// the reported byte slices are read here for the first time: a torn slice header
		// (pointer and length from different writes) faults on access
		if p, v, _ := core.Try(func() {
			for i, t := range br.Valid {
				br.Valid[i] = append([]byte{}, t...)
			}
			for i, t := range br.Invalid {
				br.Invalid[i] = append([]byte{}, t...)
			}
		}); p {
			rec.Panic, rec.PanicAt, rec.PanicPhase, rec.PanicSite, rec.PanicVal = true, bi, "result", "chain/app/evm.exeWithCPUParallelVeirfy", "reading the bytes of a reported tx faults: "+core.FirstLine(v)
			return rec
		}
		if p, v, st := core.Try(func() {
			cr, err := c.Commit(blk)
			if err != nil {
				core.Fatal("OnCommit returned an error (machinery, not a verdict): %v", err)
			}
			br.AppHash, br.ReceiptsHash = cr.AppHash, cr.ReceiptsHash
			if light {
				return
			}
			src := watchSrc[bi]
			if bi > 0 {
				src = append(append([][]byte{}, watchSrc[bi-1]...), src...) // what the previous block named is still watched
			}
			last := bi == len(blocks)-1
			if last {
				src = all
			}
			w := e.watchOf(src)
			w.full = last
			br.Obs, br.Logs = observe(c, w)
		}); p {
			rec.Panic, rec.PanicAt, rec.PanicPhase, rec.PanicSite, rec.PanicVal = true, bi, "commit", core.PanicSite(st), core.FirstLine(v)
			return rec
		}
		rec.Blocks = append(rec.Blocks, br)
	}
	return rec
}

// ---------------------------------------------------------------- the oracle

type finding struct {
	sig    map[string]string
	detail string
	block  int // block the finding is about
	tx     int // position in that block, -1: the block as a whole
}

var reDigits = regexp.MustCompile(`[0-9a-fA-Fx]{6,}|[0-9]+`)

func errClass(s string) string {
	s = reDigits.ReplaceAllString(s, "#")
	if len(s) > 60 {
		s = s[:60]
	}
	return s
}

func short(b []byte) string {
	if len(b) > 24 {
		return fmt.Sprintf("%x…(%d bytes)", b[:24], len(b))
	}
	return fmt.Sprintf("%x", b)
}

// check evaluates the property on the sequence.  It returns the findings and,
// per block, a short description of the outcome (for the class histogram).
func (e *engine) check(blocks [][][]byte) (fs []finding, outcome []string, rec *seqRec) {
	rec = e.exec(blocks, blocks, nil)
	outcome = make([]string, len(blocks))
	if rec.Panic {
		b := blocks[rec.PanicAt]
		cls, tx := "block", -1
		if rec.PanicPhase == "decode" {
			cls, tx = e.info(b[rec.PanicTx]).class, rec.PanicTx
		} else if len(b) == 1 {
			cls, tx = e.info(b[0]).class, 0
		} else {
			// name the class of the tx that differs from the rest, if identifiable: the
			// grid tx of a block is the one not sent by a neighbour/tail sender
			set := map[string]bool{}
			for _, t := range b {
				set[e.info(t).class] = true
			}
			if len(set) == 1 {
				cls = e.info(b[0]).class
			}
		}
		if rec.PanicPhase == "result" {
			fs = append(fs, finding{sig: map[string]string{"kind": "reported-bytes-lost", "symptom": "torn-slice", "rule": "report"},
				detail: fmt.Sprintf("block of %d txs: ExecuteResult holds a byte slice with a torn header (%s); schedule-dependent: the executing loop read the tx bytes while the decoding goroutine was storing them", len(b), rec.PanicVal), block: rec.PanicAt, tx: -1})
		} else {
			fs = append(fs, finding{sig: map[string]string{"kind": "panic", "phase": rec.PanicPhase, "site": rec.PanicSite, "input": cls},
				detail: fmt.Sprintf("panic in %s of a block of %d txs: %s [at %s]", rec.PanicPhase, len(b), rec.PanicVal, rec.PanicSite), block: rec.PanicAt, tx: tx})
		}
		for i := range outcome {
			outcome[i] = "not-judged"
		}
		outcome[rec.PanicAt] = "panic@" + rec.PanicSite
		return fs, outcome, rec
	}
	// (2) every tx of a block is reported exactly once; derive per-position verdicts
	vd := make([][]bool, len(blocks))
	anyInvalid := false
	model := map[common.Address]uint64{} // sender nonces, seeded from the base state
	nonceOf := func(a common.Address) uint64 {
		if n, ok := model[a]; ok {
			return n
		}
		n := e.baseNonce(a)
		model[a] = n
		return n
	}
	appliedBefore := map[string]int{} // tx bytes → times applied so far
	unsignedValid := map[string]bool{}
	kvModel := map[string]string{}
	for bi, txs := range blocks {
		br := rec.Blocks[bi]
		cntB, cntV, cntI := map[string]int{}, map[string]int{}, map[string]int{}
		for _, t := range txs {
			cntB[string(t)]++
		}
		for _, t := range br.Valid {
			cntV[string(t)]++
		}
		errOf := map[string]string{}
		for i, t := range br.Invalid {
			cntI[string(t)]++
			errOf[string(t)] = br.Errs[i]
		}
		// entries reported with EMPTY bytes although the block has no (or fewer) zero-length txs:
		// the report lost the transaction's bytes; they are matched to the unreported txs in
		// order so that the remaining checks can go on, and reported as a finding of their own
		lostV, lostI := 0, 0
		if n := cntV[""] + cntI[""] - cntB[""]; n > 0 {
			missing := 0
			for k, nb := range cntB {
				if k != "" && cntV[k]+cntI[k] < nb {
					missing += nb - cntV[k] - cntI[k]
				}
			}
			if missing == n {
				lostI = cntI[""]
				if lostI > n {
					lostI = n
				}
				lostV = n - lostI
				cntI[""] -= lostI
				cntV[""] -= lostV
				li, lv := lostI, lostV
				var which []string
				for _, t := range txs {
					k := string(t)
					if k == "" {
						continue
					}
					for cntV[k]+cntI[k] < cntB[k] {
						if li > 0 {
							cntI[k]++
							li--
							errOf[k] = "(reported with empty bytes)"
						} else if lv > 0 {
							cntV[k]++
							lv--
						} else {
							break
						}
						which = append(which, e.info(t).class)
					}
				}
				fs = append(fs, finding{sig: map[string]string{"kind": "reported-bytes-lost", "symptom": "empty", "rule": "report"},
					detail: fmt.Sprintf("block %d (%d txs): %d InvalidTxs / %d ValidTxs entries carry empty bytes instead of the transaction (%s); schedule-dependent: the executing loop read the tx bytes before the decoding goroutine stored them", bi+1, len(txs), lostI, lostV, strings.Join(which, ",")), block: bi, tx: -1})
			}
		}
		bad := len(br.Valid)+len(br.Invalid) != len(txs)
		for k, n := range cntB {
			if cntV[k]+cntI[k] != n {
				bad = true
			}
		}
		for k, n := range cntV {
			if n > 0 && cntB[k] == 0 {
				bad = true
			}
		}
		for k, n := range cntI {
			if n > 0 && cntB[k] == 0 {
				bad = true
			}
		}
		if bad {
			cls, tx := "block", -1
			for i, t := range txs {
				if cntV[string(t)]+cntI[string(t)] != cntB[string(t)] {
					cls, tx = e.info(t).class, i
					break
				}
			}
			var rv, ri []string
			for _, t := range br.Valid {
				rv = append(rv, short(t))
			}
			for _, t := range br.Invalid {
				ri = append(ri, short(t))
			}
			if len(rv)+len(ri) > 8 {
				rv, ri = []string{fmt.Sprint(len(rv), " entries")}, []string{fmt.Sprint(len(ri), " entries")}
			}
			fs = append(fs, finding{sig: map[string]string{"kind": "not-reported-exactly-once", "rule": "report", "input": cls},
				detail: fmt.Sprintf("block %d has %d txs; ValidTxs %v, InvalidTxs %v: some tx is not in exactly one list", bi+1, len(txs), rv, ri), block: bi, tx: tx})
			for i := bi; i < len(blocks); i++ {
				outcome[i] = "not-judged"
			}
			outcome[bi] = "report-broken"
			return fs, outcome, rec
		}
		vd[bi] = make([]bool, len(txs))
		used := map[string]int{}
		var pat []string
		for i, t := range txs {
			k := string(t)
			if used[k] < cntV[k] { // identical copies: the first cntV are taken as the valid ones
				vd[bi][i] = true
			}
			used[k]++
			ti := e.info(t)
			if !vd[bi][i] {
				anyInvalid = true
				pat = append(pat, "I("+ti.class+":"+errClass(errOf[k])+")")
				continue
			}
			pat = append(pat, "V("+ti.class+")")
			// (4) a valid tx is signed, carries the sender's current nonce, and bumps it by one
			if !ti.signed {
				// no sender ⇒ the tx cannot have been executed at all: it was merely REPORTED valid
				fs = append(fs, finding{sig: map[string]string{"kind": "unsigned-tx-reported-valid", "rule": "report", "input": ti.class},
					detail: fmt.Sprintf("block %d tx %d is reported valid but has no recoverable sender (decodable=%v): it cannot have been applied; schedule-dependent when the input is a bad signature (the status 'failed' is published before the error is stored)", bi+1, i, ti.decodable), block: bi, tx: i})
				unsignedValid[fmt.Sprint(bi, ":", i)] = true
				continue
			}
			cur := nonceOf(ti.from)
			if ti.nonce != cur {
				kind := "applied-with-wrong-nonce"
				if appliedBefore[k] > 0 {
					kind = "applied-twice"
				}
				fs = append(fs, finding{sig: map[string]string{"kind": kind, "rule": "nonce", "input": ti.class},
					detail: fmt.Sprintf("block %d tx %d (%s) reported valid with tx nonce %d while its sender's nonce is %d (copies of these bytes applied before: %d)", bi+1, i, ti.class, ti.nonce, cur, appliedBefore[k]), block: bi, tx: i})
			}
			model[ti.from] = cur + 1
			appliedBefore[k]++
			if ti.kvOK {
				kvModel[string(ti.kvKey)] = "=" + hex.EncodeToString(ti.kvVal)
			}
		}
		if len(pat) > 6 {
			cnt := map[string]int{}
			for _, p := range pat {
				cnt[p]++
			}
			var ks []string
			for k, n := range cnt {
				ks = append(ks, fmt.Sprintf("%s×%d", k, n))
			}
			sort.Strings(ks)
			pat = ks
		}
		outcome[bi] = strings.Join(pat, ",")
		// after the commit: nonces as modelled (for every modelled sender observed here), receipts / KV records exist
		var addrs []common.Address
		for a := range model {
			addrs = append(addrs, a)
		}
		sort.Slice(addrs, func(i, j int) bool { return bytes.Compare(addrs[i][:], addrs[j][:]) < 0 })
		for _, a := range addrs {
			got, ok := br.Obs[obsKeyAcct("nonce", a)]
			if ok && got != fmt.Sprint(model[a]) {
				fs = append(fs, finding{sig: map[string]string{"kind": "nonce-not-raised-by-one-per-applied-tx", "rule": "nonce"},
					detail: fmt.Sprintf("after block %d sender %x has nonce %s; %d expected (base nonce + number of its txs reported valid)", bi+1, a, got, model[a]), block: bi, tx: -1})
				model[a], _ = parseU(got) // resynchronise: one finding per divergence
			}
		}
		for i, t := range txs {
			if !vd[bi][i] || unsignedValid[fmt.Sprint(bi, ":", i)] {
				continue
			}
			ti := e.info(t)
			has := false
			for _, h := range ti.hashes {
				if br.Obs[obsKeyRcpt(h)] != "" {
					has = true
				}
			}
			if !has && ti.kvOK {
				has = br.Obs[obsKeyKV(ti.kvKey)] == kvModel[string(ti.kvKey)]
			}
			if !has {
				fs = append(fs, finding{sig: map[string]string{"kind": "valid-without-receipt", "input": ti.class},
					detail: fmt.Sprintf("block %d tx %d (%s) is reported valid but has neither a receipt nor a KV record after the commit", bi+1, i, ti.class), block: bi, tx: i})
			}
		}
	}
	if !anyInvalid {
		return fs, outcome, rec
	}
	// (3) the same blocks without the invalid txs, on a fresh identical state
	cf := make([][][]byte, len(blocks))
	needHdr := false
	positional := make([]bool, len(blocks))
	for bi, txs := range blocks {
		removedBefore := false
		for i, t := range txs {
			if !vd[bi][i] {
				removedBefore = true
				continue
			}
			cf[bi] = append(cf[bi], t)
			for _, h := range e.info(t).hashes {
				if rec.Blocks[bi].Logs[hex.EncodeToString(h)] > 0 {
					needHdr = true // its receipt embeds the block hash
					if removedBefore {
						positional[bi] = true // … and its tx index, which shifts
					}
				}
			}
		}
	}
	var hdr [][][]byte
	if needHdr {
		hdr = blocks
	}
	cr := e.execOpt(cf, blocks, hdr, false, rec)
	if cr.Panic {
		// the counterfactual consists of txs reported valid: the panic is its own problem
		fs = append(fs, finding{sig: map[string]string{"kind": "panic", "phase": cr.PanicPhase, "site": cr.PanicSite, "input": "counterfactual"},
			detail: fmt.Sprintf("the sequence without its invalid txs panics: %s", cr.PanicVal), block: cr.PanicAt, tx: -1})
		return fs, outcome, rec
	}
	for bi := range blocks {
		p, q := rec.Blocks[bi], cr.Blocks[bi]
		diff := ""
		switch {
		case !bytes.Equal(p.AppHash, q.AppHash):
			diff = "apphash"
		case !bytes.Equal(p.ReceiptsHash, q.ReceiptsHash):
			if positional[bi] {
				atomic.AddInt64(&e.positionalSkips, 1)
			} else {
				diff = "receiptshash"
			}
		}
		var keys []string
		for k := range p.Obs {
			keys = append(keys, k)
		}
		sort.Strings(keys)
		var od []string
		for _, k := range keys {
			if want := q.Obs[k]; p.Obs[k] != want {
				od = append(od, fmt.Sprintf("%s: %q, without the invalid txs %q", k, p.Obs[k], want))
				if diff == "" {
					diff = "state:" + k[:strings.IndexAny(k+":", ":.")]
				}
			}
		}
		if diff == "" {
			continue
		}
		// attribute: the last block ≤ bi that contains an invalid tx
		ab, at, cls, cause := bi, -1, "block", ""
		for b := bi; b >= 0 && at < 0; b-- {
			for i, t := range blocks[b] {
				if !vd[b][i] {
					ab, at, cls = b, i, e.info(t).class
					for j, it := range rec.Blocks[b].Invalid {
						if bytes.Equal(it, t) {
							cause = rec.Blocks[b].Errs[j]
						}
					}
					break
				}
			}
		}
		if len(od) > 6 {
			od = append(od[:6], fmt.Sprintf("… %d more", len(od)-6))
		}
		fs = append(fs, finding{sig: map[string]string{"kind": "invalid-tx-changed-state", "diff": diff, "input": cls},
			detail: fmt.Sprintf("after block %d: app hash %x vs %x, receipts hash %x vs %x (with vs without the txs reported invalid; nearest invalid tx: block %d tx %d, %s, error %q); observable differences: %s",
				bi+1, p.AppHash, q.AppHash, p.ReceiptsHash, q.ReceiptsHash, ab+1, at, cls, cause, strings.Join(od, "; ")), block: ab, tx: at})
		return fs, outcome, rec
	}
	// (3b) "as if it had not been in the block" holds for every invalid tx on its own: the blocks
	// without ONLY the first invalid tx of each block (the other invalid ones stay) must give every
	// remaining tx the verdict it had and the same app hashes.  Needed only when some block has two
	// or more invalid txs (otherwise this is the sequence of (3)).
	several := false
	first := make([]int, len(blocks))
	for bi, txs := range blocks {
		first[bi] = -1
		n := 0
		for i := range txs {
			if !vd[bi][i] {
				if n == 0 {
					first[bi] = i
				}
				n++
			}
		}
		if n >= 2 {
			several = true
		}
	}
	if !several {
		return fs, outcome, rec
	}
	atomic.AddInt64(&e.singleRemovalRuns, 1)
	cf1 := make([][][]byte, len(blocks))
	for bi, txs := range blocks {
		for i, t := range txs {
			if i != first[bi] {
				cf1[bi] = append(cf1[bi], t)
			}
		}
	}
	c1 := e.execOpt(cf1, blocks, hdr, true, rec)
	if c1.Panic {
		b, cls := c1.PanicAt, "block"
		if first[b] >= 0 {
			cls = e.info(blocks[b][first[b]]).class
		}
		fs = append(fs, finding{sig: map[string]string{"kind": "panic", "phase": c1.PanicPhase, "site": c1.PanicSite, "input": "counterfactual-single-removal"},
			detail: fmt.Sprintf("the sequence without the first invalid tx of each block (%s in block %d) panics: %s", cls, b+1, c1.PanicVal), block: b, tx: first[b]})
		return fs, outcome, rec
	}
	for bi, txs := range blocks {
		p, q := rec.Blocks[bi], c1.Blocks[bi]
		wantV, wantI, gotV, gotI := map[string]int{}, map[string]int{}, map[string]int{}, map[string]int{}
		for i, t := range txs {
			if i == first[bi] {
				continue
			}
			if vd[bi][i] {
				wantV[string(t)]++
			} else {
				wantI[string(t)]++
			}
		}
		for _, t := range q.Valid {
			gotV[string(t)]++
		}
		for _, t := range q.Invalid {
			gotI[string(t)]++
		}
		diff, who := "", -1
		for i, t := range txs {
			if i == first[bi] {
				continue
			}
			k := string(t)
			if wantV[k] != gotV[k] || wantI[k] != gotI[k] {
				diff, who = "verdict-of-another-tx", i
				break
			}
		}
		if diff == "" && len(q.Valid)+len(q.Invalid) != len(txs)-map[bool]int{true: 1, false: 0}[first[bi] >= 0] {
			diff = "verdict-of-another-tx"
		}
		if diff == "" && !bytes.Equal(p.AppHash, q.AppHash) {
			diff = "apphash"
		}
		if diff == "" {
			continue
		}
		// attribute: the removed tx of the last block ≤ bi that had one
		ab := bi
		for ab > 0 && first[ab] < 0 {
			ab--
		}
		cls, cause := "block", ""
		if first[ab] >= 0 {
			t := blocks[ab][first[ab]]
			cls = e.info(t).class
			for j, it := range rec.Blocks[ab].Invalid {
				if bytes.Equal(it, t) {
					cause = rec.Blocks[ab].Errs[j]
				}
			}
		}
		d := fmt.Sprintf("block %d with vs without its first invalid tx (block %d tx %d, %s, error %q; the other invalid txs stay): ", bi+1, ab+1, first[ab], cls, cause)
		if who >= 0 {
			oi := e.info(txs[who])
			ov := "invalid"
			if vd[bi][who] {
				ov = "valid"
			}
			nv := "valid" // the counts of these bytes differ: the other verdict (for identical copies: of one of them)
			if gotV[string(txs[who])] < wantV[string(txs[who])] {
				nv = "invalid"
			}
			if (nv == "valid") == vd[bi][who] {
				ov = map[bool]string{true: "invalid", false: "valid"}[vd[bi][who]] + " (a copy of it)"
			}
			oerr := ""
			for j, it := range p.Invalid {
				if bytes.Equal(it, txs[who]) {
					oerr = p.Errs[j]
				}
			}
			d += fmt.Sprintf("tx %d (%s) is reported %s (%q) with it and %s without it", who, oi.class, ov, oerr, nv)
		} else {
			d += fmt.Sprintf("app hash %x vs %x", p.AppHash, q.AppHash)
		}
		fs = append(fs, finding{sig: map[string]string{"kind": "invalid-tx-changed-state", "diff": diff, "input": cls}, detail: d, block: ab, tx: first[ab]})
		break
	}
	return fs, outcome, rec
}

func parseU(s string) (uint64, error) {
	var n uint64
	_, err := fmt.Sscan(s, &n)
	return n, err
}
