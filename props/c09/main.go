// C09 — transaction execution is total, atomic and replay-protected.
//
// Exhaustive bounded exploration on the REAL chain/app/evm.EVMApp (LevelDB under
// the work directory, driven stand-alone through verif/evmkit): a structured
// grid of signed transactions, each placed alone in a block, twice in one
// block, in two consecutive blocks and between two valid transactions, plus raw
// byte strings as block transactions.  Oracle, from the property text:
//
//	(1) OnExecute/OnCommit never panic, whatever the bytes;
//	(2) every tx of a block is reported in exactly one of ValidTxs / InvalidTxs;
//	(3) a tx reported invalid leaves AppHash, ReceiptsHash and the observable
//	    state (nonces, balances, contract storage, KV store, receipts) exactly as
//	    the same blocks WITHOUT it leave them on a fresh identical state;
//	(4) a tx reported valid has a receipt (or KV record), carries exactly its
//	    sender's current nonce, and raises that nonce by one — so a second copy of
//	    a signed tx is never applied.
//
// A reverting / out-of-budget contract call that the application includes with
// a status-0 receipt is "applied" (valid): that is what the code calls valid and
// what the property's "applies completely and yields a receipt" covers.
package main

import (
	"encoding/hex"
	"fmt"
	"io/ioutil"
	"math/big"
	"os"
	"runtime/debug"
	"sort"
	"strings"
	"sync"
	"sync/atomic"
	"time"

	"verif/core"
	"verif/evmkit"
)

type kase struct {
	Kind      string   `json:"kind"`                // grid | raw
	Tx        *txSpec  `json:"tx,omitempty"`        // grid: the transaction
	Placement string   `json:"placement"`           // consecutive | twice | between | alone | batch
	Raw       []string `json:"raw_hex,omitempty"`   // raw: the transactions of the block (hex)
	Where     string   `json:"where,omitempty"`     // which tx of which block the finding is about
	TxHex     string   `json:"tx_hex,omitempty"`    // grid: the encoded transaction, for information
	Source    string   `json:"raw_source,omitempty"`
}

func neighbourA() []byte { return evmkit.Call(bob, 0, storeAddr, evmkit.StorePut(0xA1)) }
func neighbourB() []byte { return evmkit.KVPut(bob, 1, []byte("kB"), []byte("vB")) }
func batchTail() []byte  { return evmkit.KVPut(bob, 0, []byte("kB"), []byte("tail")) }

func sequence(placement string, txs [][]byte) [][][]byte {
	switch placement {
	case "alone":
		return [][][]byte{{txs[0]}}
	case "consecutive":
		return [][][]byte{{txs[0]}, {txs[0]}}
	case "twice":
		return [][][]byte{{txs[0], txs[0]}}
	case "between":
		return [][][]byte{{neighbourA(), txs[0], neighbourB()}}
	case "batch":
		return [][][]byte{append(append([][]byte{}, txs...), batchTail())}
	}
	core.Fatal("unknown placement %q", placement)
	return nil
}

type hit struct {
	order  int
	sig    map[string]string
	kase   kase
	detail string
}

type driver struct {
	e       *engine
	mu      sync.Mutex
	hits    []hit
	classes *core.Counter
	inputs  *core.Counter
	samples *core.Sampler
	evals   int64
}

func (d *driver) record(order int, k kase, fs []finding) {
	d.mu.Lock()
	defer d.mu.Unlock()
	for _, f := range fs {
		kk := k
		if f.txIdx[0] >= 0 {
			kk.Where = fmt.Sprintf("block %d tx %d", f.txIdx[0]+1, f.txIdx[1])
		}
		d.hits = append(d.hits, hit{order: order, sig: f.sig, kase: kk, detail: k.describe() + ": " + f.detail})
	}
}

func (k kase) describe() string {
	if k.Tx != nil {
		return fmt.Sprintf("grid tx {%s} placed %s", k.Tx.String(), k.Placement)
	}
	if len(k.Raw) == 1 {
		return fmt.Sprintf("raw tx %q (%s) placed %s", k.Raw[0], k.Source, k.Placement)
	}
	return fmt.Sprintf("%d raw txs (%s) in one block", len(k.Raw), k.Source)
}

// checkGrid evaluates one grid transaction in all placements.
func (d *driver) checkGrid(order int, s txSpec, only string) {
	raw := buildTx(s)
	cls := d.e.info(raw).class
	var outs []string
	for _, pl := range []string{"consecutive", "twice", "between"} {
		if only != "" && only != pl {
			continue
		}
		fs, out, _ := d.e.check(sequence(pl, [][]byte{raw}))
		sp := s
		d.record(order*4, kase{Kind: "grid", Tx: &sp, Placement: pl, TxHex: hex.EncodeToString(raw)}, fs)
		outs = append(outs, pl+"="+out)
		if pl == "consecutive" {
			atomic.AddInt64(&d.evals, 2) // alone (first block) and in a later block
		} else {
			atomic.AddInt64(&d.evals, 1)
		}
	}
	d.classes.Add(cls + " :: " + strings.Join(outs, " ;; "))
	d.inputs.Add(cls)
}

// checkBatch evaluates raw transactions together in one block (followed by one
// valid tx); a panic is bisected down to the single transactions that cause
// it, so that the rest of the batch is still checked.
func (d *driver) checkBatch(order int, source string, txs [][]byte) {
	pl := "batch"
	if len(txs) == 1 {
		pl = "alone"
	}
	fs, out, rec := d.e.check(sequence(pl, txs))
	if rec.Panic && len(txs) > 1 {
		if rec.PanicPhase == "decode" {
			d.checkBatch(order, source, [][]byte{txs[rec.PanicTx]})
			rest := append(append([][]byte{}, txs[:rec.PanicTx]...), txs[rec.PanicTx+1:]...)
			d.checkBatch(order, source, rest)
			return
		}
		h := len(txs) / 2
		d.checkBatch(order, source, txs[:h])
		d.checkBatch(order, source, txs[h:])
		return
	}
	mk := func(list [][]byte, pl string) kase {
		k := kase{Kind: "raw", Placement: pl, Source: source}
		for _, t := range list {
			k.Raw = append(k.Raw, hex.EncodeToString(t))
		}
		return k
	}
	if len(txs) == 1 {
		atomic.AddInt64(&d.evals, 1)
		d.classes.Add("raw " + d.e.info(txs[0]).class + " :: " + out)
		d.inputs.Add(d.e.info(txs[0]).class)
		d.record(order, mk(txs, "alone"), fs)
		return
	}
	atomic.AddInt64(&d.evals, int64(len(txs)))
	// histogram per tx of the batch
	if !rec.Panic {
		inv := map[string]string{}
		for i, t := range rec.Blocks[0].Invalid {
			inv[string(t)] = errClass(rec.Blocks[0].Errs[i])
		}
		for _, t := range txs {
			c := d.e.info(t).class
			d.inputs.Add(c)
			if e, ok := inv[string(t)]; ok {
				d.classes.Add("raw " + c + " :: I(" + e + ")")
			} else {
				d.classes.Add("raw " + c + " :: V")
			}
		}
	}
	// shrink findings to a single transaction alone in a block where that reproduces them
	for _, f := range fs {
		var cand [][]byte
		if f.txIdx[1] >= 0 && f.txIdx[1] < len(txs) && f.sig["kind"] != "invalid-tx-changed-state" {
			cand = [][]byte{txs[f.txIdx[1]]}
		} else {
			cand = txs
		}
		reproduced := false
		for _, t := range cand {
			fs1, _, _ := d.e.check(sequence("alone", [][]byte{t}))
			for _, f1 := range fs1 {
				if f1.sig["kind"] == f.sig["kind"] {
					d.record(order, mk([][]byte{t}, "alone"), []finding{f1})
					reproduced = true
				}
			}
		}
		if !reproduced {
			d.record(order, mk(txs, "batch"), []finding{f})
		}
	}
}

// rawShort: all byte strings of length ≤ 2.
func rawShort() [][]byte {
	out := [][]byte{{}}
	for a := 0; a < 256; a++ {
		out = append(out, []byte{byte(a)})
	}
	for a := 0; a < 256; a++ {
		for b := 0; b < 256; b++ {
			out = append(out, []byte{byte(a), byte(b)})
		}
	}
	return out
}

type mutBase struct {
	name string
	raw  []byte
}

func mutationBases() []mutBase {
	return []mutBase{
		{"transfer(alice,nonce 1,eoa,1 wei)", evmkit.Transfer(alice, 1, eoa.Addr, big.NewInt(1))},
		{"kvput(bob,nonce 0)", evmkit.KVPut(bob, 0, []byte("gk"), []byte("mv"))},
		{"call(carol,nonce 0,store.set)", evmkit.Call(carol, 0, storeAddr, evmkit.StoreSet(0x55))},
	}
}

// mutants: every single-byte replacement by {00,01,7f,80,ff} and every proper prefix.
func mutants(b []byte) [][]byte {
	var out [][]byte
	seen := map[string]bool{string(b): true}
	add := func(m []byte) {
		if !seen[string(m)] {
			seen[string(m)] = true
			out = append(out, m)
		}
	}
	for i := range b {
		for _, v := range []byte{0x00, 0x01, 0x7f, 0x80, 0xff} {
			m := append([]byte{}, b...)
			m[i] = v
			add(m)
		}
	}
	for n := 0; n < len(b); n++ {
		add(append([]byte{}, b[:n]...))
	}
	return out
}

func vmHWM() int {
	b, err := ioutil.ReadFile("/proc/self/status")
	if err != nil {
		return 0
	}
	for _, l := range strings.Split(string(b), "\n") {
		if strings.HasPrefix(l, "VmHWM:") {
			var kb int
			fmt.Sscanf(strings.TrimSpace(strings.TrimPrefix(l, "VmHWM:")), "%d", &kb)
			return kb / 1024
		}
	}
	return 0
}

func main() {
	run := core.Start("C09", "exploration", "XSTATE")
	debug.SetMemoryLimit(3 << 30)
	evmkit.Silence()
	evmkit.SetAdminCallback(adminCallback)
	work := run.WorkDir()
	os.RemoveAll(work)
	os.MkdirAll(work, 0755)
	tpl, base := buildTemplate(work)
	e := &engine{run: run, tpl: tpl, work: work, base: base, baseMemo: map[string]string{}, memo: map[string]*memoEntry{}, infos: map[string]*txInfo{}}
	d := &driver{e: e, classes: core.NewCounter(), inputs: core.NewCounter(), samples: core.NewSampler(8, run.Seed)}

	// watchdog: a hang of the code under test is reported as an internal error, never as a verdict
	go func() {
		last, idle := int64(-1), 0
		for {
			time.Sleep(10 * time.Second)
			p := atomic.LoadInt64(&e.progress) + atomic.LoadInt64(&e.runs)
			if p == last {
				idle++
			} else {
				idle, last = 0, p
			}
			if idle >= 30 {
				core.Fatal("no sequence finished for 300 s (hang in the code under test or overloaded machine)")
			}
		}
	}()

	if run.ReplayPath != "" {
		var k kase
		if err := run.ReplayCase(&k); err != nil {
			core.Fatal("cannot load replay: %v", err)
		}
		switch k.Kind {
		case "grid":
			d.checkGrid(0, *k.Tx, k.Placement)
		case "raw":
			var txs [][]byte
			for _, h := range k.Raw {
				b, err := hex.DecodeString(h)
				if err != nil {
					core.Fatal("bad hex in replay: %v", err)
				}
				txs = append(txs, b)
			}
			d.checkBatch(0, k.Source, txs)
		default:
			core.Fatal("unknown case kind %q", k.Kind)
		}
		d.flush(run)
		base.Close()
		run.Finish(nil, nil)
	}

	// determinism self-check (DESIGN §1.2): the same sequence twice, on two clones, must give identical records
	probe := sequence("between", [][]byte{buildTx(def())})
	r1, r2 := e.exec(probe, nil), e.exec(probe, nil)
	if r1.Panic || r2.Panic || fmt.Sprint(r1.Blocks[0].Obs) != fmt.Sprint(r2.Blocks[0].Obs) || hex.EncodeToString(r1.Blocks[0].ReceiptsHash) != hex.EncodeToString(r2.Blocks[0].ReceiptsHash) || hex.EncodeToString(r1.Blocks[0].AppHash) != hex.EncodeToString(r2.Blocks[0].AppHash) {
		core.Fatal("the harness is not deterministic: two clones of the base state disagree on the same block")
	}

	specs := grid(run.Quick())
	// long-running (interpreter budget) cases first, so that they do not form the tail
	sort.SliceStable(specs, func(i, j int) bool { return specs[i].spinning() && !specs[j].spinning() })
	spinning := 0
	for _, s := range specs {
		if s.spinning() {
			spinning++
		}
	}
	core.Par(len(specs), func(i int) {
		d.checkGrid(i, specs[i], "")
		if i%131 == 0 {
			sp := specs[i]
			d.samples.Add(kase{Kind: "grid", Tx: &sp, Placement: "consecutive+twice+between"})
		}
	})
	gridEvals := atomic.LoadInt64(&d.evals)

	// raw byte strings as block transactions
	type batch struct {
		src string
		txs [][]byte
	}
	var batches []batch
	short := rawShort()
	for i := 0; i < len(short); i += 1024 {
		j := i + 1024
		if j > len(short) {
			j = len(short)
		}
		batches = append(batches, batch{"all byte strings of length <= 2", short[i:j]})
	}
	nMut := 0
	for _, mb := range mutationBases() {
		ms := mutants(mb.raw)
		nMut += len(ms)
		for i := 0; i < len(ms); i += 64 {
			j := i + 64
			if j > len(ms) {
				j = len(ms)
			}
			batches = append(batches, batch{"mutation of " + mb.name, ms[i:j]})
		}
	}
	core.Par(len(batches), func(i int) {
		d.checkBatch(len(specs)*4+i, batches[i].src, batches[i].txs)
	})
	d.samples.Add(kase{Kind: "raw", Placement: "batch", Source: "all byte strings of length <= 2", Raw: []string{"", "00", "c0", "ffff"}})
	base.Close()
	d.flush(run)

	run.Finish(core.Coverage{
		"evaluations":         int(atomic.LoadInt64(&d.evals)),
		"grid_transactions":   len(specs),
		"grid_evaluations":    int(gridEvals),
		"grid_spinning_txs":   spinning,
		"raw_short_strings":   len(short),
		"raw_mutants":         nMut,
		"raw_batches":         len(batches),
		"sequences_executed":  int(atomic.LoadInt64(&e.runs)),
		"blocks_executed":     int(atomic.LoadInt64(&e.blocks)),
		"txs_executed":        int(atomic.LoadInt64(&e.txs)),
		"distinct_nontrivial": d.classes.Len(),
		"input_classes":       d.inputs.Map(),
		"outcome_classes":     d.classes.Map(),
		"peak_rss_mb":         vmHWM(),
		"exhaustive":          true,
		"samples":             d.samples.List(),
		"rule": "base state: harness genesis (DefaultGenesis + alice funded 1e24 wei, eoa 1000 wei) + one block deploying the Store and Loop fixtures and two KV puts; grid sender alice (nonce 1). " +
			"Dimensions: recipient R = {contract creation, precompiles 0x01..0x08, AdminOP precompile 0xfe, admin contract 0x02000000, funded EOA, non-existent address, Store contract, Loop contract, self} (16); " +
			"payload P = {empty, 1 byte, 31/32/33/51/52 pattern bytes, 52 zero bytes, KV marker only, KV marker + bad RLP, valid KV, KV with 257-byte key, KV with 4097-byte value, Store.set call, Store.fail (reverting) call, spin code 5b600056, admin-op calldata accepted by the callback, admin-op calldata refused} (18); " +
			"nonce N = {cur-1, cur, cur+1}; gas limit G = {0, 1, 10^7, 2^64-1}; gas price Pr = {0, 1, 2^256-1}; value V = {0, balance, balance+1}; signature S = {valid, v flipped (valid signature of another address), v=29, r=0, high-s twin, EIP-155 chain 1, EIP-155 chain 9}. " +
			"Thorough enumerates, with all other dimensions at the default (EOA, empty, cur, 10^7, 0, 0, valid): A = R x P x N (Loop recipient restricted to P in {empty, set, kv, b52}); B = R x G x Pr x V; C = S x N x {empty, kv, set} x {create, 0xfe, Store, EOA, self}; D = {Store, 0xfe, create} x P x G x Pr; E = {Store, 0xfe, create, EOA} x P x V; F = S x R and S x P(to Store); G' = {Store, EOA, create, 0xfe} x N x G x Pr x V; duplicates removed; of the combinations that make the interpreter spin to its 10^8-gas budget (~0.6 s each) only a fixed subset is kept (grid_spinning_txs). " +
			"Quick enumerates A with N != cur only for P in {empty, kv, set}; B without G=0, Pr=max, V=balance; C for P in {kv, set} and R in {0xfe, Store, self}; F = S x R. " +
			"Every grid tx is placed (i) alone in a block, (ii) twice in one block, (iii) in two consecutive blocks ((i) is the first block of (iii)), (iv) between a valid contract call and a valid KV put of another sender; each placement runs on a fresh copy of the base state. " +
			"Raw block txs: all 65793 byte strings of length <= 2 (blocks of 1024 strings + one valid tx), and for three valid encoded txs (transfer, KV put, contract call with log) every single-byte replacement by {00,01,7f,80,ff} and every proper prefix (blocks of 64 + one valid tx); a block that panics is bisected so that the remaining strings are still checked. " +
			"evaluations = (tx, placement) pairs judged; distinct_nontrivial = distinct (input class, per-placement verdict pattern with normalised error text) outcomes observed.",
	}, []string{
		"funded accounts are a harness state: on the real chain no balance ever exists (genesis allocates only the admin contract, nothing mints); value/gas-price dimensions are therefore explored from a state the real chain cannot reach, all other dimensions from one it can",
		"the AdminOP precompile's callback (installed by chain/core.NewNode in a real node) is replaced by a stateless stub that accepts payloads ending in \"ok\"; validator-set effects of admin operations are outside the application and not observed",
		"counterfactual comparison: AppHash equality stands for the whole account trie (collision resistance of keccak256); non-trie state is compared through Query (KV store, receipts) and ReceiptsHash; receipts are compared without positional metadata (block hash, tx index), and ReceiptsHash is not compared for a block in which a log-bearing valid tx follows a removed tx",
		"decoding and signature recovery run on goroutines the application spawns; they are pre-screened on the driver's goroutine with the same functions (rlp.DecodeBytes, types.Sender) so that a panic there is observed instead of killing the driver",
		"the status-word race in verifycpuparallel.go tryValidate (DESIGN §7) needs a controlled scheduler and is not explored here (C05 SCHED part)",
	})
}

// flush reports the collected findings in a deterministic order (smallest case first per signature).
func (d *driver) flush(run *core.Run) {
	d.mu.Lock()
	defer d.mu.Unlock()
	sort.SliceStable(d.hits, func(i, j int) bool {
		a, b := d.hits[i], d.hits[j]
		if len(a.kase.Raw) != len(b.kase.Raw) {
			return len(a.kase.Raw) < len(b.kase.Raw)
		}
		if a.order != b.order {
			return a.order < b.order
		}
		return placementRank(a.kase.Placement) < placementRank(b.kase.Placement)
	})
	for _, h := range d.hits {
		run.Report(h.sig, h.kase, h.detail)
	}
	d.hits = nil
}

func placementRank(p string) int {
	switch p {
	case "alone":
		return 0
	case "consecutive":
		return 1
	case "twice":
		return 2
	case "between":
		return 3
	}
	return 4
}
