// C09 — transaction execution is total, atomic and replay-protected.
//
// Exhaustive bounded exploration on the REAL chain/app/evm.EVMApp (LevelDB under
// the work directory, driven stand-alone through verif/evmkit): a structured
// grid of signed transactions (including a signature-field boundary family
// encoded by hand), each placed alone in a block and again in the next one,
// twice in one block before a valid call, between valid transactions of another
// sender, right after a valid and right after an invalid transaction of its own
// sender, plus raw byte strings as block transactions.  Opening the application is expensive
// (≈ 130 MB of LevelDB buffers), a block is cheap, so cases — each with senders
// of its own — are executed in chains on one application instance; the oracle
// judges the whole block sequence of a chain and compares it with the sequence
// without the transactions reported invalid, run on another fresh copy of the
// base state; every finding is re-confirmed with its case alone.  Oracle, from
// the property text:
//
//	(1) OnExecute/OnCommit never panic, whatever the bytes;
//	(2) every tx of a block is reported in exactly one of ValidTxs / InvalidTxs;
//	(3) a tx reported invalid leaves AppHash, ReceiptsHash and the observable
//	    state (nonces, balances, contract storage, KV store, receipts) exactly as
//	    the same blocks WITHOUT it leave them on a fresh identical state (checked
//	    without all invalid txs, and without only the first invalid tx of each
//	    block: every other tx keeps its verdict);
//	(4) a tx reported valid has a receipt (or KV record), carries exactly its
//	    sender's current nonce, and raises that nonce by one — so a second copy of
//	    a signed tx is never applied.
//
// A reverting / out-of-budget contract call that the application includes with
// a status-0 receipt is "applied" (valid): that is what the code calls valid and
// what the property's "applies completely and yields a receipt" covers.
package main

import (
	"bytes"
	"encoding/hex"
	"fmt"
	"io/ioutil"
	"math/big"
	"os"
	"runtime/debug"
	"sort"
	"strings"
	"sync"
	"sync/atomic"
	"time"

	"verif/core"
	"verif/evmkit"
)

type kase struct {
	Kind      string   `json:"kind"`                 // grid | raw | chain
	Tx        *txSpec  `json:"tx,omitempty"`         // grid: the transaction
	Placement string   `json:"placement"`            // consecutive (alone, then again in the next block) | twice | between | alone | batch
	Raw       []string `json:"raw_hex,omitempty"`    // raw: the raw transactions of the block (hex)
	Source    string   `json:"raw_source,omitempty"` // raw: where the bytes come from
	Where     string   `json:"where,omitempty"`      // which tx of which block of the case the finding is about
	Chain     []kase   `json:"chain,omitempty"`      // chain: the cases executed one after the other on one application instance
	ID        int      `json:"id"`                   // selects the case's senders (any value works for a case alone)
}

func (k kase) describe() string {
	switch {
	case k.Kind == "chain":
		return fmt.Sprintf("chain of %d cases on one application instance", len(k.Chain))
	case k.Tx != nil:
		return fmt.Sprintf("grid tx {%s} placed %s", k.Tx.String(), k.Placement)
	case len(k.Raw) == 1:
		return fmt.Sprintf("raw tx %q (%s) placed %s", k.Raw[0], k.Source, k.Placement)
	}
	return fmt.Sprintf("%d raw txs (%s) in one block", len(k.Raw), k.Source)
}

// item = one case: a few consecutive blocks built around one grid tx (or one
// block of raw txs), with senders of its own, so that items can be executed one
// after the other on the same application instance.
type item struct {
	id     int
	k      kase
	blocks [][][]byte
	gridTx []byte // grid cases: the bytes of the grid transaction as placed
	evals  int
	spin   bool
	risky  bool // scheduling hint only: expected to panic, run on its own
	cls    string
}

var placements = []string{"consecutive", "twice", "between", "after-own", "after-own-invalid"}

// gridItem builds the case for grid tx s in the given placement; id selects the senders.
func gridItem(id int, s txSpec, placement string) *item {
	t := buildTx(s, gridSender(id))
	sp := s
	it := &item{id: id, k: kase{Kind: "grid", Tx: &sp, Placement: placement}, evals: 1, spin: s.spinning()}
	switch placement {
	case "alone":
		it.blocks = [][][]byte{{t}}
	case "consecutive":
		it.blocks, it.evals = [][][]byte{{t}, {t}}, 2
	case "twice":
		// both copies, then an ordinary contract call of another sender: whatever the copies
		// did to per-block resources, the call behind them must fare as it does without them
		nb := neighbour(id)
		it.blocks = [][][]byte{{t, t, evmkit.Call(nb, 0, storeAddr, evmkit.StorePut(uint64(id)+1))}}
	case "after-own":
		// the grid tx right after a valid tx of the SAME sender in the same block: whatever happens
		// to the second one, the effects of the first one stay
		own := gridSender(id)
		// the nonce offset of the grid tx counts from the sender's nonce at ITS position, i.e. after the first tx
		s2 := s
		s2.N = s.N + 1
		t = buildTx(s2, own)
		// (a key-value transaction: its nonce bump is still in the state journal when the grid tx runs)
		it.blocks = [][][]byte{{evmkit.KVPut(own, 0, []byte("kO"), []byte(fmt.Sprint("vO", id))), t}}
	case "after-own-invalid":
		// the grid tx right after an INVALID tx of the same sender (right nonce, a value the sender
		// cannot pay: the state transition fails after the gas was bought), and the same bytes again in
		// the next block: the failed predecessor must not change what happens to the grid tx, and the
		// grid tx takes effect at most once
		own := gridSender(id)
		a := evmkit.Sign(own, evmkit.TxSpec{Nonce: aliceNonce, To: &eoa.Addr, Value: new(big.Int).Add(fundF, big.NewInt(1)), Gas: evmkit.DefaultGas})
		it.blocks, it.evals = [][][]byte{{a, t}, {t}}, 2
	case "between":
		nb := neighbour(id)
		// (the tx behind the grid tx is an EVM call, then a KV put: both execution paths follow it)
		it.blocks = [][][]byte{{evmkit.Call(nb, 0, storeAddr, evmkit.StorePut(uint64(id)+1)), t, evmkit.Call(nb, 1, storeAddr, evmkit.StorePut(uint64(id)+2)), evmkit.KVPut(nb, 2, []byte("kB"), []byte(fmt.Sprint("vB", id)))}}
	default:
		core.Fatal("unknown placement %q", placement)
	}
	it.gridTx = t
	// scheduling hint only (never used by the oracle): will this tx reach the AdminOP precompile with an input it mishandles?
	p := payloadBytes(s.P)
	executes := ((s.S == "valid" && s.N == 0) || (s.S == "vflip" && s.N == -1)) && (s.G == "std" || s.G == "max") && s.Pr != "max" && s.V != "bal+1" && !(s.Pr == "1" && s.V == "bal") && !bytes.HasPrefix(p, []byte("kvTx-"))
	if s.S == "vflip" {
		executes = executes && s.Pr == "0" && s.V == "0"
	}
	short := len(p) < 52
	if !short {
		l := new(big.Int).SetBytes(p[:32]).Uint64()
		short = l+32 < 52 || l+32 >= 1<<63
	}
	it.risky = s.R == "fe" && executes && short
	return it
}

// rawItem: the raw txs in one block, closed by one valid tx of a sender of its own.
func rawItem(id int, source string, txs [][]byte) *item {
	it := &item{id: id, k: kase{Kind: "raw", Placement: "batch", Source: source}, evals: len(txs)}
	if len(txs) == 1 {
		it.k.Placement = "alone"
		it.blocks = [][][]byte{{txs[0]}}
		it.risky = len(txs[0]) == 0
	} else {
		blk := append(append([][]byte{}, txs...), evmkit.KVPut(tailSender(id), 0, []byte("kB"), []byte(fmt.Sprint("tail", id))))
		it.blocks = [][][]byte{blk}
	}
	for _, t := range txs {
		it.k.Raw = append(it.k.Raw, hex.EncodeToString(t))
	}
	return it
}

func (it *item) rawTxs() [][]byte {
	var out [][]byte
	for _, h := range it.k.Raw {
		b, _ := hex.DecodeString(h)
		out = append(out, b)
	}
	return out
}

type hit struct {
	order  int
	alone  bool // observed with the case alone on a fresh base state
	sig    map[string]string
	item   *item
	chain  []*item
	where  string
	detail string
}

type driver struct {
	e       *engine
	mu      sync.Mutex
	hits    []hit
	classes *core.Counter
	inputs  *core.Counter
	samples *core.Sampler
	evals   int64
	rawID   int64
	done    int64
	splits  int64
}

// runChain executes the items one after the other on one fresh application
// instance and judges the whole block sequence.  A panic ends the instance: the
// items before and after the panicking one are re-run on new instances.
func (d *driver) runChain(items []*item) { d.runChainN(items, 0) }

func (d *driver) runChainN(items []*item, attempt int) {
	if len(items) == 0 {
		return
	}
	var blocks [][][]byte
	var owner []int
	first := make([]int, len(items))
	for i, it := range items {
		first[i] = len(blocks)
		for _, b := range it.blocks {
			blocks = append(blocks, b)
			owner = append(owner, i)
		}
	}
	fs, outcome, rec := d.e.check(blocks)
	atomic.AddInt64(&d.done, 1)
	if rec.Panic && rec.PanicPhase == "result" {
		// schedule-dependent loss of the reported bytes: record it and judge the same cases again
		j := owner[rec.PanicAt]
		d.mu.Lock()
		for _, f := range fs {
			h := hit{order: items[j].id, alone: len(items) == 1, sig: f.sig, item: items[j], where: fmt.Sprintf("block %d of the case", rec.PanicAt-first[j]+1), detail: f.detail}
			if len(items) > 1 {
				h.chain = items
			}
			d.hits = append(d.hits, h)
		}
		d.mu.Unlock()
		if attempt < 3 {
			d.runChainN(items, attempt+1)
		} else {
			core.Fatal("the reported bytes were torn in 4 consecutive runs of the same chain; cannot judge it")
		}
		return
	}
	if rec.Panic {
		j := owner[rec.PanicAt]
		it := items[j]
		if len(items) > 1 {
			atomic.AddInt64(&d.splits, 1)
			if os.Getenv("C09_DEBUG") != "" {
				fmt.Fprintf(os.Stderr, "unpredicted panic in chain: %s: %s\n", it.k.describe(), rec.PanicVal)
			}
			d.runChain(items[:j])
			d.runChain([]*item{it})
			d.runChain(items[j+1:])
			return
		}
		if it.k.Kind == "raw" && len(it.k.Raw) > 1 {
			// bisect the block so that the other strings are still judged
			txs := it.rawTxs()
			var parts [][][]byte
			if rec.PanicPhase == "decode" {
				parts = [][][]byte{{txs[rec.PanicTx]}, append(append([][]byte{}, txs[:rec.PanicTx]...), txs[rec.PanicTx+1:]...)}
			} else {
				parts = [][][]byte{txs[:len(txs)/2], txs[len(txs)/2:]}
			}
			d.mu.Lock()
			before := len(d.hits)
			d.mu.Unlock()
			for _, p := range parts {
				if len(p) > 0 {
					d.runChain([]*item{rawItem(int(atomic.AddInt64(&d.rawID, 1)), it.k.Source, p)})
				}
			}
			d.mu.Lock()
			if len(d.hits) == before && len(parts) == 2 && len(parts[0])+len(parts[1]) <= 2 {
				// neither part panics on its own: the panic needs this very combination of
				// transactions in one block - the smallest such block is the counterexample
				for _, f := range fs {
					f.sig["shape"] = "needs-several-txs-in-one-block"
					d.hits = append(d.hits, hit{order: it.id, alone: true, sig: f.sig, item: it, where: "block of the case", detail: f.detail})
				}
			} else if len(d.hits) == before {
				for _, f := range fs {
					f.sig["shape"] = "needs-several-txs-in-one-block"
					d.hits = append(d.hits, hit{order: it.id, alone: true, sig: f.sig, item: it, where: "block of the case (" + fmt.Sprint(len(txs)) + " raw txs; no half of it panics alone)", detail: f.detail})
				}
			}
			d.mu.Unlock()
			return
		}
	}
	// histogram, per item
	for i, it := range items {
		last := len(blocks)
		if i+1 < len(items) {
			last = first[i+1]
		}
		if it.k.Kind == "grid" {
			d.classes.Add(it.cls + " " + it.k.Placement + " :: " + strings.Join(outcome[first[i]:last], " | "))
			d.inputs.Add(it.cls)
		} else if !rec.Panic {
			inv := map[string]string{}
			br := rec.Blocks[first[i]]
			for n, t := range br.Invalid {
				inv[string(t)] = errClass(br.Errs[n])
			}
			for _, t := range it.rawTxs() {
				c := d.e.info(t).class
				d.inputs.Add(c)
				if e, ok := inv[string(t)]; ok {
					d.classes.Add("raw " + c + " :: I(" + e + ")")
				} else {
					d.classes.Add("raw " + c + " :: V")
				}
			}
		} else {
			d.classes.Add("raw " + d.e.info(it.rawTxs()[0]).class + " :: " + outcome[first[i]])
			d.inputs.Add(d.e.info(it.rawTxs()[0]).class)
		}
		atomic.AddInt64(&d.evals, int64(it.evals))
	}
	d.mu.Lock()
	for _, f := range fs {
		j := owner[f.block]
		if f.sig["kind"] == "panic" && f.sig["input"] == "block" && items[j].k.Kind == "grid" {
			f.sig["input"] = items[j].cls // the block is the grid tx between two neighbour txs
		}
		h := hit{order: items[j].id, alone: len(items) == 1, sig: f.sig, item: items[j], where: fmt.Sprintf("block %d of the case, tx %d", f.block-first[j]+1, f.tx), detail: f.detail}
		if len(items) > 1 {
			h.chain = items
		}
		d.hits = append(d.hits, h)
	}
	d.mu.Unlock()
}

// flush reports the collected findings in a deterministic order.  For every
// signature the smallest case is first confirmed ALONE on a fresh base state
// (so that the replay artefact is minimal); if no case of that signature
// reproduces alone, the whole chain is the case.
func (d *driver) flush(run *core.Run) {
	less := func(a, b hit) bool {
		if a.alone != b.alone {
			return a.alone
		}
		if la, lb := len(a.item.k.Raw), len(b.item.k.Raw); la != lb {
			return la < lb
		}
		return a.order < b.order
	}
	d.mu.Lock()
	hits := d.hits
	d.hits = nil
	d.mu.Unlock()
	sort.SliceStable(hits, func(i, j int) bool { return less(hits[i], hits[j]) })
	key := func(sig map[string]string) string {
		var ks []string
		for k, v := range sig {
			ks = append(ks, k+"="+v)
		}
		sort.Strings(ks)
		return strings.Join(ks, ";")
	}
	confirmed := map[string]bool{}
	tried := map[string]int{}
	evals := atomic.LoadInt64(&d.evals) // confirmation runs are not counted as evaluations
	defer func() { atomic.StoreInt64(&d.evals, evals) }()
	for _, h := range hits {
		k := key(h.sig)
		if h.alone {
			confirmed[k] = true
		}
	}
	// confirmation runs (sequential, few)
	for _, h := range hits {
		k := key(h.sig)
		if confirmed[k] || h.alone || tried[k] >= 2 {
			continue
		}
		tried[k]++
		before := len(d.hits)
		d.runChain([]*item{h.item})
		d.mu.Lock()
		for _, nh := range d.hits[before:] {
			if key(nh.sig) == k {
				confirmed[k] = true
			}
		}
		d.mu.Unlock()
	}
	d.mu.Lock()
	hits = append(hits, d.hits...)
	d.hits = nil
	d.mu.Unlock()
	sort.SliceStable(hits, func(i, j int) bool { return less(hits[i], hits[j]) })
	for _, h := range hits {
		k := h.item.k
		k.Where = h.where
		detail := k.describe() + ": " + h.detail
		if !h.alone {
			if confirmed[key(h.sig)] {
				detail = k.describe() + " (observed inside a chain of " + fmt.Sprint(len(h.chain)) + " cases): " + h.detail
			} else {
				ck := kase{Kind: "chain", Where: "case " + fmt.Sprint(h.item.id) + ", " + h.where}
				for _, it := range h.chain {
					ck.Chain = append(ck.Chain, it.k)
				}
				detail = ck.describe() + ", not reproduced by the case alone; " + k.describe() + ": " + h.detail
				k = ck
			}
		}
		run.Report(h.sig, k, detail)
	}
}

// rawShort: all byte strings of length ≤ 2.
func rawShort() [][]byte {
	out := [][]byte{{}}
	for a := 0; a < 256; a++ {
		out = append(out, []byte{byte(a)})
	}
	for a := 0; a < 256; a++ {
		for b := 0; b < 256; b++ {
			out = append(out, []byte{byte(a), byte(b)})
		}
	}
	return out
}

type mutBase struct {
	name string
	raw  []byte
}

func mutationBases() []mutBase {
	return []mutBase{
		{"transfer(funded sender,nonce 1,eoa,1 wei)", evmkit.Transfer(mutSender, 1, eoa.Addr, big.NewInt(1))},
		{"kvput(unfunded sender,nonce 0)", evmkit.KVPut(bob, 0, []byte("gk"), []byte("mv"))},
		{"call(unfunded sender,nonce 0,store.set)", evmkit.Call(carol, 0, storeAddr, evmkit.StoreSet(0x55))},
	}
}

// mutants: every single-byte replacement by {00,01,7f,80,ff} and every proper prefix.
func mutants(b []byte) [][]byte {
	var out [][]byte
	seen := map[string]bool{string(b): true}
	add := func(m []byte) {
		if !seen[string(m)] {
			seen[string(m)] = true
			out = append(out, m)
		}
	}
	for i := range b {
		for _, v := range []byte{0x00, 0x01, 0x7f, 0x80, 0xff} {
			m := append([]byte{}, b...)
			m[i] = v
			add(m)
		}
	}
	for n := 1; n < len(b); n++ { // the empty prefix is the empty string of the short-string set
		add(append([]byte{}, b[:n]...))
	}
	return out
}

func vmHWM() int {
	b, err := ioutil.ReadFile("/proc/self/status")
	if err != nil {
		return 0
	}
	for _, l := range strings.Split(string(b), "\n") {
		if strings.HasPrefix(l, "VmHWM:") {
			var kb int
			fmt.Sscanf(strings.TrimSpace(strings.TrimPrefix(l, "VmHWM:")), "%d", &kb)
			return kb / 1024
		}
	}
	return 0
}

func (d *driver) itemOf(k kase, id int) *item {
	switch k.Kind {
	case "grid":
		it := gridItem(id, *k.Tx, k.Placement)
		it.cls = d.e.info(it.gridTx).class
		return it
	case "raw":
		var txs [][]byte
		for _, h := range k.Raw {
			b, err := hex.DecodeString(h)
			if err != nil {
				core.Fatal("bad hex in case: %v", err)
			}
			txs = append(txs, b)
		}
		return rawItem(id, k.Source, txs)
	}
	core.Fatal("unknown case kind %q", k.Kind)
	return nil
}

func main() {
	run := core.Start("C09", "exploration", "XSTATE")
	// every application open allocates ≈ 130 MB of zeroed LevelDB buffers (hard-coded cache size): collect often
	debug.SetGCPercent(50)
	debug.SetMemoryLimit(3 << 30)
	evmkit.Silence()
	evmkit.SetAdminCallback(adminCallback)
	work := run.WorkDir()
	os.RemoveAll(work)
	os.MkdirAll(work, 0755)
	e := &engine{run: run, work: work, baseMemo: map[string]string{}, infos: map[string]*txInfo{}}
	d := &driver{e: e, classes: core.NewCounter(), inputs: core.NewCounter(), samples: core.NewSampler(8, run.Seed), rawID: 1 << 20}

	// watchdog: a hang of the code under test is reported as an internal error, never as a verdict
	go func() {
		last, idle := int64(-1), 0
		for {
			time.Sleep(10 * time.Second)
			p := atomic.LoadInt64(&e.blocks)
			if p == last {
				idle++
			} else {
				idle, last = 0, p
			}
			if idle >= 30 {
				core.Fatal("no block finished for 300 s (hang in the code under test or overloaded machine)")
			}
		}
	}()

	if run.ReplayPath != "" {
		var k kase
		if err := run.ReplayCase(&k); err != nil {
			core.Fatal("cannot load replay: %v", err)
		}
		var items []*item
		n := 1
		if k.Kind == "chain" {
			for _, ck := range k.Chain {
				if ck.ID+1 > n {
					n = ck.ID + 1
				}
			}
			e.tpl, e.base = buildTemplate(work, n)
			for _, ck := range k.Chain {
				items = append(items, d.itemOf(ck, ck.ID))
			}
		} else {
			e.tpl, e.base = buildTemplate(work, 1)
			items = []*item{d.itemOf(k, 0)}
		}
		d.runChain(items)
		d.flush(run)
		e.base.Close()
		run.Finish(nil, nil)
	}

	// ---- enumerate
	specs := grid(run.Quick())
	var items []*item
	nSigFamily := 0
	for _, s := range specs {
		if strings.HasPrefix(s.S, "vrs:") {
			nSigFamily++
		}
	}
	for _, s := range specs {
		for _, pl := range placements {
			items = append(items, &item{id: len(items), k: kase{Kind: "grid", Placement: pl}, spin: s.spinning()})
			sp := s
			items[len(items)-1].k.Tx = &sp
		}
	}
	nGridItems := len(items)
	e.tpl, e.base = buildTemplate(work, nGridItems)
	core.Par(nGridItems, func(i int) {
		it := gridItem(i, *items[i].k.Tx, items[i].k.Placement)
		it.cls = e.info(it.gridTx).class
		it.k.ID = i
		items[i] = it
	})
	short := rawShort()
	src := "all byte strings of length <= 2"
	items = append(items, rawItem(len(items), src, [][]byte{short[0]})) // the empty string on its own
	for i := 1; i < len(short); i += 1024 {
		j := i + 1024
		if j > len(short) {
			j = len(short)
		}
		items = append(items, rawItem(len(items), src, short[i:j]))
	}
	nMut := 0
	for _, mb := range mutationBases() {
		ms := mutants(mb.raw)
		nMut += len(ms)
		for i := 0; i < len(ms); i += 64 {
			j := i + 64
			if j > len(ms) {
				j = len(ms)
			}
			items = append(items, rawItem(len(items), "mutation of "+mb.name, ms[i:j]))
		}
	}
	for i, it := range items {
		it.k.ID = it.id
		if i%397 == 0 {
			k := it.k
			if len(k.Raw) > 4 {
				k.Raw = append(append([]string{}, k.Raw[:4]...), fmt.Sprintf("… %d more", len(k.Raw)-4))
			}
			d.samples.Add(k)
		}
	}

	// determinism self-check (DESIGN §1.2): the same sequence on two clones must give identical records
	probe := append(append([][][]byte{}, items[0].blocks...), items[2].blocks...)
	r1, r2 := e.exec(probe, probe, nil), e.exec(probe, probe, nil)
	if r1.Panic || r2.Panic || len(r1.Blocks) != len(r2.Blocks) {
		core.Fatal("determinism probe failed to run")
	}
	for i := range r1.Blocks {
		if fmt.Sprint(r1.Blocks[i].Obs) != fmt.Sprint(r2.Blocks[i].Obs) || !bytes.Equal(r1.Blocks[i].ReceiptsHash, r2.Blocks[i].ReceiptsHash) || !bytes.Equal(r1.Blocks[i].AppHash, r2.Blocks[i].AppHash) {
			core.Fatal("the harness is not deterministic: two clones of the base state disagree on the same blocks")
		}
	}

	// ---- schedule: items expected to panic run alone; the others are dealt round-robin into
	// chains (long-running ones first, so that every chain gets its share)
	chainLen := 128
	var solo, rest []*item
	for _, it := range items {
		if it.risky {
			solo = append(solo, it)
		} else {
			rest = append(rest, it)
		}
	}
	sort.SliceStable(rest, func(i, j int) bool { return rest[i].spin && !rest[j].spin })
	nChains := (len(rest) + chainLen - 1) / chainLen
	chains := make([][]*item, nChains)
	for i, it := range rest {
		chains[i%nChains] = append(chains[i%nChains], it)
	}
	for _, c := range chains {
		sort.SliceStable(c, func(i, j int) bool { return c[i].id < c[j].id })
	}
	for _, it := range solo {
		chains = append(chains, []*item{it})
	}
	spinning := 0
	for _, it := range items {
		if it.spin {
			spinning++
		}
	}
	core.Par(len(chains), func(i int) { d.runChain(chains[i]) })
	d.flush(run)
	e.base.Close()

	run.Finish(core.Coverage{
		"evaluations":                          int(atomic.LoadInt64(&d.evals)),
		"grid_transactions":                    len(specs),
		"grid_cases":                           nGridItems,
		"grid_transactions_sig_field_family":   nSigFamily,
		"placements":                           placements,
		"grid_cases_spinning":                  spinning,
		"raw_short_strings":                    len(short),
		"raw_mutants":                          nMut,
		"chains_planned":                       len(chains),
		"chains_split_after_unpredicted_panic": int(atomic.LoadInt64(&d.splits)),
		"sequences_executed":                   int(atomic.LoadInt64(&e.runs)),
		"blocks_executed":                      int(atomic.LoadInt64(&e.blocks)),
		"txs_executed":                         int(atomic.LoadInt64(&e.txs)),
		"receipts_hash_positional_skips":       int(atomic.LoadInt64(&e.positionalSkips)),
		"single_removal_counterfactual_runs":   int(atomic.LoadInt64(&e.singleRemovalRuns)),
		"distinct_nontrivial":                  d.classes.Len(),
		"input_classes":                        d.inputs.Map(),
		"outcome_classes":                      d.classes.Map(),
		"peak_rss_mb":                          vmHWM(),
		"exhaustive":                           true,
		"samples":                              d.samples.List(),
		"rule": "base state: harness genesis (DefaultGenesis + one sender per case funded 1e24 wei with nonce 1, an EOA with 1000 wei) + one block deploying the Store and Loop fixtures and a KV put. " +
			"Dimensions: recipient R = {contract creation, precompiles 0x01..0x08, AdminOP precompile 0xfe, admin contract 0x02000000, funded EOA, non-existent address, Store contract, Loop contract, self} (16); " +
			"payload P = {empty, 1 byte, 31/32/33/51/52 pattern bytes, 52 zero bytes, 52 bytes with first word 2^63, KV marker only, KV marker + bad RLP, valid KV, KV with 257-byte key, KV with 4097-byte value, Store.set call, Store.fail (reverting) call, spin code 5b600056, admin-op calldata accepted by the callback, admin-op calldata refused} (19); " +
			"nonce N = {cur-1, cur, cur+1}; gas limit G = {0, 1, 10^7, 2^64-1}; gas price Pr = {0, 1, 2^256-1}; value V = {0, balance, balance+1}; signature S = {valid, v flipped (a valid signature of another address), v=29, r=0, high-s twin, EIP-155 chain 1, EIP-155 chain 9} and the signature-field boundary family vrs:<V>:<R>:<S> (hand-encoded RLP) with R in {own, 0, 1, N-1, N, N+1, 2^256-1, 2^256, 2^264-1 (33 bytes)}, S in {own, 0, 1, N/2, N/2+1, N-1, N, N+1, 2^256-1, 2^256, 2^264-1}, V in {own, 0, 1, 26, 27, 28, 29, 35, 36, 37, 38, 53, 54, 255, 256, 2^64} (N = order of secp256k1, own = the field of the sender's genuine signature). " +
			"Thorough enumerates, all other dimensions at the default (EOA, empty, cur, 10^7, 0, 0, valid): A = R x P x N (Loop recipient restricted to P in {empty, set, kv, b52}); B = R x G x Pr x V; C = S x N x {empty, kv, set} x {create, 0xfe, Store, EOA, self}; D = {Store, 0xfe, create} x P x G x Pr; E = {Store, 0xfe, create, EOA} x P x V; F = S x R and S x P(to Store); G' = {Store, EOA, create, 0xfe} x N x G x Pr x V; H = R x S x V of the signature-field family in full; I = {EOA, Store, create} x gas limit 2^63 x Pr x V; duplicates removed; of the combinations that make the interpreter spin to its 10^8-gas budget (~0.6 s each) only a fixed subset is kept. " +
			"Quick enumerates A with N != cur only for P in {empty, kv, set} and the Loop recipient only with P in {empty, kv}; B without G=0, Pr=max, V=balance; C for P in {kv, set} and R in {0xfe, Store, self}; F = S x R; H = R x S (without own) for V in {27, 28} plus every V for (R,S) in {(own,own), (1,1), (2^256,1), (1,2^256)}; I without Pr=max, V=balance. " +
			"Every grid tx gives five cases, each with a sender of its own: (i)+(iii) alone in a block and again in the next block, (ii) twice in one block followed by a valid contract call of another sender, (iv) between valid transactions of another sender (a contract call before it; a contract call and a KV put behind it), (v) right after a valid KV tx of the same sender, (vi) right after an INVALID tx of the same sender (right nonce, unaffordable value) and again in the next block. " +
			"Raw block txs: the empty string alone, the other 65792 byte strings of length <= 2 in blocks of 1024 followed by one valid tx, and for three valid encoded txs (transfer, KV put, contract call with log) every single-byte replacement by {00,01,7f,80,ff} and every proper non-empty prefix in blocks of 64 followed by one valid tx; a block that panics is bisected so that the remaining strings are still judged. " +
			"Cases are executed in chains of ~128 on one application instance (fresh copy of the base state per chain; cases expected to panic run alone; after a panic the rest of the chain is re-run on a new instance); the oracle is evaluated on the whole block sequence, its counterfactual (the sequence without every tx reported invalid) runs on another fresh copy, and when some block has two or more invalid txs a second counterfactual (the sequence without only the FIRST invalid tx of each block: every other tx must keep its verdict, the app hashes must be equal) on a third; a finding is re-confirmed with its case alone on a fresh base state. " +
			"evaluations = (tx, placement) pairs judged (raw: one per string); distinct_nontrivial = distinct (input class, placement, per-block verdict pattern with normalised error text) outcomes observed.",
	}, []string{
		"funded accounts are a harness state: on the real chain no balance ever exists (genesis allocates only the admin contract, nothing mints); value/gas-price dimensions are therefore explored from a state the real chain cannot reach, all other dimensions from one it can",
		"the AdminOP precompile's callback (installed by chain/core.NewNode in a real node) is replaced by a stateless stub that accepts payloads ending in \"ok\"; validator-set effects of admin operations are outside the application and not observed",
		"counterfactual comparison: AppHash equality stands for the whole account trie (collision resistance of keccak256); non-trie state is compared through Query (KV store, receipts) and ReceiptsHash; receipts are compared without positional metadata (block hash, tx index); when a log-bearing tx is involved the counterfactuals' headers are built from the original run's tips and tx lists, so that every block hashes like the original's (the application never looks at the header's hash fields), and ReceiptsHash is not compared for a block in which a log-bearing valid tx follows a removed tx (counted in receipts_hash_positional_skips)",
		"decoding and signature recovery run on goroutines the application spawns; they are pre-screened on the driver's goroutine with the same functions (rlp.DecodeBytes, types.Sender) so that a panic there is observed instead of killing the driver",
		"schedule-dependent behaviour of exeWithCPUParallelVeirfy (status word published before tx.err / before the original bytes are stored) is observed only when the Go scheduler happens to produce it; exploring its interleavings is the SCHED part of C05",
	})
}
