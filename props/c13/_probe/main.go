package main

import (
	"bytes"
	"fmt"

	"github.com/dappledger/AnnChain/gemmill/go-wire"
	"github.com/dappledger/AnnChain/gemmill/types"
)

func main() {
	c := &types.Commit{Precommits: make([]*types.Vote, 4)}
	bz := wire.BinaryBytes(c)
	fmt.Printf("%x\n", bz)
	var n int
	var err error
	d := wire.ReadBinary(&types.Commit{}, bytes.NewReader(bz), 0, &n, &err).(*types.Commit)
	fmt.Println(err, len(d.Precommits), d.Precommits[0] == nil, d.Precommits)
	b := &types.Block{Header: &types.Header{}, Data: &types.Data{}, LastCommit: nil}
	bz = wire.BinaryBytes(b)
	fmt.Printf("%x\n", bz)
	e := wire.ReadBinary(&types.Block{}, bytes.NewReader(bz), 0, &n, &err).(*types.Block)
	fmt.Println(err, e.LastCommit == nil, e.Header == nil)
}
