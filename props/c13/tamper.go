package main

// Tamper kinds: what the malicious peer serves instead of the genuine block.

import (
	"time"

	crypto "github.com/dappledger/AnnChain/gemmill/go-crypto"
	"github.com/dappledger/AnnChain/gemmill/types"
)

// plan is the malicious peer's script for one scenario.
type plan struct {
	span     []int64                // heights whose FIRST request is answered with a tampered response
	resp     map[int64]*types.Block // requested height -> block served (nil = a response carrying a nil block)
	claim    int64                  // > 0: status height the peer claims beyond its range
	hangup   time.Duration          // > 0: the peer closes its connection this long after its blocks for span[0] and span[1] have arrived
	describe string
}

var bodyKinds = []string{
	"tx-added", "tx-added+fix", "tx-removed", "tx-removed+fix", "tx-changed", "tx-changed+fix",
	"hdr-chainid", "hdr-height", "hdr-time", "hdr-numtxs", "hdr-lastblockid", "hdr-lastcommithash", "hdr-datahash",
	"hdr-validatorshash", "hdr-apphash", "hdr-receiptshash", "hdr-proposer", "hdr-extra",
	"nil-data", "nil-header", "nil-block", "served-prev", "served-next",
}

var commitKinds = []string{
	"lc-removed", "lc-duplicated", "lc-nonvalidator", "lc-other-round", "lc-nil-block", "lc-insufficient", "lc-all-nil",
	"lc-other-height", "lc-empty", "lc-nil", "lc-blockid-field",
}

var forgeKinds = []string{
	"forge-nonvalidators", "forge-exact23", "forge-exact23-rest-genuine", "forge-otherset", "forge-oldmajority", "forge-one-vote-every-slot", "forge-prevotes-as-commit",
}

var statusKinds = []string{"status-overclaim"}

// raceKinds: a bad block that is expensive to check, followed by the peer's own
// disconnection while the node is checking it.
var raceKinds = []string{"big-hangup"}

const bigTxSize = 2 << 20

func allKinds() []string {
	var k []string
	k = append(k, raceKinds...)
	k = append(k, bodyKinds...)
	k = append(k, commitKinds...)
	k = append(k, forgeKinds...)
	k = append(k, statusKinds...)
	return k
}

func isIn(list []string, k string) bool {
	for _, x := range list {
		if x == k {
			return true
		}
	}
	return false
}

func flip(b []byte) []byte {
	c := append([]byte(nil), b...)
	if len(c) == 0 {
		return []byte{1}
	}
	c[0] ^= 0x40
	return c
}

// fixData makes the header commit to the (changed) transactions.
func fixData(b *types.Block) {
	b.Data = &types.Data{Txs: b.Data.Txs, ExTxs: b.Data.ExTxs}
	b.NumTxs = int64(len(b.Data.Txs) + len(b.Data.ExTxs))
	b.DataHash = b.Data.Hash()
}

// forgedBlock is an internally consistent block for height h that differs from
// the source block in its transactions (it would pass ValidateBlock).
func forgedBlock(c *chain, h int64) *types.Block {
	b := c.genuine(h)
	if len(b.Data.Txs) > 0 {
		b.Data.Txs[0] = types.Tx(append([]byte("forged:"), b.Data.Txs[0]...))
	} else {
		b.Data.Txs = append(b.Data.Txs, types.Tx("forged:mallory+=1000000"))
	}
	fixData(b)
	return b
}

func blockIDOf(b *types.Block) types.BlockID {
	return types.BlockID{Hash: b.Hash(), PartsHeader: b.MakePartSet(partSize).Header()}
}

// commitBy builds a commit for (h, id) in the layout of vs; signer(i) gives the
// key that signs entry i (ok=false: entry stays nil).
func commitBy(vs *types.ValidatorSet, h int64, id types.BlockID, signer func(i int) (crypto.PrivKeyEd25519, bool)) *types.Commit {
	cm := &types.Commit{BlockID: id, Precommits: make([]*types.Vote, vs.Size())}
	for i := 0; i < vs.Size(); i++ {
		if k, ok := signer(i); ok {
			cm.Precommits[i] = signedPrecommit(vs, i, h, 0, id, k)
		}
	}
	return cm
}

func realKey(vs *types.ValidatorSet, i int) crypto.PrivKeyEd25519 {
	addr, _ := vs.GetByIndex(i)
	k, _ := keyFor(addr)
	return k
}

func inSet(idx []int, i int) bool {
	for _, x := range idx {
		if x == i {
			return true
		}
	}
	return false
}

// exact23 returns validator indices of vs holding the largest power that is NOT more than 2/3 of the
// total (exactly 2/3 when the total is a multiple of 3, e.g. 4 of 6; 9 of 14 otherwise).
func exact23(vs *types.ValidatorSet) []int {
	t := vs.TotalVotingPower()
	for want := t * 2 / 3; want > 0; want-- {
		if s := subsetWithPower(vs, want); s != nil {
			return s
		}
	}
	return nil
}

// majorityOf returns indices (lowest first) whose power just exceeds 2/3 of vs.
func majorityOf(vs *types.ValidatorSet) []int {
	var idx []int
	for i := 0; i < vs.Size(); i++ {
		idx = append(idx, i)
		if power(vs, idx)*3 > vs.TotalVotingPower()*2 {
			return idx
		}
	}
	return idx
}

// heightsFor lists the heights at which kind is applicable.
func heightsFor(c *chain, kind string) []int64 {
	var hs []int64
	for h := int64(1); h <= chainLen; h++ {
		if p := makePlan(c, kind, h); p != nil {
			hs = append(hs, h)
		}
	}
	return hs
}

// makePlan returns the malicious script for (kind, h), or nil if not applicable.
func makePlan(c *chain, kind string, h int64) *plan {
	p := &plan{resp: map[int64]*types.Block{}}
	one := func(b *types.Block) *plan { p.span = []int64{h}; p.resp[h] = b; return p }
	switch {
	case isIn(statusKinds, kind):
		if h > 5 {
			return nil
		}
		p.claim = chainLen + h
		return p
	case isIn(raceKinds, kind):
		if h > chainLen-1 {
			return nil
		}
		b := c.genuine(h)
		big := make([]byte, bigTxSize)
		for i := range big {
			big[i] = byte(i*31 + 7)
		}
		b.Data.Txs = append(b.Data.Txs, types.Tx(big))
		p.span = []int64{h, h + 1}
		p.resp[h] = b
		p.resp[h+1] = c.genuine(h + 1)
		p.hangup = 130 * time.Millisecond
		return p
	case isIn(bodyKinds, kind):
		if h > chainLen-1 {
			return nil // the last block of the horizon is never applied by fast sync
		}
		b := c.genuine(h)
		switch kind {
		case "tx-added", "tx-added+fix":
			b.Data.Txs = append(b.Data.Txs, types.Tx("forged:mallory+=1000000"))
		case "tx-removed", "tx-removed+fix":
			if len(b.Data.Txs) == 0 {
				return nil
			}
			b.Data.Txs = b.Data.Txs[:len(b.Data.Txs)-1]
		case "tx-changed", "tx-changed+fix":
			if len(b.Data.Txs) == 0 {
				return nil
			}
			b.Data.Txs[0] = types.Tx(append([]byte("forged:"), b.Data.Txs[0]...))
		case "hdr-chainid":
			b.ChainID += "x"
		case "hdr-height":
			b.Height++
		case "hdr-time":
			b.Time = b.Time.Add(time.Second)
		case "hdr-numtxs":
			b.NumTxs++
		case "hdr-lastblockid":
			b.LastBlockID.Hash = flip(b.LastBlockID.Hash)
		case "hdr-lastcommithash":
			b.LastCommitHash = flip(b.LastCommitHash)
		case "hdr-datahash":
			b.DataHash = flip(b.DataHash)
		case "hdr-validatorshash":
			b.ValidatorsHash = flip(b.ValidatorsHash)
		case "hdr-apphash":
			b.AppHash = flip(b.AppHash)
		case "hdr-receiptshash":
			b.ReceiptsHash = flip(b.ReceiptsHash)
		case "hdr-proposer":
			b.ProposerAddress = outsiderKey(0).PubKey().Address()
		case "hdr-extra":
			b.Extra = []byte("forged-extra")
		case "nil-data":
			b.Data = nil
		case "nil-header":
			b.Header = nil
		case "nil-block":
			b = nil
		case "served-prev":
			if h < 2 {
				return nil
			}
			b = c.genuine(h - 1)
		case "served-next":
			b = c.genuine(h + 1)
		}
		if len(kind) > 4 && kind[len(kind)-4:] == "+fix" {
			fixData(b)
		}
		return one(b)
	case isIn(commitKinds, kind):
		// LastCommit of block h justifies block h-1 (validator set of height h-1)
		if h < 2 {
			return nil
		}
		b := c.genuine(h)
		vs := c.vals[h-1]
		lc := b.LastCommit
		weakest := 0
		for i := 0; i < vs.Size(); i++ {
			_, v := vs.GetByIndex(i)
			_, w := vs.GetByIndex(weakest)
			if v.VotingPower < w.VotingPower {
				weakest = i
			}
		}
		switch kind {
		case "lc-removed":
			lc.Precommits[weakest] = nil // still more than 2/3
		case "lc-duplicated":
			cp := *lc.Precommits[0]
			lc.Precommits[1] = &cp
		case "lc-nonvalidator":
			v := lc.Precommits[0]
			v.Signature = outsiderKey(0).Sign(types.SignBytes(chainID, v))
		case "lc-other-round":
			v := lc.Precommits[weakest]
			v.Round = 1
			v.Signature = realKey(vs, weakest).Sign(types.SignBytes(chainID, v))
		case "lc-nil-block", "lc-insufficient":
			keep := exact23(vs)
			if keep == nil {
				return nil
			}
			for i := range lc.Precommits {
				if inSet(keep, i) {
					continue
				}
				if kind == "lc-insufficient" {
					lc.Precommits[i] = nil
				} else {
					lc.Precommits[i] = signedPrecommit(vs, i, h-1, 0, types.BlockID{}, realKey(vs, i))
				}
			}
		case "lc-all-nil":
			for i := range lc.Precommits {
				lc.Precommits[i] = nil
			}
		case "lc-other-height":
			if h >= 3 {
				b.LastCommit = c.genuine(h - 1).LastCommit // the commit of height h-2
			} else {
				b.LastCommit = c.genuine(h + 1).LastCommit // the commit of height h
			}
		case "lc-empty":
			b.LastCommit = &types.Commit{}
		case "lc-nil":
			b.LastCommit = nil
		case "lc-blockid-field":
			lc.BlockID.Hash = flip(lc.BlockID.Hash)
		}
		return one(b)
	case isIn(forgeKinds, kind):
		// forged block h plus a forged commit for it inside block h+1
		if h > chainLen-1 {
			return nil
		}
		fb := forgedBlock(c, h)
		id := blockIDOf(fb)
		next := c.genuine(h + 1)
		vs := c.vals[h]
		switch kind {
		case "forge-nonvalidators":
			next.LastCommit = commitBy(vs, h, id, func(i int) (crypto.PrivKeyEd25519, bool) { return outsiderKey(i), true })
		case "forge-exact23", "forge-exact23-rest-genuine":
			byz := exact23(vs)
			if byz == nil {
				return nil
			}
			cm := commitBy(vs, h, id, func(i int) (crypto.PrivKeyEd25519, bool) { return realKey(vs, i), inSet(byz, i) })
			if kind == "forge-exact23-rest-genuine" {
				for i := range cm.Precommits {
					if cm.Precommits[i] == nil {
						cm.Precommits[i] = next.LastCommit.Precommits[i]
					}
				}
			}
			next.LastCommit = cm
		case "forge-one-vote-every-slot":
			// ONE validator signs once; its precommit (its own address and index inside) is copied into every slot.
			// The signer is the strongest validator that alone has at most 1/3 of the power.
			j := -1
			for i := 0; i < vs.Size(); i++ {
				_, v := vs.GetByIndex(i)
				if 3*v.VotingPower <= vs.TotalVotingPower() {
					if _, b := vs.GetByIndex(max0(j)); j < 0 || v.VotingPower > b.VotingPower {
						j = i
					}
				}
			}
			if j < 0 {
				return nil
			}
			cm := commitBy(vs, h, id, func(i int) (crypto.PrivKeyEd25519, bool) { return realKey(vs, i), i == j })
			for i := range cm.Precommits {
				if i != j {
					c0 := *cm.Precommits[j]
					cm.Precommits[i] = &c0
				}
			}
			next.LastCommit = cm
		case "forge-prevotes-as-commit":
			// every validator's genuinely signed PREVOTE for the forged block (a polka that never became a
			// commit) in the place of the precommits
			cm := commitBy(vs, h, id, func(i int) (crypto.PrivKeyEd25519, bool) { return realKey(vs, i), true })
			for i, pc := range cm.Precommits {
				v := *pc
				v.Type = types.VoteTypePrevote
				v.Signature = realKey(vs, i).Sign(types.SignBytes(chainID, &v))
				cm.Precommits[i] = &v
			}
			next.LastCommit = cm
		case "forge-otherset":
			// signed by more than 2/3 of a neighbouring height's validator set, in that set's layout
			var other *types.ValidatorSet
			switch h {
			case changeHeight + 1:
				other = c.vals[h-1]
			case changeHeight:
				other = c.vals[h+1]
			default:
				return nil
			}
			maj := majorityOf(other)
			next.LastCommit = commitBy(other, h, id, func(i int) (crypto.PrivKeyEd25519, bool) { return realKey(other, i), inSet(maj, i) })
		case "forge-oldmajority":
			// layout of the right set, signers = the validators that were a +2/3 majority before the change
			if h != changeHeight+1 {
				return nil
			}
			old := c.vals[h-1]
			maj := majorityOf(old)
			var signers []int
			for _, i := range maj {
				addr, _ := old.GetByIndex(i)
				j, _ := vs.GetByAddress(addr)
				signers = append(signers, j)
			}
			if power(vs, signers)*3 > vs.TotalVotingPower()*2 {
				return nil // would be a genuine majority
			}
			next.LastCommit = commitBy(vs, h, id, func(i int) (crypto.PrivKeyEd25519, bool) { return realKey(vs, i), inSet(signers, i) })
		}
		p.span = []int64{h, h + 1}
		p.resp[h] = fb
		p.resp[h+1] = next
		return p
	}
	return nil
}

func max0(i int) int {
	if i < 0 {
		return 0
	}
	return i
}
