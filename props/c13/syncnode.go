package main

// One execution: the real fast-sync code of one syncing node (BlockchainReactor
// with its BlockPool, poolRoutine, requesters; a real p2p.Switch) against
// scripted serving peers on their own real switches, connected over net.Pipe
// through Switch.AddPeerWithConnection (secret connection, handshake,
// MConnection, wire encoding).

import (
	"bytes"
	"encoding/json"
	"fmt"
	"os"
	"sort"
	"sync"
	"time"

	"github.com/spf13/viper"

	"github.com/dappledger/AnnChain/gemmill"
	"github.com/dappledger/AnnChain/gemmill/archive"
	bc "github.com/dappledger/AnnChain/gemmill/blockchain"
	"github.com/dappledger/AnnChain/gemmill/consensus/pbft"
	crypto "github.com/dappledger/AnnChain/gemmill/go-crypto"
	"github.com/dappledger/AnnChain/gemmill/go-wire"
	"github.com/dappledger/AnnChain/gemmill/mempool"
	dbm "github.com/dappledger/AnnChain/gemmill/modules/go-db"
	"github.com/dappledger/AnnChain/gemmill/p2p"
	sm "github.com/dappledger/AnnChain/gemmill/state"
	"github.com/dappledger/AnnChain/gemmill/types"

	"verif/core"
)

// scenario is one case.
type scenario struct {
	ID    int     `json:"id"`
	Kind  string  `json:"kind"`            // tamper kind ("none" = all peers honest)
	H     int64   `json:"h"`               // tampered height
	Range string  `json:"range"`           // which heights the pool initially asks the malicious peer for: only | prefix | suffix | all
	A     int64   `json:"a"`               // ... = [A, B]
	B     int64   `json:"b"`
	Order []int64 `json:"order"`           // arrival order of the responses for heights 1, 2, 3
	After string  `json:"after"`           // honest | silent
	Peers int     `json:"peers"`           // serving peers (2 or 3)
	StallMs int   `json:"stall_ms,omitempty"`
	PeerTimeoutS int `json:"peer_timeout_s,omitempty"` // pool peer timeout for this run (default 3; scaled up by the parent on a slow machine)
}

func (s *scenario) timeoutS() int {
	if s.PeerTimeoutS > 0 {
		return s.PeerTimeoutS
	}
	return peerTimeoutS
}

func (s *scenario) String() string {
	return fmt.Sprintf("%s@%d M=[%d,%d](%s) order=%v after=%s peers=%d", s.Kind, s.H, s.A, s.B, s.Range, s.Order, s.After, s.Peers)
}

type vio struct {
	Kind   string `json:"kind"`
	Field  string `json:"field,omitempty"`
	Detail string `json:"detail"`
}

type result struct {
	Outcome      string           `json:"outcome"` // caught-up | switched-early | stall | cap | harness-invalid
	StoreHeight  int64            `json:"store_height"`
	Applied      []int64          `json:"applied"`
	Violations   []vio            `json:"violations,omitempty"`
	ChainDigest  string           `json:"chain_digest"`
	FinalDigest  string           `json:"final_digest"`
	Requests     map[string][]int64 `json:"requests"`
	ReRequested  []int64          `json:"rerequested,omitempty"`
	Disconnected []string         `json:"disconnected,omitempty"`
	TamperSent   int              `json:"tamper_sent"`
	PoolPeers    map[string]int64 `json:"pool_peers,omitempty"`
	Events       []string         `json:"events,omitempty"`
	Why          string           `json:"why,omitempty"`
	WallMs       int64            `json:"wall_ms"`
	ReleaseMs    int64            `json:"release_ms"` // switch start -> all heights requested
	PoolLocked   bool             `json:"pool_locked,omitempty"`
}

// ------------------------------------------------------------------ syncing node

type syncNode struct {
	st       *sm.State
	stateDB  dbm.DB
	store    *bc.BlockStore
	app      *app
	evsw     types.EventSwitch
	bcR      *bc.BlockchainReactor
	sw       *p2p.Switch
	switched chan struct{}
}

func newSwitch(name string, idx int, key crypto.PrivKeyEd25519) *p2p.Switch {
	conf := viper.New()
	// the pool's peer timeout is scaled down from 15 s to a few seconds; the connection's
	// rate limits (default 5 MB/s) are scaled up accordingly
	conf.Set("send_rate", 100*1024*1024)
	conf.Set("recv_rate", 100*1024*1024)
	sw := p2p.NewSwitch(conf)
	sw.SetNodeInfo(&p2p.NodeInfo{PubKey: key.PubKey(), Moniker: name, Network: chainID, Version: "0.9.0",
		ListenAddr: fmt.Sprintf("127.0.0.1:%d", 20000+idx)})
	sw.SetNodePrivKey(key)
	return sw
}

// newSyncNode: the syncing node is assembled by the repository's own
// Angine.assembleStateMachine (through the build-tagged wrapper gemmill.VerifAssemble):
// block store, BlockchainReactor with its verifier and executer closures, pbft
// ConsensusState and reactor, mempool and reactor are those of a real node.  The
// harness supplies the databases (in memory), the p2p switch, a non-validator key, the
// event switch with its toy application, and afterwards replaces the IBlockExecutable
// (the Angine with its plugins) by the toy executor that the source chain was built with.
func newSyncNode(c *chain, walDir string) (*syncNode, error) {
	n := &syncNode{switched: make(chan struct{}, 1)}
	n.stateDB = dbm.NewMemDB()
	stateM := sm.MakeGenesisState(n.stateDB, genesisDoc())
	stateM.Save()
	conf := pbftConf(walDir)
	conf.Set("chain_id", stateM.ChainID)
	conf.Set("fast_sync", true)
	conf.Set("pex_reactor", false)
	conf.Set("auth_by_ca", false)
	conf.Set("mempool_recheck", false)
	eventSwitch := types.NewEventSwitch()
	eventSwitch.Start()
	pv, err := types.GenPrivValidator("", crypto.GenPrivKeyEd25519FromSecret([]byte("c13-node-sync-validator-key")))
	if err != nil {
		return nil, fmt.Errorf("GenPrivValidator: %v", err)
	}
	n.sw = newSwitch("syncing", 0, crypto.GenPrivKeyEd25519FromSecret([]byte("c13-node-sync")))
	dbs := map[string]dbm.DB{"state": n.stateDB, "blockstore": dbm.NewMemDB(), "archive": dbm.NewMemDB()}
	ang := gemmill.VerifAssemble(conf, stateM, pv, n.sw, &eventSwitch, dbs, nil, &archive.Archive{})
	blockStore := ang.VerifBlockStore()
	bcReactor, ok := n.sw.Reactor("BLOCKCHAIN").(*bc.BlockchainReactor)
	if !ok || blockStore == nil {
		return nil, fmt.Errorf("assembleStateMachine did not install a BlockchainReactor / block store")
	}
	stateM.SetBlockExecutable(executor{})

	n.app = &app{}
	n.app.install(eventSwitch)
	types.AddListenerForEvent(eventSwitch, "c13", types.EventStringSwitchToConsensus(), func(types.TMEventData) {
		select {
		case n.switched <- struct{}{}:
		default:
		}
	})
	n.st, n.store, n.evsw, n.bcR = stateM, blockStore, eventSwitch, bcReactor
	return n, nil
}

// ------------------------------------------------------------------ scripted peers

type speer struct {
	idx      int
	name     string
	honest   bool
	sw       *p2p.Switch
	peer     *p2p.Peer // the syncing node as seen from this switch
	claimed  int64
	announced bool
	requests []int64
	seen     map[int64]int
	drops    int
	reconn   int
}

type scriptReactor struct {
	p2p.BaseReactor
	w  *world
	sp *speer
}

func (r *scriptReactor) GetChannels() []*p2p.ChannelDescriptor {
	return []*p2p.ChannelDescriptor{{ID: bc.BlockchainChannel, Priority: 5, SendQueueCapacity: 100}}
}
func (r *scriptReactor) AddPeer(peer *p2p.Peer)                      { r.w.onConnected(r.sp, peer) }
func (r *scriptReactor) RemovePeer(peer *p2p.Peer, reason interface{}) { r.w.onDisconnected(r.sp, peer) }
func (r *scriptReactor) Receive(chID byte, src *p2p.Peer, msgBytes []byte) {
	_, msg, err := bc.DecodeMessage(msgBytes)
	if err != nil {
		return
	}
	switch m := msg.(type) {
	case *bc.VerifBlockRequestMessage:
		r.w.onBlockRequest(r.sp, m.Height)
	case *bc.VerifStatusRequestMessage:
		r.w.onStatusRequest(r.sp)
	}
}

// sinkReactor: the syncing node is a complete node, its consensus and mempool reactors talk
// to every peer; the scripted peers accept those channels and ignore what arrives.
type sinkReactor struct{ p2p.BaseReactor }

func (r *sinkReactor) GetChannels() []*p2p.ChannelDescriptor {
	var ds []*p2p.ChannelDescriptor
	for _, id := range []byte{pbft.StateChannel, pbft.DataChannel, pbft.VoteChannel, pbft.VoteSetBitsChannel, mempool.MempoolChannel} {
		ds = append(ds, &p2p.ChannelDescriptor{ID: id, Priority: 1, SendQueueCapacity: 100})
	}
	return ds
}
func (r *sinkReactor) AddPeer(*p2p.Peer)                 {}
func (r *sinkReactor) RemovePeer(*p2p.Peer, interface{}) {}
func (r *sinkReactor) Receive(byte, *p2p.Peer, []byte)   {}

type held struct {
	sp    *speer
	req   int64
	block *types.Block
}

type world struct {
	mu        sync.Mutex
	sc        *scenario
	c         *chain
	pl        *plan
	node      *syncNode
	peers     []*speer
	held      []held
	released  bool
	reqCount  map[int64]int
	tamperSent int
	events    []string
	start     time.Time
	progress  time.Time
	applied   []int64
	vios      []vio
	invalid   string
	releaseMs int64
	out       *os.File
}

func (w *world) logf(format string, a ...interface{}) {
	w.events = append(w.events, fmt.Sprintf("%4dms ", time.Since(w.start)/time.Millisecond)+fmt.Sprintf(format, a...))
}

func (w *world) violation(v vio) {
	// called with or without mu: own lock
	b, _ := json.Marshal(v)
	fmt.Fprintf(w.out, "##V %s\n", b)
	w.vios = append(w.vios, v)
}

func send(p *p2p.Peer, msg interface{}) bool {
	if p == nil {
		return false
	}
	return p.Send(bc.BlockchainChannel, struct{ bc.BlockchainMessage }{msg})
}

func (w *world) onConnected(sp *speer, peer *p2p.Peer) {
	w.mu.Lock()
	sp.peer = peer
	h, ann := sp.claimed, sp.announced
	w.logf("%s connected", sp.name)
	w.mu.Unlock()
	// the real reactor announces its store height when a peer is added; in the
	// first connection the announcement is delayed until the peer's phase
	if ann {
		send(peer, &bc.VerifStatusResponseMessage{Height: h})
	}
}

// announce makes sp report height h to the syncing node.
func (w *world) announce(sp *speer, h int64) {
	w.mu.Lock()
	sp.claimed, sp.announced = h, true
	peer := sp.peer
	w.logf("%s announces height %d", sp.name, h)
	w.mu.Unlock()
	send(peer, &bc.VerifStatusResponseMessage{Height: h})
}

func (w *world) onDisconnected(sp *speer, peer *p2p.Peer) {
	w.mu.Lock()
	defer w.mu.Unlock()
	if sp.peer == peer {
		sp.peer = nil
	}
	sp.drops++
	w.logf("%s disconnected by the syncing node", sp.name)
	if !w.released && w.invalid == "" {
		// a peer timed out while the harness was still holding its responses: the scenario was not set up
		w.invalid = sp.name + " lost its connection while responses were being held (harness timing)"
	}
	if sp.honest && sp.reconn < 3 {
		sp.reconn++
		go func() {
			time.Sleep(300 * time.Millisecond)
			w.connect(sp)
		}()
	}
}

// answer decides what sp serves for a request of height x (nth = how often sp
// has been asked for x).
func (w *world) answer(sp *speer, x int64, nth int) (b *types.Block, ok bool) {
	genuine := func() (*types.Block, bool) {
		if x >= 1 && x <= chainLen {
			return w.c.genuine(x), true
		}
		return nil, false
	}
	if sp.honest || w.pl == nil {
		return genuine()
	}
	if tb, tampered := w.pl.resp[x]; tampered && nth == 1 {
		w.tamperSent++
		return tb, true
	}
	if w.sc.After == "silent" {
		return nil, false
	}
	return genuine()
}

func (w *world) onBlockRequest(sp *speer, x int64) {
	w.mu.Lock()
	sp.requests = append(sp.requests, x)
	sp.seen[x]++
	w.reqCount[x]++
	b, ok := w.answer(sp, x, sp.seen[x])
	w.logf("%s asked for %d (answer=%v)", sp.name, x, ok)
	if ok && !w.released {
		w.held = append(w.held, held{sp, x, b})
		w.mu.Unlock()
		return
	}
	peer := sp.peer
	w.mu.Unlock()
	if ok {
		send(peer, &bc.VerifBlockResponseMessage{Block: b})
	}
}

func (w *world) onStatusRequest(sp *speer) {
	w.mu.Lock()
	silent := !sp.honest && w.sc.After == "silent"
	peer, h := sp.peer, sp.claimed
	w.mu.Unlock()
	if !silent {
		send(peer, &bc.VerifStatusResponseMessage{Height: h})
	}
}

func (w *world) connect(sp *speer) {
	p2p.Connect2Switches([]*p2p.Switch{w.node.sw, sp.sw}, 0, 1)
}

func (w *world) waitRequested(lo, hi int64, d time.Duration) bool {
	deadline := time.Now().Add(d)
	for {
		w.mu.Lock()
		all := true
		for x := lo; x <= hi; x++ {
			if w.reqCount[x] == 0 {
				all = false
			}
		}
		w.mu.Unlock()
		if all {
			return true
		}
		if time.Now().After(deadline) {
			return false
		}
		time.Sleep(2 * time.Millisecond)
	}
}

// drive brings the peers in so that the pool asks the malicious peer exactly
// for [A,B], then releases the held responses in the enumerated order.
func (w *world) drive() {
	sc := w.sc
	p1, m := w.peers[0], w.peers[1]
	fail := func(why string) {
		w.mu.Lock()
		if w.invalid == "" {
			w.invalid = why
		}
		w.mu.Unlock()
	}
	phaseWait := 20 * time.Duration(w.sc.timeoutS()) * time.Second
	if sc.Kind == "none" {
		for _, sp := range w.peers {
			w.announce(sp, chainLen)
		}
		if !w.waitRequested(1, chainLen, phaseWait) {
			fail("requests did not arrive")
			return
		}
	} else {
		if sc.A > 1 {
			// the honest peer is a live node whose chain is still at A-1
			w.announce(p1, sc.A-1)
			if !w.waitRequested(1, sc.A-1, phaseWait) {
				fail("phase 1: requests did not arrive")
				return
			}
		}
		w.announce(m, sc.B)
		if !w.waitRequested(sc.A, sc.B, phaseWait) {
			fail("phase 2: requests did not arrive")
			return
		}
		// the honest peer's chain has grown to the full length meanwhile
		w.announce(p1, chainLen)
		if len(w.peers) > 2 {
			w.announce(w.peers[2], chainLen)
		}
		if sc.B < chainLen && !w.waitRequested(sc.B+1, chainLen, phaseWait) {
			fail("phase 3: requests did not arrive")
			return
		}
	}
	// release
	pool := w.node.bcR.VerifPool()
	order := append([]int64{}, sc.Order...)
	for x := int64(4); x <= chainLen+8; x++ {
		order = append(order, x)
	}
	w.mu.Lock()
	hs := w.held
	w.held = nil
	w.released = true
	w.progress = time.Now()
	w.releaseMs = int64(time.Since(w.start) / time.Millisecond)
	w.logf("release in order %v", sc.Order)
	w.mu.Unlock()
	if w.pl != nil && w.pl.hangup > 0 {
		go func() {
			lo, hi := w.pl.span[0], w.pl.span[1]
			for t := 0; t < 20000 && !(pool.VerifHasBlock(lo) && pool.VerifHasBlock(hi)); t++ {
				time.Sleep(time.Millisecond)
			}
			time.Sleep(w.pl.hangup)
			w.mu.Lock()
			peer := m.peer
			w.logf("M hangs up")
			w.mu.Unlock()
			if peer != nil {
				m.sw.StopPeerGracefully(peer)
			}
		}()
	}
	// Every released response must be taken by the pool (else its peer had already been
	// dropped, e.g. timed out on a slow machine, and the scenario was not set up).
	landed := func(h int64, reqBefore int) bool {
		if pool.VerifHasBlock(h) {
			return true
		}
		if ph, _, _ := pool.GetStatus(); ph > h {
			return true // already applied
		}
		w.mu.Lock()
		n := w.reqCount[h]
		w.mu.Unlock()
		return n > reqBefore // taken, rejected and requested again
	}
	mayMiss := map[string]bool{"nil-header": true, "nil-block": true, "hdr-height": true, "served-prev": true, "served-next": true}
	maxWait := time.Duration(w.sc.timeoutS()) * time.Second / 2
	afterTamper := false
	for _, x := range order {
		for _, hd := range hs {
			if hd.req != x {
				continue
			}
			lands := x
			if hd.block != nil && hd.block.Header != nil {
				lands = hd.block.Height
			}
			w.mu.Lock()
			peer := hd.sp.peer
			before := w.reqCount[lands]
			w.mu.Unlock()
			occupied := pool.VerifHasBlock(lands)
			tampered := !hd.sp.honest && w.pl != nil && w.pl.resp[x] == hd.block
			big := tampered && w.pl.hangup > 0
			send(peer, &bc.VerifBlockResponseMessage{Block: hd.block})
			if big {
				afterTamper = true
				// a block of a megabyte takes a while; the others are not kept waiting for it
				go func(h int64, before int) {
					dl := time.Now().Add(2 * maxWait)
					for !landed(h, before) {
						if time.Now().After(dl) {
							w.mu.Lock()
							if w.invalid == "" {
								w.invalid = "the large block was not taken by the pool (its peer had been dropped before)"
							}
							w.mu.Unlock()
							return
						}
						time.Sleep(2 * time.Millisecond)
					}
				}(lands, before)
				continue
			}
			// once a tampered response is in, the node may legitimately drop peers (also honest
			// ones: it blames the server of the block before), so later responses need not land
			must := !occupied && !(tampered && mayMiss[sc.Kind]) && !afterTamper
			if tampered {
				afterTamper = true
			}
			dl := time.Now().Add(150 * time.Millisecond)
			if must {
				dl = time.Now().Add(maxWait)
			}
			ok := false
			for {
				if ok = landed(lands, before); ok || time.Now().After(dl) {
					break
				}
				time.Sleep(2 * time.Millisecond)
			}
			if must && !ok {
				w.mu.Lock()
				if w.invalid == "" {
					w.invalid = fmt.Sprintf("the response of %s for height %d was not taken by the pool (the peer had been dropped before)", hd.sp.name, x)
				}
				w.mu.Unlock()
				return
			}
		}
	}
}

// ------------------------------------------------------------------ oracle

func (w *world) onCommit(b *types.Block) {
	w.mu.Lock()
	defer w.mu.Unlock()
	h := b.Height
	w.applied = append(w.applied, h)
	w.progress = time.Now()
	w.logf("applied block %d", h)
	if int64(len(w.applied)) != h {
		w.violation(vio{Kind: "block-applied-out-of-order", Detail: fmt.Sprintf("the application executed heights %v", w.applied)})
	}
	if h < 1 || h > chainLen || !bytes.Equal(wire.BinaryBytes(b), w.c.blockBytes[h]) {
		w.violation(vio{Kind: "unjustified-block-executed", Detail: fmt.Sprintf("the application executed a block at height %d that is not source block %d (%s)", h, h, diffBlock(w.c, h, b))})
	}
}

func diffBlock(c *chain, h int64, b *types.Block) string {
	if h < 1 || h > chainLen {
		return "no such source height"
	}
	g := c.blocks[h]
	switch {
	case b == nil || b.Header == nil || b.Data == nil || b.LastCommit == nil:
		return "incomplete block"
	case !bytes.Equal(b.Hash(), g.Hash()):
		return fmt.Sprintf("header hash %X, source %X; %d txs, source %d", b.Hash()[:6], g.Hash()[:6], len(b.Data.Txs), len(g.Data.Txs))
	case !bytes.Equal(b.Data.Hash(), g.Data.Hash()):
		return "same header hash, different transactions"
	case !bytes.Equal(wire.BinaryBytes(b.LastCommit), wire.BinaryBytes(g.LastCommit)):
		return "same header hash, different LastCommit"
	}
	return "same header hash, different bytes"
}

// auditSeenCommit: more than 2/3 of the power of the set in force at h
// precommitted exactly block h (checked from scratch).
func auditSeenCommit(c *chain, h int64, cm *types.Commit) string {
	if cm == nil {
		return "missing"
	}
	vs := c.vals[h]
	if len(cm.Precommits) != vs.Size() {
		return fmt.Sprintf("%d entries for %d validators", len(cm.Precommits), vs.Size())
	}
	var total, got int64
	round := int64(-1)
	for i, v := range cm.Precommits {
		_, val := vs.GetByIndex(i)
		total += val.VotingPower
		if v == nil {
			continue
		}
		if v.Height != h || v.Type != types.VoteTypePrecommit {
			return fmt.Sprintf("entry %d is not a precommit of height %d", i, h)
		}
		if round == -1 {
			round = v.Round
		} else if round != v.Round {
			return "precommits of different rounds"
		}
		if !val.PubKey.VerifyBytes(types.SignBytes(chainID, v), v.Signature) {
			return fmt.Sprintf("signature of entry %d does not verify", i)
		}
		if v.BlockID.Equals(c.ids[h]) {
			got += val.VotingPower
		}
	}
	if !(got*3 > total*2) {
		return fmt.Sprintf("only %d of %d voting power precommitted the block", got, total)
	}
	return ""
}

// audit compares the syncing node with the source node.  final: the node is
// quiescent (poolRoutine has left), so the State can be read too.
func (w *world) audit(final bool) (storeHeight int64, digest string) {
	n := w.node
	storeHeight = n.store.Height()
	add := func(v vio) {
		w.mu.Lock()
		w.violation(v)
		w.mu.Unlock()
	}
	if storeHeight > chainLen {
		add(vio{Kind: "unjustified-block-stored", Detail: fmt.Sprintf("store height %d exceeds the source chain", storeHeight)})
		return
	}
	for h := int64(1); h <= storeHeight; h++ {
		hh := h
		if p, val, _ := core.Try(func() {
			b := n.store.LoadBlock(hh)
			if b == nil || !bytes.Equal(wire.BinaryBytes(b), w.c.blockBytes[hh]) {
				add(vio{Kind: "unjustified-block-stored", Detail: fmt.Sprintf("the block stored at height %d is not source block %d (%s)", hh, hh, diffBlock(w.c, hh, b))})
				return
			}
			if m := n.store.LoadBlockMeta(hh); m == nil || !bytes.Equal(wire.BinaryBytes(m), w.c.metaBytes[hh]) {
				add(vio{Kind: "final-state-differs", Field: "block-meta", Detail: fmt.Sprintf("stored block meta of height %d differs from the source node's", hh)})
			}
			if hh > 1 {
				if lc := n.store.LoadBlockCommit(hh - 1); lc == nil || !bytes.Equal(wire.BinaryBytes(lc), wire.BinaryBytes(w.c.blocks[hh].LastCommit)) {
					add(vio{Kind: "final-state-differs", Field: "block-commit", Detail: fmt.Sprintf("stored commit of height %d differs from the source node's", hh-1)})
				}
			}
			if msg := auditSeenCommit(w.c, hh, n.store.LoadSeenCommit(hh)); msg != "" {
				add(vio{Kind: "stored-block-not-justified", Field: "seen-commit", Detail: fmt.Sprintf("the seen commit stored for height %d does not justify the block: %s", hh, msg)})
			}
		}); p {
			add(vio{Kind: "final-state-differs", Field: "store-unreadable", Detail: fmt.Sprintf("reading height %d of the store panicked: %v", hh, core.FirstLine(val))})
		}
	}
	ex := n.app.executed()
	for i, r := range ex {
		if r.Height != int64(i+1) {
			add(vio{Kind: "block-applied-out-of-order", Detail: fmt.Sprintf("application log: %v", ex)})
			break
		}
	}
	if !final {
		return storeHeight, ""
	}
	if int64(len(ex)) != storeHeight {
		add(vio{Kind: "final-state-differs", Field: "app-height", Detail: fmt.Sprintf("the application executed %d blocks, the store has %d", len(ex), storeHeight)})
	}
	if got, want := n.app.snapshot(), w.c.appSnap[storeHeight]; got != want {
		add(vio{Kind: "final-state-differs", Field: "application", Detail: fmt.Sprintf("application state at height %d: %s; source node: %s", storeHeight, got, want)})
	}
	sb := n.st.Bytes()
	if !bytes.Equal(sb, w.c.stateBytes[storeHeight]) {
		add(vio{Kind: "final-state-differs", Field: stateDiff(n.st, w.c, storeHeight), Detail: fmt.Sprintf("State of the syncing node at height %d differs from the source node's State at that height", storeHeight)})
	}
	if ps := sm.LoadState(n.stateDB); ps == nil || !bytes.Equal(ps.Bytes(), sb) {
		add(vio{Kind: "final-state-differs", Field: "persisted-state", Detail: "the persisted State differs from the State in memory"})
	}
	digest = sum(append(append([]byte(n.app.snapshot()), sb...), []byte(fmt.Sprint(storeHeight))...))
	return
}

func stateDiff(st *sm.State, c *chain, h int64) string {
	var n int
	var err error
	ref := &sm.State{}
	wire.ReadBinaryPtr(&ref, bytes.NewReader(c.stateBytes[h]), 0, &n, &err)
	if err != nil {
		return "state"
	}
	var f []string
	if st.LastBlockHeight != ref.LastBlockHeight {
		f = append(f, "LastBlockHeight")
	}
	if !st.LastBlockID.Equals(ref.LastBlockID) {
		f = append(f, "LastBlockID")
	}
	if !st.LastBlockTime.Equal(ref.LastBlockTime) {
		f = append(f, "LastBlockTime")
	}
	if !bytes.Equal(wire.BinaryBytes(st.Validators), wire.BinaryBytes(ref.Validators)) {
		f = append(f, "Validators")
	}
	if !bytes.Equal(wire.BinaryBytes(st.LastValidators), wire.BinaryBytes(ref.LastValidators)) {
		f = append(f, "LastValidators")
	}
	if !bytes.Equal(st.AppHash, ref.AppHash) {
		f = append(f, "AppHash")
	}
	if !bytes.Equal(st.ReceiptsHash, ref.ReceiptsHash) {
		f = append(f, "ReceiptsHash")
	}
	if st.LastNonEmptyHeight != ref.LastNonEmptyHeight {
		f = append(f, "LastNonEmptyHeight")
	}
	if len(f) == 0 {
		return "state-other"
	}
	sort.Strings(f)
	s := f[0]
	for _, x := range f[1:] {
		s += "+" + x
	}
	return s
}

// ------------------------------------------------------------------ one execution

const peerTimeoutS = 3

func runScenario(sc *scenario, dir string, out *os.File) *result {
	start := time.Now()
	res := &result{Requests: map[string][]int64{}}
	c, err := buildChain(dir + "/src-wal")
	if err != nil {
		core.Fatal("cannot build the source chain: %v", err)
	}
	res.ChainDigest = c.digest
	bc.VerifSetPeerTimeoutSeconds(int64(sc.timeoutS()))
	pbft.SetVerifMsgQueueSize(4)
	node, err := newSyncNode(c, dir+"/sync-wal")
	if err != nil {
		core.Fatal("cannot build the syncing node: %v", err)
	}
	w := &world{sc: sc, c: c, node: node, reqCount: map[int64]int{}, start: start, progress: start, out: out}
	if sc.Kind != "none" {
		w.pl = makePlan(c, sc.Kind, sc.H)
		if w.pl == nil {
			core.Fatal("tamper %s not applicable at height %d", sc.Kind, sc.H)
		}
	}
	node.app.onCommit = w.onCommit
	names := []string{"P1", "M", "P3"}
	for i := 0; i < sc.Peers; i++ {
		sp := &speer{idx: i, name: names[i], honest: i != 1 || sc.Kind == "none", seen: map[int64]int{}}
		sp.sw = newSwitch(sp.name, i+1, crypto.GenPrivKeyEd25519FromSecret([]byte("c13-node-"+sp.name)))
		r := &scriptReactor{w: w, sp: sp}
		r.BaseReactor = *p2p.NewBaseReactor("script-"+sp.name, r)
		sp.sw.AddReactor("BLOCKCHAIN", r)
		sink := &sinkReactor{}
		sink.BaseReactor = *p2p.NewBaseReactor("sink-"+sp.name, sink)
		sp.sw.AddReactor("SINK", sink)
		if _, err := sp.sw.Start(); err != nil {
			core.Fatal("cannot start switch: %v", err)
		}
		w.peers = append(w.peers, sp)
	}
	// connections are made before the syncing switch starts (its reactor, pool and
	// tickers start with it), so that the handshakes are not on the timed path
	for _, sp := range w.peers {
		w.connect(sp)
	}
	if _, err := node.sw.Start(); err != nil {
		core.Fatal("cannot start the syncing switch: %v", err)
	}
	w.start = time.Now()
	w.progress = w.start
	go w.drive()

	// no block applied for three status-refresh periods (the reactor's longest timer) plus four peer timeouts
	stall := 30*time.Second + 4*time.Duration(sc.timeoutS())*time.Second
	if sc.StallMs > 0 {
		stall = time.Duration(sc.StallMs) * time.Millisecond
	}
	hardCap := 4*stall + 20*time.Second
	tick := time.NewTicker(20 * time.Millisecond)
	defer tick.Stop()
LOOP:
	for {
		select {
		case <-node.switched:
			res.Outcome = "caught-up"
			break LOOP
		case <-tick.C:
			w.mu.Lock()
			inv, rel, prog := w.invalid, w.released, w.progress
			w.mu.Unlock()
			if inv != "" {
				res.Outcome, res.Why = "harness-invalid", inv
				break LOOP
			}
			if rel && time.Since(prog) > stall {
				res.Outcome = "stall"
				break LOOP
			}
			if time.Since(start) > hardCap {
				res.Outcome = "cap"
				break LOOP
			}
		}
	}
	final := res.Outcome == "caught-up"
	if final {
		w.mu.Lock()
		rel := w.released
		w.mu.Unlock()
		if !rel {
			res.Outcome, res.Why = "harness-invalid", "the node switched to consensus before all peers had joined"
		}
		time.Sleep(20 * time.Millisecond) // poolRoutine leaves its loop right after firing the event
	}
	if res.Outcome != "harness-invalid" {
		res.StoreHeight, res.FinalDigest = w.audit(final)
		if final && res.StoreHeight < chainLen-1 {
			res.Outcome = "switched-early"
		}
	}
	res.PoolPeers = map[string]int64{}
	byKey := map[string]string{}
	for _, sp := range w.peers {
		byKey[sp.sw.NodeInfo().PubKey.KeyString()] = sp.name
	}
	phc := make(chan map[string]int64, 1)
	go func() { phc <- node.bcR.VerifPool().VerifPeerHeights() }()
	select {
	case ph := <-phc:
		for k, h := range ph {
			res.PoolPeers[byKey[k]] = h
		}
	case <-time.After(5 * time.Second):
		res.PoolLocked = true // the pool's mutex is held by somebody who never returns
	}
	w.mu.Lock()
	res.Applied = w.applied
	res.Violations = w.vios
	res.TamperSent = w.tamperSent
	res.ReleaseMs = w.releaseMs
	res.Events = w.events
	for _, sp := range w.peers {
		res.Requests[sp.name] = sp.requests
		if sp.drops > 0 {
			res.Disconnected = append(res.Disconnected, sp.name)
		}
	}
	for x, k := range w.reqCount {
		if k > 1 {
			res.ReRequested = append(res.ReRequested, x)
		}
	}
	w.mu.Unlock()
	sort.Slice(res.ReRequested, func(i, j int) bool { return res.ReRequested[i] < res.ReRequested[j] })
	res.WallMs = int64(time.Since(start) / time.Millisecond)
	return res
}
