// C13 — fast sync applies only blocks justified by +2/3 commits and ends in the
// same state as a node that followed consensus live (DESIGN §5 C13).
//
// Exploration on the real code: one syncing node (real BlockchainReactor,
// BlockPool, poolRoutine, p2p.Switch; verifier/executer closures of
// angine.assembleStateMachine over the real State.ApplyBlock, BlockStore and
// ValidatorSet.VerifyCommit) against scripted serving peers on real switches.
// Every scenario runs in its own worker subprocess, so that a panic of one of
// the node's goroutines is attributed to its scenario.
package main

import (
	"bufio"
	"bytes"
	"encoding/json"
	"fmt"
	"os"
	"os/exec"
	"path/filepath"
	"runtime/pprof"
	"sort"
	"strings"
	"sync"
	"time"

	"verif/core"
)

// ------------------------------------------------------------------ worker side

func workerMain() {
	var sc scenario
	if err := json.Unmarshal([]byte(os.Getenv("C13_SCENARIO")), &sc); err != nil {
		fmt.Fprintf(os.Stderr, "worker: bad scenario: %v\n", err)
		os.Exit(3)
	}
	dir := os.Getenv("C13_DIR")
	os.MkdirAll(dir, 0755)
	if pf := os.Getenv("C13_CPUPROFILE"); pf != "" {
		f, _ := os.Create(pf)
		pprof.StartCPUProfile(f)
		defer pprof.StopCPUProfile()
	}
	res := runScenario(&sc, dir, os.Stdout)
	b, _ := json.Marshal(res)
	fmt.Fprintf(os.Stdout, "##R %s\n", b)
	os.Stdout.Sync()
	os.RemoveAll(dir)
	pprof.StopCPUProfile()
	os.Exit(0)
}

// ------------------------------------------------------------------ parent side

type outcome struct {
	sc        *scenario
	res       *result
	early     []vio // violations printed before the process ended
	died      bool
	timedOut  bool
	panicLine string
	panicSite string
	inPool    bool
	stderr    string
}

type tailBuf struct {
	mu  sync.Mutex
	buf []byte
}

func (t *tailBuf) Write(p []byte) (int, error) {
	t.mu.Lock()
	// the panic message and the panicking goroutine come first: keep the head
	if room := 1<<17 - len(t.buf); room > 0 {
		if len(p) < room {
			room = len(p)
		}
		t.buf = append(t.buf, p[:room]...)
	}
	t.mu.Unlock()
	return len(p), nil
}

var runSeq int64
var seqMu sync.Mutex

func runOne(workBase string, sc *scenario, guard time.Duration) *outcome {
	seqMu.Lock()
	runSeq++
	dir := filepath.Join(workBase, fmt.Sprintf("x%d", runSeq))
	seqMu.Unlock()
	b, _ := json.Marshal(sc)
	cmd := exec.Command(os.Args[0], "worker")
	cmd.Env = append(os.Environ(), "C13_SCENARIO="+string(b), "C13_DIR="+dir, "GOMAXPROCS=2")
	var so bytes.Buffer
	se := &tailBuf{}
	cmd.Stdout = &so
	cmd.Stderr = se
	o := &outcome{sc: sc}
	if err := cmd.Start(); err != nil {
		core.Fatal("cannot start worker: %v", err)
	}
	done := make(chan error, 1)
	go func() { done <- cmd.Wait() }()
	select {
	case <-done:
	case <-time.After(guard):
		cmd.Process.Kill()
		<-done
		o.timedOut = true
	}
	os.RemoveAll(dir)
	sc2 := bufio.NewScanner(&so)
	sc2.Buffer(make([]byte, 1<<20), 1<<24)
	for sc2.Scan() {
		line := sc2.Text()
		switch {
		case strings.HasPrefix(line, "##V "):
			var v vio
			if json.Unmarshal([]byte(line[4:]), &v) == nil {
				o.early = append(o.early, v)
			}
		case strings.HasPrefix(line, "##R "):
			var r result
			if json.Unmarshal([]byte(line[4:]), &r) == nil {
				o.res = &r
			}
		}
	}
	if o.res == nil && !o.timedOut {
		o.died = true
		o.stderr = string(se.buf)
		o.panicLine, o.panicSite, o.inPool = parsePanic(o.stderr)
	}
	if d := os.Getenv("C13_DEBUG_DIR"); d != "" {
		os.MkdirAll(d, 0755)
		seqMu.Lock()
		n := runSeq
		runSeq++
		seqMu.Unlock()
		dump := map[string]interface{}{"scenario": sc, "result": o.res, "early": o.early, "died": o.died, "timed_out": o.timedOut, "stderr": string(se.buf)}
		jb, _ := json.MarshalIndent(dump, "", " ")
		os.WriteFile(filepath.Join(d, fmt.Sprintf("%05d-%s-%d.json", n, sc.Kind, sc.H)), jb, 0644)
	}
	return o
}

// parsePanic extracts the panic message and the innermost repository frame of
// the panicking goroutine from a Go crash dump.
func parsePanic(stderr string) (line, site string, inPoolRoutine bool) {
	idx := strings.Index(stderr, "panic: ")
	if idx < 0 {
		if j := strings.Index(stderr, "fatal error: "); j >= 0 {
			idx = j
		} else {
			return "", "", false
		}
	}
	rest := stderr[idx:]
	if j := strings.IndexByte(rest, '\n'); j >= 0 {
		line = rest[:j]
	} else {
		line = rest
	}
	if len(line) > 300 {
		line = line[:300]
	}
	// the first goroutine block after the message is the panicking goroutine
	g := rest
	if j := strings.Index(g, "\ngoroutine "); j >= 0 {
		g = g[j+1:]
		if k := strings.Index(g, "\n\n"); k >= 0 {
			g = g[:k]
		}
	}
	for _, l := range strings.Split(g, "\n") {
		if strings.HasPrefix(l, "github.com/dappledger/AnnChain/") {
			if strings.Contains(l, "poolRoutine") {
				inPoolRoutine = true
			}
			if site == "" && !strings.Contains(l, "go-common.Panic") {
				fn := l
				if j := strings.LastIndex(fn, "("); j > 0 {
					fn = fn[:j]
				}
				site = strings.TrimPrefix(fn, "github.com/dappledger/AnnChain/")
			}
		}
	}
	return
}

// candidate is the violation class of an outcome ("" = none).
type candidate struct {
	sig    map[string]string
	detail string
}

func classify(o *outcome) *candidate {
	tam := o.sc.Kind
	vs := o.early
	if o.res != nil && len(o.res.Violations) > len(vs) {
		vs = o.res.Violations
	}
	if len(vs) > 0 {
		// a safety violation is printed the moment it happens, also when the process dies afterwards
		v := vs[0]
		sig := map[string]string{"kind": v.Kind, "tamper": tam, "site": "blockchain.BlockchainReactor.poolRoutine"}
		if v.Field != "" {
			sig["field"] = v.Field
		}
		return &candidate{sig: sig, detail: fmt.Sprintf("scenario %s: %s", o.sc, v.Detail)}
	}
	if o.died {
		site := o.panicSite
		if site == "" {
			site = "unknown"
		}
		via := "other-goroutine"
		if o.inPool {
			via = "poolRoutine"
		}
		return &candidate{sig: map[string]string{"kind": "crash", "site": site, "via": via, "tamper": tam},
			detail: fmt.Sprintf("the syncing process died in scenario %s: %s (innermost repository frame %s, goroutine %s)", o.sc, o.panicLine, site, via)}
	}
	if o.res != nil && (o.res.Outcome == "stall" || o.res.Outcome == "cap") && o.res.PoolLocked {
		return &candidate{sig: map[string]string{"kind": "liveness-deadlock", "tamper": tam, "site": "blockchain.BlockPool.mtx"},
			detail: fmt.Sprintf("scenario %s: the node stopped applying blocks and the block pool's mutex is held forever (store height %d, applied %v)", o.sc, o.res.StoreHeight, o.res.Applied)}
	}
	if o.res != nil && o.res.Outcome == "stall" {
		return &candidate{sig: map[string]string{"kind": "liveness-stall", "tamper": tam, "site": "blockchain.BlockPool"},
			detail: fmt.Sprintf("scenario %s: an honest peer serving the whole chain stayed connected (reconnecting when dropped), but the node applied no block for the stall window and never caught up (store height %d, applied %v, peers known to the pool %v)", o.sc, o.res.StoreHeight, o.res.Applied, o.res.PoolPeers)}
	}
	return nil
}

func sigStr(sig map[string]string) string {
	ks := make([]string, 0, len(sig))
	for k := range sig {
		ks = append(ks, k)
	}
	sort.Strings(ks)
	var s []string
	for _, k := range ks {
		s = append(s, k+"="+sig[k])
	}
	return strings.Join(s, ";")
}

func sameSig(a, b map[string]string) bool { return sigStr(a) == sigStr(b) }

// ------------------------------------------------------------------ enumeration

var perms3 = [][]int64{{1, 2, 3}, {1, 3, 2}, {2, 1, 3}, {2, 3, 1}, {3, 1, 2}, {3, 2, 1}}

type rng struct {
	name string
	a, b int64
}

func rangesFor(kind string, h int64) []rng {
	if isIn(statusKinds, kind) {
		return []rng{{"only", chainLen, chainLen + h}, {"all", 1, chainLen + h}}
	}
	lo, hi := h, h
	if isIn(forgeKinds, kind) || isIn(raceKinds, kind) {
		hi = h + 1
	}
	cand := []rng{{"only", lo, hi}, {"prefix", 1, hi}, {"suffix", lo, chainLen}, {"all", 1, chainLen}}
	var out []rng
	seen := map[[2]int64]bool{}
	for _, r := range cand {
		// while responses are held the pool is at height 1: a pool whose peers all report
		// height 1 counts as caught up, so no peer ever reports less than 2
		if r.a == 2 {
			continue
		}
		if r.b < 2 {
			r.b = 2
		}
		if !seen[[2]int64{r.a, r.b}] {
			seen[[2]int64{r.a, r.b}] = true
			out = append(out, r)
		}
	}
	return out
}

func mk(kind string, h int64, r rng, order []int64, after string, peers int) *scenario {
	return &scenario{Kind: kind, H: h, Range: r.name, A: r.a, B: r.b, Order: order, After: after, Peers: peers}
}

func baseline(order []int64, peers int) *scenario {
	return &scenario{Kind: "none", Range: "none", A: 0, B: 0, Order: order, After: "honest", Peers: peers}
}

func quickSet(c *chain) []*scenario {
	var scs []*scenario
	afters := []string{"honest", "silent"}
	i := 0
	for _, k := range allKinds() {
		hs := heightsFor(c, k)
		if len(hs) == 0 {
			core.Fatal("tamper kind %s is applicable nowhere", k)
		}
		h := hs[i%len(hs)]
		rs := rangesFor(k, h)
		scs = append(scs, mk(k, h, rs[i%len(rs)], perms3[i%6], afters[i%2], 2+(i/7)%2))
		i++
	}
	// the cases that decide which validator set verifies, and the predicted crashes at several heights
	extra := []struct {
		k string
		h int64
	}{
		{"forge-otherset", changeHeight}, {"forge-otherset", changeHeight + 1}, {"forge-oldmajority", changeHeight + 1},
		{"forge-exact23", changeHeight + 1}, {"forge-exact23", 1}, {"forge-nonvalidators", 1}, {"forge-prevotes-as-commit", 1}, {"forge-prevotes-as-commit", changeHeight + 1}, {"forge-one-vote-every-slot", 1}, {"lc-insufficient", changeHeight + 2}, {"lc-insufficient", 2},
		{"lc-nil-block", changeHeight + 2}, {"tx-changed+fix", 5}, {"tx-added+fix", 1}, {"tx-added+fix", changeHeight + 1},
		{"lc-nil", 2}, {"lc-nil", 6}, {"big-hangup", 1}, {"big-hangup", 3}, {"lc-all-nil", 2}, {"lc-all-nil", changeHeight + 2}, {"hdr-extra", 1}, {"lc-removed", 6},
	}
	for _, e := range extra {
		if makePlan(c, e.k, e.h) == nil {
			core.Fatal("tamper %s not applicable at %d", e.k, e.h)
		}
		rs := rangesFor(e.k, e.h)
		scs = append(scs, mk(e.k, e.h, rs[i%len(rs)], perms3[i%6], afters[i%2], 2))
		i++
	}
	for _, p := range perms3[1:4] {
		scs = append(scs, baseline(p, 3))
	}
	return scs
}

func thoroughSets(c *chain) (t1, t2, t3 []*scenario) {
	afters := []string{"honest", "silent"}
	i := 0
	for _, k := range allKinds() {
		for _, h := range heightsFor(c, k) {
			for _, r := range rangesFor(k, h) {
				for _, af := range afters {
					first := i % 6
					t1 = append(t1, mk(k, h, r, perms3[first], af, 2))
					t3 = append(t3, mk(k, h, r, perms3[(first+3)%6], af, 3))
					for j := 1; j < 6; j++ {
						t2 = append(t2, mk(k, h, r, perms3[(first+j)%6], af, 2))
					}
					i++
				}
			}
		}
	}
	for _, p := range perms3 {
		t1 = append(t1, baseline(p, 2), baseline(p, 3))
	}
	// round-robin over the kinds, so that a time cap cuts every kind equally
	return interleave(t1), interleave(t2), interleave(t3)
}

func interleave(scs []*scenario) []*scenario {
	byKind := map[string][]*scenario{}
	var kinds []string
	for _, s := range scs {
		if _, ok := byKind[s.Kind]; !ok {
			kinds = append(kinds, s.Kind)
		}
		byKind[s.Kind] = append(byKind[s.Kind], s)
	}
	var out []*scenario
	for i := 0; len(out) < len(scs); i++ {
		for _, k := range kinds {
			if i < len(byKind[k]) {
				out = append(out, byKind[k][i])
			}
		}
	}
	return out
}

// ------------------------------------------------------------------ main

type checker struct {
	run       *core.Run
	workBase  string
	guard     time.Duration
	mu        sync.Mutex
	evals     int
	reruns    int
	retries   int
	failedConfirms int
	peerTimeout int
	classes   *core.Counter
	outcomes  *core.Counter
	kindsSeen *core.Counter
	samples   *core.Sampler
	inconcl   []string
	confirmed map[string]bool // sig -> reproduced 5/5 and reported
	tried     map[string]int
	notRepro  []string
	walls     []int64
}

func (ck *checker) exec(sc *scenario) *outcome {
	var o *outcome
	if sc.PeerTimeoutS == 0 && ck.peerTimeout > peerTimeoutS {
		sc.PeerTimeoutS = ck.peerTimeout
	}
	for attempt := 0; attempt < 5; attempt++ {
		o = runOne(ck.workBase, sc, ck.guard)
		if o.res != nil && o.res.Outcome == "harness-invalid" {
			ck.mu.Lock()
			ck.retries++
			ck.mu.Unlock()
			continue
		}
		break
	}
	return o
}

// confirm re-runs a violation candidate five times; it is reported only if
// every re-run shows the same violation class.  (A re-run in which the harness
// could not set the scenario up - harness-invalid after 5 attempts, or the
// worker guard - counts as not reproduced.)
func (ck *checker) confirm(sc *scenario, c *candidate) bool {
	var wg sync.WaitGroup
	ok := make([]bool, 5)
	what := make([]string, 5)
	for i := 0; i < 5; i++ {
		wg.Add(1)
		go func(i int) {
			defer wg.Done()
			o := ck.exec(sc)
			c2 := classify(o)
			ok[i] = c2 != nil && sameSig(c2.sig, c.sig)
			switch {
			case c2 != nil:
				what[i] = sigStr(c2.sig)
			case o.res != nil:
				what[i] = o.res.Outcome
			default:
				what[i] = "guard"
			}
		}(i)
	}
	wg.Wait()
	ck.mu.Lock()
	ck.reruns += 5
	ck.mu.Unlock()
	n := 0
	for _, b := range ok {
		if b {
			n++
		}
	}
	if n < 5 {
		ck.mu.Lock()
		ck.notRepro = append(ck.notRepro, fmt.Sprintf("%s: %s reproduced %d/5 (re-runs: %v)", sc, sigStr(c.sig), n, what))
		ck.mu.Unlock()
	}
	return n == 5
}

func (ck *checker) handle(o *outcome) {
	sc := o.sc
	ck.mu.Lock()
	ck.evals++
	ck.mu.Unlock()
	ck.kindsSeen.Add(sc.Kind)
	if o.timedOut {
		ck.outcomes.Add("inconclusive:worker-guard")
		ck.mu.Lock()
		ck.inconcl = append(ck.inconcl, sc.String()+": worker exceeded its wall-clock guard")
		ck.mu.Unlock()
		return
	}
	c := classify(o)
	if c == nil {
		r := o.res
		ck.outcomes.Add(r.Outcome)
		if r.Outcome == "cap" || r.Outcome == "harness-invalid" {
			ck.mu.Lock()
			ck.inconcl = append(ck.inconcl, fmt.Sprintf("%s: %s %s", sc, r.Outcome, r.Why))
			ck.mu.Unlock()
			return
		}
		mdrop := "M-kept"
		for _, d := range r.Disconnected {
			if d == "M" {
				mdrop = "M-disconnected"
			}
		}
		hdrop := ""
		for _, d := range r.Disconnected {
			if d != "M" {
				hdrop = "/honest-peer-dropped"
			}
		}
		re := "no-rerequest"
		if len(r.ReRequested) > 0 {
			re = "rerequested"
		}
		ck.classes.Add(fmt.Sprintf("%s/%s/height=%d/%s/%s%s/tamper-sent=%d", sc.Kind, r.Outcome, r.StoreHeight, re, mdrop, hdrop, r.TamperSent))
		ck.mu.Lock()
		ck.walls = append(ck.walls, r.WallMs)
		ck.mu.Unlock()
		if sc.ID%17 == 0 {
			ck.samples.Add(map[string]interface{}{"scenario": sc, "outcome": r.Outcome, "store_height": r.StoreHeight, "applied": r.Applied,
				"requests": r.Requests, "rerequested": r.ReRequested, "disconnected": r.Disconnected, "tamper_sent": r.TamperSent, "wall_ms": r.WallMs})
		}
		return
	}
	key := sigStr(c.sig)
	ck.outcomes.Add("candidate:" + c.sig["kind"])
	ck.mu.Lock()
	done := ck.confirmed[key]
	n := ck.tried[key]
	ck.tried[key]++
	ck.mu.Unlock()
	if done {
		ck.run.Report(c.sig, sc, c.detail) // same class again: counted, not re-run
		return
	}
	ck.mu.Lock()
	budget := ck.failedConfirms < 40
	ck.mu.Unlock()
	if n >= 4 || !budget {
		return // four different cases of this class (or 40 candidates overall) already failed to reproduce
	}
	if ck.confirm(sc, c) {
		ck.mu.Lock()
		ck.confirmed[key] = true
		ck.mu.Unlock()
		ck.outcomes.Add("violation:" + c.sig["kind"])
		ck.classes.Add(fmt.Sprintf("%s/VIOLATION/%s/%s", sc.Kind, c.sig["kind"], c.sig["site"]))
		ck.run.Report(c.sig, sc, c.detail+" [reproduced 5/5]")
	} else {
		ck.outcomes.Add("inconclusive:not-reproducible")
		ck.mu.Lock()
		ck.failedConfirms++
		ck.mu.Unlock()
	}
}

func splitRace(scs []*scenario) (race, rest []*scenario) {
	for _, s := range scs {
		if isIn(raceKinds, s.Kind) {
			race = append(race, s)
		} else {
			rest = append(rest, s)
		}
	}
	return
}

func (ck *checker) runAll(scs []*scenario, workers int, deadline time.Time) (done int) {
	var mu sync.Mutex
	next := 0
	var wg sync.WaitGroup
	for w := 0; w < workers; w++ {
		wg.Add(1)
		go func() {
			defer wg.Done()
			for {
				mu.Lock()
				if next >= len(scs) || (!deadline.IsZero() && time.Now().After(deadline)) {
					mu.Unlock()
					return
				}
				sc := scs[next]
				next++
				mu.Unlock()
				ck.handle(ck.exec(sc))
				mu.Lock()
				done++
				mu.Unlock()
			}
		}()
	}
	wg.Wait()
	return
}

func main() {
	if len(os.Args) > 1 && os.Args[1] == "worker" {
		workerMain()
		return
	}
	run := core.Start("C13", "exploration", "FASTSYNC")
	workBase := run.WorkDir()
	ck := &checker{run: run, workBase: workBase, guard: 240 * time.Second, classes: core.NewCounter(), outcomes: core.NewCounter(),
		kindsSeen: core.NewCounter(), samples: core.NewSampler(8, run.Seed), confirmed: map[string]bool{}, tried: map[string]int{}}

	if run.ReplayPath != "" {
		var sc scenario
		if err := run.ReplayCase(&sc); err != nil {
			core.Fatal("cannot load replay: %v", err)
		}
		o := ck.exec(&sc)
		if c := classify(o); c != nil {
			run.Report(c.sig, &sc, c.detail)
		} else if o.res != nil {
			fmt.Printf("replay: outcome %s, store height %d, applied %v\n", o.res.Outcome, o.res.StoreHeight, o.res.Applied)
		}
		run.Finish(nil, nil)
	}

	c, err := buildChain(filepath.Join(workBase, "parent-wal"))
	if err != nil {
		core.Fatal("cannot build the source chain: %v", err)
	}

	// sanity / determinism / calibration: the all-honest execution twice.  An all-honest
	// execution that does not catch up is judged like every other execution (liveness);
	// only a different source chain or two different end states are internal errors.
	ck.peerTimeout = peerTimeoutS
	var base [2]*outcome
	var rel int64
	clean := 0
	for i := range base {
		bs := baseline(perms3[0], 2)
		bs.ID = -1 - i
		base[i] = ck.exec(bs)
		r := base[i].res
		if r != nil && r.ChainDigest != c.digest {
			core.Fatal("a worker built a different source chain (%s vs %s)", r.ChainDigest, c.digest)
		}
		if r != nil && r.Outcome == "caught-up" && len(r.Violations) == 0 && r.StoreHeight == chainLen-1 {
			clean++
			if r.ReleaseMs > rel {
				rel = r.ReleaseMs
			}
		}
		ck.handle(base[i])
	}
	if clean == 2 && base[0].res.FinalDigest != base[1].res.FinalDigest {
		core.Fatal("two all-honest executions ended in different states: %s vs %s", base[0].res.FinalDigest, base[1].res.FinalDigest)
	}
	// calibration: on a slow (shared, loaded) machine the pool's peer timeout is scaled up so
	// that peers whose responses are held during the set-up phases do not time out
	if t := int((rel*10 + 999) / 1000); t > ck.peerTimeout {
		ck.peerTimeout = t
	}
	if ck.peerTimeout > 30 {
		ck.peerTimeout = 30
	}
	ck.guard = time.Duration(4*(30+4*ck.peerTimeout)+60) * time.Second

	var scs []*scenario
	total := 0
	capNote := ""
	exhaustive := true
	completed := 0
	if run.Quick() {
		scs = quickSet(c)
		for i, s := range scs {
			s.ID = i
		}
		total = len(scs)
		race, rest := splitRace(scs)
		completed = ck.runAll(race, 8, time.Time{}) + ck.runAll(rest, 48, time.Time{})
	} else {
		t1, t2, t3 := thoroughSets(c)
		all := append(append(append([]*scenario{}, t1...), t3...), t2...)
		for i, s := range all {
			s.ID = i
		}
		total = len(all)
		budget := 12 * time.Minute
		deadline := time.Now().Add(budget)
		// the scenarios that depend on hitting a window of a few hundred milliseconds run first, with few workers
		race, rest := splitRace(all[:len(t1)+len(t3)])
		rest = append(rest, all[len(t1)+len(t3):]...)
		completed = ck.runAll(race, 8, time.Now().Add(2*time.Minute))
		completed += ck.runAll(rest, 56, deadline)
		if completed < total {
			exhaustive = false
			capNote = fmt.Sprintf("time budget of %v reached after %d of %d scenarios (order: every (kind,height,range,after) once with a rotating arrival order and 2 peers [%d], the same with 3 peers [%d], then the remaining five arrival orders [%d])", budget, completed, total, len(t1), len(t3), len(t2))
			run.Notes = append(run.Notes, capNote)
		}
	}
	if len(ck.inconcl) > 0 || len(ck.notRepro) > 0 {
		exhaustive = false // some executions were inconclusive (not set up, or a candidate that did not reproduce 5/5)
	}
	if ck.kindsSeen.Len() < len(allKinds())+1 {
		if exhaustive || run.Quick() {
			core.Fatal("only %d of %d tamper kinds were exercised", ck.kindsSeen.Len()-1, len(allKinds()))
		}
		run.Notes = append(run.Notes, fmt.Sprintf("only %d of %d tamper kinds were exercised before the time budget ran out", ck.kindsSeen.Len()-1, len(allKinds())))
	}
	sort.Slice(ck.walls, func(i, j int) bool { return ck.walls[i] < ck.walls[j] })
	var medWall, maxWall int64
	if len(ck.walls) > 0 {
		medWall, maxWall = ck.walls[len(ck.walls)/2], ck.walls[len(ck.walls)-1]
	}
	if len(ck.inconcl) > 12 {
		ck.inconcl = append(ck.inconcl[:12], fmt.Sprintf("... and %d more", len(ck.inconcl)-12))
	}
	os.RemoveAll(workBase)
	run.Finish(core.Coverage{
		"evaluations":         ck.evals,
		"confirmation_reruns": ck.reruns,
		"harness_retries":     ck.retries,
		"scenarios_planned":   total,
		"scenarios_completed": completed,
		"distinct_nontrivial": ck.classes.Len(),
		"rule": "scenario = (tamper kind [" + fmt.Sprint(len(allKinds())) + " kinds: transactions added/removed/changed with and without re-committing header, every header field, Extra, nil Data/Header/block, block of a neighbouring height served, LastCommit vote removed/duplicated/re-signed by a non-validator/of another round/for nil/exactly-2/3 power/all nil/of another height/empty/nil/BlockID field, internally valid forged block + forged commit signed by non-validators / exactly 2/3 / 2/3 plus genuine rest / a +2/3 majority of the neighbouring height's validator set / the pre-change majority, over-claimed status, large bad block followed by the peer hanging up] x tampered height (every applicable one of 1..6) x interval of heights the pool is made to request from the malicious peer [only the tampered heights | from 1 up to them | from them to the end | all] x arrival order of the responses for heights 1-3 [all 6 permutations; every response is held until every height has been requested] x malicious peer afterwards honest | silent x 2 | 3 serving peers); each scenario runs the real BlockchainReactor/BlockPool/poolRoutine of one syncing node over real p2p switches (net.Pipe, secret connection, MConnection) in its own subprocess; distinct_nontrivial counts distinct (kind, outcome, final store height, re-request seen, malicious peer disconnected, honest peer dropped, tampered responses delivered) classes",
		"tamper_kinds":          allKinds(),
		"outcomes":              ck.outcomes.Map(),
		"outcome_classes":       ck.classes.Map(),
		"samples":               ck.samples.List(),
		"exhaustive":            exhaustive,
		"cap":                   capNote,
		"inconclusive":          ck.inconcl,
		"not_reproducible":      ck.notRepro,
		"median_wall_ms":        medWall,
		"max_wall_ms":           maxWall,
		"source_chain":          map[string]interface{}{"blocks": chainLen, "txs_at": []int{2, 5}, "validator_set_change_at": changeHeight, "powers_before": genesisPowers, "powers_after": "2,2,1,4 + new validator 5 (total 14, i.e. 2 mod 3; the genesis total 6 is 0 mod 3)", "digest": c.digest},
		"pool_peer_timeout_s":   ck.peerTimeout,
		"calibration_release_ms": rel,
		"bounds":                map[string]int{"chain_length": chainLen, "heights_synced": chainLen - 1, "serving_peers_max": 3},
	}, []string{
		"a non-validator cannot produce a validator's signature, and no set of validators holding more than 2/3 of the power of a height signs two different blocks for that height",
		"the syncing node is assembled by the repository's own Angine.assembleStateMachine (build-tagged wrapper gemmill.VerifAssemble): block store, BlockchainReactor with its verifier and executer closures, pbft ConsensusState/reactor, mempool/reactor are those of a real node; the harness supplies in-memory databases, the p2p switch, a non-validator key and the event switch, and replaces the IBlockExecutable (Angine + plugins) by the toy executor the source chain was built with: the validator-set change is made in EndBlock by ValidatorSet.Update/Add as plugin.AdminOp.updateValidators does; scripted peers carry a sink reactor for the consensus and mempool channels",
		"the source chain is produced by the harness with the call sequence of pbft createProposalBlock/finalizeCommit (types.MakeBlock, VoteSet.AddVote/MakeCommit over real signatures, ConsensusState.ValidateBlock, BlockStore.SaveBlock, State.Copy().ApplyBlock, Save), not by running consensus rounds; block times are fixed so that every worker rebuilds the identical chain (digest compared)",
		"honest peers report their true height (which may grow while the node syncs), answer every request at once with the genuine block, and redial when the node drops them; the pool's peer timeout is lowered from 15 s to 3 s (scaled up after a calibration run on a slow machine) and the connection rate limit raised accordingly; no peer ever reports a height below 2 while responses are held (a pool at height 1 whose peers all report 1 is 'caught up')",
		"real goroutines and timers: a stall is a violation only when the node applies no block for 30 s plus four peer timeouts (three status-refresh periods, the reactor's longest timer) while an honest peer with the whole chain stays available, reproduced in 5 of 5 re-runs; every violation candidate is re-run 5 times and reported only if all 5 show the same class; executions the harness could not set up (a peer timed out while its responses were held) are repeated, then counted as inconclusive",
		"the pool's choice among eligible peers (map iteration) and the timing of its requester goroutines are not enumerated: only which peers are eligible when, the order of the first responses and the peers' later behaviour are",
	})
}
