package main

// The source chain and the toy application.
//
// The source node commits every block the way pbft.finalizeCommit does:
// ValidateBlock (the real pbft.ConsensusState.ValidateBlock through
// State.ValidateBlock), BlockStore.SaveBlock(block, parts, seenCommit),
// state.Copy().ApplyBlock(...), Save.  Blocks are made by types.MakeBlock with
// the arguments createProposalBlock passes, precommits are real signed votes
// collected in a real VoteSet.  Everything is deterministic (fixed keys, fixed
// block times), so every worker process rebuilds exactly the same chain.

import (
	"bytes"
	"crypto/sha256"
	"fmt"
	"os"
	"sort"
	"sync"
	"time"

	"github.com/spf13/viper"
	"go.uber.org/zap"

	bc "github.com/dappledger/AnnChain/gemmill/blockchain"
	"github.com/dappledger/AnnChain/gemmill/consensus/pbft"
	crypto "github.com/dappledger/AnnChain/gemmill/go-crypto"
	"github.com/dappledger/AnnChain/gemmill/go-wire"
	clist "github.com/dappledger/AnnChain/gemmill/modules/go-clist"
	dbm "github.com/dappledger/AnnChain/gemmill/modules/go-db"
	"github.com/dappledger/AnnChain/gemmill/modules/go-events"
	glog "github.com/dappledger/AnnChain/gemmill/modules/go-log"
	sm "github.com/dappledger/AnnChain/gemmill/state"
	"github.com/dappledger/AnnChain/gemmill/types"
)

const (
	chainID      = "verif-c13"
	chainLen     = 6 // blocks of the source chain
	partSize     = 128
	changeHeight = 3 // EndBlock of this block changes the validator set (in force from changeHeight+1)
)

func init() {
	if os.Getenv("VERIF_LOG") == "" {
		glog.SetLog(zap.NewNop())
		glog.SetAuditLog(zap.NewNop())
	}
}

// ------------------------------------------------------------------ keys

// validator keys: 0..3 are the genesis validators, 4 joins at changeHeight.
var genesisPowers = []int64{2, 2, 1, 1}

const nValKeys = 5

func valKey(i int) crypto.PrivKeyEd25519 {
	return crypto.GenPrivKeyEd25519FromSecret([]byte(fmt.Sprintf("c13-validator-%d", i)))
}

// outsiders never are validators.
func outsiderKey(i int) crypto.PrivKeyEd25519 {
	return crypto.GenPrivKeyEd25519FromSecret([]byte(fmt.Sprintf("c13-outsider-%d", i)))
}

var (
	keyOnce  sync.Once
	keyByAdr map[string]crypto.PrivKeyEd25519
)

func keyFor(addr []byte) (crypto.PrivKeyEd25519, bool) {
	keyOnce.Do(func() {
		keyByAdr = map[string]crypto.PrivKeyEd25519{}
		for i := 0; i < nValKeys; i++ {
			k := valKey(i)
			keyByAdr[string(k.PubKey().Address())] = k
		}
	})
	k, ok := keyByAdr[string(addr)]
	return k, ok
}

func genesisDoc() *types.GenesisDoc {
	gen := &types.GenesisDoc{ChainID: chainID, GenesisTime: time.Unix(1500000000, 0)}
	for i, p := range genesisPowers {
		gen.Validators = append(gen.Validators, types.GenesisValidator{PubKey: valKey(i).PubKey(), Amount: p, Name: fmt.Sprintf("v%d", i), IsCA: true})
	}
	return gen
}

// ------------------------------------------------------------------ toy tx pool

type nopPool struct{}

func (nopPool) Lock()                                     {}
func (nopPool) Unlock()                                   {}
func (nopPool) Reap(int) []types.Tx                       { return nil }
func (nopPool) ReceiveTx(types.Tx) error                  { return nil }
func (nopPool) Update(int64, []types.Tx)                  {}
func (nopPool) Size() int                                 { return 0 }
func (nopPool) TxsFrontWait() *clist.CElement             { return nil }
func (nopPool) Flush()                                    {}
func (nopPool) RegisterFilter(types.IFilter)              {}
func (nopPool) GetPendingMaxNonce([]byte) (uint64, error) { return 0, nil }

// ------------------------------------------------------------------ toy executor (IBlockExecutable)

// valChangeTx is the extended transaction (Data.ExTxs, as admin operations are)
// whose presence makes EndBlock change the next validator set, the way
// plugin.AdminOp.updateValidators does it: Update an existing validator's
// power, Add a new validator.
var valChangeTx = types.Tx(append(append([]byte{}, types.AdminTag...), []byte("c13:set-power(v3,4);add(v4,3)")...))

type executor struct{}

func (executor) BeginBlock(*types.Block, events.Fireable, *types.PartSetHeader) error { return nil }
func (executor) ExecBlock(*types.Block, events.Fireable, *types.ExecuteResult) error  { return nil }
func (executor) EndBlock(b *types.Block, _ events.Fireable, _ *types.PartSetHeader, _ []*types.ValidatorAttr, next *types.ValidatorSet) error {
	for _, tx := range b.Data.ExTxs {
		if !bytes.Equal(tx, valChangeTx) {
			continue
		}
		_, val := next.GetByAddress(valKey(3).PubKey().Address())
		if val == nil {
			return fmt.Errorf("validator v3 not in set")
		}
		val.VotingPower = 4
		if !next.Update(val) {
			return fmt.Errorf("cannot update v3")
		}
		if !next.Add(types.NewValidator(valKey(4).PubKey(), 5, true)) {
			return fmt.Errorf("cannot add v4")
		}
	}
	return nil
}

// ------------------------------------------------------------------ toy application (behind the real hook events)

type execRec struct {
	Height   int64  `json:"h"`
	BlockSum string `json:"block"` // sha256 of the wire bytes of the block the application was given
	NTxs     int    `json:"ntxs"`
	AppHash  string `json:"app"`
}

type app struct {
	mu       sync.Mutex
	appHash  []byte
	total    int
	Log      []execRec
	pending  *types.Block
	onCommit func(b *types.Block) // called (outside mu) after each commit
}

func sum(b []byte) string { h := sha256.Sum256(b); return fmt.Sprintf("%x", h[:12]) }

func (a *app) install(evsw types.EventSwitch) {
	types.AddListenerForEvent(evsw, "c13", types.EventStringHookNewRound(), func(ed types.TMEventData) {
		ed.(types.EventDataHookNewRound).ResCh <- types.NewRoundResult{}
	})
	types.AddListenerForEvent(evsw, "c13", types.EventStringHookExecute(), func(ed types.TMEventData) {
		d := ed.(types.EventDataHookExecute)
		a.mu.Lock()
		a.pending = d.Block
		a.mu.Unlock()
		d.ResCh <- types.ExecuteResult{ValidTxs: d.Block.Data.Txs}
	})
	types.AddListenerForEvent(evsw, "c13", types.EventStringHookCommit(), func(ed types.TMEventData) {
		d := ed.(types.EventDataHookCommit)
		a.mu.Lock()
		h := sha256.New()
		h.Write(a.appHash)
		fmt.Fprintf(h, "|%d|", d.Block.Height)
		r := sha256.New()
		fmt.Fprintf(r, "receipts|%d|", d.Block.Height)
		for _, tx := range d.Block.Data.Txs {
			h.Write(tx)
			h.Write([]byte{0})
			r.Write(tx)
			r.Write([]byte{1})
			a.total++
		}
		a.appHash = h.Sum(nil)[:20]
		receipts := r.Sum(nil)[:20]
		a.Log = append(a.Log, execRec{Height: d.Block.Height, BlockSum: sum(wire.BinaryBytes(d.Block)), NTxs: len(d.Block.Data.Txs), AppHash: fmt.Sprintf("%x", a.appHash)})
		cb := a.onCommit
		res := types.CommitResult{AppHash: append([]byte(nil), a.appHash...), ReceiptsHash: receipts}
		a.mu.Unlock()
		if cb != nil {
			cb(d.Block)
		}
		d.ResCh <- res
	})
}

func (a *app) snapshot() string {
	a.mu.Lock()
	defer a.mu.Unlock()
	s := fmt.Sprintf("total=%d app=%x", a.total, a.appHash)
	for _, r := range a.Log {
		s += fmt.Sprintf(" [%d %s %d %s]", r.Height, r.BlockSum, r.NTxs, r.AppHash)
	}
	return s
}

func (a *app) executed() []execRec {
	a.mu.Lock()
	defer a.mu.Unlock()
	return append([]execRec(nil), a.Log...)
}

// ------------------------------------------------------------------ the chain

type chain struct {
	gen        *types.GenesisDoc
	blocks     []*types.Block       // [1..chainLen]
	blockBytes [][]byte             // wire bytes
	ids        []types.BlockID      // block ids
	seen       []*types.Commit      // the source node's seen commit of height h
	vals       []*types.ValidatorSet // [h] = validator set in force at height h (1..chainLen+1)
	stateBytes [][]byte             // [h] = wire bytes of the source State after block h (0 = genesis)
	appSnap    []string             // [h] = application snapshot after block h
	metaBytes  [][]byte             // [h] = stored block meta
	digest     string
}

func txsFor(h int64) (txs, extxs []types.Tx) {
	switch h {
	case 2:
		txs = []types.Tx{types.Tx("c13-tx-2a:alice->bob:5"), types.Tx("c13-tx-2b:bob->carol:3")}
	case changeHeight:
		extxs = []types.Tx{valChangeTx}
	case 5:
		txs = []types.Tx{types.Tx("c13-tx-5a:carol->dave:1"), types.Tx("c13-tx-5b:dave->alice:2"), types.Tx("c13-tx-5c:alice->erin:9")}
	}
	return
}

func blockTime(h int64) time.Time { return time.Unix(1600000000+h*7, 0) }

func pbftConf(walDir string) *viper.Viper {
	c := viper.New()
	c.Set("chain_id", chainID)
	c.Set("cs_wal_dir", walDir)
	c.Set("cs_wal_light", true)
	c.Set("block_size", 10)
	c.Set("block_part_size", partSize)
	c.Set("timeout_propose", 3000)
	c.Set("timeout_propose_delta", 500)
	c.Set("timeout_prevote", 1000)
	c.Set("timeout_prevote_delta", 500)
	c.Set("timeout_precommit", 1000)
	c.Set("timeout_precommit_delta", 500)
	c.Set("timeout_commit", 1000)
	c.Set("skip_timeout_commit", false)
	return c
}

// signedPrecommit makes validator idx of vs precommit id at (h, round) with key.
func signedPrecommit(vs *types.ValidatorSet, idx int, h, round int64, id types.BlockID, key crypto.PrivKeyEd25519) *types.Vote {
	addr, _ := vs.GetByIndex(idx)
	v := &types.Vote{ValidatorAddress: append([]byte(nil), addr...), ValidatorIndex: idx, Height: h, Round: round, Type: types.VoteTypePrecommit, BlockID: id}
	v.Signature = key.Sign(types.SignBytes(chainID, v))
	return v
}

func decodeBlock(bz []byte) *types.Block {
	var n int
	var err error
	b := wire.ReadBinary(&types.Block{}, bytes.NewReader(bz), 0, &n, &err).(*types.Block)
	if err != nil {
		panic(fmt.Sprintf("harness: cannot decode own block: %v", err))
	}
	return b
}

func decodeCommit(bz []byte) *types.Commit {
	var n int
	var err error
	c := wire.ReadBinary(&types.Commit{}, bytes.NewReader(bz), 0, &n, &err).(*types.Commit)
	if err != nil {
		panic(fmt.Sprintf("harness: cannot decode own commit: %v", err))
	}
	return c
}

func cloneCommit(c *types.Commit) *types.Commit { return decodeCommit(wire.BinaryBytes(c)) }

// buildChain runs the source node for chainLen heights.
func buildChain(walDir string) (*chain, error) {
	os.MkdirAll(walDir, 0755)
	c := &chain{gen: genesisDoc()}
	n := chainLen + 2
	c.blocks, c.blockBytes, c.ids = make([]*types.Block, n), make([][]byte, n), make([]types.BlockID, n)
	c.seen, c.vals = make([]*types.Commit, n), make([]*types.ValidatorSet, n)
	c.stateBytes, c.appSnap, c.metaBytes = make([][]byte, n), make([]string, n), make([][]byte, n)

	st := sm.MakeGenesisState(dbm.NewMemDB(), c.gen)
	st.Save()
	st.SetBlockExecutable(executor{})
	store := bc.NewBlockStore(dbm.NewMemDB(), dbm.NewMemDB())
	evsw := types.NewEventSwitch()
	evsw.Start()
	a := &app{}
	a.install(evsw)
	c.stateBytes[0] = st.Bytes()
	c.appSnap[0] = a.snapshot()
	c.vals[1] = st.Validators.Copy()
	conf := pbftConf(walDir)
	pbft.SetVerifMsgQueueSize(4)

	for h := int64(1); h <= chainLen; h++ {
		// the consensus machine of this height (only its ValidateBlock is used)
		cs := pbft.NewConsensusState(conf, st, store, nopPool{})
		if cs == nil {
			return nil, fmt.Errorf("NewConsensusState returned nil at height %d", h)
		}
		st.SetBlockVerifier(cs)
		var lastCommit *types.Commit
		if h == 1 {
			lastCommit = &types.Commit{}
		} else {
			lastCommit = cloneCommit(c.seen[h-1])
		}
		txs, extxs := txsFor(h)
		block, _ := types.MakeBlock(h, st.ChainID, txs, extxs, lastCommit, st.Validators.Proposer().Address,
			st.LastBlockID, st.Validators.Hash(), st.AppHash, st.ReceiptsHash, partSize)
		block.Header.Time = blockTime(h)
		parts := block.MakePartSet(partSize)
		id := types.BlockID{Hash: block.Hash(), PartsHeader: parts.Header()}

		votes := types.NewVoteSet(st.ChainID, h, 0, types.VoteTypePrecommit, st.Validators)
		for i, v := range st.Validators.Validators {
			key, ok := keyFor(v.Address)
			if !ok {
				return nil, fmt.Errorf("no key for validator %X", v.Address)
			}
			if added, err := votes.AddVote(signedPrecommit(st.Validators, i, h, 0, id, key)); !added || err != nil {
				return nil, fmt.Errorf("height %d: precommit of validator %d refused: %v", h, i, err)
			}
		}
		if _, ok := votes.TwoThirdsMajority(); !ok {
			return nil, fmt.Errorf("height %d: no +2/3", h)
		}
		seen := votes.MakeCommit()

		// finalizeCommit
		if err := st.ValidateBlock(block); err != nil {
			return nil, fmt.Errorf("height %d: source block invalid: %v", h, err)
		}
		store.SaveBlock(block, parts, seen)
		stCopy := st.Copy()
		if err := stCopy.ApplyBlock(evsw, block, parts.Header(), nopPool{}, 0); err != nil {
			return nil, fmt.Errorf("height %d: ApplyBlock: %v", h, err)
		}
		stCopy.Save()
		st = stCopy
		if g := cs.VerifWALGroup(); g != nil {
			g.Stop() // its size-check ticker must be dead before the directory goes away
			g.Head.Close()
		}

		c.blocks[h] = block
		c.blockBytes[h] = wire.BinaryBytes(block)
		c.ids[h] = id
		c.seen[h] = seen
		c.vals[h+1] = st.Validators.Copy()
		c.stateBytes[h] = st.Bytes()
		c.appSnap[h] = a.snapshot()
		c.metaBytes[h] = wire.BinaryBytes(store.LoadBlockMeta(h))
		if !bytes.Equal(wire.BinaryBytes(decodeBlock(c.blockBytes[h])), c.blockBytes[h]) {
			return nil, fmt.Errorf("height %d: block encoding is not canonical", h)
		}
	}
	if bytes.Equal(c.vals[changeHeight].Hash(), c.vals[changeHeight+1].Hash()) || c.vals[changeHeight+1].Size() != 5 ||
		c.vals[changeHeight+1].TotalVotingPower() != 14 { // 14 mod 3 == 2 while the genesis total 6 mod 3 == 0: both residues that matter for quorum arithmetic
		return nil, fmt.Errorf("validator-set change did not happen")
	}
	hsh := sha256.New()
	for h := 1; h <= chainLen; h++ {
		hsh.Write(c.blockBytes[h])
		hsh.Write(c.stateBytes[h])
		hsh.Write([]byte(c.appSnap[h]))
	}
	c.digest = fmt.Sprintf("%x", hsh.Sum(nil)[:10])
	return c, nil
}

// genuine returns a fresh copy of source block h.
func (c *chain) genuine(h int64) *types.Block { return decodeBlock(c.blockBytes[h]) }

// power returns the voting power of the validators with the given indices.
func power(vs *types.ValidatorSet, idx []int) int64 {
	var p int64
	for _, i := range idx {
		_, v := vs.GetByIndex(i)
		p += v.VotingPower
	}
	return p
}

// subsetWithPower returns validator indices whose power sums to exactly want
// (smallest such subset in lexicographic order), or nil.
func subsetWithPower(vs *types.ValidatorSet, want int64) []int {
	n := vs.Size()
	var best []int
	for mask := 1; mask < 1<<uint(n); mask++ {
		var idx []int
		for i := 0; i < n; i++ {
			if mask&(1<<uint(i)) != 0 {
				idx = append(idx, i)
			}
		}
		if power(vs, idx) == want && (best == nil || len(idx) < len(best)) {
			best = idx
		}
	}
	sort.Ints(best)
	return best
}
