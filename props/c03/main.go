// C03 — no equivocation across restarts.  Explicit-state crash / write-fault
// exploration of the REAL gemmill/types.PrivValidator with its file on disk
// (DESIGN §5 C03, §4.2 crash variant, §6.4 crash model).
//
// A case is an initial-creation fault (optional) plus a sequence of steps; a
// step is one signing request (proposal|prevote|precommit × H∈{1,2} × R∈{0,1}
// × block∈{A,B}) together with at most one fault of the durable write it
// triggers: simulated process death immediately before one of the three file
// operations of WriteFileAtomic (or after the last one, before the signature
// is handed out), or an injected error of one of them, and optionally a kill
// of the idle process after the request; or — torn-file family — a crash of the
// host after the request has completed that leaves the signer file itself
// damaged (truncated to 0 bytes / 1 byte / half / all but the last byte, first
// or last byte flipped: every pattern makes the file unparsable) while the
// .bak / .new leftovers are what the code left, followed by a restart.  After a death the in-memory signer is
// thrown away and types.LoadPrivValidator (what gemmill/angine.go does at node
// start) builds the next one from the files that are on disk.
//
// Oracle (written from the property, not from the code): ledger of released
// signatures; (1) no two different sign-bytes for one (height, round, step);
// (2) no release below an earlier released (height, round, step) unless it is
// the identical message again; (3) at the moment a signature leaves the signer
// the file on disk forbids contradicting it; (4) a restart after any crash
// point loads without error or panic.  With a torn signer file refusing to
// start is the safe answer and ends the history; if the node does start, (1)
// and (2) keep judging what it signs.
//
// Part (b), every interleaving of concurrent callers of one signer object, is
// the SCHED exploration props/c03sched (a separate binary, built with the
// import-rewriting overlay by prebuild.sh); runSchedPart runs it and merges
// its evidence and violations.
package main

import (
	"bytes"
	"encoding/json"
	"fmt"
	"io/ioutil"
	"os"
	"os/exec"
	"path/filepath"
	"strings"

	"verif/core"

	"github.com/dappledger/AnnChain/gemmill/types"
	"github.com/dappledger/AnnChain/utils/verifhook"
)

const chainID = "c03-chain"
const siteSigner = "PrivValidator.signBytesHRS"

// ---------------------------------------------------------------- requests

type reqSpec struct {
	Kind int // 0 proposal, 1 prevote, 2 precommit
	H, R int64
	Blk  int // 0 = A, 1 = B
	hrs  int
	sb   []byte // sign-bytes of the request (types.SignBytes on a fresh object)
	name string
}

var kindNames = []string{"proposal", "prevote", "precommit"}

const nReq = 24

var reqs [nReq]*reqSpec
var reqBySignBytes = map[string]int{}

func hrsOf(h, r int64, step int) int { return int(h)*10000 + int(r)*10 + step }

func hrsString(x int) string {
	st := x % 10
	n := "none"
	if st >= 1 && st <= 3 {
		n = kindNames[st-1]
	}
	return fmt.Sprintf("H%d/R%d/%s", x/10000, (x%10000)/10, n)
}

func blockID(blk int) types.BlockID {
	return types.BlockID{
		Hash:        bytes.Repeat([]byte{byte('A' + blk)}, 20),
		PartsHeader: types.PartSetHeader{Total: 1, Hash: bytes.Repeat([]byte{byte('a' + blk)}, 20)},
	}
}

func mkVote(r *reqSpec, addr []byte) *types.Vote {
	t := types.VoteTypePrevote
	if r.Kind == 2 {
		t = types.VoteTypePrecommit
	}
	return &types.Vote{ValidatorAddress: addr, ValidatorIndex: 0, Height: r.H, Round: r.R, Type: t, BlockID: blockID(r.Blk)}
}

func mkProposal(r *reqSpec) *types.Proposal {
	return types.NewProposal(r.H, r.R, blockID(r.Blk).PartsHeader, -1, types.BlockID{})
}

func initRequests() {
	i := 0
	for kind := 0; kind < 3; kind++ {
		for h := int64(1); h <= 2; h++ {
			for r := int64(0); r <= 1; r++ {
				for blk := 0; blk < 2; blk++ {
					q := &reqSpec{Kind: kind, H: h, R: r, Blk: blk, hrs: hrsOf(h, r, kind+1)}
					q.name = fmt.Sprintf("%s(H%d,R%d,%c)", kindNames[kind], h, r, 'A'+blk)
					if kind == 0 {
						q.sb = types.SignBytes(chainID, mkProposal(q))
					} else {
						q.sb = types.SignBytes(chainID, mkVote(q, nil))
					}
					if _, dup := reqBySignBytes[string(q.sb)]; dup {
						core.Fatal("two requests share sign-bytes: %s", q.name)
					}
					reqBySignBytes[string(q.sb)] = i
					reqs[i] = q
					i++
				}
			}
		}
	}
}

// ---------------------------------------------------------------- cases

// step: Fault ∈ none | crash@bak | crash@new | crash@rename | crash@done |
// fail@bak | fail@new | fail@rename | tear@<pattern> ; Restart = the idle
// process is killed and restarted after the request (implied by every crash
// and tear fault).
type step struct {
	Req     int    `json:"req"`
	Name    string `json:"request,omitempty"` // informational
	Fault   string `json:"fault"`
	Restart bool   `json:"restart_after,omitempty"`
}

type kase struct {
	InitFault string `json:"init_fault,omitempty"` // fault of the initial creation of the file ("" = none)
	Steps     []step `json:"steps"`
}

func (k kase) String() string {
	var b strings.Builder
	if k.InitFault != "" {
		fmt.Fprintf(&b, "[init %s; re-init] ", k.InitFault)
	}
	for i, s := range k.Steps {
		if i > 0 {
			b.WriteString(" ; ")
		}
		b.WriteString(reqs[s.Req].name)
		if s.Fault != "none" {
			b.WriteString(" " + s.Fault)
		}
		if s.Restart {
			b.WriteString(" +kill/restart")
		}
	}
	return b.String()
}

func histLess(a, b []step) bool {
	for i := 0; i < len(a) && i < len(b); i++ {
		if a[i] != b[i] {
			if a[i].Req != b[i].Req {
				return a[i].Req < b[i].Req
			}
			if a[i].Fault != b[i].Fault {
				return faultOrder[a[i].Fault] < faultOrder[b[i].Fault]
			}
			return !a[i].Restart
		}
	}
	return len(a) < len(b)
}

var faultOrder = map[string]int{"none": 0, "crash@bak": 1, "crash@new": 2, "crash@rename": 3, "crash@done": 4, "fail@bak": 5, "fail@new": 6, "fail@rename": 7,
	"tear@empty": 8, "tear@1byte": 9, "tear@half": 10, "tear@all-but-last": 11, "tear@flip-first": 12, "tear@flip-last": 13}

// tearPatterns: how the signer file is damaged by a tear fault.  Every pattern
// leaves a file that is not a JSON document (a flip inside a value that keeps
// the file parseable is silent corruption the format cannot detect; it is
// outside the property and not generated).
var tearPatterns = []string{"empty", "1byte", "half", "all-but-last", "flip-first", "flip-last"}

// torn applies a pattern to the content of the signer file.
func torn(b []byte, pattern string) []byte {
	n := len(b)
	switch pattern {
	case "empty":
		return []byte{}
	case "1byte":
		if n > 1 {
			n = 1
		}
		return append([]byte{}, b[:n]...)
	case "half":
		return append([]byte{}, b[:n/2]...)
	case "all-but-last":
		if n > 0 {
			n--
		}
		return append([]byte{}, b[:n]...)
	case "flip-first", "flip-last":
		o := append([]byte{}, b...)
		if n > 0 {
			i := 0
			if pattern == "flip-last" {
				i = n - 1
			}
			o[i] ^= 0xFF
		}
		return o
	}
	core.Fatal("unknown tear pattern %q", pattern)
	return nil
}

func faultPoint(f string) string {
	if i := strings.IndexByte(f, '@'); i >= 0 {
		return f[i+1:]
	}
	return ""
}

// allVariants: every (fault, restart) combination of one request (12 + one per tear pattern).
func allVariants(req int) []step {
	var out []step
	for _, f := range []string{"none", "fail@bak", "fail@new", "fail@rename"} {
		out = append(out, step{Req: req, Fault: f}, step{Req: req, Fault: f, Restart: true})
	}
	for _, f := range []string{"crash@bak", "crash@new", "crash@rename", "crash@done"} {
		out = append(out, step{Req: req, Fault: f})
	}
	for _, p := range tearPatterns {
		out = append(out, step{Req: req, Fault: "tear@" + p})
	}
	return out
}

// ---------------------------------------------------------------- workers and hook dispatch

// One worker = one directory = one simulated validator host.  The hook
// callbacks are process-global; they find the worker by the file path that is
// part of the site string ("WriteFileAtomic.<point>:<path>").  A worker's
// fields are only touched by the goroutine that currently owns the worker, and
// the callbacks run on the goroutine that called WriteFileAtomic — the same one.
type worker struct {
	id        int
	dir, path string
	probe     string // a file alone in a directory of its own: contents are summarised by loading them from here
	armCrash  string
	armFail   string
	points    []string
	fired     bool
	dead      bool
}

type crashSentinel struct{ point string }

var workersByPath map[string]*worker

func parseSite(site string) (pt, path string, ok bool) {
	const pre = "WriteFileAtomic."
	if !strings.HasPrefix(site, pre) {
		return
	}
	rest := site[len(pre):]
	i := strings.IndexByte(rest, ':')
	if i < 0 {
		return
	}
	return rest[:i], rest[i+1:], true
}

func onWrite(site string) {
	pt, path, ok := parseSite(site)
	if !ok {
		return
	}
	w := workersByPath[path]
	if w == nil {
		return
	}
	if w.dead {
		panic(crashSentinel{pt})
	}
	w.points = append(w.points, pt)
	if w.armCrash == pt {
		w.fired = true
		w.dead = true
		panic(crashSentinel{pt})
	}
}

func onFail(site string) error {
	pt, path, ok := parseSite(site)
	if !ok {
		return nil
	}
	w := workersByPath[path]
	if w == nil {
		return nil
	}
	if w.armFail == pt {
		w.fired = true
		return verifhook.ErrInjected
	}
	return nil
}

// ---------------------------------------------------------------- part (b): SCHED subprocess

type schedResult struct {
	out  []byte
	code int
	err  error
	sub  string
	bin  string
}

var schedDone chan *schedResult

// startSchedPart starts part (b), the controlled-scheduler exploration of
// concurrent callers of one signer object (props/c03sched, a separate binary
// because it is built with the import-rewriting overlay), in a private root.
// It runs next to part (a); joinSched merges its evidence and violations.
func startSchedPart(run *core.Run) {
	if only := os.Getenv("VERIF_C03_ONLY"); only != "" && only != "sched" {
		return
	}
	bin := schedBin()
	if alt := os.Getenv("VERIF_C03SCHED_BIN"); alt != "" {
		bin = alt
	}
	if _, err := os.Stat(bin); err != nil {
		core.Fatal("the SCHED binary %s is missing (props/c03/prebuild.sh builds it)", bin)
	}
	sub := filepath.Join(filepath.Dir(run.WorkDir()), "schedroot")
	os.RemoveAll(sub)
	os.MkdirAll(sub, 0755)
	if b, err := ioutil.ReadFile(filepath.Join(core.Root, "known_findings.txt")); err == nil {
		ioutil.WriteFile(filepath.Join(sub, "known_findings.txt"), b, 0644)
	}
	cmd := exec.Command(bin, run.Tier)
	cmd.Env = append(os.Environ(), "VERIF_ROOT="+sub, "VERIF_TIER="+run.Tier, "C03B_RACE_BIN="+filepath.Join(filepath.Dir(bin), "c03race"))
	schedDone = make(chan *schedResult, 1)
	go func() {
		r := &schedResult{sub: sub, bin: bin}
		r.out, r.err = cmd.CombinedOutput()
		if ee, ok := r.err.(*exec.ExitError); ok {
			r.code, r.err = ee.ExitCode(), nil
		}
		schedDone <- r
	}()
}

// joinSched waits for part (b) and merges it into this run.  Returns the
// assumptions of that part.
func joinSched(run *core.Run, cov core.Coverage) []string {
	if schedDone == nil {
		return nil
	}
	r := <-schedDone
	defer os.RemoveAll(r.sub)
	if r.err != nil {
		core.Fatal("cannot run the SCHED part (%s): %v", r.bin, r.err)
	}
	if r.code != 0 && r.code != 1 {
		tail := string(r.out)
		if len(tail) > 3000 {
			tail = tail[len(tail)-3000:]
		}
		core.Fatal("SCHED part failed with exit %d:\n%s", r.code, tail)
	}
	var ev struct {
		Coverage    map[string]interface{} `json:"coverage"`
		Assumptions []string               `json:"assumptions"`
	}
	if b, err := ioutil.ReadFile(filepath.Join(r.sub, "evidence", "C03.json")); err == nil {
		json.Unmarshal(b, &ev)
	}
	if ev.Coverage == nil {
		core.Fatal("SCHED part left no evidence (exit %d)", r.code)
	}
	cov["sched"] = ev.Coverage
	for _, k := range []string{"states", "transitions", "traces_validated_against_impl", "evaluations"} {
		a, ok1 := cov[k].(int)
		b, ok2 := ev.Coverage[k].(float64)
		if ok1 && ok2 {
			cov[k+"_part_a"] = a
			cov[k] = a + int(b)
		}
	}
	if ex, ok := ev.Coverage["exhaustive"].(bool); ok && !ex {
		cov["sched_exhaustive"] = false
		cov["exhaustive"] = false
		cov["cap"] = ev.Coverage["cap"]
	}
	for _, l := range strings.Split(string(r.out), "\n") {
		if strings.HasPrefix(l, "KNOWN-FINDING:") {
			fmt.Println(l)
		}
	}
	arts, _ := filepath.Glob(filepath.Join(r.sub, "replays", "C03", "*.json"))
	for _, a := range arts {
		b, err := ioutil.ReadFile(a)
		if err != nil {
			continue
		}
		var art struct {
			Sig    map[string]string `json:"sig"`
			Case   json.RawMessage   `json:"case"`
			Detail string            `json:"detail"`
		}
		if json.Unmarshal(b, &art) != nil {
			continue
		}
		if art.Sig == nil {
			art.Sig = map[string]string{}
		}
		art.Sig["part"] = "sched"
		run.Report(art.Sig, map[string]interface{}{"engine": "SCHED", "sched_case": art.Case}, art.Detail)
	}
	if r.code == 1 && len(arts) == 0 {
		core.Fatal("SCHED part reported a violation but left no artefact")
	}
	if os.Getenv("VERIF_MUT_ROOT") != "" && os.Getenv("VERIF_C03SCHED_BIN") == "" && os.Getenv("SEED_KEEP") == "" && strings.HasPrefix(filepath.Base(filepath.Dir(r.bin)), "c03sched-mut-") {
		// single-use build of a seeded run (kept with SEED_KEEP=1 so that its artefacts can be replayed)
		os.RemoveAll(filepath.Dir(r.bin))
	}
	return ev.Assumptions
}

// replaySched hands a SCHED artefact to the SCHED binary.
func replaySched(run *core.Run) bool {
	b, err := ioutil.ReadFile(run.ReplayPath)
	if err != nil {
		return false
	}
	var art struct {
		Case struct {
			Engine    string          `json:"engine"`
			SchedCase json.RawMessage `json:"sched_case"`
		} `json:"case"`
		Sig    map[string]string `json:"sig"`
		Detail string            `json:"detail"`
	}
	if json.Unmarshal(b, &art) != nil || art.Case.Engine != "SCHED" {
		return false
	}
	os.MkdirAll(run.WorkDir(), 0755)
	tmp := filepath.Join(run.WorkDir(), "sched-replay.json")
	nb, _ := json.Marshal(map[string]interface{}{"property": "C03", "engine": "SCHED", "sig": art.Sig, "case": art.Case.SchedCase, "detail": art.Detail})
	ioutil.WriteFile(tmp, nb, 0644)
	bin := schedBin()
	cmd := exec.Command(bin, "replay", tmp)
	cmd.Stdout, cmd.Stderr = os.Stdout, os.Stderr
	err = cmd.Run()
	if ee, ok := err.(*exec.ExitError); ok {
		os.Exit(ee.ExitCode())
	}
	os.Exit(0)
	return true
}

// schedBin locates the SCHED binary that props/c03/prebuild.sh built: below
// the .work directory this binary itself lives in (VERIF_ROOT may be a private
// root), in a directory of its own for seeded runs (VERIF_MUT_ROOT).
func schedBin() string {
	work := filepath.Join("/verif", ".work")
	if self, err := os.Executable(); err == nil {
		if d := filepath.Dir(filepath.Dir(self)); filepath.Base(d) == ".work" {
			work = d
		}
	}
	dir := "c03sched"
	if m := os.Getenv("VERIF_MUT_ROOT"); m != "" {
		dir += "-mut-" + filepath.Base(m)
	}
	return filepath.Join(work, dir, "bin-for-c03")
}
