// C03 — no equivocation across restarts.  Explicit-state crash / write-fault
// exploration of the REAL gemmill/types.PrivValidator with its file on disk
// (DESIGN §5 C03, §4.2 crash variant, §6.4 crash model).
//
// A case is an initial-creation fault (optional) plus a sequence of steps; a
// step is one signing request (proposal|prevote|precommit × H∈{1,2} × R∈{0,1}
// × block∈{A,B}) together with at most one fault of the durable write it
// triggers: simulated process death immediately before one of the three file
// operations of WriteFileAtomic (or after the last one, before the signature
// is handed out), or an injected error of one of them, and optionally a kill
// of the idle process after the request.  After a death the in-memory signer is
// thrown away and types.LoadPrivValidator (what gemmill/angine.go does at node
// start) builds the next one from the files that are on disk.
//
// Oracle (written from the property, not from the code): ledger of released
// signatures; (1) no two different sign-bytes for one (height, round, step);
// (2) no release below an earlier released (height, round, step) unless it is
// the identical message again; (3) at the moment a signature leaves the signer
// the file on disk forbids contradicting it; (4) a restart after any crash
// point loads without error or panic.
package main

import (
	"bytes"
	"fmt"
	"strings"

	"verif/core"

	"github.com/dappledger/AnnChain/gemmill/types"
	"github.com/dappledger/AnnChain/utils/verifhook"
)

const chainID = "c03-chain"
const siteSigner = "PrivValidator.signBytesHRS"

// ---------------------------------------------------------------- requests

type reqSpec struct {
	Kind int // 0 proposal, 1 prevote, 2 precommit
	H, R int64
	Blk  int // 0 = A, 1 = B
	hrs  int
	sb   []byte // sign-bytes of the request (types.SignBytes on a fresh object)
	name string
}

var kindNames = []string{"proposal", "prevote", "precommit"}

const nReq = 24

var reqs [nReq]*reqSpec
var reqBySignBytes = map[string]int{}

func hrsOf(h, r int64, step int) int { return int(h)*10000 + int(r)*10 + step }

func hrsString(x int) string {
	st := x % 10
	n := "none"
	if st >= 1 && st <= 3 {
		n = kindNames[st-1]
	}
	return fmt.Sprintf("H%d/R%d/%s", x/10000, (x%10000)/10, n)
}

func blockID(blk int) types.BlockID {
	return types.BlockID{
		Hash:        bytes.Repeat([]byte{byte('A' + blk)}, 20),
		PartsHeader: types.PartSetHeader{Total: 1, Hash: bytes.Repeat([]byte{byte('a' + blk)}, 20)},
	}
}

func mkVote(r *reqSpec, addr []byte) *types.Vote {
	t := types.VoteTypePrevote
	if r.Kind == 2 {
		t = types.VoteTypePrecommit
	}
	return &types.Vote{ValidatorAddress: addr, ValidatorIndex: 0, Height: r.H, Round: r.R, Type: t, BlockID: blockID(r.Blk)}
}

func mkProposal(r *reqSpec) *types.Proposal {
	return types.NewProposal(r.H, r.R, blockID(r.Blk).PartsHeader, -1, types.BlockID{})
}

func initRequests() {
	i := 0
	for kind := 0; kind < 3; kind++ {
		for h := int64(1); h <= 2; h++ {
			for r := int64(0); r <= 1; r++ {
				for blk := 0; blk < 2; blk++ {
					q := &reqSpec{Kind: kind, H: h, R: r, Blk: blk, hrs: hrsOf(h, r, kind+1)}
					q.name = fmt.Sprintf("%s(H%d,R%d,%c)", kindNames[kind], h, r, 'A'+blk)
					if kind == 0 {
						q.sb = types.SignBytes(chainID, mkProposal(q))
					} else {
						q.sb = types.SignBytes(chainID, mkVote(q, nil))
					}
					if _, dup := reqBySignBytes[string(q.sb)]; dup {
						core.Fatal("two requests share sign-bytes: %s", q.name)
					}
					reqBySignBytes[string(q.sb)] = i
					reqs[i] = q
					i++
				}
			}
		}
	}
}

// ---------------------------------------------------------------- cases

// step: Fault ∈ none | crash@bak | crash@new | crash@rename | crash@done |
// fail@bak | fail@new | fail@rename ; Restart = the idle process is killed and
// restarted after the request (implied by every crash fault).
type step struct {
	Req     int    `json:"req"`
	Name    string `json:"request,omitempty"` // informational
	Fault   string `json:"fault"`
	Restart bool   `json:"restart_after,omitempty"`
}

type kase struct {
	InitFault string `json:"init_fault,omitempty"` // fault of the initial creation of the file ("" = none)
	Steps     []step `json:"steps"`
}

func (k kase) String() string {
	var b strings.Builder
	if k.InitFault != "" {
		fmt.Fprintf(&b, "[init %s; re-init] ", k.InitFault)
	}
	for i, s := range k.Steps {
		if i > 0 {
			b.WriteString(" ; ")
		}
		b.WriteString(reqs[s.Req].name)
		if s.Fault != "none" {
			b.WriteString(" " + s.Fault)
		}
		if s.Restart {
			b.WriteString(" +kill/restart")
		}
	}
	return b.String()
}

func histLess(a, b []step) bool {
	for i := 0; i < len(a) && i < len(b); i++ {
		if a[i] != b[i] {
			if a[i].Req != b[i].Req {
				return a[i].Req < b[i].Req
			}
			if a[i].Fault != b[i].Fault {
				return faultOrder[a[i].Fault] < faultOrder[b[i].Fault]
			}
			return !a[i].Restart
		}
	}
	return len(a) < len(b)
}

var faultOrder = map[string]int{"none": 0, "crash@bak": 1, "crash@new": 2, "crash@rename": 3, "crash@done": 4, "fail@bak": 5, "fail@new": 6, "fail@rename": 7}

func faultPoint(f string) string {
	if i := strings.IndexByte(f, '@'); i >= 0 {
		return f[i+1:]
	}
	return ""
}

// allVariants: every (fault, restart) combination of one request (12).
func allVariants(req int) []step {
	var out []step
	for _, f := range []string{"none", "fail@bak", "fail@new", "fail@rename"} {
		out = append(out, step{Req: req, Fault: f}, step{Req: req, Fault: f, Restart: true})
	}
	for _, f := range []string{"crash@bak", "crash@new", "crash@rename", "crash@done"} {
		out = append(out, step{Req: req, Fault: f})
	}
	return out
}

// ---------------------------------------------------------------- workers and hook dispatch

// One worker = one directory = one simulated validator host.  The hook
// callbacks are process-global; they find the worker by the file path that is
// part of the site string ("WriteFileAtomic.<point>:<path>").  A worker's
// fields are only touched by the goroutine that currently owns the worker, and
// the callbacks run on the goroutine that called WriteFileAtomic — the same one.
type worker struct {
	id        int
	dir, path string
	armCrash  string
	armFail   string
	points    []string
	fired     bool
	dead      bool
}

type crashSentinel struct{ point string }

var workersByPath map[string]*worker

func parseSite(site string) (pt, path string, ok bool) {
	const pre = "WriteFileAtomic."
	if !strings.HasPrefix(site, pre) {
		return
	}
	rest := site[len(pre):]
	i := strings.IndexByte(rest, ':')
	if i < 0 {
		return
	}
	return rest[:i], rest[i+1:], true
}

func onWrite(site string) {
	pt, path, ok := parseSite(site)
	if !ok {
		return
	}
	w := workersByPath[path]
	if w == nil {
		return
	}
	if w.dead {
		panic(crashSentinel{pt})
	}
	w.points = append(w.points, pt)
	if w.armCrash == pt {
		w.fired = true
		w.dead = true
		panic(crashSentinel{pt})
	}
}

func onFail(site string) error {
	pt, path, ok := parseSite(site)
	if !ok {
		return nil
	}
	w := workersByPath[path]
	if w == nil {
		return nil
	}
	if w.armFail == pt {
		w.fired = true
		return verifhook.ErrInjected
	}
	return nil
}
