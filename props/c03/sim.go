package main

// One simulated validator host: the real PrivValidator, its directory, the
// ledger of released signatures and the oracle on that ledger.

import (
	"bytes"
	"fmt"
	"io/ioutil"
	"os"
	"path/filepath"
	"reflect"
	"sort"
	"strings"
	"sync"
	"sync/atomic"

	"verif/core"

	crypto "github.com/dappledger/AnnChain/gemmill/go-crypto"
	"github.com/dappledger/AnnChain/gemmill/types"
)

// durability mark of a released signature
const (
	ndDurable  = 0 // the file on disk forbade contradicting it when it left
	ndWriteErr = 1
	ndDeath    = 2
	ndNone     = 3
	ndTorn     = 4 // label of logic violations only: the history contains a torn signer file
)

var ndNames = []string{"durable", "write-error", "process-death", "none", "torn-file"}

type entry struct {
	HRS int
	Req int
	ND  int
}

type viol struct {
	Sig    map[string]string
	Detail string
}

// obs is everything one step shows of the implementation; it does not depend
// on the ledger.
type obs struct {
	class        string
	points       []string
	vacuous      bool // the armed fault was never reached: identical to the same step without it
	refused      bool
	released     bool // a valid signature for the request left the signer
	atDeath      bool // ... it was in the caller's object when the process died
	failFired    bool
	diedInCall   bool
	restartAfter bool
	tornRestart  bool // the host crashed after the request, the signer file was left torn, the node was started again
	durable      bool
	why          string
	terminal     []viol // panic / failed restart: the host cannot continue
}

type sim struct {
	c         *ctx
	w         *worker
	pv        *types.PrivValidator
	ledger    []entry
	usedDeath bool
	usedFail  bool
	usedTear  bool
	stopped   bool
	log       []string

	dirView    map[string][]byte // content of the directory as last read (nil = unknown)
	trustHooks bool              // a call that reached no write point leaves dirView valid
}

var fixedKey = crypto.GenPrivKeyEd25519FromSecret([]byte("c03 fixed validator key"))
var fixedPub = fixedKey.PubKey()

func listDir(dir string) []string {
	f, err := os.Open(dir)
	if err != nil {
		core.Fatal("read dir: %v", err)
	}
	names, err := f.Readdirnames(-1)
	f.Close()
	if err != nil {
		core.Fatal("read dir: %v", err)
	}
	sort.Strings(names)
	return names
}

func (s *sim) cleanDir() {
	s.dirView = nil
	for _, n := range listDir(s.w.dir) {
		os.RemoveAll(filepath.Join(s.w.dir, n))
	}
}

// createFile is what `init` does (gemmill/config genPrivFile): Gen + SetFile + Save.
func (s *sim) createFile(fault string) (err error) {
	w := s.w
	s.dirView = nil
	w.points, w.fired, w.dead = w.points[:0], false, false
	if strings.HasPrefix(fault, "crash@") {
		w.armCrash = faultPoint(fault)
	} else if strings.HasPrefix(fault, "fail@") {
		w.armFail = faultPoint(fault)
	}
	p, val, st := core.Try(func() {
		pv, e := types.GenPrivValidator(crypto.CryptoTypeZhongAn, fixedKey)
		if e != nil {
			core.Fatal("GenPrivValidator: %v", e)
		}
		pv.SetFile(w.path)
		err = pv.Save()
	})
	w.armCrash, w.armFail = "", ""
	if p {
		if _, ok := val.(crashSentinel); !ok {
			core.Fatal("initial creation panicked: %v\n%s", core.FirstLine(val), st)
		}
	}
	if fault != "" && !w.fired {
		core.Fatal("initial-creation fault %s was not reached (hooks moved?)", fault)
	}
	w.dead = false
	return
}

// reset builds the start state of a case.
func (s *sim) reset(initFault string) []viol {
	s.cleanDir()
	s.pv, s.ledger, s.usedDeath, s.usedFail, s.usedTear, s.stopped, s.log = nil, nil, false, false, false, false, nil
	if initFault != "" {
		s.createFile(initFault)
		// The node is started on whatever is there.  Nothing has ever been signed,
		// so refusing to start is fine; a panic is not.
		var lerr error
		p, val, st := core.Try(func() { _, lerr = types.LoadPrivValidator(s.w.path) })
		if p {
			s.stopped = true
			return []viol{{Sig: map[string]string{"site": core.PanicSite(st), "kind": "restart-panics", "fault": "process-death", "after": "init-" + initFault},
				Detail: fmt.Sprintf("LoadPrivValidator panicked after initial creation with %s: %v", initFault, core.FirstLine(val))}}
		}
		s.logf("initial creation with %s; node start: load error=%v; creation re-run", initFault, lerr != nil)
	}
	if err := s.createFile(""); err != nil {
		core.Fatal("initial creation failed: %v", err)
	}
	if v := s.restart("start"); v != nil {
		core.Fatal("cannot load a freshly created signer file: %s", v.Detail)
	}
	return nil
}

func (s *sim) logf(f string, a ...interface{}) { s.log = append(s.log, fmt.Sprintf(f, a...)) }

// restart = node start: LoadPrivValidator of the file (gemmill/angine.go).
func (s *sim) restart(after string) *viol {
	s.pv = nil
	var pv *types.PrivValidator
	var err error
	p, val, st := core.Try(func() { pv, err = types.LoadPrivValidator(s.w.path) })
	if p {
		return &viol{Sig: map[string]string{"site": core.PanicSite(st), "kind": "restart-panics", "fault": "process-death", "after": after},
			Detail: fmt.Sprintf("LoadPrivValidator panicked on restart after %s: %v", after, core.FirstLine(val))}
	}
	if err != nil || pv == nil {
		return &viol{Sig: map[string]string{"site": "types.LoadPrivValidator", "kind": "restart-fails", "fault": "process-death", "after": after},
			Detail: fmt.Sprintf("LoadPrivValidator failed on restart after %s: %v", after, err)}
	}
	s.pv = pv
	return nil
}

func isFilled(sig crypto.Signature) bool {
	if sig == nil {
		return false
	}
	v := reflect.ValueOf(sig)
	switch v.Kind() {
	case reflect.Ptr, reflect.Slice, reflect.Map, reflect.Interface:
		if v.IsNil() {
			return false
		}
	}
	return len(sig.Bytes()) > 0
}

func hrsOfPV(pv *types.PrivValidator) int {
	return hrsOf(pv.LastHeight, pv.LastRound, int(pv.LastStep))
}

// durable: does the file on disk forbid contradicting a signature over r.sb at r.hrs?
func (s *sim) durable(r *reqSpec) (bool, string) {
	var d *types.PrivValidator
	var err error
	if p, val, _ := core.Try(func() { d, err = types.LoadPrivValidator(s.w.path) }); p {
		return false, fmt.Sprintf("the file on disk makes LoadPrivValidator panic: %v", core.FirstLine(val))
	}
	if err != nil || d == nil {
		return false, fmt.Sprintf("the file on disk cannot be loaded: %v", err)
	}
	dh := hrsOfPV(d)
	if dh > r.hrs || (dh == r.hrs && bytes.Equal(d.LastSignBytes, r.sb)) {
		return true, ""
	}
	what := "other sign-bytes"
	if dh < r.hrs {
		what = "an older watermark"
	}
	return false, fmt.Sprintf("the file on disk holds %s (%s, bytes of %s)", what, hrsString(dh), s.c.bytesName(d.LastSignBytes))
}

func faultLabel(usedFail, usedTear, usedDeath bool) int {
	switch {
	case usedFail:
		return ndWriteErr
	case usedTear:
		return ndTorn
	case usedDeath:
		return ndDeath
	}
	return ndNone
}

func (s *sim) relation(r *reqSpec) string {
	m := hrsOfPV(s.pv)
	switch {
	case r.hrs > m:
		return "above"
	case r.hrs < m:
		return "below"
	case bytes.Equal(s.pv.LastSignBytes, r.sb):
		return "same-hrs-same-bytes"
	}
	return "same-hrs-other-bytes"
}

// callRes is what one call of SignVote/SignProposal (with at most one armed
// fault) showed, before anything is decided about what happens afterwards.
type callRes struct {
	req      int
	armed    string // "none", "crash@<p>", "fail@<p>"
	rel      string
	err      error
	panicV   *viol
	died     bool // the armed process death fired
	fired    bool
	filled   bool
	valid    bool
	points   []string
	durKnown bool
	durable  bool
	why      string
	// the signer file was no signer record already when the request was made (only a tear fault earlier in
	// the history leaves such a file): refusing to start after this step is the safe answer, not a finding
	tornBefore bool
}

// call runs the signing request once on the real signer.
func (s *sim) call(req int, armed string) *callRes {
	if s.stopped {
		core.Fatal("step on a stopped simulation")
	}
	atomic.AddInt64(&s.c.stepsRun, 1)
	r := reqs[req]
	w := s.w
	cr := &callRes{req: req, armed: armed, rel: s.relation(r), tornBefore: s.mainTorn()}
	var call func() error
	var sigOf func() crypto.Signature
	if r.Kind == 0 {
		p := mkProposal(r)
		call = func() error { return s.pv.SignProposal(chainID, p) }
		sigOf = func() crypto.Signature { return p.Signature }
	} else {
		v := mkVote(r, s.pv.Address)
		call = func() error { return s.pv.SignVote(chainID, v) }
		sigOf = func() crypto.Signature { return v.Signature }
	}
	w.points, w.fired, w.dead = w.points[:0], false, false
	if strings.HasPrefix(armed, "crash@") {
		w.armCrash = faultPoint(armed)
	} else if strings.HasPrefix(armed, "fail@") {
		w.armFail = faultPoint(armed)
	}
	panicked, val, stack := core.Try(func() { cr.err = call() })
	w.armCrash, w.armFail = "", ""
	cr.points = append([]string{}, w.points...)
	cr.fired = w.fired
	if !(s.trustHooks && len(cr.points) == 0) {
		s.dirView = nil
	}
	if panicked {
		if _, ok := val.(crashSentinel); !ok {
			cr.panicV = &viol{Sig: map[string]string{"site": core.PanicSite(stack), "kind": "panic", "fault": armed},
				Detail: fmt.Sprintf("signing %s panicked: %v", r.name, core.FirstLine(val))}
			s.stopped = true
			w.dead = false
			return cr
		}
		cr.died = true
	} else if w.dead {
		core.Fatal("the simulated process death was swallowed by the code under test (recover?)")
	}
	w.dead = false
	sig := sigOf()
	cr.filled = isFilled(sig)
	cr.valid = cr.filled && fixedPub.VerifyBytes(r.sb, sig)
	return cr
}

// finish decides the step st on top of a call that was made with st's armed
// fault: who got the signature, whether the process is restarted, and what the
// restart loads.  Several steps that differ only in what happens after the call
// may be finished on one call, the ones without restart first.
func (s *sim) finish(cr *callRes, st step) (o obs) {
	r := reqs[cr.req]
	pt := faultPoint(st.Fault)
	isCrash := strings.HasPrefix(st.Fault, "crash@")
	isFail := strings.HasPrefix(st.Fault, "fail@")
	isTear := strings.HasPrefix(st.Fault, "tear@")
	want := st.Fault
	if isCrash && pt == "done" || isTear {
		want = "none"
	}
	if want != cr.armed || st.Req != cr.req {
		core.Fatal("finish: step %v on a call armed with %s", st, cr.armed)
	}
	o.points = cr.points
	if cr.panicV != nil {
		o.terminal = append(o.terminal, *cr.panicV)
		o.class = fmt.Sprintf("%s/%s/%s/panic", kindNames[r.Kind], cr.rel, st.Fault)
		return
	}
	o.diedInCall = cr.died
	if (isCrash && pt != "done" || isFail) && !cr.fired {
		o.vacuous = true
	}
	o.failFired = isFail && cr.fired
	outcome := ""
	switch {
	case cr.died:
		outcome = "died@" + pt
		if cr.valid {
			outcome += "+signature-already-in-callers-object"
			o.released, o.atDeath = true, true
		}
	case cr.err != nil:
		outcome = "refused"
		o.refused = true
		if cr.filled {
			outcome = "refused-but-signature-field-filled"
		}
		if o.failFired {
			outcome += "(write-error-reported)"
		}
	case !cr.filled:
		outcome = "nil-error-no-signature"
	case !cr.valid:
		outcome = "returned-signature-not-valid-for-request"
	case isCrash && pt == "done":
		// death after the last file operation, before the signature is handed out
		outcome = "died@done"
		if len(cr.points) == 0 {
			outcome += "(no-write)"
		}
		o.diedInCall = true
	default:
		outcome = "released"
		if o.failFired {
			outcome = "released(write-error-swallowed)"
		}
		o.released = true
	}
	if isCrash && pt == "done" && !o.diedInCall {
		// nothing was about to leave: death here is a kill of the idle process
		o.diedInCall = true
		if o.refused {
			o.vacuous = true
		}
	}
	if o.released {
		if !cr.durKnown {
			cr.durable, cr.why = s.durable(r)
			cr.durKnown = true
		}
		o.durable, o.why = cr.durable, cr.why
		if !o.durable {
			outcome += "[no-durable-record]"
		}
	}
	s.logf("%s %s -> %s (err=%v, write points hit: %v)", r.name, st.Fault, outcome, cr.err, cr.points)
	if isTear {
		// the request has completed; the host crashes, the signer file is left torn, the node is started again
		o.tornRestart = true
		s.tear(pt)
		if v := s.restart(st.Fault); v != nil {
			// refusing to start (error or panic) on a damaged file is the safe answer: nothing more is signed
			outcome += "/refuses-to-start"
			s.stopped = true
			s.logf("  host crash, signer file torn (%s); restart: %s", pt, v.Sig["kind"])
		} else {
			outcome += "/started-on-torn-file"
			s.logf("  host crash, signer file torn (%s); restart: loaded %s", pt, s.c.tuple(s.pv))
		}
	}
	if o.diedInCall || st.Restart {
		o.restartAfter = !o.diedInCall
		after := st.Fault
		if !o.diedInCall {
			after = "idle-kill"
		}
		if v := s.restart(after); v != nil {
			if cr.tornBefore {
				outcome += "/refuses-to-start(signer file was torn before)"
			} else {
				o.terminal = append(o.terminal, *v)
				outcome += "/restart-failed"
			}
			s.stopped = true
		} else {
			outcome += "/restarted"
			s.logf("  restart: loaded %s", s.c.tuple(s.pv))
		}
	}
	o.class = fmt.Sprintf("%s/%s/%s/%s", kindNames[r.Kind], cr.rel, st.Fault, outcome)
	return
}

func armedOf(fault string) string {
	if fault == "crash@done" || strings.HasPrefix(fault, "tear@") {
		return "none"
	}
	return fault
}

// exec performs one step on the real signer and reports what happened.
func (s *sim) exec(st step) obs {
	return s.finish(s.call(st.Req, armedOf(st.Fault)), st)
}

func mkSig(kind string, fault int, consequence string) map[string]string {
	return map[string]string{"site": siteSigner, "kind": kind, "fault": ndNames[fault], "consequence": consequence}
}

// judge applies the oracle to one step's observation (full ledger).
func (s *sim) judge(ri int, o obs) []viol {
	vs := append([]viol{}, o.terminal...)
	if o.failFired {
		s.usedFail = true
	}
	if o.diedInCall {
		s.usedDeath = true
	}
	if o.released {
		r := reqs[ri]
		how := "the call returned nil"
		if o.atDeath {
			how = "it was already in the caller's vote/proposal when the process died"
		}
		// (3) durable before it leaves
		nd := ndDurable
		if !o.durable {
			switch {
			case o.failFired:
				nd = ndWriteErr
			case o.atDeath:
				nd = ndDeath
			default:
				// no fault in this step: either the signer's memory ran ahead of the file because an
				// earlier write error was swallowed, or the logic itself releases without a record
				// (a process death cannot make memory and file diverge: the memory is discarded)
				nd = faultLabel(s.usedFail, false, false)
			}
			vs = append(vs, viol{Sig: mkSig("released-without-durable-record", nd, "none"),
				Detail: fmt.Sprintf("signature for %s left the signer (%s) but %s", r.name, how, o.why)})
		}
		identical := -1
		for i, e := range s.ledger {
			if e.HRS == r.hrs && e.Req == ri {
				identical = i
			}
		}
		// (1) two different sign-bytes for one height/round/step
		for _, e := range s.ledger {
			if e.HRS == r.hrs && e.Req != ri {
				if e.ND != ndDurable {
					vs = append(vs, viol{Sig: mkSig("released-without-durable-record", e.ND, "conflicting-signatures"),
						Detail: fmt.Sprintf("conflicting signatures released for %s: earlier %s (left without a durable record: %s), now %s", hrsString(r.hrs), reqs[e.Req].name, ndNames[e.ND], r.name)})
				} else {
					vs = append(vs, viol{Sig: mkSig("conflicting-signatures", faultLabel(s.usedFail, s.usedTear, s.usedDeath), "none"),
						Detail: fmt.Sprintf("conflicting signatures released for %s: earlier %s (durably recorded), now %s", hrsString(r.hrs), reqs[e.Req].name, r.name)})
				}
				break
			}
		}
		// (2) regression below an earlier release (the identical message again is allowed)
		if identical < 0 {
			max, first, anyDurable := -1, -1, false
			for _, e := range s.ledger {
				if e.HRS > r.hrs && e.HRS > max {
					max = e.HRS
				}
			}
			for i, e := range s.ledger {
				if e.HRS == max {
					if first < 0 {
						first = i
					}
					if e.ND == ndDurable {
						anyDurable = true
					}
				}
			}
			if max >= 0 {
				e := s.ledger[first]
				if !anyDurable {
					vs = append(vs, viol{Sig: mkSig("released-without-durable-record", e.ND, "hrs-regression"),
						Detail: fmt.Sprintf("signed %s after having released %s (which left without a durable record: %s)", r.name, hrsString(max), ndNames[e.ND])})
				} else {
					vs = append(vs, viol{Sig: mkSig("hrs-regression", faultLabel(s.usedFail, s.usedTear, s.usedDeath), "none"),
						Detail: fmt.Sprintf("signed %s after having released %s (durably recorded)", r.name, hrsString(max))})
				}
			}
			s.ledger = append(s.ledger, entry{HRS: r.hrs, Req: ri, ND: nd})
		} else if nd == ndDurable {
			s.ledger[identical].ND = ndDurable
		}
	}
	if o.restartAfter {
		s.usedDeath = true
	}
	if o.tornRestart {
		s.usedTear = true
	}
	return vs
}

// mainTorn: is the signer file on disk no signer record (judged by its content alone)?
func (s *sim) mainTorn() bool {
	base := filepath.Base(s.w.path)
	var b []byte
	if s.dirView != nil {
		c, ok := s.dirView[base]
		if !ok {
			return false
		}
		b = c
	} else {
		c, err := ioutil.ReadFile(s.w.path)
		if err != nil {
			return false // missing: not torn (creation faults have their own oracle)
		}
		b = c
	}
	return !s.c.fileInfo(s.w.probe, map[string][]byte{base: b}, base).ok
}

// tear damages the signer file itself (leftovers untouched).  A file that is
// no signer record already stays as it is (damaging the damage again could
// undo it: two flips).
func (s *sim) tear(pattern string) {
	b, err := ioutil.ReadFile(s.w.path)
	if err != nil {
		core.Fatal("tear: %v", err)
	}
	if s.mainTorn() {
		return
	}
	if err := ioutil.WriteFile(s.w.path, torn(b, pattern), 0600); err != nil {
		core.Fatal("tear: %v", err)
	}
	s.dirView = nil
}

func (s *sim) step(st step) (obs, []viol) {
	o := s.exec(st)
	return o, s.judge(st.Req, o)
}

// ---------------------------------------------------------------- canonical implementation state

type ctx struct {
	run        *core.Run
	pool       chan *worker
	execs      int64
	stepsRun   int64
	selfChecks int64
	classes    *core.Counter
	samples    *core.Sampler
	tableSigs  [nReq][]byte
}

func (c *ctx) bytesName(b []byte) string {
	if b == nil {
		return "nil"
	}
	if len(b) == 0 {
		return "empty"
	}
	if i, ok := reqBySignBytes[string(b)]; ok {
		return reqs[i].name
	}
	return "x" + core.Hash(string(b))
}

func (c *ctx) tuple(pv *types.PrivValidator) string {
	sn := "nil"
	if isFilled(pv.LastSignature) {
		sb := pv.LastSignature.Bytes()
		if i, ok := reqBySignBytes[string(pv.LastSignBytes)]; ok && bytes.Equal(sb, c.tableSigs[i]) {
			sn = "ok"
		} else if pv.PubKey != nil && pv.PubKey.VerifyBytes(pv.LastSignBytes, pv.LastSignature) {
			sn = "valid"
		} else {
			sn = "invalid"
		}
	}
	id := "id-ok"
	if pv.PrivKey == nil || !fixedKey.Equals(pv.PrivKey) {
		id = "id-changed"
	}
	return fmt.Sprintf("%s:%s:sig-%s:%s", hrsString(hrsOfPV(pv)), c.bytesName(pv.LastSignBytes), sn, id)
}

func (c *ctx) loadFile(path string) *types.PrivValidator {
	var d *types.PrivValidator
	var err error
	p, _, _ := core.Try(func() { d, err = types.LoadPrivValidator(path) })
	if p || err != nil {
		return nil
	}
	return d
}

// key is the canonical state of the implementation: the in-memory watermark,
// sign-bytes and signature of the signer; the same for the signer file; and
// for each leftover file (.bak, .new) whether it exists and how its content
// relates to the signer file (equal / older watermark / newer watermark / same
// watermark other bytes / unloadable) — when the signer file is no signer
// record (torn), only that fact, .bak by its own content and .new relative to
// .bak; any other file by name and content hash.  Argument for equal futures: the next behaviour of the signer is a
// function of its fields, and of the files only through what a load reads; the
// leftovers are overwritten before they are used.  The claim is checked, not
// assumed: a second history reaching the same key is expanded too and every
// successor observation compared (merge oracle), and the un-deduplicated
// enumeration at the smaller length must reach exactly the same keys.
func (s *sim) key() string { return "mem=" + s.c.tuple(s.pv) + s.filesKey() }

// filesKey is the part of the key that describes the directory.
func (s *sim) filesKey() string {
	var b strings.Builder
	base := filepath.Base(s.w.path)
	dir := s.view()
	main := s.c.fileInfo(s.w.probe, dir, base)
	switch {
	case main.missing:
		b.WriteString(" | file=missing")
	case !main.ok:
		// not a signer record: which bytes exactly it holds is not part of the key (a torn file of any
		// pattern is the same state); the merge oracle checks that claim like every other one
		b.WriteString(" | file=unloadable")
	default:
		b.WriteString(" | file=" + main.tuple)
	}
	names := make([]string, 0, len(dir))
	for n := range dir {
		names = append(names, n)
	}
	sort.Strings(names)
	// leftovers are described relative to the signer file; when that is no signer record, .bak is described
	// by its own content and .new relative to .bak
	ref, refName, refIs := main, "file", ""
	if !main.ok {
		if bk := s.c.fileInfo(s.w.probe, dir, base+".bak"); bk.ok {
			ref, refName, refIs = bk, "bak", base+".bak"
		}
	}
	for _, n := range names {
		switch n {
		case base:
		case base + ".bak", base + ".new":
			d := s.c.fileInfo(s.w.probe, dir, n)
			rel := "unloadable"
			switch {
			case !d.ok:
			case !ref.ok || n == refIs:
				rel = d.tuple
			case d.tuple == ref.tuple:
				rel = "equal-to-" + refName
			case d.hrs < ref.hrs:
				rel = "older-than-" + refName
			case d.hrs > ref.hrs:
				rel = "newer-than-" + refName
			default:
				rel = "same-watermark-other-content"
			}
			b.WriteString(" | " + strings.TrimPrefix(n, base) + "=" + rel)
		default:
			b.WriteString(" | extra:" + n + "=" + core.Hash(string(dir[n])))
		}
	}
	return b.String()
}

// view returns the content of the host's directory.  It is read from disk
// unless nothing can have changed since the last read: the view is dropped by
// every call of the signer (in the search, where the start-up check has shown
// that the hooks cover the signer's writes: by every call that reached a write
// point) and by every (re)creation of the file.
func (s *sim) view() map[string][]byte {
	if s.dirView == nil {
		v := map[string][]byte{}
		for _, n := range listDir(s.w.dir) {
			b, err := ioutil.ReadFile(filepath.Join(s.w.dir, n))
			if err != nil {
				core.Fatal("read %s: %v", n, err)
			}
			v[n] = b
		}
		s.dirView = v
	}
	return s.dirView
}

// fileInfo summarises a signer file for the canonical key; the summary of a
// given content is computed once (by really loading it) and remembered.
type finfo struct {
	missing, ok bool
	tuple, hash string
	hrs         int
}

var finfoCache sync.Map // content -> finfo

func (c *ctx) fileInfo(path string, dir map[string][]byte, name string) finfo {
	content, present := dir[name]
	if !present {
		return finfo{missing: true}
	}
	if v, ok := finfoCache.Load(string(content)); ok {
		return v.(finfo)
	}
	// The summary describes this content alone: it is loaded from a directory that holds nothing else,
	// so that whatever a loader may do with neighbouring files (.bak, .new) cannot leak into it.
	fi := finfo{}
	if err := ioutil.WriteFile(path, content, 0600); err != nil {
		core.Fatal("probe file: %v", err)
	}
	if d := c.loadFile(path); d != nil {
		fi.ok, fi.tuple, fi.hrs = true, c.tuple(d), hrsOfPV(d)
	} else {
		fi.hash = core.Hash(string(content))
	}
	finfoCache.Store(string(content), fi)
	return fi
}

func (s *sim) ledgerString() string {
	led := make([]string, 0, len(s.ledger))
	for _, e := range s.ledger {
		led = append(led, reqs[e.Req].name+":"+ndNames[e.ND])
	}
	sort.Strings(led)
	return strings.Join(led, ",")
}

// checkpoint / restore of the host: all files of the directory and every
// mutable field of the in-memory signer (all of them are exported).  Exactness
// is checked against from-scratch replays (self-checks, confirmation of every
// counterexample) and by the full enumeration.
type snap struct {
	files   map[string][]byte
	pv      *types.PrivValidator
	address []byte
	pub     crypto.PubKey
	priv    crypto.PrivKey
	signer  types.Signer
	lh, lr  int64
	ls      int8
	lsig    crypto.Signature
	lsb     []byte
	nlog    int
}

func cp(b []byte) []byte {
	if b == nil {
		return nil
	}
	return append([]byte{}, b...)
}

func (s *sim) snapshot() *snap {
	sn := &snap{files: map[string][]byte{}, pv: s.pv, address: cp(s.pv.Address), pub: s.pv.PubKey, priv: s.pv.PrivKey, signer: s.pv.Signer,
		lh: s.pv.LastHeight, lr: s.pv.LastRound, ls: s.pv.LastStep, lsig: s.pv.LastSignature, lsb: cp(s.pv.LastSignBytes), nlog: len(s.log)}
	for n, b := range s.view() {
		sn.files[n] = b
	}
	return sn
}

func (s *sim) restore(sn *snap) {
	cur := s.view()
	for n := range cur {
		if _, keep := sn.files[n]; !keep {
			os.RemoveAll(filepath.Join(s.w.dir, n))
		}
	}
	for n, b := range sn.files {
		if c, ok := cur[n]; ok && bytes.Equal(c, b) {
			continue
		}
		if err := ioutil.WriteFile(filepath.Join(s.w.dir, n), b, 0600); err != nil {
			core.Fatal("restore: %v", err)
		}
	}
	v := map[string][]byte{}
	for n, b := range sn.files {
		v[n] = b
	}
	s.dirView = v
	pv := sn.pv
	pv.Address, pv.PubKey, pv.PrivKey, pv.Signer = cp(sn.address), sn.pub, sn.priv, sn.signer
	pv.LastHeight, pv.LastRound, pv.LastStep, pv.LastSignature, pv.LastSignBytes = sn.lh, sn.lr, sn.ls, sn.lsig, cp(sn.lsb)
	s.pv = pv
	s.stopped = false
	s.log = s.log[:sn.nlog]
}

// ---------------------------------------------------------------- whole cases from scratch

type pathResult struct {
	key     string
	stopped bool
	vacuous bool   // last step's armed fault not reached
	class   string // of the last step
	viols   []viol // of the last step
	allV    []viol
	ledger  string
	log     []string
}

func withNames(steps []step) []step {
	o := make([]step, len(steps))
	for i, s := range steps {
		s.Name = reqs[s.Req].name
		o[i] = s
	}
	return o
}

// runPath executes a case from scratch on worker w with the full-ledger oracle.
func (c *ctx) runPath(w *worker, k kase) pathResult {
	atomic.AddInt64(&c.execs, 1)
	s := &sim{c: c, w: w}
	var pr pathResult
	pr.allV = append(pr.allV, s.reset(k.InitFault)...)
	if s.stopped {
		pr.stopped, pr.viols, pr.log = true, pr.allV, s.log
		return pr
	}
	for i, st := range k.Steps {
		o, vs := s.step(st)
		pr.allV = append(pr.allV, vs...)
		if i == len(k.Steps)-1 {
			pr.viols, pr.class, pr.vacuous = vs, o.class, o.vacuous
		}
		if s.stopped {
			pr.stopped = true
			if i != len(k.Steps)-1 {
				pr.viols, pr.class = nil, "prefix-stopped"
			}
			break
		}
	}
	if !pr.stopped {
		pr.key = s.key()
	}
	pr.ledger = s.ledgerString()
	pr.log = s.log
	return pr
}

func sigString(m map[string]string) string {
	ks := make([]string, 0, len(m))
	for k := range m {
		ks = append(ks, k)
	}
	sort.Strings(ks)
	var b strings.Builder
	for _, k := range ks {
		fmt.Fprintf(&b, "%s=%s;", k, m[k])
	}
	return b.String()
}

func violSigs(vs []viol) string {
	var o []string
	for _, v := range vs {
		o = append(o, sigString(v.Sig))
	}
	sort.Strings(o)
	return strings.Join(o, " & ")
}
