package main

// Search: (1) the transition system of the implementation is extracted by
// executing every (state, request, fault variant) on the real PrivValidator,
// breadth-first with canonical-state deduplication; (2) the ledger oracle runs
// as a monitor on the product with that transition system, decomposed into one
// small monitor per (height, round, step) slot; (3) every counterexample of the
// product is re-executed from scratch on the real code with the full-ledger
// oracle before it is reported; (4) an un-deduplicated enumeration of all
// sequences at a smaller length cross-checks states and violation classes.

import (
	"fmt"
	"os"
	"path/filepath"
	"runtime"
	"runtime/pprof"
	"sort"
	"strings"
	"sync"
	"sync/atomic"
	"time"

	"verif/core"

	glog "github.com/dappledger/AnnChain/gemmill/modules/go-log"
	"github.com/dappledger/AnnChain/utils/verifhook"
	"go.uber.org/zap"
)

func progress(f string, a ...interface{}) {
	if os.Getenv("C03_PROGRESS") != "" {
		fmt.Fprintf(os.Stderr, f+"\n", a...)
	}
}

// par runs f(i, worker) for i in [0,n) with one worker (directory) per goroutine.
func (c *ctx) par(n int, f func(i int, w *worker)) {
	var wg sync.WaitGroup
	var next int64 = -1
	nw := cap(c.pool)
	for g := 0; g < nw; g++ {
		wg.Add(1)
		go func() {
			defer wg.Done()
			w := <-c.pool
			defer func() { c.pool <- w }()
			for {
				i := int(atomic.AddInt64(&next, 1))
				if i >= n {
					return
				}
				f(i, w)
			}
		}()
	}
	wg.Wait()
}

func (c *ctx) withWorker(f func(w *worker) pathResult) pathResult {
	w := <-c.pool
	defer func() { c.pool <- w }()
	return f(w)
}

// ---------------------------------------------------------------- transition system of the implementation

type ltrans struct {
	st   step
	o    obs
	key  string // successor key ("" if the host cannot continue)
	succ int    // successor state id, -1 if none
}

func (t ltrans) obsString() string {
	return fmt.Sprintf("%v|%s|%s|rel=%v,%v,%v,%v|%s", t.st, t.key, t.o.class, t.o.released, t.o.atDeath, t.o.failFired, t.o.durable, violSigs(t.o.terminal)) + fmt.Sprintf("|torn=%v", t.o.tornRestart)
}

type lstate struct {
	id    int
	key   string
	init  string
	hist  []step
	alt   []step // a second history reaching the same key at the same depth (merge oracle)
	hasA  bool
	depth int
	trans []ltrans
}

type lts struct {
	states      []*lstate
	byKey       map[string]*lstate
	roots       []int
	perDepth    []int // cumulative number of states after depth d
	transitions int
	merges      int
	mergeChecks int
	selfChecks  int
	closedAt    int // depth at which no new state appeared (-1: not closed within the bound)
	expanded    int // states with depth < expanded have their transitions
}

// expand executes every request with every fault variant in the state reached
// by (initFault, h).  The history is replayed once; every call starts from a
// checkpoint of that state.  Steps that differ only in what happens after the
// call (kill/restart of the idle process, death before the signature is handed
// out) are finished on the same call.  Variants whose fault point the request
// does not reach in this state are not generated: they are the same execution
// as the variant without the fault.
func (c *ctx) expand(w *worker, initFault string, h []step, wantKey string, selfCheck int) []ltrans {
	s := &sim{c: c, w: w}
	atomic.AddInt64(&c.execs, 1)
	if vs := s.reset(initFault); len(vs) > 0 || s.stopped {
		core.Fatal("replay of a state's history stopped in reset")
	}
	for _, st := range h {
		s.exec(st)
		if s.stopped {
			core.Fatal("replay of a state's history stopped: %s", kase{initFault, h})
		}
	}
	if k := s.key(); k != wantKey {
		core.Fatal("replay of history %s does not reproduce its state:\n got  %s\n want %s", kase{initFault, h}, k, wantKey)
	}
	sn := s.snapshot()
	s.trustHooks = true
	var out []ltrans
	// group runs one call and finishes the given steps on it (those without restart first)
	group := func(q int, armed string, steps []step) (first obs) {
		s.restore(sn)
		cr := s.call(q, armed)
		fk := ""
		for i, v := range steps {
			t := ltrans{st: v, succ: -1}
			t.o = s.finish(cr, v)
			if t.o.vacuous {
				core.Fatal("fault %s not reached although the fault-free run passed that point (%s ; %s)", v.Fault, kase{initFault, h}, reqs[q].name)
			}
			if !s.stopped {
				if fk == "" {
					fk = s.filesKey()
				}
				t.key = "mem=" + c.tuple(s.pv) + fk
			}
			if i == 0 {
				first = t.o
			}
			out = append(out, t)
			if s.stopped {
				break
			}
		}
		return
	}
	for q := 0; q < nReq; q++ {
		// is the request refused here?  decided on a first call, which also serves none / none+restart
		s.restore(sn)
		probe := s.call(q, "none")
		refused := probe.panicV == nil && !probe.died && probe.err != nil
		steps := []step{{Req: q, Fault: "none"}, {Req: q, Fault: "none", Restart: true}}
		if !refused && probe.panicV == nil {
			steps = append(steps, step{Req: q, Fault: "crash@done"})
		}
		fk := ""
		for _, v := range steps {
			t := ltrans{st: v, succ: -1}
			t.o = s.finish(probe, v)
			if !s.stopped {
				if fk == "" {
					fk = s.filesKey()
				}
				t.key = "mem=" + c.tuple(s.pv) + fk
			}
			out = append(out, t)
			if s.stopped {
				break
			}
		}
		for _, p := range probe.points {
			group(q, "crash@"+p, []step{{Req: q, Fault: "crash@" + p}})
			group(q, "fail@"+p, []step{{Req: q, Fault: "fail@" + p}, {Req: q, Fault: "fail@" + p, Restart: true}})
		}
		// torn-file family: the request completes (signed or refused), the host crashes and leaves the
		// signer file torn, the node is started again
		if probe.panicV == nil {
			for _, p := range tearPatterns {
				group(q, "none", []step{{Req: q, Fault: "tear@" + p}})
			}
		}
	}
	if selfCheck > 0 {
		for i, t := range out {
			if i%selfCheck != 0 {
				continue
			}
			k := kase{initFault, append(append([]step{}, h...), t.st)}
			s2 := &sim{c: c, w: w}
			s2.reset(initFault)
			var o obs
			for _, st := range k.Steps {
				o = s2.exec(st)
			}
			t2 := ltrans{st: t.st, o: o, succ: -1}
			if !s2.stopped {
				t2.key = s2.key()
			}
			if t2.obsString() != t.obsString() {
				core.Fatal("checkpointed execution differs from a from-scratch replay for %s:\n checkpointed: %s\n scratch:      %s", k, t.obsString(), t2.obsString())
			}
			atomic.AddInt64(&c.selfChecks, 1)
		}
	}
	return out
}

func (c *ctx) buildLTS(roots []*lstate, maxExpandDepth int, reportTerminal func(k kase, v viol)) *lts {
	l := &lts{byKey: map[string]*lstate{}, closedAt: -1}
	for _, r := range roots {
		r.id = len(l.states)
		l.states = append(l.states, r)
		l.byKey[r.key] = r
		l.roots = append(l.roots, r.id)
	}
	l.perDepth = append(l.perDepth, len(l.states))
	frontier := append([]*lstate{}, roots...)
	for depth := 0; depth < maxExpandDepth && len(frontier) > 0; depth++ {
		tDepth := time.Now()
		type task struct {
			st  *lstate
			alt bool
		}
		var tasks []task
		for _, st := range frontier {
			tasks = append(tasks, task{st, false})
		}
		nPrimary := len(tasks)
		for _, st := range frontier {
			if st.hasA {
				tasks = append(tasks, task{st, true})
			}
		}
		results := make([][]ltrans, len(tasks))
		c.par(len(tasks), func(i int, w *worker) {
			t := tasks[i]
			h := t.st.hist
			sc := 0
			if t.alt {
				h = t.st.alt
			} else if i%7 == 0 {
				sc = 11
			}
			results[i] = c.expand(w, t.st.init, h, t.st.key, sc)
		})
		idx := map[*lstate]int{}
		for i := 0; i < nPrimary; i++ {
			idx[tasks[i].st] = i
		}
		// merge oracle: two histories with the same key must show the same successors
		for i := nPrimary; i < len(tasks); i++ {
			t := tasks[i]
			a, b := results[idx[t.st]], results[i]
			same := len(a) == len(b)
			for j := 0; same && j < len(a); j++ {
				same = a[j].obsString() == b[j].obsString()
			}
			if !same {
				var sa, sb []string
				for _, x := range a {
					sa = append(sa, x.obsString())
				}
				for _, x := range b {
					sb = append(sb, x.obsString())
				}
				core.Fatal("the canonical key merges two histories with different futures:\n A: %s\n B: %s\n A: %v\n B: %v",
					kase{t.st.init, t.st.hist}, kase{t.st.init, t.st.alt}, sa, sb)
			}
			l.mergeChecks += len(a)
		}
		cand := map[string]*lstate{}
		for i := 0; i < nPrimary; i++ {
			t := tasks[i]
			for _, tr := range results[i] {
				l.transitions++
				c.classes.Add(tr.o.class)
				nh := append(append([]step{}, t.st.hist...), tr.st)
				for _, v := range tr.o.terminal {
					reportTerminal(kase{t.st.init, withNames(nh)}, v)
				}
				if tr.key != "" {
					if _, ok := l.byKey[tr.key]; ok {
						l.merges++
					} else if cs, ok := cand[tr.key]; ok {
						l.merges++
						if histLess(nh, cs.hist) {
							if !cs.hasA {
								cs.alt, cs.hasA = cs.hist, true
							}
							cs.hist = nh
						} else if !cs.hasA || histLess(cs.alt, nh) {
							cs.alt, cs.hasA = nh, true
						}
					} else {
						cand[tr.key] = &lstate{key: tr.key, init: t.st.init, hist: nh, depth: depth + 1}
					}
				}
				t.st.trans = append(t.st.trans, tr)
			}
			if (i*7+depth)%23 == 0 && len(results[i]) > 0 {
				tr := results[i][(i*31)%len(results[i])]
				c.samples.Add(map[string]interface{}{"case": kase{t.st.init, append(append([]step{}, t.st.hist...), tr.st)}.String(), "outcome": tr.o.class, "state_after": tr.key})
			}
		}
		var next []*lstate
		for _, st := range cand {
			next = append(next, st)
		}
		sort.Slice(next, func(i, j int) bool { return next[i].key < next[j].key })
		for _, st := range next {
			st.id = len(l.states)
			l.states = append(l.states, st)
			l.byKey[st.key] = st
		}
		l.expanded = depth + 1
		l.perDepth = append(l.perDepth, len(l.states))
		progress("lts depth %d: tasks %d, transitions %d, states %d, new %d, execs %d, signing calls %d, %v", depth+1, len(tasks), l.transitions, len(l.states), len(next), c.execs, c.stepsRun, time.Since(tDepth))
		frontier = next
		if len(next) == 0 {
			l.closedAt = depth + 1
		}
	}
	for _, st := range l.states {
		for i := range st.trans {
			if st.trans[i].key != "" {
				st.trans[i].succ = l.byKey[st.trans[i].key].id
			}
		}
	}
	return l
}

// ---------------------------------------------------------------- product with the per-slot ledger monitors

var slotList []int // the 12 (height, round, step) values, ascending

func initSlots() {
	seen := map[int]bool{}
	for _, r := range reqs {
		if !seen[r.hrs] {
			seen[r.hrs] = true
			slotList = append(slotList, r.hrs)
		}
	}
	sort.Ints(slotList)
}

// monitor state of slot X: what was released at X for block A and B (0 absent,
// 1+nd), the highest slot above X with a release and its mark (durable if any
// release there was durable, else the mark of the first), and which fault kinds
// the history used (labels only).
type mon struct {
	set       [2]int8
	hi        int16 // index into slotList + 1, 0 = none
	hiND      int8
	usedFail  bool
	usedDeath bool
	usedTear  bool
}

func (m mon) code() int64 {
	x := int64(m.set[0]) + 5*int64(m.set[1]) + 25*int64(m.hi) + 25*13*int64(m.hiND)
	x *= 8
	if m.usedFail {
		x |= 1
	}
	if m.usedDeath {
		x |= 2
	}
	if m.usedTear {
		x |= 4
	}
	return x
}

const monSpace = 25 * 13 * 4 * 8

type pviol struct {
	sig   map[string]string
	state int64 // product state in which the step was taken
	sid   int
	ti    int
	depth int
	slot  int
}

// monStep mirrors sim.judge for a single slot.
func monStep(m mon, slot int, slotIdx map[int]int, ri int, o *obs) (mon, []map[string]string) {
	var out []map[string]string
	if o.failFired {
		m.usedFail = true
	}
	if o.diedInCall {
		m.usedDeath = true
	}
	if o.released {
		r := reqs[ri]
		nd := ndDurable
		if !o.durable {
			switch {
			case o.failFired:
				nd = ndWriteErr
			case o.atDeath:
				nd = ndDeath
			default:
				nd = faultLabel(m.usedFail, false, false)
			}
		}
		switch {
		case r.hrs == slot:
			if nd != ndDurable {
				out = append(out, mkSig("released-without-durable-record", nd, "none"))
			}
			if other := m.set[1-r.Blk]; other != 0 {
				if other-1 != ndDurable {
					out = append(out, mkSig("released-without-durable-record", int(other-1), "conflicting-signatures"))
				} else {
					out = append(out, mkSig("conflicting-signatures", faultLabel(m.usedFail, m.usedTear, m.usedDeath), "none"))
				}
			}
			if m.set[r.Blk] == 0 {
				if m.hi != 0 {
					if m.hiND != ndDurable {
						out = append(out, mkSig("released-without-durable-record", int(m.hiND), "hrs-regression"))
					} else {
						out = append(out, mkSig("hrs-regression", faultLabel(m.usedFail, m.usedTear, m.usedDeath), "none"))
					}
				}
				m.set[r.Blk] = int8(1 + nd)
			} else if nd == ndDurable {
				m.set[r.Blk] = 1
			}
		case r.hrs > slot:
			y := int16(slotIdx[r.hrs] + 1)
			if y > m.hi {
				m.hi, m.hiND = y, int8(nd)
			} else if y == m.hi && nd == ndDurable {
				m.hiND = ndDurable
			}
		}
	}
	if o.restartAfter {
		m.usedDeath = true
	}
	if o.tornRestart {
		m.usedTear = true
	}
	return m, out
}

type productResult struct {
	states      int
	transitions int
	classCount  map[string]int
	first       map[string][]pviol // per class, the first few instances (shortest first)
	parents     []map[int64]parentRef
	closed      bool // the product search ended because no new product state appeared
	maxDepth    int
}

type parentRef struct {
	parent int64
	sid    int
	ti     int
}

// product explores, for every slot, all histories of length ≤ maxLen (maxLen<0:
// until no new product state appears) over the extracted transition system.
// stepFilter restricts the steps of a search (cross-checks): a set of requests, with or without the
// torn-file variants.  nil = every step.
type stepFilter struct {
	reqOK  []bool
	noTear bool
}

func (f *stepFilter) ok(st step) bool {
	if f == nil {
		return true
	}
	if f.reqOK != nil && !f.reqOK[st.Req] {
		return false
	}
	return !(f.noTear && strings.HasPrefix(st.Fault, "tear@"))
}

func product(l *lts, roots []int, maxLen int, flt *stepFilter) *productResult {
	pr := &productResult{classCount: map[string]int{}, first: map[string][]pviol{}, parents: make([]map[int64]parentRef, len(slotList)), closed: true}
	slotIdx := map[int]int{}
	for i, s := range slotList {
		slotIdx[s] = i
	}
	type slotOut struct {
		states, transitions, depth int
		classCount                 map[string]int
		first                      map[string][]pviol
		closed                     bool
	}
	outs := make([]slotOut, len(slotList))
	var wg sync.WaitGroup
	for si := range slotList {
		wg.Add(1)
		go func(si int) {
			defer wg.Done()
			slot := slotList[si]
			so := slotOut{classCount: map[string]int{}, first: map[string][]pviol{}}
			parents := map[int64]parentRef{}
			type ps struct {
				sid int
				m   mon
			}
			enc := func(p ps) int64 { return int64(p.sid)*monSpace*4 + p.m.code() }
			var frontier []ps
			for _, r := range roots {
				p := ps{sid: r}
				parents[enc(p)] = parentRef{parent: -1}
				frontier = append(frontier, p)
			}
			depth := 0
			for len(frontier) > 0 && (maxLen < 0 || depth < maxLen) {
				depth++
				var next []ps
				for _, p := range frontier {
					st := l.states[p.sid]
					if st.depth >= l.expanded && len(st.trans) == 0 {
						core.Fatal("product search reached a state whose transitions were not extracted (depth %d)", st.depth)
					}
					pe := enc(p)
					for ti := range st.trans {
						tr := &st.trans[ti]
						if !flt.ok(tr.st) {
							continue
						}
						so.transitions++
						m2, sigs := monStep(p.m, slot, slotIdx, tr.st.Req, &tr.o)
						for _, sg := range sigs {
							k := sigString(sg)
							so.classCount[k]++
							if len(so.first[k]) < 2 {
								so.first[k] = append(so.first[k], pviol{sig: sg, state: pe, sid: p.sid, ti: ti, depth: depth, slot: si})
							}
						}
						if tr.succ < 0 {
							continue
						}
						q := ps{sid: tr.succ, m: m2}
						qe := enc(q)
						if _, ok := parents[qe]; !ok {
							parents[qe] = parentRef{parent: pe, sid: p.sid, ti: ti}
							next = append(next, q)
						}
					}
				}
				frontier = next
			}
			so.states, so.depth, so.closed = len(parents), depth, len(frontier) == 0
			pr.parents[si] = parents
			outs[si] = so
		}(si)
	}
	wg.Wait()
	for _, so := range outs {
		pr.states += so.states
		pr.transitions += so.transitions
		if so.depth > pr.maxDepth {
			pr.maxDepth = so.depth
		}
		if !so.closed {
			pr.closed = false
		}
		for k, n := range so.classCount {
			pr.classCount[k] += n
		}
		for k, f := range so.first {
			pr.first[k] = append(pr.first[k], f...)
		}
	}
	for k := range pr.first {
		f := pr.first[k]
		sort.SliceStable(f, func(i, j int) bool {
			if f[i].depth != f[j].depth {
				return f[i].depth < f[j].depth
			}
			return f[i].slot < f[j].slot
		})
		if len(f) > 3 {
			f = f[:3]
		}
		pr.first[k] = f
	}
	return pr
}

// countViolations counts, per class, the pairs (step sequence of length ≤ maxLen
// over the extracted transitions, violation raised by its last step) — by
// dynamic programming over the product states, without deduplicating paths.
// The un-deduplicated enumeration must arrive at exactly these numbers.
func countViolations(l *lts, root int, maxLen int, flt *stepFilter) map[string]int {
	slotIdx := map[int]int{}
	for i, s := range slotList {
		slotIdx[s] = i
	}
	type ps struct {
		sid int
		m   mon
	}
	total := map[string]int{}
	for _, slot := range slotList {
		cur := map[ps]int{{sid: root}: 1}
		for d := 0; d < maxLen; d++ {
			next := map[ps]int{}
			for p, cnt := range cur {
				st := l.states[p.sid]
				for ti := range st.trans {
					tr := &st.trans[ti]
					if !flt.ok(tr.st) {
						continue
					}
					m2, sigs := monStep(p.m, slot, slotIdx, tr.st.Req, &tr.o)
					for _, sg := range sigs {
						total[sigString(sg)] += cnt
					}
					if tr.succ >= 0 {
						next[ps{sid: tr.succ, m: m2}] += cnt
					}
				}
			}
			cur = next
		}
	}
	return total
}

// pubSig is the reported signature of a violation class: site, kind, fault (and
// "after" for failed restarts); the consequence is evidence, not identity.
func pubSig(sig map[string]string) map[string]string {
	o := map[string]string{}
	for k, v := range sig {
		if k != "consequence" {
			o[k] = v
		}
	}
	return o
}

// pathOf rebuilds the step sequence of a product counterexample.
func (pr *productResult) pathOf(l *lts, v pviol) kase {
	var rev []step
	rev = append(rev, l.states[v.sid].trans[v.ti].st)
	cur := v.state
	par := pr.parents[v.slot]
	root := v.sid
	for {
		p := par[cur]
		if p.parent < 0 {
			break
		}
		rev = append(rev, l.states[p.sid].trans[p.ti].st)
		root = p.sid
		cur = p.parent
	}
	steps := make([]step, 0, len(rev))
	for i := len(rev) - 1; i >= 0; i-- {
		steps = append(steps, rev[i])
	}
	return kase{InitFault: l.states[root].init, Steps: withNames(steps)}
}

// ---------------------------------------------------------------- full enumeration (no deduplication)

type fullResult struct {
	keysAtDepth []map[string]bool // cumulative
	paths       int
	vacuous     int
	sigClasses  map[string]int
	exact       map[string]int // (sequence whose last fault was reached, violation of its last step) pairs per class
}

// fullEnum runs every sequence of length ≤ maxDepth over 24 requests × 18 fault
// variants from scratch with the full-ledger oracle, never merging anything.
// A sequence whose last armed fault is not reached is executed (it behaves like
// the variant without the fault) but not extended: its extensions are the
// extensions of that other variant.
func (c *ctx) fullEnum(initFault string, maxDepth int, reqList []int, flt *stepFilter) *fullResult {
	fr := &fullResult{sigClasses: map[string]int{}, exact: map[string]int{}}
	cum := map[string]bool{}
	root := c.withWorker(func(w *worker) pathResult { return c.runPath(w, kase{InitFault: initFault}) })
	cum[root.key] = true
	cpCum := func() {
		m := map[string]bool{}
		for k := range cum {
			m[k] = true
		}
		fr.keysAtDepth = append(fr.keysAtDepth, m)
	}
	cpCum()
	level := [][]step{nil}
	for depth := 1; depth <= maxDepth; depth++ {
		var paths [][]step
		for _, h := range level {
			for _, q := range reqList {
				for _, v := range allVariants(q) {
					if !flt.ok(v) {
						continue
					}
					paths = append(paths, append(append(make([]step, 0, len(h)+1), h...), v))
				}
			}
		}
		res := make([]pathResult, len(paths))
		c.par(len(paths), func(i int, w *worker) {
			r := c.runPath(w, kase{initFault, paths[i]})
			r.log, r.allV = nil, nil
			res[i] = r
		})
		var next [][]step
		for i, r := range res {
			fr.paths++
			if r.vacuous {
				fr.vacuous++
			}
			for _, v := range r.viols {
				fr.sigClasses[sigString(v.Sig)]++
				if !r.vacuous {
					fr.exact[sigString(v.Sig)]++
				}
			}
			if r.stopped {
				continue
			}
			cum[r.key] = true
			if !r.vacuous {
				next = append(next, paths[i])
			}
		}
		level = next
		cpCum()
		progress("full enumeration depth %d: %d sequences, %d distinct states", depth, len(paths), len(cum))
	}
	return fr
}

func diffSets(a, b map[string]bool) (onlyA, onlyB []string) {
	for k := range a {
		if !b[k] {
			onlyA = append(onlyA, k)
		}
	}
	for k := range b {
		if !a[k] {
			onlyB = append(onlyB, k)
		}
	}
	sort.Strings(onlyA)
	sort.Strings(onlyB)
	return
}

func sortedKeys(m map[string]int) []string {
	var o []string
	for k := range m {
		o = append(o, k)
	}
	sort.Strings(o)
	return o
}

// ---------------------------------------------------------------- main

func main() {
	run := core.Start("C03", "fault_enumeration", "XSTATE")
	glog.SetLog(zap.NewNop())
	if pf := os.Getenv("C03_PROF"); pf != "" {
		f, _ := os.Create(pf)
		pprof.StartCPUProfile(f)
		defer pprof.StopCPUProfile()
	}
	initRequests()
	initSlots()
	c := &ctx{run: run, classes: core.NewCounter(), samples: core.NewSampler(8, run.Seed)}
	for i, r := range reqs {
		sg := fixedKey.Sign(r.sb)
		if !fixedPub.VerifyBytes(r.sb, sg) {
			core.Fatal("reference signature does not verify")
		}
		c.tableSigs[i] = sg.Bytes()
	}

	nw := runtime.GOMAXPROCS(0)
	if nw > 16 {
		nw = 16
	}
	if nw < 2 {
		nw = 2
	}
	base := run.WorkDir()
	workersByPath = map[string]*worker{}
	c.pool = make(chan *worker, nw)
	for i := 0; i < nw; i++ {
		d := filepath.Join(base, fmt.Sprintf("host%02d", i))
		os.RemoveAll(d)
		if err := os.MkdirAll(d, 0755); err != nil {
			core.Fatal("mkdir: %v", err)
		}
		pd := d + "-probe"
		os.RemoveAll(pd)
		if err := os.MkdirAll(pd, 0755); err != nil {
			core.Fatal("mkdir: %v", err)
		}
		w := &worker{id: i, dir: d, path: filepath.Join(d, "priv_validator.json"), probe: filepath.Join(pd, "priv_validator.json")}
		workersByPath[w.path] = w
		c.pool <- w
	}
	verifhook.SetWriteCallback(onWrite)
	verifhook.SetFailCallback(onFail)

	if run.ReplayPath != "" {
		if replaySched(run) {
			return
		}
		var k kase
		if err := run.ReplayCase(&k); err != nil {
			core.Fatal("cannot load replay: %v", err)
		}
		for _, s := range k.Steps {
			if s.Req < 0 || s.Req >= nReq {
				core.Fatal("bad request index in replay")
			}
			if _, ok := faultOrder[s.Fault]; !ok {
				core.Fatal("bad fault in replay")
			}
		}
		pr := c.withWorker(func(w *worker) pathResult { return c.runPath(w, k) })
		for _, l := range pr.log {
			fmt.Println("  ", l)
		}
		fmt.Println("   released:", pr.ledger)
		for _, v := range pr.allV {
			run.Report(pubSig(v.Sig), k, v.Detail+" — case: "+k.String())
		}
		os.RemoveAll(base)
		run.Finish(nil, nil)
	}

	// part (b) runs as a subprocess next to part (a); its result is merged at the end
	startSchedPart(run)

	// --- sanity: the hooks are reached by the signer's durable write; the machinery is deterministic
	probe := kase{Steps: withNames([]step{{Req: 2, Fault: "none"}, {Req: 3, Fault: "crash@rename"}, {Req: 5, Fault: "fail@new", Restart: true}, {Req: 4, Fault: "none"}})}
	var pa pathResult
	{
		w1, w2 := <-c.pool, <-c.pool
		s := &sim{c: c, w: w1}
		s.reset("")
		o := s.exec(step{Req: 2, Fault: "none"})
		if strings.Join(o.points, ",") != "bak,new,rename" {
			core.Fatal("a first signature passed the write points %v of WriteFileAtomic on the signer file (want bak,new,rename): the hooks no longer cover the signer's durable write", o.points)
		}
		pa = c.runPath(w1, probe)
		pb := c.runPath(w2, probe)
		pc := c.runPath(w1, probe)
		if pa.key != pb.key || pa.key != pc.key || pa.class != pb.class || pa.ledger != pb.ledger || violSigs(pa.allV) != violSigs(pb.allV) || violSigs(pa.allV) != violSigs(pc.allV) {
			core.Fatal("the same case gave different observations on repeated runs:\n %s\n %s\n %s", pa.key, pb.key, pc.key)
		}
		c.pool <- w1
		c.pool <- w2
	}

	// --- start states: clean creation, and creation interrupted at each of its write points then re-run
	var roots []*lstate
	rootKeys := map[string]bool{}
	genesis := map[string]string{}
	for _, f := range []string{"", "crash@new", "crash@rename", "fail@new", "fail@rename"} {
		pr := c.withWorker(func(w *worker) pathResult { return c.runPath(w, kase{InitFault: f}) })
		for _, v := range pr.allV {
			run.Report(v.Sig, kase{InitFault: f}, v.Detail)
		}
		if pr.stopped {
			continue
		}
		name := "creation interrupted by " + f + ", then re-run"
		if f == "" {
			name = "clean creation"
		}
		genesis[name] = pr.key
		if !rootKeys[pr.key] {
			rootKeys[pr.key] = true
			roots = append(roots, &lstate{key: pr.key, init: f})
		}
	}

	maxLen := run.Pick(3, 4)
	fullLen := 1 // C03_FULLLEN=0 skips the cross-check (debugging only)
	if v := os.Getenv("C03_MAXLEN"); v != "" {
		fmt.Sscan(v, &maxLen)
	}
	if v := os.Getenv("C03_FULLLEN"); v != "" {
		fmt.Sscan(v, &fullLen)
	}

	confirmations := 0
	confirm := func(k kase, sig map[string]string) pathResult {
		pr := c.withWorker(func(w *worker) pathResult { return c.runPath(w, k) })
		confirmations++
		ok := false
		for _, v := range pr.allV {
			if sigString(v.Sig) == sigString(sig) {
				ok = true
			}
		}
		if !ok {
			core.Fatal("a counterexample of the search does not reproduce when the case is executed from scratch: %s\n expected %s\n got %s", k, sigString(sig), violSigs(pr.allV))
		}
		return pr
	}
	reportConfirmed := func(k kase, sig map[string]string) {
		pr := confirm(k, sig)
		for _, v := range pr.allV {
			if sigString(v.Sig) == sigString(sig) {
				run.Report(pubSig(v.Sig), k, v.Detail+" — case: "+k.String()+" — released in this case: "+pr.ledger)
				break
			}
		}
	}

	type termV struct {
		k kase
		v viol
	}
	var terms []termV
	termCount := map[string]int{}
	l := c.buildLTS(roots, maxLen, func(k kase, v viol) {
		termCount[sigString(v.Sig)]++
		terms = append(terms, termV{k, v})
	})
	sort.SliceStable(terms, func(i, j int) bool {
		a, b := sigString(terms[i].v.Sig), sigString(terms[j].v.Sig)
		if a != b {
			return a < b
		}
		if len(terms[i].k.Steps) != len(terms[j].k.Steps) {
			return len(terms[i].k.Steps) < len(terms[j].k.Steps)
		}
		return histLess(terms[i].k.Steps, terms[j].k.Steps)
	})
	doneTerm := map[string]int{}
	for _, t := range terms {
		k := sigString(t.v.Sig)
		if doneTerm[k] < 3 {
			doneTerm[k]++
			reportConfirmed(t.k, t.v.Sig)
		}
	}

	// When the extracted transition system is closed (no new state), the monitors
	// can run until no new product state appears: every sequence length is covered.
	prodLen := maxLen
	if l.closedAt >= 0 && !run.Quick() {
		prodLen = -1
	}
	tProd := time.Now()
	pr := product(l, l.roots, prodLen, nil)
	progress("product (length %d, reached depth %d, closed %v): %d states, %d transitions in %v, classes %v", prodLen, pr.maxDepth, pr.closed, pr.states, pr.transitions, time.Since(tProd), pr.classCount)
	// One defect = one reported class.  The search distinguishes, for evidence, what a release without a
	// durable record later led to (nothing yet / conflicting signatures / regression) and which faults the
	// history of a logic violation contained; the reported signature keeps site, kind and fault only, the
	// case shown first is the one with the gravest consequence, and a logic violation (conflicting
	// signatures or regression between durably recorded releases) is reported under the weakest fault
	// class in which it occurs (none < process-death < torn-file < write-error).
	conseqRank := map[string]int{"conflicting-signatures": 0, "hrs-regression": 1, "none": 2}
	faultRank := map[string]int{"none": 0, "process-death": 1, "torn-file": 2, "write-error": 3}
	type inst struct {
		v    pviol
		rank int
	}
	groups := map[string][]inst{}
	weakest := map[string]int{}
	for _, k := range sortedKeys(pr.classCount) {
		for _, v := range pr.first[k] {
			if v.sig["kind"] != "released-without-durable-record" {
				if w, ok := weakest[v.sig["kind"]]; !ok || faultRank[v.sig["fault"]] < w {
					weakest[v.sig["kind"]] = faultRank[v.sig["fault"]]
				}
			}
		}
	}
	for _, k := range sortedKeys(pr.classCount) {
		for _, v := range pr.first[k] {
			confirm(pr.pathOf(l, v), v.sig)
			if v.sig["kind"] != "released-without-durable-record" && faultRank[v.sig["fault"]] != weakest[v.sig["kind"]] {
				continue
			}
			g := sigString(pubSig(v.sig))
			groups[g] = append(groups[g], inst{v, conseqRank[v.sig["consequence"]]})
		}
	}
	var gkeys []string
	for g := range groups {
		gkeys = append(gkeys, g)
	}
	sort.Strings(gkeys)
	for _, g := range gkeys {
		is := groups[g]
		sort.SliceStable(is, func(i, j int) bool { return is[i].rank < is[j].rank })
		for _, in := range is {
			reportConfirmed(pr.pathOf(l, in.v), in.v.sig)
		}
	}

	// --- cross-check: the un-deduplicated enumeration (every sequence executed from scratch with the
	// full-ledger oracle, nothing merged) reaches exactly the same implementation states and the same
	// violation classes as the deduplicated search restricted to the same requests and length
	type crossCfg struct {
		name   string
		length int
		reqs   []int
		noTear bool
	}
	var all24, h1, h1r0 []int
	for i, r := range reqs {
		all24 = append(all24, i)
		if r.H == 1 {
			h1 = append(h1, i)
			if r.R == 0 {
				h1r0 = append(h1r0, i)
			}
		}
	}
	_ = h1
	cfgs := []crossCfg{{"length<=1, all 24 requests, all fault variants", 1, all24, false}, {"length<=2, the 6 requests of height 1 round 0, all fault variants", 2, h1r0, false}}
	if !run.Quick() {
		// proposal A, prevote A, prevote B, precommit A at (H1,R0): all three step types, one conflicting pair
		four := []int{h1r0[0], h1r0[2], h1r0[3], h1r0[4]}
		cfgs = []crossCfg{{"length<=2, all 24 requests, fault variants without the torn-file family", 2, all24, true},
			{"length<=3, proposal A / prevote A / prevote B / precommit A at height 1 round 0, fault variants without the torn-file family", 3, four, true},
			{"length<=2, the 6 requests of height 1 round 0, all fault variants", 2, h1r0, false}}
	}
	if fullLen == 0 {
		cfgs = nil
	}
	cross := map[string]interface{}{}
	fullPaths := 0
	for ri, rootID := range l.roots {
		root := l.states[rootID]
		for _, cfg := range cfgs {
			tFull := time.Now()
			c2 := &ctx{run: run, pool: c.pool, classes: core.NewCounter(), samples: core.NewSampler(1, 0), tableSigs: c.tableSigs}
			reqOK := make([]bool, nReq)
			for _, q := range cfg.reqs {
				reqOK[q] = true
			}
			flt := &stepFilter{reqOK: reqOK, noTear: cfg.noTear}
			fr := c2.fullEnum(root.init, cfg.length, cfg.reqs, flt)
			// states reachable from this root within d steps in the extracted transition system
			reach := map[int]bool{rootID: true}
			fr0 := []int{rootID}
			for d := 0; d <= cfg.length; d++ {
				ks := map[string]bool{}
				for id := range reach {
					ks[l.states[id].key] = true
				}
				a, b := diffSets(ks, fr.keysAtDepth[d])
				if len(a)+len(b) > 0 {
					core.Fatal("deduplicated search and full enumeration (%s) disagree at length %d: only dedup %v ; only full %v", cfg.name, d, a, b)
				}
				var nx []int
				for _, id := range fr0 {
					for _, tr := range l.states[id].trans {
						if flt.ok(tr.st) && tr.succ >= 0 && !reach[tr.succ] {
							reach[tr.succ] = true
							nx = append(nx, tr.succ)
						}
					}
				}
				fr0 = nx
			}
			ref := product(l, []int{rootID}, cfg.length, flt)
			ka := sortedKeys(ref.classCount)
			var kb []string
			for _, k := range sortedKeys(fr.sigClasses) {
				// panics / failed restarts are reported by the extraction itself; compare the ledger classes
				if strings.Contains(k, "site="+siteSigner+";") {
					kb = append(kb, k)
				}
			}
			if strings.Join(ka, "\n") != strings.Join(kb, "\n") {
				core.Fatal("deduplicated search and full enumeration (%s) find different violation classes:\n dedup: %v\n full:  %v", cfg.name, ka, kb)
			}
			exact := countViolations(l, rootID, cfg.length, flt)
			for _, k := range ka {
				if exact[k] != fr.exact[k] {
					core.Fatal("deduplicated search and full enumeration (%s) count different numbers of violating sequences for %s: %d vs %d", cfg.name, k, exact[k], fr.exact[k])
				}
			}
			fullPaths += fr.paths
			cross[fmt.Sprintf("start_state_%d: %s", ri, cfg.name)] = map[string]interface{}{
				"full_sequences_executed":     fr.paths,
				"of_which_fault_not_reached":  fr.vacuous,
				"distinct_states_full":        len(fr.keysAtDepth[cfg.length]),
				"distinct_states_dedup":       len(reach),
				"violation_classes_both":      ka,
				"violating_sequences_full":    fr.exact,
				"violating_sequences_dedup":   exact,
				"states_and_violations_agree": true,
			}
			atomic.AddInt64(&c.execs, c2.execs)
			atomic.AddInt64(&c.stepsRun, c2.stepsRun)
			progress("cross-check %s: %d sequences in %v", cfg.name, fr.paths, time.Since(tFull))
		}
	}

	byFault := map[string]int{"none": 0, "process-death": 0, "torn-file": 0, "write-error": 0}
	allClasses := map[string]int{}
	for sg, n := range pr.classCount {
		allClasses[sg] += n
	}
	for sg, n := range termCount {
		allClasses[sg] += n
	}
	for sg, n := range allClasses {
		for f := range byFault {
			if strings.Contains(sg, "fault="+f+";") {
				byFault[f] += n
			}
		}
	}
	c.samples.Add(map[string]interface{}{"case": probe.String(), "outcome": pa.class, "state_after": pa.key, "released": pa.ledger, "log": pa.log})
	prodLenName := fmt.Sprintf("%d", prodLen)
	if prodLen < 0 {
		prodLenName = "unbounded (search ended because no new product state appeared)"
		if !pr.closed {
			core.Fatal("unbounded product search did not close")
		}
	}
	closed := "not within the bound"
	if l.closedAt >= 0 {
		closed = fmt.Sprintf("no new implementation state after %d steps: the extracted transition system is complete for this request alphabet", l.closedAt)
	}
	os.RemoveAll(base)
	pprof.StopCPUProfile()
	cov := core.Coverage{
		"evaluations":                              l.transitions + fullPaths + confirmations,
		"states":                                   len(l.states),
		"states_cumulative_by_depth":               l.perDepth,
		"transitions":                              l.transitions,
		"traces_validated_against_impl":            l.transitions + fullPaths + confirmations,
		"signing_calls_on_real_code":               int(c.stepsRun),
		"merges":                                   l.merges,
		"merge_oracle_comparisons":                 l.mergeChecks,
		"checkpoint_selfchecks":                    int(c.selfChecks),
		"transition_system_closed":                 closed,
		"product_states":                           pr.states,
		"product_transitions":                      pr.transitions,
		"product_sequence_length":                  prodLenName,
		"product_depth_reached":                    pr.maxDepth,
		"counterexamples_confirmed_by_real_replay": confirmations,
		"distinct_nontrivial":                      c.classes.Len(),
		"outcome_classes":                          c.classes.Map(),
		"violation_product_transitions_by_class":   allClasses,
		"violation_product_transitions_by_fault":   byFault,
		"start_states":                             genesis,
		"crosscheck_full_enumeration":              cross,
		"rule":                                     "every sequence of ≤ max_sequence_length steps; a step = one of 24 requests {proposal,prevote,precommit}×H{1,2}×R{0,1}×block{A,B} with one fault variant: none | process death before the .bak write / .new write / rename of WriteFileAtomic | process death after the rename before the signature is handed out | injected error at each of the three operations; each non-death variant with and without kill+restart of the idle process afterwards (variants whose point the request does not reach are identical to 'none' and not repeated) | torn-file family: after the completed request (signed or refused, i.e. in every reachable signer state) the host crashes and leaves the signer file itself unparsable — truncated to 0 bytes, 1 byte, half, all but the last byte, first byte flipped, last byte flipped — with the .bak/.new leftovers exactly as the code left them, then the node is started again (refusing to start ends the history safely; a node that does start keeps being judged by the ledger oracle on every further request); start states = clean creation and creation interrupted at each of its two write points then re-run. Executed breadth-first on the real PrivValidator with canonical-state deduplication (state = in-memory watermark+bytes+signature, the same of the signer file, existence and relation-to-file of .bak/.new, other files); the ledger oracle is run on the product of the extracted transitions with one monitor per (H,R,step) slot; every counterexample is re-executed from scratch with the full ledger before it is reported. distinct_nontrivial = distinct (request type, relation of request to watermark, fault, outcome) classes observed",
		"exhaustive":                               true,
		"bounds":                                   map[string]int{"max_sequence_length": maxLen, "heights": 2, "rounds": 2, "blocks": 2, "requests": nReq, "fault_variants_per_request": len(allVariants(0)), "tear_patterns": len(tearPatterns), "workers": nw},
		"samples":                                  c.samples.List(),
	}
	assumptions := []string{
		"crash model (DESIGN 6.4): process death between file operations; a completed write/rename is visible after restart; no reordered writes; torn-file family: after a completed save the signer file alone is damaged so that it is no JSON document any more (truncations and first/last byte flips) while the leftovers stay intact — damage that keeps the file parseable (a flipped digit) is silent corruption the format cannot detect and is not generated; refusing to start (error or panic of LoadPrivValidator) on a torn file is accepted, after which nothing more is asked of that validator",
		"a signature counts as having left the signer when SignVote/SignProposal returned nil with the Signature field filled by a signature that verifies for the request, or when that field is already filled at the instant the process dies inside the durable write",
		"the record 'forbids contradicting' a signature when the file on disk loads with a watermark above its height/round/step, or equal to it with the same sign-bytes",
		"restart = types.LoadPrivValidator on the signer file, as gemmill/angine.go does; .bak/.new leftovers are whatever the crashes left",
		"the behaviour of the signer depends only on its canonical state (checked by the merge oracle, by sampled from-scratch replays of checkpointed steps, by from-scratch confirmation of every counterexample and by the un-deduplicated enumeration at the smaller length)",
	}
	cov["not_covered"] = "part (b), concurrent callers of one signer object, is explored by the SCHED part (coverage.sched) without crash or write faults inside the concurrent phase; remote Signer implementations (SetSigner) are not driven; damage of the signer file that keeps it parseable"
	schedAssumptions := joinSched(run, cov)
	run.Finish(cov, append(assumptions, schedAssumptions...))
}
