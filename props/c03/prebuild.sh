#!/bin/bash
# The C03 check has two binaries: this directory's main (part a: explicit-state crash / write-fault /
# torn-file exploration of the real PrivValidator, built from the UNMODIFIED sources) and the SCHED
# exploration of concurrent callers of SignVote / SignProposal on one signer object (part b:
# props/c03sched, built with the import-rewriting overlay over gemmill/types/priv_validator.go).
# Part a runs part b as a subprocess and merges its evidence and violations.
#
# Seeded changes: the SCHED binary has its own overlay, so a plain replace overlay cannot simply be
# added to its build.  Either pass VERIF_OVERLAY_SUBST="gemmill/types/priv_validator.go=/abs/changed.go",
# or (tools_seed.py) VERIF_EXTRA_BUILDFLAGS="-overlay <json>": the replacements of that file for
# paths below the repository are turned into VERIF_OVERLAY_SUBST here, so both parts see the change.
# With VERIF_MUT_ROOT (private root of a seeded run) the SCHED binary is built into its own work
# directory, so that the binary of the regular check is never replaced while it may be running.
set -eu
ROOT=$(cd "$(dirname "$0")/../.." && pwd)
REPO=${VERIF_REPO:-/repo}
export GOFLAGS=-mod=mod GOPROXY=off GOSUMDB=off GOTOOLCHAIN=local
W=$ROOT/.work/c03sched${VERIF_MUT_ROOT:+-mut-$(basename "$VERIF_MUT_ROOT")}
mkdir -p "$W"
if [ -z "${VERIF_OVERLAY_SUBST:-}" ] && [ -n "${VERIF_EXTRA_BUILDFLAGS:-}" ]; then
  VERIF_OVERLAY_SUBST=$(python3 - "$REPO" <<'PY'
import json, os, shlex, sys
repo = os.path.realpath(sys.argv[1])
args = shlex.split(os.environ["VERIF_EXTRA_BUILDFLAGS"])
out = []
for i, a in enumerate(args):
    path = None
    if a == "-overlay" and i + 1 < len(args):
        path = args[i + 1]
    elif a.startswith("-overlay="):
        path = a[len("-overlay="):]
    if not path:
        continue
    for k, v in json.load(open(path)).get("Replace", {}).items():
        k = os.path.realpath(k) if os.path.exists(k) else os.path.normpath(k)
        if k.startswith(repo + "/") and v:
            out.append(os.path.relpath(k, repo) + "=" + v)
print(",".join(out))
PY
)
  export VERIF_OVERLAY_SUBST
  echo "note: SCHED part built with VERIF_OVERLAY_SUBST=$VERIF_OVERLAY_SUBST (from VERIF_EXTRA_BUILDFLAGS)" >&2
fi
"$ROOT/props/c03sched/prebuild.sh" "$W" 2> "$W/prebuild.log" || { cat "$W/prebuild.log" >&2; exit 1; }
( cd "$ROOT" && go build -tags verif -overlay "$W/overlay.json" -o "$W/bin-for-c03" ./props/c03sched )
