// c17sched runs the SCHED part of property C17 (interleavings of concurrent
// submitters with the commit path on the real gemmill/mempool.Mempool)
// stand-alone (`./vcheck c17sched quick`).  The exploration itself is the
// library verif/sched/c17b.  The C17 check (props/c17) runs this binary as a
// subprocess and merges its evidence and violations, because this binary is
// built with the import-rewriting overlay (BUILDFLAGS, prebuild.sh) and the
// rest of C17 is built from the unmodified sources.
package main

import (
	"verif/core"
	"verif/sched/c17b"
)

func main() {
	run := core.Start("C17", "model_checking", "SCHED")
	if run.ReplayPath != "" {
		if !c17b.Replay(run) {
			core.Fatal("%s is not a SCHED replay artefact of C17", run.ReplayPath)
		}
		run.Finish(nil, nil)
	}
	cov := c17b.Run(run)
	run.Finish(cov, c17b.Assumptions())
}
