#!/bin/bash
# Detection demonstrations for the SCHED part of C17 ("overlay on overlay"):
# each mutant is a copy of the CURRENT gemmill/types/part_set.go with one
# realistic change to AddPart; overlaygen reads the copy instead of the repo
# file (VERIF_OVERLAY_SUBST), the check is built by hand against that overlay
# and run in the quick tier with a private VERIF_ROOT, so neither /repo nor the
# real evidence/replays are touched (exit 1 = caught).  Both mutants behave
# exactly like the original under any sequential delivery order.
#   usage: props/c17sched/mutants.sh [name...]      (default: all)
set -u
ROOT=$(cd "$(dirname "$0")/../.." && pwd)
REPO=${VERIF_REPO:-/repo}
export GOFLAGS=-mod=mod GOPROXY=off GOSUMDB=off GOTOOLCHAIN=local
ALL="verify-outside-lock reserve-then-verify"
[ $# -gt 0 ] && ALL="$*"
SRC=gemmill/types/part_set.go
for m in $ALL; do
  W=$ROOT/.work/c17sched/mut/$m
  rm -rf "$W"; mkdir -p "$W/root"
  cp "$ROOT/known_findings.txt" "$W/root/"
  python3 - "$REPO/$SRC" "$W/mutant.go" "$m" <<'PY' || { echo "MUTANT $m: cannot apply (source changed?)"; continue; }
import sys
src, dst, m = sys.argv[1:4]
s = open(src).read()
a = s.index("func (ps *PartSet) AddPart(")
b = s.index("func (ps *PartSet) GetPart(")
check = """	if part.Index < 0 || part.Index >= ps.total {
		return false, ErrPartSetUnexpectedIndex
	}
"""
if m == "verify-outside-lock":      # seeded change C17 wave 2 #1: duplicate test and insertion in two critical sections
    body = check + """	if ps.GetPart(part.Index) != nil {
		return false, nil
	}
	if verify && !part.Proof.Verify(part.Index, ps.total, part.Hash(), ps.Hash()) {
		return false, ErrPartSetInvalidProof
	}
	ps.mtx.Lock()
	defer ps.mtx.Unlock()
	ps.parts[part.Index] = part
	ps.partsBitArray.SetIndex(part.Index, true)
	ps.count++
	return true, nil
"""
elif m == "reserve-then-verify":    # the slot is reserved before the proof is checked and released when it fails
    body = check + """	ps.mtx.Lock()
	if ps.parts[part.Index] != nil {
		ps.mtx.Unlock()
		return false, nil
	}
	ps.parts[part.Index] = part
	ps.mtx.Unlock()
	if verify && !part.Proof.Verify(part.Index, ps.total, part.Hash(), ps.Hash()) {
		ps.mtx.Lock()
		ps.parts[part.Index] = nil
		ps.mtx.Unlock()
		return false, ErrPartSetInvalidProof
	}
	ps.mtx.Lock()
	defer ps.mtx.Unlock()
	ps.partsBitArray.SetIndex(part.Index, true)
	ps.count++
	return true, nil
"""
else:
    sys.exit("unknown mutant " + m)
s = s[:a] + "func (ps *PartSet) AddPart(part *Part, verify bool) (bool, error) {\n" + body + "}\n\n" + s[b:]
open(dst, "w").write(s)
PY
  ( cd "$ROOT" && C17B_NO_RACE=1 VERIF_OVERLAY_SUBST="$SRC=$W/mutant.go" ./props/c17sched/prebuild.sh "$W" 2>"$W/prebuild.log" \
      && go build -tags verif -overlay "$W/overlay.json" -o "$W/bin" ./props/c17sched ) || { echo "MUTANT $m: BUILD FAILED (see $W/prebuild.log)"; continue; }
  start=$(date +%s)
  VERIF_ROOT="$W/root" env C17B_RACE_BIN=/nonexistent ${MUT_ENV:-} "$W/bin" quick > "$W/out.txt" 2>"$W/err.txt"
  rc=$?
  echo "MUTANT $m: exit $rc ($(( $(date +%s) - start )) s)"
  grep -A1 -E "^VIOLATION|^KNOWN-FINDING|INTERNAL|^C17 " "$W/out.txt" "$W/err.txt" | grep -E "sig:|KNOWN-FINDING|INTERNAL|new violations" | cut -c1-230 | sed 's/^/    /'
done
