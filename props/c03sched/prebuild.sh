#!/bin/bash
# Runs before `go build ./props/c03sched` (see vcheck): regenerates the SCHED
# overlay from the repository's CURRENT sources (gemmill/types/priv_validator.go
# alone: the signer's mutex is a private field used by that file only) and builds the
# free-running -race binary of the same harness bodies (no overlay).
#   $1 = work directory (/verif/.work/c03sched)
# VERIF_OVERLAY_SUBST="gemmill/types/priv_validator.go=/path/mutant.go" makes the
# generator read a mutated copy instead (seeded changes, mutation
# demonstrations); the race binary is then built from the same mutant through a
# plain replace overlay.
set -eu
W=$1
ROOT=$(cd "$(dirname "$0")/../.." && pwd)
REPO=${VERIF_REPO:-/repo}
export GOFLAGS=-mod=mod GOPROXY=off GOSUMDB=off GOTOOLCHAIN=local
mkdir -p "$W"
cd "$ROOT"
go build -o "$W/overlaygen" ./cmd/overlaygen
"$W/overlaygen" -repo "$REPO" -shim "$ROOT/sched/shim" -out "$W/overlay" -json "$W/overlay.json" gemmill/types/priv_validator.go
if [ "$W/overlay.json" != "/verif/.work/c03sched/overlay.json" ]; then
  echo "note: BUILDFLAGS names /verif/.work/c03sched/overlay.json; this run wrote $W/overlay.json" >&2
fi
RACEOV=()
if [ -n "${VERIF_OVERLAY_SUBST:-}" ]; then
  python3 - "$REPO" "$W/race_overlay.json" <<'PY'
import json, os, sys
repo, out = sys.argv[1], sys.argv[2]
rep = {}
for kv in os.environ["VERIF_OVERLAY_SUBST"].split(","):
    k, v = kv.split("=", 1)
    rep[os.path.join(repo, k)] = v
json.dump({"Replace": rep}, open(out, "w"))
PY
  RACEOV=(-overlay "$W/race_overlay.json")
fi
if [ -z "${C03B_NO_RACE:-}" ]; then
  go build -race -tags verif "${RACEOV[@]}" -o "$W/c03race" ./sched/c03b/racecmd
fi
