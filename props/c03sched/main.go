// c03sched runs the SCHED part of property C03 (interleavings of concurrent
// callers of SignVote / SignProposal on one real gemmill/types.PrivValidator)
// stand-alone (`./vcheck c03sched quick`).  The exploration itself is the
// library verif/sched/c03b.  The C03 check (props/c03) runs this binary as a
// subprocess and merges its evidence and violations, because this binary is
// built with the import-rewriting overlay (BUILDFLAGS, prebuild.sh) and the
// rest of C03 is built from the unmodified sources.
package main

import (
	"verif/core"
	"verif/sched/c03b"
)

func main() {
	run := core.Start("C03", "model_checking", "SCHED")
	if run.ReplayPath != "" {
		if !c03b.Replay(run) {
			core.Fatal("%s is not a SCHED replay artefact of C03", run.ReplayPath)
		}
		run.Finish(nil, nil)
	}
	cov := c03b.Run(run)
	run.Finish(cov, c03b.Assumptions())
}
