// C08 part (ii) stand-alone: peer-state poisoning through real switches
// (package verif/c08net).  The coordinator calls c08net.Run from props/c08 after
// part (i); this main exists so that part (ii) can be run and replayed on its
// own: ./vcheck c08net quick|thorough.
package main

import (
	"verif/c08net"
	"verif/core"
)

func main() {
	if c08net.IsWorker() {
		c08net.WorkerMain()
		return
	}
	run := core.Start("C08", "exploration", "LIVENET")
	if run.ReplayPath != "" {
		c08net.Replay(run)
		run.Finish(nil, nil)
	}
	cov := c08net.Run(run)
	run.Finish(cov, c08net.Assumptions())
}
