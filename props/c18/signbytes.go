// Phase 3: injectivity of the canonical sign-bytes of votes and proposals.
package main

import (
	"bytes"
	"fmt"
	"sync/atomic"

	"verif/core"

	"github.com/dappledger/AnnChain/gemmill/types"
)

// sbVal is one signable value of the grid, described by grid indices so that a
// pair is replayable.
type sbVal struct {
	Kind    string `json:"kind"` // "vote" | "proposal"
	ChainID string `json:"chain_id"`
	Height  int64  `json:"height"`
	Round   int64  `json:"round"`
	Type    byte   `json:"type,omitempty"`
	Block   int    `json:"block_id"`            // index into blockIDGrid (vote: BlockID, proposal: POLBlockID)
	Parts   int    `json:"parts,omitempty"`     // proposal: index into partsGrid (BlockPartsHeader)
	POL     int64  `json:"pol_round,omitempty"` // proposal
}

type sbCase struct {
	A sbVal `json:"a"`
	B sbVal `json:"b"`
}

func hashOf(tag byte) []byte { return bytes.Repeat([]byte{tag}, 20) }

// lastByte / firstByte: a hash that differs from h in exactly one byte
func lastByte(h []byte) []byte {
	o := append([]byte{}, h...)
	o[len(o)-1] ^= 0x01
	return o
}

func firstByte(h []byte) []byte {
	o := append([]byte{}, h...)
	o[0] ^= 0x01
	return o
}

// block ids: every combination of empty / non-empty components (hash, parts
// total, parts hash — 8 ids, among them the nil id, the full id A and the ids
// with an empty hash and a non-zero parts header), plus A′ differing from A
// in exactly one component (for the hashes: in exactly one byte, the last one,
// so that a canonical form that abbreviates a hash is caught).  The quick grid
// is a prefix of the thorough one, so indices are tier-independent.
const quickBlockIDs = 11

func blockIDGrid(thorough bool) []types.BlockID {
	a := types.BlockID{Hash: hashOf(0xA1), PartsHeader: types.PartSetHeader{Total: 3, Hash: hashOf(0xB1)}}
	g := []types.BlockID{
		{},
		a,
		{Hash: lastByte(a.Hash), PartsHeader: a.PartsHeader},
		{Hash: a.Hash, PartsHeader: types.PartSetHeader{Total: 4, Hash: a.PartsHeader.Hash}},
		{Hash: a.Hash, PartsHeader: types.PartSetHeader{Total: 3, Hash: lastByte(a.PartsHeader.Hash)}},
		// the remaining empty/non-empty combinations
		{Hash: a.Hash},               // hash only, zero parts header
		{PartsHeader: a.PartsHeader}, // empty hash, full parts header
		{Hash: a.Hash, PartsHeader: types.PartSetHeader{Total: 3}},                 // empty parts hash
		{Hash: a.Hash, PartsHeader: types.PartSetHeader{Hash: a.PartsHeader.Hash}}, // zero parts total
		{PartsHeader: types.PartSetHeader{Total: 3}},                               // parts total only
		{PartsHeader: types.PartSetHeader{Hash: a.PartsHeader.Hash}},               // parts hash only
	}
	if len(g) != quickBlockIDs {
		panic("blockIDGrid: quick prefix length")
	}
	if thorough {
		g = append(g,
			types.BlockID{Hash: a.PartsHeader.Hash, PartsHeader: types.PartSetHeader{Total: 3, Hash: a.Hash}}, // hashes swapped
			types.BlockID{Hash: a.Hash[:19], PartsHeader: a.PartsHeader},
			types.BlockID{Hash: firstByte(a.Hash), PartsHeader: a.PartsHeader},
			types.BlockID{Hash: a.Hash, PartsHeader: types.PartSetHeader{Total: 3, Hash: firstByte(a.PartsHeader.Hash)}},
			types.BlockID{Hash: a.Hash, PartsHeader: types.PartSetHeader{Total: 1<<32 + 3, Hash: a.PartsHeader.Hash}},
			// empty hash, parts headers differing from A's in one component
			types.BlockID{PartsHeader: types.PartSetHeader{Total: 4, Hash: a.PartsHeader.Hash}},
			types.BlockID{PartsHeader: types.PartSetHeader{Total: 3, Hash: lastByte(a.PartsHeader.Hash)}},
		)
	}
	return g
}

// parts headers: every combination of empty / non-empty (total, hash), plus
// one-component variants of p
func partsGrid(thorough bool) []types.PartSetHeader {
	p := types.PartSetHeader{Total: 3, Hash: hashOf(0xC1)}
	g := []types.PartSetHeader{{}, p, {Total: 4, Hash: p.Hash}, {Total: 3, Hash: lastByte(p.Hash)}, {Total: 3}, {Hash: p.Hash}}
	if thorough {
		g = append(g, types.PartSetHeader{Total: 3, Hash: firstByte(p.Hash)})
	}
	return g
}

// chain ids: valid UTF-8 (a chain id only ever enters through the genesis JSON
// document, whose decoder yields valid UTF-8), including ones that would break
// out of a naively quoted JSON string.
func chainIDGrid(thorough bool) []string {
	g := []string{"", "a", `a"`, `a","b`, `a","height":1,"x":"`, `a\`}
	if thorough {
		g = append(g, `a\"`, "a\x00", "ä", `"`, `a","vote":{"block_id":{},"height":1,"round":0,"type":1}}`, `a"}`, "a ", "A", "a ", "<a>")
	}
	return g
}

// quick grids are prefixes of the thorough ones, so indices are tier-independent
var (
	allBlockIDs = blockIDGrid(true)
	allParts    = partsGrid(true)
)

func (v sbVal) blockID() types.BlockID { return allBlockIDs[v.Block] }

func (v sbVal) signable() types.Signable {
	if v.Kind == "vote" {
		return &types.Vote{
			ValidatorAddress: hashOf(0x55), ValidatorIndex: 2,
			Height: v.Height, Round: v.Round, Type: v.Type, BlockID: v.blockID(),
		}
	}
	return &types.Proposal{Height: v.Height, Round: v.Round, BlockPartsHeader: allParts[v.Parts], POLRound: v.POL, POLBlockID: v.blockID()}
}

func sbGrid(thorough bool) []sbVal {
	var out []sbVal
	heights := []int64{0, 1, 1 << 32, 1<<63 - 1}
	rounds := []int64{0, 1}
	if thorough {
		heights = append(heights, 2, 10, 1<<32+1, 1<<53+1)
		rounds = append(rounds, 2, 1<<63-1)
	}
	nb := len(blockIDGrid(thorough))
	np := len(partsGrid(thorough))
	for _, c := range chainIDGrid(thorough) {
		for _, h := range heights {
			for _, r := range rounds {
				for _, t := range []byte{types.VoteTypePrevote, types.VoteTypePrecommit} {
					for b := 0; b < nb; b++ {
						out = append(out, sbVal{Kind: "vote", ChainID: c, Height: h, Round: r, Type: t, Block: b})
					}
				}
			}
		}
	}
	pols := []int64{-1, 0, 1}
	for _, c := range chainIDGrid(thorough) {
		for _, h := range heights {
			for _, r := range rounds {
				for _, pr := range pols {
					// POL block ids: the quick set (all empty/non-empty combinations and
					// the one-component variants) in both tiers
					for b := 0; b < nb && b < quickBlockIDs; b++ {
						for p := 0; p < np; p++ {
							out = append(out, sbVal{Kind: "proposal", ChainID: c, Height: h, Round: r, Block: b, Parts: p, POL: pr})
						}
					}
				}
			}
		}
	}
	return out
}

// sameSigned: equality of what the property names (chain id, height, round,
// type, block id) plus, for proposals, the two further signed fields.
func sameSigned(a, b sbVal) (bool, string) {
	switch {
	case a.Kind != b.Kind:
		return false, "kind"
	case a.ChainID != b.ChainID:
		return false, "chain-id"
	case a.Height != b.Height:
		return false, "height"
	case a.Round != b.Round:
		return false, "round"
	case a.Type != b.Type:
		return false, "type"
	case !a.blockID().Equals(b.blockID()):
		return false, "block-id"
	case a.Kind == "proposal" && a.POL != b.POL:
		return false, "pol-round"
	case a.Kind == "proposal" && !allParts[a.Parts].Equals(allParts[b.Parts]):
		return false, "block-parts-header"
	}
	return true, ""
}

func signBytesOf(v sbVal) (b []byte, o outcome) {
	o = guarded(func(o *outcome) { b = types.SignBytes(v.ChainID, v.signable()) })
	return
}

func (c *checker) checkPair(a, b sbVal, sa, sb []byte) {
	if !bytes.Equal(sa, sb) {
		return
	}
	same, what := sameSigned(a, b)
	if same {
		return
	}
	c.report(map[string]string{"phase": "signbytes", "kind": "collision", "signable": a.Kind + "/" + b.Kind, "differ": what},
		kase{Phase: "signbytes", SB: &sbCase{a, b}},
		fmt.Sprintf("two signables that differ in %s share the sign-bytes %s: %+v vs %+v", what, clipS(sa), a, b))
}

func clipS(b []byte) string {
	if len(b) > 300 {
		return string(b[:300]) + "…"
	}
	return string(b)
}

func (c *checker) signBytes(thorough bool) (values int, pairs int64, distinct int) {
	grid := sbGrid(thorough)
	enc := make([][]byte, len(grid))
	var bad int64
	core.Par(len(grid), func(i int) {
		b1, o := signBytesOf(grid[i])
		if o.Panicked {
			c.report(map[string]string{"phase": "signbytes", "kind": "panic", "site": o.Site, "panic": panicClass(o.PanicVal)},
				kase{Phase: "signbytes", SB: &sbCase{grid[i], grid[i]}}, "SignBytes panicked: "+o.PanicVal)
			atomic.StoreInt64(&bad, 1)
			return
		}
		b2, _ := signBytesOf(grid[i])
		if !bytes.Equal(b1, b2) {
			c.report(map[string]string{"phase": "signbytes", "kind": "nondeterministic"},
				kase{Phase: "signbytes", SB: &sbCase{grid[i], grid[i]}}, "two calls of SignBytes on one value differ")
		}
		enc[i] = b1
	})
	if bad != 0 {
		return len(grid), 0, 0
	}
	d := map[string]bool{}
	for _, e := range enc {
		d[string(e)] = true
	}
	var n int64
	core.Par(len(grid), func(i int) {
		for j := range grid {
			if i == j {
				continue
			}
			c.checkPair(grid[i], grid[j], enc[i], enc[j])
		}
		atomic.AddInt64(&n, int64(len(grid)-1))
	})
	atomic.AddInt64(&c.evals, n)
	return len(grid), n, len(d)
}
