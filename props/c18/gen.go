// Reflection-driven boundary-value generator for go-wire types and the
// field-wise comparison used by the round-trip oracle.
//
// A value of a root type is determined by (base, override): the base
// (A, B, min, max) fixes every leaf, the override replaces exactly one leaf
// (addressed by its path) with one of that leaf's alternatives.  The generator
// is deterministic, so (root, base, path, alt) is a complete replay key.
package main

import (
	"fmt"
	"math"
	"math/big"
	"reflect"
	"sort"
	"strconv"
	"strings"
	"sync"
	"time"

	wire "github.com/dappledger/AnnChain/gemmill/go-wire"
)

const (
	baseA = iota
	baseB
	baseMin
	baseMax
)

var baseNames = []string{"A", "B", "min", "max"}

var timeType = reflect.TypeOf(time.Time{})

// leafRec describes one leaf met while building a value.
type leafRec struct {
	Path string
	Kind string // go kind / role of the leaf
	NAlt int    // number of alternatives
	Base int    // index of the alternative the base already uses, or -1
}

type builder struct {
	base   int
	fixed  map[string]int // forced alternative per path (interface choices of a root)
	ovPath string
	ovAlt  int
	rec    *[]leafRec

	shape       map[string]string // path -> shape label of the generated leaf
	kind        map[string]string // path -> leaf kind
	jsonOnly    bool              // value lies outside the binary codec's documented domain (zero time)
	unsupported []string          // leaves of kinds the codec does not support (never expected)
	ovHit       bool

	track  bool              // record kind/shape of every leaf (else only of the overridden one)
	rlp    bool              // RLP domain: unsigned integers, non-nil big.Int, RLP boundary lengths
	curTag reflect.StructTag // tag of the struct field being built

	// inside an element of a long slice (see sliceLens): index of the element
	// and nesting depth below it; pointer / interface leaves are nil at a
	// position-dependent pattern (nilSlot)
	longIdx   int
	longDepth int // 0: not inside a long slice; 1: the element itself; 2+: below it
}

func newBuilder(base int, fixed map[string]int, ovPath string, ovAlt int) *builder {
	return &builder{base: base, fixed: fixed, ovPath: ovPath, ovAlt: ovAlt, shape: map[string]string{}, kind: map[string]string{}, longIdx: -1}
}

func h32(s string) uint32 {
	h := uint32(2166136261) // FNV-1a
	for i := 0; i < len(s); i++ {
		h ^= uint32(s[i])
		h *= 16777619
	}
	return h
}

// pick decides which alternative a leaf takes: (index, true) when forced or
// overridden, (-1, false) when the base value applies.
func (b *builder) setShape(path, shape string) {
	if b.track || path == b.ovPath {
		b.shape[path] = shape
	}
}

func (b *builder) pick(path, kind string, nAlt, baseIdx int) (int, bool) {
	if b.track || path == b.ovPath {
		b.kind[path] = kind
	}
	if v, ok := b.fixed[path]; ok {
		return v, true
	}
	if b.rec != nil {
		*b.rec = append(*b.rec, leafRec{Path: path, Kind: kind, NAlt: nAlt, Base: baseIdx})
	}
	if b.ovPath == path && b.ovAlt >= 0 {
		b.ovHit = true
		return b.ovAlt, true
	}
	return -1, false
}

// ---------------------------------------------------------------- alternatives

const two53 = int64(1) << 53

type intAlt struct {
	s     int64
	u     uint64
	label string
}

func signedAlts(bits int) []intAlt {
	min := int64(-1) << uint(bits-1)
	max := int64(1)<<uint(bits-1) - 1
	a := []intAlt{{s: min, label: "min"}, {s: -1, label: "minus-one"}, {s: 0, label: "zero"}, {s: 1, label: "one"}}
	if bits == 64 {
		a = append(a, intAlt{s: two53, label: "2p53"}, intAlt{s: -two53, label: "minus-2p53"}, intAlt{s: two53 + 1, label: "2p53+1"}, intAlt{s: -max, label: "minus-max"})
	}
	return append(a, intAlt{s: max, label: "max"})
}

func unsignedAlts(bits int) []intAlt {
	max := uint64(math.MaxUint64)
	if bits < 64 {
		max = uint64(1)<<uint(bits) - 1
	}
	a := []intAlt{{u: 0, label: "zero"}, {u: 1, label: "one"}}
	if bits == 8 {
		a = append(a, intAlt{u: 2, label: "two"}, intAlt{u: 0x7f, label: "0x7f"}, intAlt{u: 0x80, label: "0x80"})
	}
	if bits == 64 {
		a = append(a, intAlt{u: uint64(two53), label: "2p53"}, intAlt{u: uint64(two53) + 1, label: "2p53+1"}, intAlt{u: uint64(1) << 63, label: "2p63"})
	}
	return append(a, intAlt{u: max, label: "max"})
}

func magShapeSigned(v int64) string {
	if v > two53 || v < -two53 {
		return "int-beyond-2p53"
	}
	return "int-within-2p53"
}

func magShapeUnsigned(v uint64) string {
	if v > uint64(two53) {
		return "int-beyond-2p53"
	}
	return "int-within-2p53"
}

var stringAlts = []string{
	"",
	"a",
	`q"uo\te`,
	"ünï©ode→ 😀",
	`a","b`,
	"<&>\n\x00\t",
}

var byteLenAlts = []int{0, 1, 32, 1025}

// RLP: single bytes below/above 0x80, the 55/56 short/long string boundary,
// one- and two-byte length-of-length.
var rlpByteLenAlts = []int{0, 1, 1, 2, 55, 56, 57, 255, 256, 1025}

var bigIntType = reflect.TypeOf(big.Int{})

// Lengths of slices with non-byte elements.  The short ones are varied around
// every base like any other leaf.  The long ones straddle the chunk size C in
// which the binary decoder reads element slices (wire.ReadSliceChunkSize):
// C-1, C, C+1, 2C-1, 2C, 2C+1, 3C+1.
const shortSliceLens = 3

func sliceLens(rlp bool) []int {
	lens := []int{0, 1, 3}
	if rlp {
		return lens
	}
	c := wire.ReadSliceChunkSize
	if c < 4 {
		return lens
	}
	return append(lens, c-1, c, c+1, 2*c-1, 2*c, 2*c+1, 3*c+1)
}

// nilModulus: the period of the nil pattern inside long slices; coprime to the
// chunk size, so that slots j and j+C always lie in different phases.
func nilModulus() int {
	for _, m := range []int{3, 5, 7, 11, 13} {
		if wire.ReadSliceChunkSize%m != 0 {
			return m
		}
	}
	return 17
}

// nilSlot: inside element i of a long slice, the element itself (if it is a
// pointer or an interface) is nil in phase 1, pointers and interfaces below a
// (non-nil) element are nil in phase 2; all other slots are set.
func (b *builder) nilSlot() bool {
	if b.longDepth == 0 {
		return false
	}
	ph := b.longIdx % nilModulus()
	if b.longDepth == 1 {
		return ph == 1
	}
	return ph == 2
}

func rlpBigAlts() []*big.Int {
	two := big.NewInt(2)
	p := func(e int64, d int64) *big.Int {
		x := new(big.Int).Exp(two, big.NewInt(e), nil)
		return x.Add(x, big.NewInt(d))
	}
	return []*big.Int{big.NewInt(0), big.NewInt(1), big.NewInt(127), big.NewInt(128), big.NewInt(255), big.NewInt(256), p(64, -1), p(64, 0), p(256, -1)}
}

func rlpUintAlts(bits int) []intAlt {
	max := uint64(math.MaxUint64)
	if bits < 64 {
		max = uint64(1)<<uint(bits) - 1
	}
	a := []intAlt{{u: 0, label: "zero"}, {u: 1, label: "one"}, {u: 127, label: "127"}, {u: 128, label: "128"}, {u: 255, label: "255"}}
	if bits > 8 {
		a = append(a, intAlt{u: 256, label: "256"})
	}
	if bits == 64 {
		a = append(a, intAlt{u: 1 << 32, label: "2p32"}, intAlt{u: 1<<56 - 1, label: "2p56-1"}, intAlt{u: 1 << 56, label: "2p56"})
	}
	return append(a, intAlt{u: max, label: "max"})
}

// The binary codec writes "nanoseconds since epoch … with millisecond
// precision" as an int64 (go-wire/time.go), JSON writes
// 2006-01-02T15:04:05.000Z: the supported domain is millisecond-aligned
// instants whose UnixNano fits an int64.  The zero time.Time (year 1) is not
// in that domain for binary (time.UnixNano is undefined there) but JSON
// represents it, so it is offered to JSON only.
var (
	timeMin   = time.Unix(0, (math.MinInt64/1000000)*1000000).UTC()
	timeMax   = time.Unix(0, (math.MaxInt64/1000000)*1000000).UTC()
	timeNowA  = time.Date(2019, 1, 2, 3, 4, 5, 678000000, time.UTC)
	timeNowB  = time.Date(2026, 9, 23, 12, 0, 0, 1000000, time.UTC)
	timeAlts  = []time.Time{{}, time.Unix(0, 0).UTC(), timeNowA, timeMax, time.Unix(0, -1000000).UTC(), timeMin}
	timeLabel = []string{"zero-time", "epoch", "now", "far-future", "pre-epoch", "far-past"}
)

// A time.Time value is an instant AND a location.  The alternatives above are
// all in UTC; the zoned alternatives denote instants that are also offered in
// UTC, in locations with a non-zero offset: two fixed zones (+08:00, −03:30:
// whole and half hours, east and west; for the epoch the local calendar date
// and year differ from the UTC ones) and time.Local — which this process sets
// to a fixed non-UTC zone (init below), the situation of a node started with
// TZ=Asia/Shanghai, and also the location of every time the binary decoder
// returns (ReadTime: time.Unix).  timeTwin maps a zoned alternative to the UTC
// alternative of the same instant (−1: none).
var (
	zoneEast  = time.FixedZone("UTC+8", 8*3600)
	zoneWest  = time.FixedZone("UTC-3:30", -(3*3600 + 30*60))
	zoneLocal = time.FixedZone("verif-local+5:45", 5*3600+45*60)
	timeTwin  []int
)

func init() {
	time.Local = zoneLocal
	for range timeAlts {
		timeTwin = append(timeTwin, -1)
	}
	zoned := func(utcIdx int, loc *time.Location, label string) {
		timeAlts = append(timeAlts, timeAlts[utcIdx].In(loc))
		timeLabel = append(timeLabel, label)
		timeTwin = append(timeTwin, utcIdx)
	}
	zoned(2, zoneEast, "now-zone-east")
	zoned(2, zoneWest, "now-zone-west")
	zoned(2, time.Local, "now-zone-local")
	zoned(1, zoneWest, "epoch-zone-west")
	zoned(1, time.Local, "epoch-zone-local")
}

// ---------------------------------------------------------------- building

func fillBytes(p []byte, seed uint32) {
	x := seed | 1
	for i := range p {
		x = x*1664525 + 1013904223
		p[i] = byte(x >> 24)
	}
}

// codecFields lists the fields the codec handles: exported, json tag != "-".
var fieldCache sync.Map

func codecFields(t reflect.Type) []reflect.StructField {
	if c, ok := fieldCache.Load(t); ok {
		return c.([]reflect.StructField)
	}
	fs := codecFieldsUncached(t)
	fieldCache.Store(t, fs)
	return fs
}

func codecFieldsUncached(t reflect.Type) []reflect.StructField {
	var fs []reflect.StructField
	for i := 0; i < t.NumField(); i++ {
		f := t.Field(i)
		if f.PkgPath != "" || f.Tag.Get("json") == "-" {
			continue
		}
		fs = append(fs, f)
	}
	return fs
}

// concreteTypes returns the registered concrete types of an interface type in
// type-byte order (registry walk at run time), or nil if unregistered.
type concreteList struct {
	ts []reflect.Type
	bs []byte
}

var concreteCache sync.Map

func concreteTypes(t reflect.Type) ([]reflect.Type, []byte) {
	if c, ok := concreteCache.Load(t); ok {
		return c.(concreteList).ts, c.(concreteList).bs
	}
	ts, bs := concreteTypesUncached(t)
	concreteCache.Store(t, concreteList{ts, bs})
	return ts, bs
}

func concreteTypesUncached(t reflect.Type) ([]reflect.Type, []byte) {
	info := wire.GetTypeInfo(t)
	if !info.IsRegisteredInterface {
		return nil, nil
	}
	var bs []int
	for b := range info.ByteToType {
		bs = append(bs, int(b))
	}
	sort.Ints(bs)
	var ts []reflect.Type
	var bb []byte
	for _, b := range bs {
		ts = append(ts, info.ByteToType[byte(b)])
		bb = append(bb, byte(b))
	}
	return ts, bb
}

func (b *builder) build(t reflect.Type, path string, depth int) reflect.Value {
	if depth > 24 {
		panic("generator: type nesting too deep at " + path)
	}
	v := reflect.New(t).Elem()
	hp := h32(path)
	switch t.Kind() {
	case reflect.Interface:
		cts, _ := concreteTypes(t)
		if cts == nil {
			b.unsupported = append(b.unsupported, path+":unregistered-interface")
			return v
		}
		baseIdx := 0
		switch b.base {
		case baseA:
			baseIdx = 1
		case baseB, baseMax:
			baseIdx = len(cts)
		}
		idx, forced := b.pick(path, "iface", len(cts)+1, baseIdx)
		if !forced {
			idx = baseIdx
			if b.nilSlot() {
				idx = 0
			} else if b.longDepth > 0 && idx == 0 {
				idx = 1
			}
		}
		if idx == 0 {
			b.setShape(path, "iface-nil")
			return v
		}
		b.setShape(path, "iface-set")
		ct := cts[idx-1]
		if b.longDepth > 0 {
			b.longDepth++
			defer func() { b.longDepth-- }()
		}
		if ct.Kind() == reflect.Ptr {
			p := reflect.New(ct.Elem())
			p.Elem().Set(b.build(ct.Elem(), path+"!", depth+1))
			v.Set(p)
		} else {
			v.Set(b.build(ct, path+"!", depth+1))
		}
		return v

	case reflect.Ptr:
		if b.rlp && t.Elem() == bigIntType {
			alts := rlpBigAlts()
			idx, forced := b.pick(path, "bigint", len(alts), -1)
			var x *big.Int
			if forced {
				x = alts[idx]
			} else {
				switch b.base {
				case baseA:
					x = big.NewInt(int64(1 + hp%100))
				case baseB:
					x = new(big.Int).Lsh(big.NewInt(int64(0x0100+hp%0x7000)), 70)
				case baseMin:
					x = alts[0]
				case baseMax:
					x = alts[len(alts)-1]
				}
			}
			b.setShape(path, fmt.Sprintf("bigint-%dbits", x.BitLen()))
			v.Set(reflect.ValueOf(new(big.Int).Set(x)))
			return v
		}
		if b.rlp && !strings.Contains(b.curTag.Get("rlp"), "nil") {
			// without rlp:"nil" a nil pointer is not a distinct RLP value
			p := reflect.New(t.Elem())
			p.Elem().Set(b.build(t.Elem(), path+"*", depth+1))
			v.Set(p)
			return v
		}
		baseIdx := 1
		if b.base == baseMin {
			baseIdx = 0
		}
		idx, forced := b.pick(path, "ptr", 2, baseIdx)
		if !forced {
			idx = baseIdx
			if b.nilSlot() {
				idx = 0
			} else if b.longDepth > 0 {
				idx = 1
			}
		}
		if idx == 0 {
			b.setShape(path, "ptr-nil")
			return v
		}
		b.setShape(path, "ptr-set")
		if b.longDepth > 0 {
			b.longDepth++
			defer func() { b.longDepth-- }()
		}
		p := reflect.New(t.Elem())
		p.Elem().Set(b.build(t.Elem(), path+"*", depth+1))
		v.Set(p)
		return v

	case reflect.Struct:
		if t == timeType {
			idx, forced := b.pick(path, "time", len(timeAlts), -1)
			var tm time.Time
			if forced {
				tm = timeAlts[idx]
				b.setShape(path, timeLabel[idx])
				if idx == 0 {
					b.jsonOnly = true
				}
			} else {
				switch b.base {
				case baseA:
					tm = timeNowA.Add(time.Duration(hp%1000) * time.Millisecond)
				case baseB:
					tm = timeNowB.Add(time.Duration(hp%100000) * time.Millisecond)
				case baseMin:
					tm = timeMin
				case baseMax:
					tm = timeMax
				}
				b.setShape(path, "time-base")
			}
			v.Set(reflect.ValueOf(tm))
			return v
		}
		if b.longDepth > 0 {
			b.longDepth++
			defer func() { b.longDepth-- }()
		}
		for _, f := range codecFields(t) {
			if b.rlp && f.Tag.Get("rlp") == "-" {
				continue
			}
			b.curTag = f.Tag
			v.FieldByIndex(f.Index).Set(b.build(f.Type, path+"."+f.Name, depth+1))
		}
		b.curTag = ""
		return v

	case reflect.Array:
		if t.Elem().Kind() == reflect.Uint8 {
			idx, forced := b.pick(path, "bytearray", 3, -1)
			if !forced {
				idx = []int{1, 1, 0, 2}[b.base]
			}
			buf := make([]byte, t.Len())
			switch idx {
			case 0:
				b.setShape(path, "bytearray-zero")
			case 1:
				fillBytes(buf, hp+uint32(b.base))
				b.setShape(path, "bytearray-pattern")
			case 2:
				for i := range buf {
					buf[i] = 0xff
				}
				b.setShape(path, "bytearray-ff")
			}
			reflect.Copy(v, reflect.ValueOf(buf))
			return v
		}
		for i := 0; i < t.Len(); i++ {
			v.Index(i).Set(b.build(t.Elem(), path+"["+strconv.Itoa(i)+"]", depth+1))
		}
		return v

	case reflect.Slice:
		if t.Elem().Kind() == reflect.Uint8 {
			lenAlts := byteLenAlts
			if b.rlp {
				lenAlts = rlpByteLenAlts
			}
			idx, forced := b.pick(path, "bytes", len(lenAlts), -1)
			n := 0
			if forced {
				n = lenAlts[idx]
			} else {
				n = []int{4, 20, 0, 1025}[b.base]
			}
			b.setShape(path, "bytes-len"+strconv.Itoa(n))
			if n == 0 {
				// nil and empty are one value for the codec (documented
				// identification); which of the two is emitted depends on the
				// path only, never both for one comparison.
				if hp%2 == 0 {
					return v // nil
				}
				v.Set(reflect.MakeSlice(t, 0, 0))
				return v
			}
			s := reflect.MakeSlice(t, n, n)
			fillBytes(s.Bytes(), hp+uint32(b.base)*7)
			if n == 1 {
				s.Bytes()[0] |= 0x80
				if b.rlp && forced && idx == 1 {
					s.Bytes()[0] &= 0x7f // a single byte below 0x80 is its own RLP encoding
				}
			}
			v.Set(s)
			return v
		}
		lens := sliceLens(b.rlp)
		baseIdx := []int{1, 2, 0, 2}[b.base]
		idx, forced := b.pick(path, "slice-len", len(lens), baseIdx)
		if !forced {
			idx = baseIdx
		}
		n := lens[idx]
		b.setShape(path, "slice-len"+strconv.Itoa(n))
		if idx >= shortSliceLens && b.longDepth == 0 {
			// a long slice: distinguishable elements (every leaf depends on the
			// element's path) with nil slots
			s := reflect.MakeSlice(t, n, n)
			for i := 0; i < n; i++ {
				b.longIdx, b.longDepth = i, 1
				s.Index(i).Set(b.build(t.Elem(), path+"["+strconv.Itoa(i)+"]", depth+1))
			}
			b.longIdx, b.longDepth = -1, 0
			v.Set(s)
			return v
		}
		if n == 0 {
			if hp%2 == 0 {
				return v
			}
			v.Set(reflect.MakeSlice(t, 0, 0))
			return v
		}
		s := reflect.MakeSlice(t, n, n)
		for i := 0; i < n; i++ {
			s.Index(i).Set(b.build(t.Elem(), path+"["+strconv.Itoa(i)+"]", depth+1))
		}
		v.Set(s)
		return v

	case reflect.String:
		idx, forced := b.pick(path, "string", len(stringAlts), -1)
		var s string
		if forced {
			s = stringAlts[idx]
			b.setShape(path, fmt.Sprintf("string-alt%d", idx))
		} else {
			switch b.base {
			case baseA:
				s = fmt.Sprintf("s%02x", hp%251)
			case baseB:
				s = fmt.Sprintf("string-B-%08x-é", hp)
			case baseMin:
				s = ""
			case baseMax:
				s = stringAlts[3] + strings.Repeat("z", 300)
			}
			b.setShape(path, "string-base")
		}
		v.SetString(s)
		return v

	case reflect.Bool:
		baseIdx := []int{int(hp % 2), 1 - int(hp%2), 0, 1}[b.base]
		idx, forced := b.pick(path, "bool", 2, baseIdx)
		if !forced {
			idx = baseIdx
		}
		v.SetBool(idx == 1)
		b.setShape(path, "bool")
		return v

	case reflect.Int, reflect.Int8, reflect.Int16, reflect.Int32, reflect.Int64:
		bits := t.Bits()
		alts := signedAlts(bits)
		idx, forced := b.pick(path, t.Kind().String(), len(alts), -1)
		var x int64
		if forced {
			x = alts[idx].s
		} else {
			switch b.base {
			case baseA:
				x = int64(1 + hp%100)
			case baseB:
				if bits == 8 {
					x = -int64(2 + hp%100)
				} else {
					x = int64(0x0100 + hp%0x7000)
				}
			case baseMin:
				x = alts[0].s
			case baseMax:
				x = alts[len(alts)-1].s
			}
		}
		v.SetInt(x)
		b.setShape(path, magShapeSigned(x))
		return v

	case reflect.Uint, reflect.Uint8, reflect.Uint16, reflect.Uint32, reflect.Uint64:
		bits := t.Bits()
		alts := unsignedAlts(bits)
		if b.rlp {
			alts = rlpUintAlts(bits)
		}
		idx, forced := b.pick(path, t.Kind().String(), len(alts), -1)
		var x uint64
		if forced {
			x = alts[idx].u
		} else {
			switch b.base {
			case baseA:
				x = uint64(1 + hp%100)
			case baseB:
				if bits == 8 {
					x = uint64(0x80 | hp%0x7f)
				} else {
					x = uint64(0x0100 + hp%0x7000)
				}
			case baseMin:
				x = 0
			case baseMax:
				x = alts[len(alts)-1].u
			}
		}
		v.SetUint(x)
		b.setShape(path, magShapeUnsigned(x))
		return v
	}
	// floats, maps, chans, funcs: declared unsupported by go-wire (README)
	b.unsupported = append(b.unsupported, path+":"+t.Kind().String())
	return v
}

// ---------------------------------------------------------------- roots

// rootSpec is one type offered to the codecs.  ByValue roots are the
// struct{ Interface } wrappers the reactors encode and decode by value;
// the others are handled through a pointer as the block store, the consensus
// state machine and the state loader do (wire.ReadBinary(&T{}, …)).
type rootSpec struct {
	Name    string
	Type    reflect.Type
	ByValue bool
	Fixed   map[string]int
	Family  string // name of the unexpanded root (decode target)
	RLP     bool   // generate in the RLP domain
}

// valueDesc identifies one grid value.
type valueDesc struct {
	Root string `json:"root"`
	Base string `json:"base"`
	Path string `json:"path,omitempty"`
	Alt  int    `json:"alt"`
}

type gridValue struct {
	Desc     valueDesc
	Root     *rootSpec
	V        reflect.Value     // addressable value of Root.Type
	Shape    map[string]string // of the overridden leaf only; see full()
	Kind     map[string]string
	JSONOnly bool
	Long     bool   // the varied leaf is a slice of one of the long lengths
	ElemKind string // for Long: kind of the slice's element type
	base     int
}

// full returns kind and shape of every leaf (rebuilds the value; only needed
// to classify a counterexample).
func (g *gridValue) full() (kind, shape map[string]string) {
	b := newBuilder(g.base, g.Root.Fixed, g.Desc.Path, g.Desc.Alt)
	b.rlp = g.Root.RLP
	b.track = true
	b.build(g.Root.Type, "", 0)
	return b.kind, b.shape
}

func (r *rootSpec) make(base int, ovPath string, ovAlt int) (*gridValue, *builder) {
	b := newBuilder(base, r.Fixed, ovPath, ovAlt)
	b.rlp = r.RLP
	holder := reflect.New(r.Type)
	holder.Elem().Set(b.build(r.Type, "", 0))
	g := &gridValue{
		Desc:     valueDesc{Root: r.Name, Base: baseNames[base], Path: ovPath, Alt: ovAlt},
		Root:     r,
		V:        holder.Elem(),
		Shape:    b.shape,
		Kind:     b.kind,
		JSONOnly: b.jsonOnly,
		base:     base,
	}
	if ovPath != "" && b.kind[ovPath] == "slice-len" && ovAlt >= shortSliceLens {
		if sv := walkTo(g.V, ovPath); sv.IsValid() && sv.Kind() == reflect.Slice {
			g.Long = true
			g.ElemKind = sv.Type().Elem().Kind().String()
		}
	}
	return g, b
}

// iface returns the value as the codec entry points receive it.
func (g *gridValue) iface() interface{} {
	if g.Root.ByValue {
		return g.V.Interface()
	}
	return g.V.Addr().Interface()
}

func (r *rootSpec) leaves(base int) []leafRec {
	var rec []leafRec
	b := newBuilder(base, r.Fixed, "", -1)
	b.rlp = r.RLP
	b.rec = &rec
	b.build(r.Type, "", 0)
	return rec
}

// gridJob names one grid value without building it.
type gridJob struct {
	Root *rootSpec
	Base int
	Path string
	Alt  int
}

func (j gridJob) build() *gridValue {
	g, _ := j.Root.make(j.Base, j.Path, j.Alt)
	return g
}

// grid enumerates the values of one root: the four bases, then around bases A
// and B every leaf replaced by every alternative (one leaf at a time).  The
// long-slice alternatives (sliceLens beyond the short ones) are not built here
// but handed to long, if given, as jobs: they are large, and are built, checked
// and dropped one at a time.
func (r *rootSpec) grid(each func(*gridValue), long func(gridJob)) (unsupported []string) {
	for base := baseA; base <= baseMax; base++ {
		g, b := r.make(base, "", -1)
		unsupported = append(unsupported, b.unsupported...)
		each(g)
	}
	for _, base := range []int{baseA, baseB} {
		for _, lf := range r.leaves(base) {
			for alt := 0; alt < lf.NAlt; alt++ {
				if alt == lf.Base {
					continue
				}
				if lf.Kind == "slice-len" && alt >= shortSliceLens {
					if long != nil {
						long(gridJob{r, base, lf.Path, alt})
					}
					continue
				}
				g, _ := r.make(base, lf.Path, alt)
				each(g)
			}
		}
	}
	return
}

// expandRoots turns a root with interface-typed positions listed in paths into
// one root per registered concrete type (and nil) at each of those positions.
func expandRoots(r rootSpec, paths []string) []rootSpec {
	var out []rootSpec
	var rec func(cur rootSpec)
	rec = func(cur rootSpec) {
		for _, lf := range cur.leaves(baseA) {
			if lf.Kind != "iface" {
				continue
			}
			want := false
			for _, p := range paths {
				if p == lf.Path {
					want = true
				}
			}
			if !want {
				continue
			}
			for alt := 0; alt < lf.NAlt; alt++ {
				nf := map[string]int{}
				for k, v := range cur.Fixed {
					nf[k] = v
				}
				nf[lf.Path] = alt
				nr := cur
				nr.Fixed = nf
				nr.Name = fmt.Sprintf("%s%s=%s", cur.Name, lf.Path, ifaceAltName(cur, lf.Path, alt))
				rec(nr)
			}
			return
		}
		out = append(out, cur)
	}
	r.Family = r.Name
	rec(r)
	return out
}

func ifaceAltName(r rootSpec, path string, alt int) string {
	if alt == 0 {
		return "nil"
	}
	nf := map[string]int{}
	for k, v := range r.Fixed {
		nf[k] = v
	}
	nf[path] = alt
	b := newBuilder(baseA, nf, "", -1)
	v := b.build(r.Type, "", 0)
	x := walkTo(v, path)
	if x.IsValid() && x.Kind() == reflect.Interface && !x.IsNil() {
		t := x.Elem().Type()
		if t.Kind() == reflect.Ptr {
			t = t.Elem()
		}
		return t.Name()
	}
	return fmt.Sprintf("alt%d", alt)
}

// walkTo follows a generator path inside a value.
func walkTo(v reflect.Value, path string) reflect.Value {
	for len(path) > 0 {
		switch path[0] {
		case '.':
			j := 1
			for j < len(path) && path[j] != '.' && path[j] != '[' && path[j] != '!' && path[j] != '*' {
				j++
			}
			v = v.FieldByName(path[1:j])
			path = path[j:]
		case '[':
			j := strings.IndexByte(path, ']')
			var i int
			fmt.Sscanf(path[1:j], "%d", &i)
			v = v.Index(i)
			path = path[j+1:]
		case '!':
			v = v.Elem()
			if v.Kind() == reflect.Ptr {
				v = v.Elem()
			}
			path = path[1:]
		case '*':
			v = v.Elem()
			path = path[1:]
		default:
			return reflect.Value{}
		}
		if !v.IsValid() {
			return v
		}
	}
	return v
}

// ---------------------------------------------------------------- comparison

// diffWire lists the leaf paths at which b (decoded) differs from a
// (original) as far as the codec is concerned: exported non-skipped fields,
// nil and empty slices identified, times compared as instants.
func diffWire(a, b reflect.Value, path string, out *[]string) {
	if a.Type() != b.Type() {
		*out = append(*out, path+" (type "+a.Type().String()+" vs "+b.Type().String()+")")
		return
	}
	t := a.Type()
	switch t.Kind() {
	case reflect.Interface:
		if a.IsNil() || b.IsNil() {
			if a.IsNil() != b.IsNil() {
				*out = append(*out, path)
			}
			return
		}
		ea, eb := a.Elem(), b.Elem()
		if ea.Type() != eb.Type() {
			*out = append(*out, path)
			return
		}
		if ea.Kind() == reflect.Ptr {
			if ea.IsNil() || eb.IsNil() {
				if ea.IsNil() != eb.IsNil() {
					*out = append(*out, path)
				}
				return
			}
			ea, eb = ea.Elem(), eb.Elem()
		}
		diffWire(ea, eb, path+"!", out)
	case reflect.Ptr:
		if a.IsNil() || b.IsNil() {
			if a.IsNil() != b.IsNil() {
				*out = append(*out, path)
			}
			return
		}
		diffWire(a.Elem(), b.Elem(), path+"*", out)
	case reflect.Struct:
		if t == timeType {
			ta, tb := a.Interface().(time.Time), b.Interface().(time.Time)
			if !ta.Equal(tb) {
				*out = append(*out, path)
			}
			return
		}
		for _, f := range codecFields(t) {
			diffWire(a.FieldByIndex(f.Index), b.FieldByIndex(f.Index), path+"."+f.Name, out)
		}
	case reflect.Array:
		if t.Elem().Kind() == reflect.Uint8 {
			for i := 0; i < t.Len(); i++ {
				if a.Index(i).Uint() != b.Index(i).Uint() {
					*out = append(*out, path)
					return
				}
			}
			return
		}
		for i := 0; i < t.Len(); i++ {
			diffWire(a.Index(i), b.Index(i), fmt.Sprintf("%s[%d]", path, i), out)
		}
	case reflect.Slice:
		if a.Len() != b.Len() {
			*out = append(*out, path)
			return
		}
		if t.Elem().Kind() == reflect.Uint8 {
			for i := 0; i < a.Len(); i++ {
				if a.Index(i).Uint() != b.Index(i).Uint() {
					*out = append(*out, path)
					return
				}
			}
			return
		}
		for i := 0; i < a.Len(); i++ {
			diffWire(a.Index(i), b.Index(i), fmt.Sprintf("%s[%d]", path, i), out)
		}
	case reflect.String:
		if a.String() != b.String() {
			*out = append(*out, path)
		}
	case reflect.Bool:
		if a.Bool() != b.Bool() {
			*out = append(*out, path)
		}
	case reflect.Int, reflect.Int8, reflect.Int16, reflect.Int32, reflect.Int64:
		if a.Int() != b.Int() {
			*out = append(*out, path)
		}
	case reflect.Uint, reflect.Uint8, reflect.Uint16, reflect.Uint32, reflect.Uint64:
		if a.Uint() != b.Uint() {
			*out = append(*out, path)
		}
	default:
		// unsupported kinds are never generated
	}
}
