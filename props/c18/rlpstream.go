// RLP, continued: (a) the Stream API (Kind / List / ListEnd / Bytes) walked over
// an input with the in-tree and the upstream implementation, token by token;
// (b) length bombs: headers that declare far more content than their container
// holds, decoded one at a time with the allocation of the decode measured.
//
// Both exist so that a decoder that stops checking declared sizes against the
// enclosing list / the input is *reported* — such a decoder allocates whatever
// a header declares, and for declared sizes between a few GiB and 2^48 the Go
// runtime aborts the process (fatal, not a panic), which would end the check
// without a verdict.  Sizes above 2^48 can only panic (makeslice refuses them),
// 2^26 allocates 64 MiB: the bombs use only those; the byte-level substitutions
// of the grid phase (which produce arbitrary sizes) are offered only to a
// decoder that passed (a) and (b).
package main

import (
	"bytes"
	"encoding/hex"
	"fmt"
	"strings"
	"sync/atomic"

	"verif/core"

	etypes "github.com/dappledger/AnnChain/eth/core/types"
	irlp "github.com/dappledger/AnnChain/eth/rlp"
	urlp "github.com/ethereum/go-ethereum/rlp"
)

// ---------------------------------------------------------------- (a) stream walk

// streamAPI is the part of rlp.Stream both implementations share.
type streamAPI struct {
	kind    func() (k int, size uint64, eol bool, err error)
	list    func() error
	listEnd func() error
	bytes   func() ([]byte, error)
}

const (
	skByte = iota
	skString
	skList
)

func inTreeStream(in []byte) streamAPI {
	s := irlp.NewStream(bytes.NewReader(in), uint64(len(in)))
	return streamAPI{
		kind: func() (int, uint64, bool, error) {
			k, size, err := s.Kind()
			kk := skString
			switch k {
			case irlp.Byte:
				kk = skByte
			case irlp.List:
				kk = skList
			}
			return kk, size, err == irlp.EOL, err
		},
		list:    func() error { _, err := s.List(); return err },
		listEnd: s.ListEnd,
		bytes:   s.Bytes,
	}
}

func upstreamStream(in []byte) streamAPI {
	s := urlp.NewStream(bytes.NewReader(in), uint64(len(in)))
	return streamAPI{
		kind: func() (int, uint64, bool, error) {
			k, size, err := s.Kind()
			kk := skString
			switch k {
			case urlp.Byte:
				kk = skByte
			case urlp.List:
				kk = skList
			}
			return kk, size, err == urlp.EOL, err
		},
		list:    func() error { _, err := s.List(); return err },
		listEnd: s.ListEnd,
		bytes:   s.Bytes,
	}
}

// streamWalk reads the whole input through the Stream API, depth first, and
// returns what it saw as tokens.  It stops at the first error, and before
// reading a string whose declared size exceeds the whole input (nothing is
// ever allocated beyond the input length).  Error tokens end in "!".
func streamWalk(s streamAPI, inLen int) []string {
	var tr []string
	depth := 0
	for steps := 0; steps < 4*inLen+8; steps++ {
		k, size, eol, err := s.kind()
		if eol {
			if depth == 0 {
				tr = append(tr, "eol-at-top-level!")
				return tr
			}
			if e := s.listEnd(); e != nil {
				tr = append(tr, "list-end!")
				return tr
			}
			depth--
			tr = append(tr, ")")
			continue
		}
		if err != nil {
			tr = append(tr, "kind!")
			return tr
		}
		switch k {
		case skList:
			tr = append(tr, fmt.Sprintf("list:%d(", size))
			if e := s.list(); e != nil {
				tr = append(tr, "list!")
				return tr
			}
			depth++
		default:
			name := "string"
			if k == skByte {
				name = "byte"
			}
			if size > uint64(inLen) {
				tr = append(tr, fmt.Sprintf("%s:%d", name, size), "declared-size-exceeds-input")
				return tr
			}
			b, e := s.bytes()
			if e != nil {
				tr = append(tr, fmt.Sprintf("%s:%d", name, size), "bytes!")
				return tr
			}
			tr = append(tr, fmt.Sprintf("%s:%d=%x", name, size, b))
		}
	}
	tr = append(tr, "step-bound")
	return tr
}

// streamDiff: the two implementations must produce the same tokens (same
// kinds, sizes, contents, and an error at the same call).  Returns false on a
// difference (reported).
func (c *checker) streamDiff(in []byte, mut string, vd *valueDesc) bool {
	atomic.AddInt64(&c.evals, 1)
	mk := func() kase {
		return kase{Phase: "rlp", RLP: &rlpCase{Kind: "bytes", Target: "Stream", Hex: hex.EncodeToString(in), Mut: mut, Value: vd}}
	}
	var ti, tu []string
	if p, v, site := tryFast(func() { ti = streamWalk(inTreeStream(in), len(in)) }); p {
		atomic.StoreInt64(&c.rlpUnsafe, 1)
		c.report(map[string]string{"phase": "rlp", "kind": "panic", "site": site, "panic": panicClass(v), "target": "Stream"}, mk(),
			fmt.Sprintf("walking %x with the in-tree rlp.Stream panicked: %v", clip(in), core.FirstLine(v)))
		return false
	}
	if p, v, _ := tryFast(func() { tu = streamWalk(upstreamStream(in), len(in)) }); p {
		tu = []string{"upstream-panic: " + core.FirstLine(v)}
	}
	i := 0
	for i < len(ti) && i < len(tu) && ti[i] == tu[i] {
		i++
	}
	if i == len(ti) && i == len(tu) {
		return true
	}
	a, b := "<end>", "<end>"
	if i < len(ti) {
		a = ti[i]
	}
	if i < len(tu) {
		b = tu[i]
	}
	differ := "value"
	switch {
	case strings.HasSuffix(b, "!") && !strings.HasSuffix(a, "!"):
		differ = "in-tree-accepts-what-upstream-rejects"
	case strings.HasSuffix(a, "!") && !strings.HasSuffix(b, "!"):
		differ = "in-tree-rejects-what-upstream-accepts"
	}
	atomic.StoreInt64(&c.rlpUnsafe, 1)
	c.report(map[string]string{"phase": "rlp", "kind": "stream-trace-differs", "target": "Stream", "differ": differ}, mk(),
		fmt.Sprintf("rlp.Stream over %x [%s]: call %d gives %s in-tree, %s upstream (in-tree %s | upstream %s)", clip(in), mut, i, a, b,
			clipStr(strings.Join(ti, " ")), clipStr(strings.Join(tu, " "))))
	return false
}

// ---------------------------------------------------------------- (b) length bombs

type rlpItem struct {
	Off, Hdr int
	List     bool
	Depth    int
}

// rlpItems: offset, header length and kind of every item of a well-formed
// encoding, at every depth.
func rlpItems(enc []byte) []rlpItem {
	var out []rlpItem
	var walk func(b []byte, off, depth int)
	walk = func(b []byte, off, depth int) {
		for len(b) > 0 {
			k, content, rest, err := urlp.Split(b)
			if err != nil {
				return
			}
			hdr := len(b) - len(rest) - len(content)
			out = append(out, rlpItem{off, hdr, k == urlp.List, depth})
			if k == urlp.List {
				walk(content, off+hdr, depth+1)
			}
			off += len(b) - len(rest)
			b = rest
		}
	}
	walk(enc, 0, 0)
	return out
}

var rlpBombSizes = []struct {
	name string
	size uint64
}{
	{"2p64-1", ^uint64(0)},
	{"2p63", 1 << 63},
	{"2p48+1", 1<<48 + 1},
	{"2p26", 1 << 26},
}

// rlpLongHeader: the canonical long-form header of an item of the given size.
func rlpLongHeader(list bool, size uint64) []byte {
	var be []byte
	for s := size; s > 0; s >>= 8 {
		be = append([]byte{byte(s)}, be...)
	}
	base := byte(0xB7)
	if list {
		base = 0xF7
	}
	return append([]byte{base + byte(len(be))}, be...)
}

func rlpShortList(content []byte) []byte {
	if len(content) > 55 {
		panic("rlpShortList: content too long")
	}
	return append([]byte{0xC0 + byte(len(content))}, content...)
}

type rlpBombCase struct {
	t     *rlpTarget
	in    []byte
	mut   string
	shape string // kind of the bombed item and where it sits
	alloc bool   // the declared size is one that a careless decoder can actually allocate
	diff  bool   // also compare with upstream
}

func realTarget(name string) *rlpTarget {
	switch name {
	case "Transaction":
		f := func() interface{} { return new(etypes.Transaction) }
		return &rlpTarget{name, f, f}
	case "Receipt":
		f := func() interface{} { return new(etypes.Receipt) }
		return &rlpTarget{name, f, f}
	}
	return nil
}

func rlpTargetByName(name string) (*rlpTarget, bool) {
	for _, t := range rlpTargets() {
		if t.Name == name {
			return t, true
		}
	}
	for _, r := range rlpRoots() {
		if r.spec.Name == name {
			return r.tgt, true
		}
	}
	if t := realTarget(name); t != nil {
		return t, false
	}
	return nil, false
}

func itemName(list bool) string {
	if list {
		return "list"
	}
	return "string"
}

// rlpBombCases: (1) for every decode target a bare header of each size, as a
// string and as a list, at top level, inside a list and inside a list inside a
// list; (2) every base encoding of every RLP root with the header of each item
// (at every depth) replaced by a header of each size, decoded into the root's
// type (the transaction / receipt field lists also into the real eth types).
func rlpBombCases() []rlpBombCase {
	var out []rlpBombCase
	for _, t := range rlpTargets() {
		for _, list := range []bool{false, true} {
			for _, bs := range rlpBombSizes {
				h := rlpLongHeader(list, bs.size)
				for depth, in := range [][]byte{h, rlpShortList(h), rlpShortList(rlpShortList(h))} {
					where := []string{"top-level", "in-list", "in-list-in-list"}[depth]
					out = append(out, rlpBombCase{t, in, fmt.Sprintf("bare-%s-header-%s/%s", itemName(list), bs.name, where),
						itemName(list) + "/" + where, bs.size <= 1<<32, true})
				}
			}
		}
	}
	for _, r := range rlpRoots() {
		var others []*rlpTarget
		switch r.spec.Name {
		case "rlp:txdata":
			others = append(others, realTarget("Transaction"))
		case "rlp:receiptRLP":
			others = append(others, realTarget("Receipt"))
		}
		for base := baseA; base <= baseMax; base++ {
			g, _ := r.spec.make(base, "", -1)
			var enc []byte
			if p, _, _ := core.Try(func() { enc, _ = urlp.EncodeToBytes(g.V.Addr().Interface()) }); p || enc == nil {
				continue
			}
			for _, it := range rlpItems(enc) {
				where := "in-list"
				if it.Depth == 0 {
					where = "top-level"
				}
				for _, bs := range rlpBombSizes {
					in := append(append(append([]byte{}, enc[:it.Off]...), rlpLongHeader(it.List, bs.size)...), enc[it.Off+it.Hdr:]...)
					mut := fmt.Sprintf("base-%s:%s-header@%d:=%s", baseNames[base], itemName(it.List), it.Off, bs.name)
					shape := itemName(it.List) + "/" + where
					out = append(out, rlpBombCase{r.tgt, in, mut, shape, bs.size <= 1<<32, true})
					for _, o := range others {
						out = append(out, rlpBombCase{o, in, mut, shape, bs.size <= 1<<32, false})
					}
				}
			}
		}
	}
	return out
}

// rlpBombs runs the bombs one after the other on this goroutine (nothing else
// of the checker runs meanwhile): no panic, TotalAlloc delta of the in-tree
// decode <= 64*len(input) + 1 MiB, and the verdict of upstream.  Bombs that
// can panic only (sizes above 2^48) come first; the allocating ones (2^26) are
// dropped after the third offence (each costs 64 MiB).
func (c *checker) rlpBombs() (n int) {
	cases := rlpBombCases()
	var first, second []rlpBombCase
	for _, bc := range cases {
		if bc.alloc {
			second = append(second, bc)
		} else {
			first = append(first, bc)
		}
	}
	for _, bc := range append(first, second...) {
		if bc.alloc && atomic.LoadInt64(&c.rlpMemViolations) >= 3 {
			c.notes.Add("skipped-rlp-2p26-bombs-after-third-memory-violation")
			continue
		}
		c.rlpBomb(bc, false)
		n++
	}
	return n
}

func (c *checker) rlpBomb(bc rlpBombCase, exact bool) {
	atomic.AddInt64(&c.evals, 1)
	mk := func() kase {
		return kase{Phase: "rlp", RLP: &rlpCase{Kind: "bomb", Target: bc.t.Name, Hex: hex.EncodeToString(bc.in), Mut: bc.mut, Shape: bc.shape}}
	}
	bound := memBound(len(bc.in))
	var delta uint64
	var err error
	for attempt := 0; attempt < 3; attempt++ {
		// first the counter that does not stop the world, then, if over the
		// bound, runtime.MemStats (twice: a background allocation must not count)
		ptr := bc.t.NewIn()
		read := allocCounter
		if attempt > 0 || exact {
			read = totalAlloc
		}
		before := read()
		p, v, site := tryFast(func() { err = irlp.DecodeBytes(bc.in, ptr) })
		delta = read() - before
		if p {
			atomic.StoreInt64(&c.rlpUnsafe, 1)
			c.classes.Add("rlp-bomb/" + bc.t.Name + "/panic")
			// the class is the site and the shape of the input, whatever the target type
			c.report(map[string]string{"phase": "rlp", "kind": "panic", "site": site, "panic": panicClass(v), "shape": "length-bomb:" + bc.shape}, mk(),
				fmt.Sprintf("in-tree rlp.DecodeBytes(%x) into %s [%s] panicked: %v", clip(bc.in), bc.t.Name, bc.mut, core.FirstLine(v)))
			return
		}
		if delta <= bound {
			break
		}
		if delta > bound+(1<<24) {
			break // far beyond anything a background allocation could explain
		}
	}
	if delta > bound {
		atomic.StoreInt64(&c.rlpUnsafe, 1)
		atomic.AddInt64(&c.rlpMemViolations, 1)
		c.classes.Add("rlp-bomb/" + bc.t.Name + "/allocates-beyond-input")
		c.report(map[string]string{"phase": "rlp", "kind": "allocates-beyond-input", "shape": bc.shape}, mk(),
			fmt.Sprintf("in-tree rlp.DecodeBytes of %d input bytes %x into %s [%s] allocated %d bytes (> 64*len + 1 MiB = %d), err=%v", len(bc.in), clip(bc.in), bc.t.Name, bc.mut, delta, bound, err))
		return
	}
	cls := "error"
	if err == nil {
		cls = "value"
	}
	if bc.diff {
		cls = c.rlpDiff(bc.t, bc.in, bc.mut, nil)
	}
	c.classes.Add("rlp-bomb/" + bc.t.Name + "/" + cls)
}
