// C18 — codecs: round trip, bounded robust decoding, injective sign-bytes.
// Exhaustive bounded enumeration on the real go-wire (binary + JSON), the
// canonical sign-bytes and eth/rlp against upstream go-ethereum rlp
// (DESIGN §5 C18).
package main

import (
	"encoding/hex"
	"fmt"
	"os"
	"runtime/debug"
	"runtime/pprof"
	"sort"
	"strings"
	"sync/atomic"
	"time"

	"verif/core"

	wire "github.com/dappledger/AnnChain/gemmill/go-wire"
	glog "github.com/dappledger/AnnChain/gemmill/modules/go-log"
	"go.uber.org/zap"
)

func (c *checker) findRoot(name string) *rootSpec {
	for _, f := range c.fams {
		for i := range f.Roots {
			if f.Roots[i].Name == name {
				return &f.Roots[i]
			}
		}
	}
	return nil
}

func baseIndex(name string) int {
	for i, n := range baseNames {
		if n == name {
			return i
		}
	}
	return -1
}

func (c *checker) replay(k kase) {
	switch k.Phase {
	case "roundtrip":
		r := c.findRoot(k.Value.Root)
		bi := baseIndex(k.Value.Base)
		if r == nil || bi < 0 {
			core.Fatal("replay: unknown root/base %+v", *k.Value)
		}
		g, b := r.make(bi, k.Value.Path, k.Value.Alt)
		if k.Value.Path != "" && !b.ovHit {
			core.Fatal("replay: path %s no longer exists in %s", k.Value.Path, r.Name)
		}
		c.roundTrip(g, k.Codec)
	case "decode", "decode-mem":
		f := c.famByNm[k.Family]
		if f == nil {
			core.Fatal("replay: unknown family %s", k.Family)
		}
		in, err := hex.DecodeString(k.Hex)
		if err != nil {
			core.Fatal("replay: bad hex")
		}
		if k.Phase == "decode" {
			c.offer(f, k.Entry, in, k.Limit, k.Mut)
		} else {
			c.measureOne(memCase{f, k.Entry, in, k.Limit, k.Mut})
		}
	case "signbytes":
		sa, oa := signBytesOf(k.SB.A)
		sb, ob := signBytesOf(k.SB.B)
		if oa.Panicked || ob.Panicked {
			o := oa
			if ob.Panicked {
				o = ob
			}
			c.report(map[string]string{"phase": "signbytes", "kind": "panic", "site": o.Site, "panic": panicClass(o.PanicVal)}, k, "SignBytes panicked: "+o.PanicVal)
			return
		}
		c.checkPair(k.SB.A, k.SB.B, sa, sb)
	case "rlp":
		in, _ := hex.DecodeString(k.RLP.Hex)
		if k.RLP.Kind == "grid" {
			for _, r := range rlpRoots() {
				if r.spec.Name == k.RLP.Target {
					g, _ := r.spec.make(baseIndex(k.RLP.Value.Base), k.RLP.Value.Path, k.RLP.Value.Alt)
					c.rlpGridValue(r, g)
					return
				}
			}
			core.Fatal("replay: unknown rlp root %s", k.RLP.Target)
		}
		if k.RLP.Target == "raw.Split/CountValues" {
			c.rawDiff(in)
			return
		}
		if k.RLP.Target == "Stream" {
			c.streamDiff(in, k.RLP.Mut, k.RLP.Value)
			return
		}
		if k.RLP.Kind == "bomb" {
			t, diff := rlpTargetByName(k.RLP.Target)
			if t == nil {
				core.Fatal("replay: unknown rlp target %s", k.RLP.Target)
			}
			c.rlpBomb(rlpBombCase{t: t, in: in, mut: k.RLP.Mut, shape: k.RLP.Shape, diff: diff}, true)
			return
		}
		for _, t := range rlpTargets() {
			if t.Name == k.RLP.Target {
				c.rlpDiff(t, in, k.RLP.Mut, k.RLP.Value)
				return
			}
		}
		for _, r := range rlpRoots() {
			if r.spec.Name == k.RLP.Target {
				c.rlpDiff(r.tgt, in, k.RLP.Mut, k.RLP.Value)
				return
			}
		}
		if k.RLP.Target == "Transaction" || k.RLP.Target == "Receipt" {
			c.rlpRealDecode(k.RLP.Target, in, k.RLP.Mut)
			return
		}
		core.Fatal("replay: unknown rlp target %s", k.RLP.Target)
	default:
		core.Fatal("replay: unknown phase %q", k.Phase)
	}
}

// fixedWidth: leaves whose alternatives change payload bytes only, never the
// structure of the binary encoding.
func fixedWidth(kind string) bool {
	switch kind {
	case "int64", "uint64", "int32", "uint32", "int16", "uint16", "int8", "uint8", "bool", "bytearray", "time":
		return true
	}
	return false
}

func structural(kind string) bool {
	switch kind {
	case "iface", "ptr", "slice-len", "time":
		return true
	}
	return false
}

func main() {
	run := core.Start("C18", "exploration", "DIFFREF")
	glog.SetLog(zap.NewNop())
	debug.SetGCPercent(400) // live heap is ~100 MB; fewer collections
	c := &checker{run: run, classes: newTally(), notes: newTally(), samples: core.NewSampler(10, run.Seed), famByNm: map[string]*family{}}
	c.fams = buildFamilies()
	for _, f := range c.fams {
		c.famByNm[f.Name] = f
	}

	if run.ReplayPath != "" {
		var k kase
		if err := run.ReplayCase(&k); err != nil {
			core.Fatal("cannot load replay: %v", err)
		}
		c.replay(k)
		c.flush()
		run.Finish(nil, nil)
	}
	thorough := !run.Quick()
	if pf := os.Getenv("VERIF_CPUPROFILE"); pf != "" {
		if fh, err := os.Create(pf); err == nil {
			pprof.StartCPUProfile(fh)
		}
	}
	phaseT := map[string]float64{}
	mark := time.Now()
	lap := func(name string) {
		phaseT[name] = float64(int(time.Since(mark).Seconds()*100)) / 100
		if name == os.Getenv("VERIF_PROFILE_UNTIL") {
			pprof.StopCPUProfile()
		}
		if os.Getenv("VERIF_VERBOSE") != "" {
			fmt.Fprintf(os.Stderr, "[c18] %-24s %7.2fs  evals=%d\n", name, phaseT[name], atomic.LoadInt64(&c.evals))
		}
		mark = time.Now()
	}

	// ---------------------------------------------------------- phase 1: value grid
	var vals []*gridValue
	unsupported := map[string]bool{}
	nRoots := 0
	var allRoots []*rootSpec
	for _, f := range c.fams {
		for i := range f.Roots {
			allRoots = append(allRoots, &f.Roots[i])
		}
	}
	nRoots = len(allRoots)
	perRoot := make([][]*gridValue, nRoots)
	perRootLong := make([][]gridJob, nRoots)
	perRootUns := make([][]string, nRoots)
	core.Par(nRoots, func(i int) {
		perRootUns[i] = allRoots[i].grid(func(g *gridValue) { perRoot[i] = append(perRoot[i], g) },
			func(j gridJob) { perRootLong[i] = append(perRootLong[i], j) })
	})
	var longJobs []gridJob
	for i := range perRoot {
		vals = append(vals, perRoot[i]...)
		longJobs = append(longJobs, perRootLong[i]...)
		for _, u := range perRootUns[i] {
			unsupported[allRoots[i].Name+u] = true
		}
	}
	for u := range unsupported {
		c.notes.Add("leaf-of-kind-unsupported-by-go-wire-left-zero:" + u)
	}
	lap("generate")
	var rtCases int64
	core.Par(len(vals), func(i int) {
		g := vals[i]
		if !g.JSONOnly {
			c.roundTrip(g, "bin")
			atomic.AddInt64(&rtCases, 1)
		}
		c.roundTrip(g, "json")
		atomic.AddInt64(&rtCases, 1)
		if i%997 == 0 {
			c.samples.Add(kase{Phase: "roundtrip", Value: &g.Desc, Codec: "json"})
		}
	})
	lap("roundtrip")
	// long slices (lengths around the decoder's chunk size, nil slots): built,
	// round-tripped and dropped one at a time
	var longElems int64
	longKinds := newTally()
	core.Par(len(longJobs), func(i int) {
		g := longJobs[i].build()
		if !g.Long {
			core.Fatal("generator: %s is not a long slice", descString(g.Desc))
		}
		atomic.AddInt64(&longElems, int64(walkTo(g.V, g.Desc.Path).Len()))
		longKinds.Add(g.ElemKind)
		c.roundTrip(g, "bin")
		c.roundTrip(g, "json")
		atomic.AddInt64(&rtCases, 2)
		if i%97 == 0 {
			c.samples.Add(kase{Phase: "roundtrip", Value: &g.Desc, Codec: "bin"})
		}
	})
	lap("roundtrip-long-slices")

	// ---------------------------------------------------------- phase 2a: every byte string of length <= 2
	before := atomic.LoadInt64(&c.evals)
	c.shortStrings()
	shortEvals := atomic.LoadInt64(&c.evals) - before
	lap("short-strings")

	// ---------------------------------------------------------- phase 2c: length bombs and allocation, single-threaded
	before = atomic.LoadInt64(&c.evals)
	var mem []memCase
	bombInputs := 0
	for _, g := range vals {
		if g.JSONOnly || !(g.Desc.Path == "" || (thorough && structural(g.Kind[g.Desc.Path]))) {
			continue
		}
		f := c.famByNm[g.Root.Family]
		enc, o := encBin(g.iface())
		if o.Panicked {
			continue
		}
		bc := c.bombCases(f, g, enc)
		bombInputs += len(bc)
		mem = append(mem, bc...)
		if g.Desc.Base == "A" && g.Desc.Path == "" {
			// the plain encoding and its mutations with limit = length
			mem = append(mem, memCase{f, "ReadBinary", enc, len(enc), "plain"})
			for k := 0; k < len(enc); k++ {
				mem = append(mem, memCase{f, "ReadBinary", enc[:k], maxInt(k, 1), fmt.Sprintf("truncate@%d", k)})
			}
			for pos := 0; pos < len(enc); pos++ {
				for _, s := range substBytes {
					if enc[pos] != s {
						m := append([]byte{}, enc...)
						m[pos] = s
						mem = append(mem, memCase{f, "ReadBinary", m, len(m), fmt.Sprintf("subst@%d=%02x", pos, s)})
					}
				}
			}
		}
	}
	for _, f := range c.fams {
		for b := 0; b < 256; b++ {
			for _, lmt := range finiteLimitsFor(1) {
				mem = append(mem, memCase{f, "ReadBinary", []byte{byte(b)}, lmt, "short"})
			}
		}
	}
	// order: bombs at byte-slice/string positions first — 2^62 (can only
	// panic), then 2^31 (one 2 GiB allocation if the limit is ignored, stops
	// after three) — and only if the decoder honoured its limit on all of
	// them the bombs at element-slice positions and the byte-level mutations
	// (after those the decoder continues on shifted, i.e. arbitrary, bytes).
	var m62, m31, mOther []memCase
	for _, mc := range mem {
		atBytes := strings.HasSuffix(mc.mut, "(bytes)") || strings.HasSuffix(mc.mut, "(string)")
		switch {
		case atBytes && strings.HasPrefix(mc.mut, "bomb-2p62"):
			m62 = append(m62, mc)
		case atBytes && strings.HasPrefix(mc.mut, "bomb-2p31"):
			m31 = append(m31, mc)
		default:
			mOther = append(mOther, mc)
		}
	}
	// byte-slice positions before string positions: should the decoder ignore
	// its limit, the first offending decode ends the 2^31 series, and a string
	// costs a second 2 GiB (the copy)
	var m31b, m31s []memCase
	for _, mc := range m31 {
		if strings.HasSuffix(mc.mut, "(bytes)") {
			m31b = append(m31b, mc)
		} else {
			m31s = append(m31s, mc)
		}
	}
	m31 = append(m31b, m31s...)
	c.measure(m62)
	c.measure(m31)
	if atomic.LoadInt64(&c.memViolations) == 0 && atomic.LoadInt64(&c.makeslicePanics) == 0 {
		c.measure(mOther)
	} else {
		c.notes.Add("serial-byte-mutations-skipped:decoder-ignores-its-limit")
	}
	memEvals := atomic.LoadInt64(&c.evals) - before
	lap("bombs+memory(serial)")

	// ---------------------------------------------------------- phase 2b: truncations / substitutions of grid encodings
	before = atomic.LoadInt64(&c.evals)
	var mutBin, mutJSON, mutSkipped int64
	// The bomb phase places a 2^62 and a 2^31 length at every length-prefix
	// position, which detects a decoder that does not honour its limit without
	// risk (2^62 can only panic, 2^31 allocates 2 GiB).  If it did detect one,
	// byte-level mutations are not offered to the binary decoder: an arbitrary
	// length of 2^33..2^48 would make the Go runtime abort this process.
	unsafeDecoder := atomic.LoadInt64(&c.memViolations) > 0 || atomic.LoadInt64(&c.makeslicePanics) > 0
	if unsafeDecoder {
		c.notes.Add("binary-byte-mutations-skipped:decoder-ignores-its-limit")
	}
	const mutCap = 2048 // encodings longer than this (several 1025-byte payloads) are not mutated byte by byte
	core.Par(len(vals), func(i int) {
		g := vals[i]
		f := c.famByNm[g.Root.Family]
		local := ocount{}
		isBase := g.Desc.Path == ""
		if !g.JSONOnly && (isBase || (thorough && !fixedWidth(g.Kind[g.Desc.Path]))) && !unsafeDecoder {
			if enc, o := encBin(g.iface()); !o.Panicked {
				if len(enc) <= mutCap {
					c.mutateBinary(f, enc, isBase, local)
					atomic.AddInt64(&mutBin, 1)
				} else {
					atomic.AddInt64(&mutSkipped, 1)
				}
			}
		}
		if isBase || (thorough && structural(g.Kind[g.Desc.Path])) {
			if enc, o := encJSON(g.iface()); !o.Panicked {
				if len(enc) <= 2*mutCap {
					c.mutateJSON(f, enc, local)
					atomic.AddInt64(&mutJSON, 1)
				} else {
					atomic.AddInt64(&mutSkipped, 1)
				}
			}
		}
		atomic.AddInt64(&c.evals, int64(local.flush(c, "mutated/")))
	})
	mutEvals := atomic.LoadInt64(&c.evals) - before
	lap("mutations")

	// ---------------------------------------------------------- phase 3: sign-bytes
	sbValues, sbPairs, sbDistinct := c.signBytes(thorough)
	c.classes.AddN("signbytes/distinct-sign-bytes", sbDistinct)
	c.samples.Add(kase{Phase: "signbytes", SB: &sbCase{sbGrid(false)[1], sbGrid(false)[7]}})
	lap("sign-bytes")

	// ---------------------------------------------------------- RLP
	maxLen := run.Pick(2, 3)
	rlpInputs := c.rlpExhaustive(maxLen)
	lap("rlp-exhaustive")
	// length bombs, single-threaded (allocation is measured per decode)
	rlpBombInputs := c.rlpBombs()
	lap("rlp-bombs(serial)")
	type rv struct {
		r *rlpRoot
		g *gridValue
	}
	var rvals []rv
	for _, r := range rlpRoots() {
		rr := r
		rr.spec.grid(func(g *gridValue) { rvals = append(rvals, rv{rr, g}) }, nil)
	}
	before = atomic.LoadInt64(&c.evals)
	core.Par(len(rvals), func(i int) {
		x := rvals[i]
		enc := c.rlpGridValue(x.r, x.g)
		if enc == nil {
			return
		}
		if len(enc) > 700 && !thorough && x.g.Desc.Path != "" {
			return
		}
		local := map[string]int{}
		c.rlpMutations(x.r, x.g, enc, local)
		for k, n := range local {
			c.classes.AddN("rlp-mutated/"+k, n)
		}
		if i%211 == 0 {
			c.samples.Add(kase{Phase: "rlp", RLP: &rlpCase{Kind: "grid", Target: x.r.spec.Name, Value: &x.g.Desc}})
		}
	})
	rlpGridEvals := atomic.LoadInt64(&c.evals) - before
	lap("rlp-grid")

	// ---------------------------------------------------------- evidence
	hist := c.classes.Map()
	// keep the histogram readable: aggregate the per-leaf ok classes
	agg := map[string]int{}
	for k, v := range hist {
		agg[k] = v
	}
	famNames := []string{}
	for _, f := range c.fams {
		famNames = append(famNames, fmt.Sprintf("%s(%d roots)", f.Name, len(f.Roots)))
	}
	sort.Strings(famNames)
	notes := []string{}
	for k, n := range c.notes.Map() {
		notes = append(notes, fmt.Sprintf("%s x%d", k, n))
	}
	sort.Strings(notes)
	run.Notes = notes
	c.samples.Add(kase{Phase: "decode", Family: "pbft.ConsensusMessage", Entry: "DecodeMessage", Limit: 1048576, Hex: "1401", Mut: "short"})
	c.flush()
	run.Finish(core.Coverage{
		"evaluations":         int(atomic.LoadInt64(&c.evals)),
		"distinct_nontrivial": c.classes.Len(),
		"rule": strings.NewReplacer("{C}", fmt.Sprint(wire.ReadSliceChunkSize), "{MOD}", fmt.Sprint(nilModulus())).Replace("(1) every registered concrete type of the wire interfaces ConsensusMessage, WALMessage (inside TimedWALMessage, with every ConsensusMessage inside msgInfo), BlockchainMessage, MempoolMessage, PexMessage, trace Message, Signature, PubKey (found by walking go-wire's registry at run time) and the top-level types Block, Header, Data, Commit, Vote, Proposal, PartSetHeader, Part, BlockID, Validator, ValidatorSet, BlockMeta, GenesisDoc, State, NodeInfo: values generated by reflection = 4 bases (A, B, all-min, all-max) + around A and B every leaf replaced by every alternative, one leaf at a time (signed ints {min,min+1,-1,0,1,±2^53,2^53+1,max}, unsigned {0,1,2^53,2^53+1,2^63,max} (bytes also 2,0x7f,0x80), strings {empty, a, quote+backslash, unicode, a\",\"b, <&>+control}, byte slices {len 0,1,32,1025; nil and empty are one value}, byte arrays {zero,pattern,ff}, times {zero (JSON only: outside the int64-nanosecond domain the binary codec documents), epoch, fixed now, latest and earliest millisecond-aligned int64-nanosecond instants, 1 ms before epoch; all millisecond-aligned = documented precision; the fixed now also in the locations UTC+8, UTC-3:30 and time.Local and the epoch also in UTC-3:30 and time.Local (time.Local of this process is set to a fixed zone UTC+5:45, as for a node started with a non-UTC TZ; it is also the location of every time the binary decoder returns)}, pointers {nil,set}, registered interfaces {nil, each concrete type}, slices len {0,1,3}; every slice with non-byte elements (pointer, struct with interface fields, byte-slice, string, integer elements: Commit.Precommits, ValidatorSet.Validators, GenesisDoc.Validators, Data.Txs, pex addresses, bit-array words, ...) also with the lengths C-1, C, C+1, 2C-1, 2C, 2C+1, 3C+1 around the chunk size C = wire.ReadSliceChunkSize = {C} in which the binary decoder reads element slices, every element generated from its own path (pairwise distinguishable) and with nil slots: element i is a nil pointer if i mod {MOD} = 1, pointers and interfaces below a non-nil element are nil if i mod {MOD} = 2 (period coprime to C, so slots j and j+C differ in phase); these long values are built, checked and dropped one at a time and take part in the round trip only); each value through wire.BinaryBytes/ReadBinary (limit 0 and limit = length) and wire.JSONBytes/ReadJSON; oracle: decoded value equals the original field by field over the fields the codec handles, re-encoding equal, two encodings equal, no panic; a time counts as unchanged iff it denotes the same instant (time.Equal), and a value with a time leaf in a non-UTC location must encode (binary and JSON), and a Header hash, byte-for-byte like the value with the same instant in UTC. " +
			"(2) every byte string of length <= 2 into every one of these top-level types through ReadBinary (limits 0,1,len-1,len,len+1), ReadBinaryBytes, ReadJSON and the five reactors' DecodeMessage (pbft, blockchain, mempool, pex, trace); every truncation and every single-byte substitution {00,01,7f,80,ff} of grid encodings of at most 2048 bytes (quick: the 4 bases per root; thorough: also every grid value whose varied leaf can change the structure of the encoding, i.e. all but fixed-width integers, bools, byte arrays and times, those with limits {1,len}) through ReadBinary with limits {1,len-1,len,len+1} and DecodeMessage, and of JSON encodings through ReadJSON plus every JSON node replaced by values of every other JSON type; 2^62 and 2^31 length prefixes at every length-prefix position of the bases (thorough: also of the structural variants); oracle: error or value, never a panic, n <= limit or error, and (single-threaded phase) TotalAlloc delta of one decode <= 64*limit + 1 MiB. Limit 0 means 'no limit' in go-wire: mutated inputs and the 2^31 bomb are not offered with limit 0 (allocation is unbounded by the caller's choice and the Go runtime aborts the process for lengths of 2^33..2^48), the 2^62 bomb is (it cannot allocate, only panic). " +
			"(3) all ordered pairs over the vote grid and the proposal grid and across them (chain ids incl. JSON-breaking ones, heights {0,1,2^32,2^63-1}, rounds {0,1}, types {prevote,precommit}, block ids {all 8 combinations of empty / non-empty hash, parts total, parts hash (among them nil, the full id A, and ids with an empty hash and a non-zero parts header), A' differing from A in the last byte of the hash / parts total / last byte of the parts hash; thorough: further one-component variants}, POL rounds {-1,0,1}, POL block ids = those 11, block parts headers {all 4 combinations of zero / non-zero total and hash, one-component variants}): equal sign-bytes imply equal chain id, height, round, type, block id (and POL round / parts header). " +
			"RLP: every byte string of length <= 2 (quick) / <= 3 (thorough) decoded by in-tree eth/rlp and upstream go-ethereum v1.8.27 rlp into RawValue, uint64, []byte, [][]byte, a plain struct, *big.Int, a struct with rlp:\"nil\"+rlp:\"tail\" (all lengths) and [3]byte, interface{}, string, bool (lengths <= 2), plus raw.Split/SplitList/SplitString/CountValues: same accept/reject, same value, same re-encoding; each of those inputs also walked depth-first through the rlp.Stream API (Kind, List, ListEnd, Bytes) of both implementations: same kinds, sizes, contents and an error at the same call; length bombs, single-threaded: a long-form header declaring 2^64-1, 2^63, 2^48+1 (can only panic) or 2^26 bytes, as a string and as a list, bare at top level / in a list / in a list in a list into every target, and in place of the header of every item at every depth of the base encodings of the grid roots (into the root type and the real Transaction / Receipt): no panic, TotalAlloc delta of the decode <= 64*len(input) + 1 MiB, same accept/reject as upstream; value grid (same construction, RLP domain: unsigned ints, non-nil non-negative big.Int, byte lengths {0,1(<0x80),1(>=0x80),2,55,56,57,255,256,1025}) of chain/types.KV, eth Header, the transaction field list and the consensus receipt field list: round trip, determinism, byte-equal with upstream, the real types.Transaction / types.Receipt / NewTransaction agree with the field lists; every truncation and every substitution {00,01,7f,80,ff,±1} at every header byte and first/last payload byte of those encodings decoded by both (quick: encodings up to 700 bytes and the bases), each first walked through rlp.Stream (an input on which the in-tree stream departs from upstream is reported and not handed to the typed decoders; header substitutions are not offered at all to a decoder that failed a bomb or a stream walk, since it would allocate whatever the substituted header declares). distinct_nontrivial = number of distinct (phase, target, entry point, outcome / leaf kind + shape) classes observed"),
		"samples":                   c.samples.List(),
		"exhaustive":                !unsafeDecoder && atomic.LoadInt64(&c.rlpUnsafe) == 0,
		"tier_bounds":               map[string]interface{}{"rlp_max_len": maxLen, "mutated_values": map[string]int64{"binary": mutBin, "json": mutJSON, "skipped_longer_than_cap": mutSkipped}, "mutation_length_cap": mutCap, "thorough": thorough},
		"families":                  famNames,
		"wire_roots":                nRoots,
		"grid_values":               len(vals),
		"roundtrip_cases":           rtCases,
		"long_slice_values":         len(longJobs),
		"long_slice_lengths":        sliceLens(false)[shortSliceLens:],
		"long_slice_elements":       atomic.LoadInt64(&longElems),
		"long_slice_element_kinds":  longKinds.Map(),
		"short_string_decodes":      shortEvals,
		"mutated_input_decodes":     mutEvals,
		"bomb_inputs":               bombInputs,
		"serial_memory_decodes":     memEvals,
		"memory_violations":         atomic.LoadInt64(&c.memViolations),
		"signbytes_values":          sbValues,
		"signbytes_ordered_pairs":   sbPairs,
		"signbytes_distinct":        sbDistinct,
		"rlp_exhaustive_inputs":     rlpInputs,
		"rlp_exhaustive_targets":    len(rlpTargets()) + 1,
		"rlp_bomb_inputs":           rlpBombInputs,
		"rlp_memory_violations":     atomic.LoadInt64(&c.rlpMemViolations),
		"rlp_grid_values":           len(rvals),
		"rlp_grid_and_mutant_evals": rlpGridEvals,
		"phase_seconds":             phaseT,
		"outcome_classes":           agg,
	}, []string{
		"upstream github.com/ethereum/go-ethereum/rlp v1.8.27 is the trusted reference for RLP",
		"chain ids are valid UTF-8 (the only source of a chain id is the genesis JSON document, whose decoder yields valid UTF-8); strings offered to the JSON codec are valid UTF-8",
		"times are millisecond-aligned instants within the int64-nanosecond range (go-wire/time.go: 'nanoseconds since epoch but with millisecond precision'); the zero time.Time is offered to JSON only; a time.Time is identified with the instant it denotes (the codecs do not carry a location)",
		"nil and empty slices are one value (the codecs do not distinguish them); unexported and json:\"-\" fields are not part of the encoded value",
		"the allocation clause is evaluated for limits > 0; limit 0 is go-wire's documented 'no limit'",
		"for rlp.DecodeBytes the caller's limit is the length of the input (DecodeBytes hands it to the stream as input limit); the allocation clause is evaluated as 64*len(input) + 1 MiB",
		"every case runs on the real code (wire.BinaryBytes/ReadBinary/ReadBinaryBytes/JSONBytes/ReadJSON, the reactors' DecodeMessage, types.SignBytes, rlp.EncodeToBytes/DecodeBytes); the only model is the field-by-field comparison",
	})
}

func maxInt(a, b int) int {
	if a > b {
		return a
	}
	return b
}
