// go-wire: round trip of the value grid (phase 1) and decoders on arbitrary
// bytes (phase 2), all through the real entry points.
package main

import (
	"bytes"
	"encoding/hex"
	"encoding/json"
	"fmt"
	"reflect"
	"regexp"
	"runtime"
	"runtime/debug"
	"runtime/metrics"
	"strings"
	"sync"
	"sync/atomic"
	"time"

	"verif/core"

	"github.com/dappledger/AnnChain/gemmill/blockchain"
	"github.com/dappledger/AnnChain/gemmill/consensus/pbft"
	crypto "github.com/dappledger/AnnChain/gemmill/go-crypto"
	wire "github.com/dappledger/AnnChain/gemmill/go-wire"
	"github.com/dappledger/AnnChain/gemmill/mempool"
	"github.com/dappledger/AnnChain/gemmill/p2p"
	"github.com/dappledger/AnnChain/gemmill/state"
	"github.com/dappledger/AnnChain/gemmill/trace"
	"github.com/dappledger/AnnChain/gemmill/types"
)

// ---------------------------------------------------------------- roots

type decodeMsgFn func(bz []byte) (byte, interface{}, error)

// family is one decode target: a top-level type with its real entry points.
type family struct {
	Name      string
	Type      reflect.Type
	ByValue   bool
	DecodeMsg decodeMsgFn // the reactor's DecodeMessage, if any
	MsgLimit  int         // the limit that DecodeMessage passes
	Roots     []rootSpec
}

func structFamily(name string, proto interface{}) *family {
	t := reflect.TypeOf(proto)
	f := &family{Name: name, Type: t}
	f.Roots = expandRoots(rootSpec{Name: name, Type: t}, nil)
	return f
}

func buildFamilies() []*family {
	var fs []*family
	add := func(f *family) { fs = append(fs, f) }
	add(structFamily("types.Block", types.Block{}))
	add(structFamily("types.Header", types.Header{}))
	add(structFamily("types.Data", types.Data{}))
	add(structFamily("types.Commit", types.Commit{}))
	add(structFamily("types.Vote", types.Vote{}))
	add(structFamily("types.Proposal", types.Proposal{}))
	add(structFamily("types.PartSetHeader", types.PartSetHeader{}))
	add(structFamily("types.Part", types.Part{}))
	add(structFamily("types.BlockID", types.BlockID{}))
	add(structFamily("types.Validator", types.Validator{}))
	add(structFamily("types.ValidatorSet", types.ValidatorSet{}))
	add(structFamily("types.BlockMeta", types.BlockMeta{}))
	add(structFamily("types.GenesisDoc", types.GenesisDoc{}))
	add(structFamily("state.State", state.State{}))
	add(structFamily("p2p.NodeInfo", p2p.NodeInfo{}))

	wal := &family{Name: "pbft.TimedWALMessage", Type: reflect.TypeOf(pbft.TimedWALMessage{})}
	wal.Roots = expandRoots(rootSpec{Name: wal.Name, Type: wal.Type}, []string{".Msg", ".Msg!.Msg"})
	add(wal)

	wrapper := func(name string, proto interface{}, field string, dm decodeMsgFn, lim int) {
		t := reflect.TypeOf(proto)
		f := &family{Name: name, Type: t, ByValue: true, DecodeMsg: dm, MsgLimit: lim}
		f.Roots = expandRoots(rootSpec{Name: name, Type: t, ByValue: true}, []string{"." + field})
		add(f)
	}
	wrapper("pbft.ConsensusMessage", struct{ pbft.ConsensusMessage }{}, "ConsensusMessage",
		func(bz []byte) (byte, interface{}, error) { return pbft.DecodeMessage(bz) }, 1048576)
	wrapper("blockchain.BlockchainMessage", struct{ blockchain.BlockchainMessage }{}, "BlockchainMessage",
		func(bz []byte) (byte, interface{}, error) { return blockchain.DecodeMessage(bz) }, types.MaxBlockSize+2)
	wrapper("mempool.MempoolMessage", struct{ mempool.MempoolMessage }{}, "MempoolMessage",
		func(bz []byte) (byte, interface{}, error) { return mempool.DecodeMessage(bz) }, 1048576)
	wrapper("p2p.PexMessage", struct{ p2p.PexMessage }{}, "PexMessage",
		func(bz []byte) (byte, interface{}, error) { return p2p.DecodeMessage(bz) }, 1048576)
	wrapper("trace.Message", struct{ trace.Message }{}, "Message",
		func(bz []byte) (byte, interface{}, error) { return trace.DecodeMessage(bz) }, 1048576)
	wrapper("pbft.WALMessage", struct{ pbft.WALMessage }{}, "WALMessage", nil, 0)
	wrapper("crypto.Signature", struct{ crypto.Signature }{}, "Signature", nil, 0)
	wrapper("crypto.PubKey", struct{ crypto.PubKey }{}, "PubKey", nil, 0)
	for _, f := range fs {
		for i := range f.Roots {
			f.Roots[i].ByValue = f.ByValue
			f.Roots[i].Family = f.Name
		}
	}
	return fs
}

func (f *family) proto() interface{} {
	if f.ByValue {
		return reflect.Zero(f.Type).Interface()
	}
	return reflect.New(f.Type).Interface()
}

// ---------------------------------------------------------------- real entry points under Try

type outcome struct {
	Res      interface{}
	N        int
	Err      error
	Panicked bool
	PanicVal string
	Site     string
}

var digits = regexp.MustCompile(`[0-9]+`)

func panicClass(v interface{}) string {
	s := core.FirstLine(v)
	s = digits.ReplaceAllString(s, "N")
	s = strings.Map(func(r rune) rune {
		switch {
		case r >= 'a' && r <= 'z', r >= 'A' && r <= 'Z', r >= '0' && r <= '9':
			return r
		}
		return '-'
	}, s)
	if len(s) > 70 {
		s = s[:70]
	}
	return s
}

// panicSite is the innermost repository frame that is not a panic helper.
func panicSite(stack string) string {
	for _, l := range strings.Split(stack, "\n") {
		if strings.HasPrefix(l, "\t") || !strings.Contains(l, "github.com/dappledger/AnnChain/") {
			continue
		}
		if strings.Contains(l, "go-common.Panic") || strings.Contains(l, "go-common.panicLog") {
			continue
		}
		fn := l
		if j := strings.LastIndex(fn, "("); j > 0 {
			fn = fn[:j]
		}
		return strings.TrimPrefix(fn, "github.com/dappledger/AnnChain/")
	}
	return "unknown"
}

// pcInfo caches what a program counter resolves to.
type pcInfo struct {
	fn     string
	repo   bool
	helper bool
}

var pcCache sync.Map

// tryFast is core.Try without the formatted stack: the panic site is resolved
// from the program counters of the panicking stack (the decoders under test
// panic hundreds of thousands of times on the enumerated inputs).
func tryFast(f func()) (panicked bool, val interface{}, site string) {
	defer func() {
		if e := recover(); e != nil {
			panicked, val = true, e
			var pcs [64]uintptr
			n := runtime.Callers(2, pcs[:])
			site = "unknown"
			for _, pc := range pcs[:n] {
				var inf pcInfo
				if c, ok := pcCache.Load(pc); ok {
					inf = c.(pcInfo)
				} else {
					fr, _ := runtime.CallersFrames([]uintptr{pc}).Next()
					inf.fn = fr.Function
					inf.repo = strings.Contains(fr.Function, "github.com/dappledger/AnnChain/")
					inf.helper = strings.Contains(fr.Function, "go-common.Panic") || strings.Contains(fr.Function, "go-common.panicLog")
					pcCache.Store(pc, inf)
				}
				if inf.repo && !inf.helper {
					site = strings.TrimPrefix(inf.fn, "github.com/dappledger/AnnChain/")
					break
				}
			}
		}
	}()
	f()
	return
}

func guarded(f func(o *outcome)) outcome {
	var o outcome
	if p, v, site := tryFast(func() { f(&o) }); p {
		o.Panicked, o.PanicVal, o.Site = true, core.FirstLine(v), site
		o.Err = fmt.Errorf("panic: %s", panicClass(v))
	}
	return o
}

func encBin(v interface{}) ([]byte, outcome) {
	var b []byte
	o := guarded(func(o *outcome) { b = wire.BinaryBytes(v) })
	return b, o
}

func encJSON(v interface{}) ([]byte, outcome) {
	var b []byte
	o := guarded(func(o *outcome) { b = wire.JSONBytes(v) })
	return b, o
}

func decBin(proto interface{}, in []byte, lmt int) outcome {
	return guarded(func(o *outcome) {
		o.Res = wire.ReadBinary(proto, bytes.NewReader(in), lmt, &o.N, &o.Err)
	})
}

func decBinBytes(f *family, in []byte) outcome {
	// wire.ReadBinaryBytes(d, ptr): no limit
	ptr := reflect.New(f.Type)
	return guarded(func(o *outcome) {
		o.Err = wire.ReadBinaryBytes(in, ptr.Interface())
		o.Res = ptr.Interface()
		o.N = -1
	})
}

func decJSON(proto interface{}, in []byte) outcome {
	return guarded(func(o *outcome) {
		o.Res = wire.ReadJSON(proto, in, &o.Err)
		o.N = -1
	})
}

func decMsg(f *family, in []byte) outcome {
	return guarded(func(o *outcome) {
		_, o.Res, o.Err = f.DecodeMsg(in)
		o.N = -1
	})
}

// ---------------------------------------------------------------- cases

type kase struct {
	Phase  string     `json:"phase"`
	Value  *valueDesc `json:"value,omitempty"`
	Codec  string     `json:"codec,omitempty"`
	Family string     `json:"family,omitempty"`
	Entry  string     `json:"entry,omitempty"`
	Limit  int        `json:"limit"`
	Hex    string     `json:"hex,omitempty"`
	Mut    string     `json:"mut,omitempty"`
	Text   string     `json:"text,omitempty"`
	SB     *sbCase    `json:"signbytes,omitempty"`
	RLP    *rlpCase   `json:"rlp,omitempty"`
}

type checker struct {
	run      *core.Run
	fams     []*family
	famByNm  map[string]*family
	rootByNm map[string]*rootSpec

	evals   int64
	classes *tally
	samples *core.Sampler

	pendMu sync.Mutex
	pend   map[string]*pending

	memViolations   int64
	makeslicePanics int64 // allocation-size panics of a decoder that was given a finite limit

	rlpUnsafe        int64 // the in-tree RLP decoder was seen not to bound declared sizes
	rlpMemViolations int64
	notes            *tally
}

// tally is a concurrent histogram.
type tally struct {
	mu sync.Mutex
	m  map[string]int
}

func newTally() *tally { return &tally{m: map[string]int{}} }

func (t *tally) Add(k string) { t.AddN(k, 1) }

func (t *tally) AddN(k string, n int) {
	t.mu.Lock()
	t.m[k] += n
	t.mu.Unlock()
}

func (t *tally) Len() int {
	t.mu.Lock()
	defer t.mu.Unlock()
	return len(t.m)
}

func (t *tally) Map() map[string]int {
	t.mu.Lock()
	defer t.mu.Unlock()
	o := map[string]int{}
	for k, v := range t.m {
		o[k] = v
	}
	return o
}

// report buffers counterexamples: per signature the smallest case (shortest
// JSON, then lexicographic) is kept, so that the recorded representative does
// not depend on goroutine scheduling; flush hands them to core in sorted order.
type pending struct {
	sig    map[string]string
	k      kase
	detail string
	key    string
	n      int
}

func (c *checker) report(sig map[string]string, k kase, detail string) {
	kb, _ := json.Marshal(k)
	key := fmt.Sprintf("%08d%s", len(kb), kb)
	ks := make([]string, 0, len(sig))
	for x := range sig {
		ks = append(ks, x)
	}
	sortStrings(ks)
	var sk strings.Builder
	for _, x := range ks {
		sk.WriteString(x + "=" + sig[x] + ";")
	}
	c.pendMu.Lock()
	defer c.pendMu.Unlock()
	if c.pend == nil {
		c.pend = map[string]*pending{}
	}
	p := c.pend[sk.String()]
	if p == nil {
		c.pend[sk.String()] = &pending{sig, k, detail, key, 1}
		return
	}
	p.n++
	if key < p.key {
		p.sig, p.k, p.detail, p.key = sig, k, detail, key
	}
}

func (c *checker) flush() {
	c.pendMu.Lock()
	defer c.pendMu.Unlock()
	var sks []string
	for sk := range c.pend {
		sks = append(sks, sk)
	}
	sortStrings(sks)
	for _, sk := range sks {
		p := c.pend[sk]
		c.run.Report(p.sig, p.k, fmt.Sprintf("%s  [%d cases of this class]", p.detail, p.n))
	}
	c.pend = nil
}

func (c *checker) panicSig(o outcome, inputLen int, bombLimit0 bool) map[string]string {
	shape := "nonempty-input"
	if inputLen == 0 {
		shape = "empty-input"
	} else if bombLimit0 {
		shape = "length-bomb-no-limit"
	}
	return map[string]string{"phase": "decode", "kind": "panic", "site": o.Site, "panic": panicClass(o.PanicVal), "shape": shape}
}

// ---------------------------------------------------------------- phase 1: round trip

func (c *checker) roundTrip(g *gridValue, codec string) {
	atomic.AddInt64(&c.evals, 1)
	k := kase{Phase: "roundtrip", Value: &g.Desc, Codec: codec}
	enc := encBin
	if codec == "json" {
		enc = encJSON
	}
	v := g.iface()
	e1, o := enc(v)
	if o.Panicked {
		c.report(map[string]string{"phase": "roundtrip", "codec": codec, "kind": "encode-panic", "site": o.Site, "panic": panicClass(o.PanicVal)}, k,
			fmt.Sprintf("encoding %s panicked: %s", descString(g.Desc), o.PanicVal))
		c.classes.Add("roundtrip/" + codec + "/encode-panic")
		return
	}
	e2, _ := enc(v)
	if !bytes.Equal(e1, e2) {
		c.report(map[string]string{"phase": "roundtrip", "codec": codec, "kind": "nondeterministic-encoding"}, k,
			fmt.Sprintf("two encodings of %s differ: %x vs %x", descString(g.Desc), clip(e1), clip(e2)))
		return
	}
	// a time leaf in a location other than UTC: the value that denotes the same
	// instant in UTC (and equals this one everywhere else) must have the very
	// same encoding — and, for a header, the same hash
	if p := g.Desc.Path; p != "" && g.Kind[p] == "time" && g.Desc.Alt >= 0 && g.Desc.Alt < len(timeTwin) && timeTwin[g.Desc.Alt] >= 0 {
		tw, _ := g.Root.make(g.base, p, timeTwin[g.Desc.Alt])
		et, ot := enc(tw.iface())
		if !ot.Panicked && !bytes.Equal(e1, et) {
			c.report(map[string]string{"phase": "roundtrip", "codec": codec, "kind": "encoding-depends-on-time-zone", "shape": "time/non-utc-location"}, k,
				fmt.Sprintf("%s: the %s encodings of one instant (%s) given in %s and in UTC differ: %s vs %s", descString(g.Desc), codec, showLeaf(walkTo(g.V, p)), walkTo(g.V, p).Interface().(time.Time).Location(), clipS(clip(e1)), clipS(clip(et))))
			c.classes.Add("roundtrip/" + codec + "/encoding-depends-on-time-zone")
			return
		}
		if ha, ok := v.(*types.Header); ok && codec == "bin" {
			hb := tw.iface().(*types.Header)
			var x, y []byte
			pa, _, _ := tryFast(func() { x = ha.Hash() })
			pb, _, _ := tryFast(func() { y = hb.Hash() })
			if !pa && !pb && !bytes.Equal(x, y) {
				c.report(map[string]string{"phase": "roundtrip", "codec": "hash", "kind": "hash-depends-on-time-zone", "shape": "time/non-utc-location"}, k,
					fmt.Sprintf("%s: Header.Hash differs between one instant given in %s and in UTC: %x vs %x", descString(g.Desc), ha.Time.Location(), x, y))
				return
			}
			c.classes.Add("roundtrip/hash/same-instant-same-header-hash/" + g.Shape[p])
		}
	}
	fam := c.famByNm[g.Root.Family]
	limits := []int{0}
	if codec == "bin" {
		limits = []int{0, len(e1)}
	}
	for _, lmt := range limits {
		var d outcome
		if codec == "bin" {
			d = decBin(fam.proto(), e1, lmt)
		} else {
			d = decJSON(fam.proto(), e1)
		}
		k.Limit = lmt
		if d.Panicked {
			c.report(map[string]string{"phase": "roundtrip", "codec": codec, "kind": "decode-panic", "site": d.Site, "panic": panicClass(d.PanicVal)}, k,
				fmt.Sprintf("decoding the encoding of %s panicked: %s", descString(g.Desc), d.PanicVal))
			c.classes.Add("roundtrip/" + codec + "/decode-panic")
			return
		}
		if d.Err != nil {
			kind := "decode-error"
			if lmt != 0 {
				kind = "decode-error-with-limit-equal-to-length"
			}
			shape := "base"
			if g.Desc.Path != "" {
				shape = g.Kind[g.Desc.Path] + "/" + g.Shape[g.Desc.Path]
			}
			c.report(map[string]string{"phase": "roundtrip", "codec": codec, "kind": kind, "shape": shape}, k,
				fmt.Sprintf("decoding the %s encoding of %s (limit %d) fails: %v", codec, descString(g.Desc), lmt, d.Err))
			c.classes.Add("roundtrip/" + codec + "/" + kind)
			return
		}
		if codec == "bin" && lmt != 0 && d.N > lmt {
			c.report(map[string]string{"phase": "roundtrip", "codec": codec, "kind": "n-exceeds-limit"}, k,
				fmt.Sprintf("ReadBinary reported n=%d > limit %d without error", d.N, lmt))
			return
		}
		dv := reflect.ValueOf(d.Res)
		if !fam.ByValue {
			if dv.Kind() != reflect.Ptr || dv.IsNil() {
				c.report(map[string]string{"phase": "roundtrip", "codec": codec, "kind": "decode-returned-nil"}, k, "decoder returned a nil/non-pointer result for "+descString(g.Desc))
				return
			}
			dv = dv.Elem()
		}
		var diffs []string
		diffWire(g.V, dv, "", &diffs)
		if len(diffs) > 0 && g.Long {
			// one class per (codec, element kind): which leaves of which
			// elements come back changed is a consequence, not the class
			p := diffs[0]
			c.classes.Add("roundtrip/" + codec + "/value-changed/long-slice/elem-" + g.ElemKind)
			c.report(map[string]string{"phase": "roundtrip", "codec": codec, "kind": "value-changed", "leaf": "slice-elements", "shape": "long-slice/elem-" + g.ElemKind}, k,
				fmt.Sprintf("%s round trip of %s (%s, %d leaves changed) changes %s: %s -> %s", codec, descString(g.Desc), g.Shape[g.Desc.Path], len(diffs), p, showLeaf(walkTo(g.V, p)), showLeaf(walkTo(dv, p))))
			return
		}
		if len(diffs) > 0 {
			seen := map[string]bool{}
			allKind, allShape := g.full()
			for _, p := range diffs {
				kind, shape := allKind[p], allShape[p]
				if kind == "" {
					kind, shape = "structure", "structure"
				}
				key := kind + "/" + shape
				if seen[key] {
					continue
				}
				seen[key] = true
				c.classes.Add("roundtrip/" + codec + "/value-changed/" + key)
				a, b := walkTo(g.V, p), walkTo(dv, p)
				c.report(map[string]string{"phase": "roundtrip", "codec": codec, "kind": "value-changed", "leaf": kind, "shape": shape}, k,
					fmt.Sprintf("%s round trip of %s changes %s: %s -> %s", codec, descString(g.Desc), p, showLeaf(a), showLeaf(b)))
			}
			return
		}
		var e3 []byte
		var o3 outcome
		if fam.ByValue {
			e3, o3 = enc(d.Res)
		} else {
			e3, o3 = enc(d.Res)
		}
		if o3.Panicked || !bytes.Equal(e1, e3) {
			c.report(map[string]string{"phase": "roundtrip", "codec": codec, "kind": "reencoding-differs"}, k,
				fmt.Sprintf("encode(decode(encode(v))) != encode(v) for %s: %x vs %x (panic=%v)", descString(g.Desc), clip(e1), clip(e3), o3.PanicVal))
			c.classes.Add("roundtrip/" + codec + "/reencoding-differs")
			return
		}
	}
	cls := "base"
	if g.Desc.Path != "" {
		cls = g.Kind[g.Desc.Path] + "/" + g.Shape[g.Desc.Path]
	}
	if g.Long {
		cls += "/elem-" + g.ElemKind
	}
	c.classes.Add("roundtrip/" + codec + "/ok/" + cls)
}

func descString(d valueDesc) string {
	if d.Path == "" {
		return fmt.Sprintf("%s[base %s]", d.Root, d.Base)
	}
	return fmt.Sprintf("%s[base %s, %s:=alt%d]", d.Root, d.Base, d.Path, d.Alt)
}

func clip(b []byte) []byte {
	if len(b) > 120 {
		return b[:120]
	}
	return b
}

func showLeaf(v reflect.Value) string {
	if !v.IsValid() {
		return "<invalid>"
	}
	switch v.Kind() {
	case reflect.Ptr, reflect.Interface:
		if v.IsNil() {
			return "nil"
		}
		return "set(" + v.Elem().Type().String() + ")"
	case reflect.Slice:
		if v.Type().Elem().Kind() == reflect.Uint8 {
			return fmt.Sprintf("bytes[%d] %x", v.Len(), clip(v.Bytes()))
		}
		return fmt.Sprintf("slice[%d]", v.Len())
	case reflect.Struct:
		if v.Type() == timeType {
			t := v.Interface().(time.Time)
			return t.UTC().Format(time.RFC3339Nano)
		}
	}
	s := fmt.Sprintf("%v", v.Interface())
	if len(s) > 80 {
		s = s[:80] + "…"
	}
	return s
}

// ---------------------------------------------------------------- phase 2: arbitrary bytes

// offer runs one byte string through one entry point and applies the
// no-panic and n<=limit clauses.  Returns the outcome class.
const (
	ocError = iota
	ocValue
	ocPanic
	ocNExceeds
)

var ocNames = []string{"error", "value", "panic", "n-exceeds-limit"}

// ocount is a per-worker histogram: key (family/entry) -> outcome counts.
type ocount map[string]*[4]int

func (m ocount) add(key string, oc int) {
	p := m[key]
	if p == nil {
		p = new([4]int)
		m[key] = p
	}
	p[oc]++
}

// flush adds the histogram to the shared classes and returns the total.
func (m ocount) flush(c *checker, prefix string) int {
	tot := 0
	for k, p := range m {
		for i, n := range p {
			if n > 0 {
				c.classes.AddN(prefix+k+ocNames[i], n)
				tot += n
			}
		}
	}
	return tot
}

func (c *checker) offer(f *family, entry string, in []byte, lmt int, mut string) int {
	// c.evals is bumped by the callers in batches (a shared counter touched
	// ten million times by sixteen workers is a bottleneck)
	var o outcome
	switch entry {
	case "ReadBinary":
		o = decBin(f.proto(), in, lmt)
	case "ReadBinaryBytes":
		o = decBinBytes(f, in)
	case "ReadJSON":
		o = decJSON(f.proto(), in)
	case "DecodeMessage":
		o = decMsg(f, in)
	}
	mk := func() kase {
		return kase{Phase: "decode", Family: f.Name, Entry: entry, Limit: lmt, Hex: hex.EncodeToString(in), Mut: mut}
	}
	if o.Panicked {
		if lmt != 0 && strings.Contains(o.PanicVal, "makeslice") {
			atomic.AddInt64(&c.makeslicePanics, 1)
		}
		k := mk()
		sig := c.panicSig(o, len(in), strings.HasPrefix(mut, "bomb") && (lmt == 0))
		c.report(sig, k, fmt.Sprintf("%s into %s (limit %d) panics on %d input bytes %x [%s]: %s", entry, f.Name, lmt, len(in), clip(in), mut, o.PanicVal))
		return ocPanic
	}
	if entry == "ReadBinary" && lmt != 0 && o.Err == nil && o.N > lmt {
		k := mk()
		c.report(map[string]string{"phase": "decode", "kind": "n-exceeds-limit", "entry": entry}, k,
			fmt.Sprintf("%s into %s reported n=%d > limit %d with no error", entry, f.Name, o.N, lmt))
		return ocNExceeds
	}
	if o.Err != nil {
		return ocError
	}
	return ocValue
}

func limitsFor(n int) []int {
	seen := map[int]bool{}
	var out []int
	for _, l := range []int{0, 1, n - 1, n, n + 1} {
		if l < 0 || seen[l] {
			continue
		}
		seen[l] = true
		out = append(out, l)
	}
	return out
}

// finiteLimitsFor: the same without 0 ("no limit": allocation is then
// unbounded by design, and a length prefix between a few GiB and 2^48 makes
// the Go runtime abort the whole process instead of panicking).
func finiteLimitsFor(n int) []int {
	var out []int
	for _, l := range limitsFor(n) {
		if l != 0 {
			out = append(out, l)
		}
	}
	return out
}

// shortStrings offers every byte string of length <= 2 to every family through
// every entry point.
func (c *checker) shortStrings() {
	type job struct {
		f  *family
		b0 int // -1: lengths 0 and 1; else first byte of the 2-byte strings
	}
	var jobs []job
	for _, f := range c.fams {
		jobs = append(jobs, job{f, -1})
		for b := 0; b < 256; b++ {
			jobs = append(jobs, job{f, b})
		}
	}
	core.Par(len(jobs), func(i int) {
		j := jobs[i]
		var inputs [][]byte
		if j.b0 < 0 {
			inputs = append(inputs, []byte{})
			for b := 0; b < 256; b++ {
				inputs = append(inputs, []byte{byte(b)})
			}
		} else {
			for b := 0; b < 256; b++ {
				inputs = append(inputs, []byte{byte(j.b0), byte(b)})
			}
		}
		local := ocount{}
		kRB, kRBB, kJ, kM := j.f.Name+"/ReadBinary/", j.f.Name+"/ReadBinaryBytes/", j.f.Name+"/ReadJSON/", j.f.Name+"/DecodeMessage/"
		for _, in := range inputs {
			for _, lmt := range limitsFor(len(in)) {
				local.add(kRB, c.offer(j.f, "ReadBinary", in, lmt, "short"))
			}
			local.add(kRBB, c.offer(j.f, "ReadBinaryBytes", in, 0, "short"))
			local.add(kJ, c.offer(j.f, "ReadJSON", in, 0, "short"))
			if j.f.DecodeMsg != nil {
				local.add(kM, c.offer(j.f, "DecodeMessage", in, j.f.MsgLimit, "short"))
			}
		}
		atomic.AddInt64(&c.evals, int64(local.flush(c, "short/")))
	})
}

var substBytes = []byte{0x00, 0x01, 0x7f, 0x80, 0xff}

// mutateBinary offers every truncation and every single-byte substitution of
// one binary encoding, with every finite limit around its length.
func (c *checker) mutateBinary(f *family, enc []byte, allLimits bool, local ocount) {
	kRB, kM := f.Name+"/ReadBinary/", f.Name+"/DecodeMessage/"
	run := func(in []byte, mut string) {
		lims := finiteLimitsFor(len(in))
		if !allLimits {
			lims = []int{1, len(in)}
			if len(in) <= 1 {
				lims = []int{1}
			}
		}
		for _, lmt := range lims {
			local.add(kRB, c.offer(f, "ReadBinary", in, lmt, mut))
		}
		if f.DecodeMsg != nil {
			local.add(kM, c.offer(f, "DecodeMessage", in, f.MsgLimit, mut))
		}
	}
	for k := 0; k < len(enc); k++ {
		run(enc[:k], fmt.Sprintf("truncate@%d", k))
	}
	buf := make([]byte, len(enc))
	for pos := 0; pos < len(enc); pos++ {
		for _, s := range substBytes {
			if enc[pos] == s {
				continue
			}
			copy(buf, enc)
			buf[pos] = s
			run(buf, fmt.Sprintf("subst@%d=%02x", pos, s))
		}
	}
}

// mutateJSON offers every truncation, every single-byte substitution and every
// replacement of one JSON node by a value of another JSON type.
func (c *checker) mutateJSON(f *family, enc []byte, local ocount) {
	kJ := f.Name + "/ReadJSON/"
	run := func(in []byte, mut string) {
		local.add(kJ, c.offer(f, "ReadJSON", in, 0, mut))
	}
	for k := 0; k < len(enc); k++ {
		run(enc[:k], fmt.Sprintf("truncate@%d", k))
	}
	if len(enc) <= 4096 {
		buf := make([]byte, len(enc))
		for pos := 0; pos < len(enc); pos++ {
			for _, s := range substBytes {
				if enc[pos] == s {
					continue
				}
				copy(buf, enc)
				buf[pos] = s
				run(buf, fmt.Sprintf("subst@%d=%02x", pos, s))
			}
		}
	}
	var tree interface{}
	if json.Unmarshal(enc, &tree) != nil {
		return
	}
	repl := []interface{}{nil, true, float64(-1), 1.5, 1e300, "", "zz", "00", []interface{}{}, []interface{}{float64(1), nil}, []interface{}{float64(300), "x"}, map[string]interface{}{}}
	nodes := countNodes(tree)
	for i := 0; i < nodes; i++ {
		for ri, r := range repl {
			idx := i
			m := replaceNode(tree, &idx, r)
			b, err := json.Marshal(m)
			if err != nil {
				continue
			}
			run(b, fmt.Sprintf("json-node%d:=repl%d", i, ri))
		}
	}
}

func countNodes(t interface{}) int {
	n := 1
	switch x := t.(type) {
	case []interface{}:
		for _, e := range x {
			n += countNodes(e)
		}
	case map[string]interface{}:
		for _, k := range sortedKeys(x) {
			n += countNodes(x[k])
		}
	}
	return n
}

func sortedKeys(m map[string]interface{}) []string {
	ks := make([]string, 0, len(m))
	for k := range m {
		ks = append(ks, k)
	}
	sortStrings(ks)
	return ks
}

func sortStrings(a []string) {
	for i := 1; i < len(a); i++ {
		for j := i; j > 0 && a[j] < a[j-1]; j-- {
			a[j], a[j-1] = a[j-1], a[j]
		}
	}
}

// replaceNode returns a copy of t with the idx-th node (pre-order) replaced.
func replaceNode(t interface{}, idx *int, r interface{}) interface{} {
	if *idx == 0 {
		*idx = -1
		return r
	}
	if *idx > 0 {
		*idx--
	}
	switch x := t.(type) {
	case []interface{}:
		o := make([]interface{}, len(x))
		for i, e := range x {
			if *idx >= 0 {
				o[i] = replaceNode(e, idx, r)
			} else {
				o[i] = e
			}
		}
		return o
	case map[string]interface{}:
		o := map[string]interface{}{}
		for _, k := range sortedKeys(x) {
			if *idx >= 0 {
				o[k] = replaceNode(x[k], idx, r)
			} else {
				o[k] = x[k]
			}
		}
		return o
	}
	return t
}

// ---------------------------------------------------------------- length-prefix positions

type lenPos struct {
	Off  int
	Size int // bytes of the varint
	Kind string
}

func varintSize(i int) int {
	if i < 0 {
		i = -i
	}
	n := 0
	for u := uint64(i); u > 0; u >>= 8 {
		n++
	}
	return 1 + n
}

func uvarintSize(u uint64) int {
	n := 0
	for ; u > 0; u >>= 8 {
		n++
	}
	return 1 + n
}

// layout walks a value following the documented binary format (README: fields
// in order, varint length prefixes, one type byte for interfaces, one byte for
// pointers) and returns the encoded size and the offsets of all length
// prefixes.  It is only used to place length bombs; if it disagrees with the
// real encoding the value is skipped for bombs (counted), never reported.
func layout(v reflect.Value, t reflect.Type, off int, varintTag bool, pos *[]lenPos) (int, bool) {
	switch t.Kind() {
	case reflect.Interface:
		if v.IsNil() {
			return off + 1, true
		}
		cv := v.Elem()
		ct := cv.Type()
		off++
		if ct.Kind() == reflect.Ptr {
			if cv.IsNil() {
				return 0, false
			}
			return layout(cv.Elem(), ct.Elem(), off, false, pos)
		}
		return layout(cv, ct, off, false, pos)
	case reflect.Ptr:
		if v.IsNil() {
			return off + 1, true
		}
		return layout(v.Elem(), t.Elem(), off+1, false, pos)
	case reflect.Array:
		if t.Elem().Kind() == reflect.Uint8 {
			return off + t.Len(), true
		}
		ok := true
		for i := 0; i < t.Len() && ok; i++ {
			off, ok = layout(v.Index(i), t.Elem(), off, false, pos)
		}
		return off, ok
	case reflect.Slice:
		sz := varintSize(v.Len())
		if t.Elem().Kind() == reflect.Uint8 {
			*pos = append(*pos, lenPos{off, sz, "bytes"})
			return off + sz + v.Len(), true
		}
		*pos = append(*pos, lenPos{off, sz, "slice"})
		off += sz
		ok := true
		for i := 0; i < v.Len() && ok; i++ {
			off, ok = layout(v.Index(i), t.Elem(), off, false, pos)
		}
		return off, ok
	case reflect.Struct:
		if t == timeType {
			return off + 8, true
		}
		ok := true
		for _, f := range codecFields(t) {
			off, ok = layout(v.FieldByIndex(f.Index), f.Type, off, f.Tag.Get("binary") == "varint", pos)
			if !ok {
				return 0, false
			}
		}
		return off, true
	case reflect.String:
		sz := varintSize(v.Len())
		*pos = append(*pos, lenPos{off, sz, "string"})
		return off + sz + v.Len(), true
	case reflect.Int64:
		if varintTag {
			return off + varintSize(int(v.Int())), true
		}
		return off + 8, true
	case reflect.Uint64:
		if varintTag {
			return off + uvarintSize(v.Uint()), true
		}
		return off + 8, true
	case reflect.Int32, reflect.Uint32:
		return off + 4, true
	case reflect.Int16, reflect.Uint16:
		return off + 2, true
	case reflect.Int8, reflect.Uint8, reflect.Bool:
		return off + 1, true
	case reflect.Int:
		x := v.Int()
		if x == -x && x != 0 { // MinInt64
			return off + 9, true
		}
		return off + varintSize(int(x)), true
	case reflect.Uint:
		return off + uvarintSize(v.Uint()), true
	}
	return 0, false
}

var bombs = []struct {
	name string
	enc  []byte
}{
	{"bomb-2p62", []byte{0x08, 0x40, 0, 0, 0, 0, 0, 0, 0}},
	{"bomb-maxint64", []byte{0x08, 0x7f, 0xff, 0xff, 0xff, 0xff, 0xff, 0xff, 0xff}}, // n+length overflows
	{"bomb-2p31", []byte{0x04, 0x80, 0, 0, 0}},
}

// ---------------------------------------------------------------- memory (serial phase)

type memCase struct {
	f     *family
	entry string
	in    []byte
	lmt   int
	mut   string
}

func totalAlloc() uint64 {
	var ms runtime.MemStats
	runtime.ReadMemStats(&ms)
	return ms.TotalAlloc
}

// allocCounter reads the cumulative heap allocation counter without stopping
// the world (runtime/metrics "/gc/heap/allocs:bytes" is the quantity that
// MemStats.TotalAlloc reports); a case over the bound is re-measured with
// runtime.MemStats.TotalAlloc before it is reported.
var allocSample = []metrics.Sample{{Name: "/gc/heap/allocs:bytes"}}

func allocCounter() uint64 {
	metrics.Read(allocSample)
	if allocSample[0].Value.Kind() != metrics.KindUint64 {
		return totalAlloc()
	}
	return allocSample[0].Value.Uint64()
}

// memBound: 64·limit + 1 MiB; limit 0 is go-wire's "no limit", for which the
// allocation clause makes no demand.
func memBound(lmt int) uint64 {
	if lmt == 0 {
		return 1 << 62
	}
	return 64*uint64(lmt) + (1 << 20)
}

// measure runs the cases one after the other on this goroutine (nothing else
// of the checker runs concurrently) and checks the allocation of each decode
// against 64·limit + 1 MiB.
func (c *checker) measure(cases []memCase) {
	for _, mc := range cases {
		if atomic.LoadInt64(&c.memViolations) >= 1 && strings.HasPrefix(mc.mut, "bomb-2p31") {
			// every further one would allocate another 2 GiB
			c.notes.Add("skipped-2p31-bombs-after-first-memory-violation")
			continue
		}
		// the 2^31 bombs are measured with runtime.MemStats right away, so
		// that an offending decode (2 GiB) never has to be repeated
		useMS := strings.HasPrefix(mc.mut, "bomb-2p31")
		var before, delta uint64
		if useMS {
			before = totalAlloc()
		} else {
			before = allocCounter()
		}
		cls := c.offer(mc.f, mc.entry, mc.in, mc.lmt, mc.mut)
		if useMS {
			delta = totalAlloc() - before
		} else {
			delta = allocCounter() - before
		}
		c.classes.Add("mem/" + mc.f.Name + "/" + mc.entry + "/" + ocNames[cls])
		atomic.AddInt64(&c.evals, 1)
		if delta > memBound(mc.lmt) {
			if useMS && delta > memBound(mc.lmt)+(1<<28) {
				c.memViolation(mc, delta)
				debug.FreeOSMemory()
			} else {
				c.measureOne(mc)
			}
		}
	}
}

func (c *checker) measureOne(mc memCase) bool {
	// two attempts with runtime.MemStats.TotalAlloc: a background allocation
	// (GC bookkeeping) must not count
	var delta uint64
	for attempt := 0; attempt < 2; attempt++ {
		before := totalAlloc()
		c.offer(mc.f, mc.entry, mc.in, mc.lmt, mc.mut)
		delta = totalAlloc() - before
		if delta <= memBound(mc.lmt) {
			return true
		}
		debug.FreeOSMemory()
		if delta > memBound(mc.lmt)+(1<<28) {
			break // far beyond anything a background allocation could explain
		}
	}
	c.memViolation(mc, delta)
	return false
}

func (c *checker) memViolation(mc memCase, delta uint64) {
	atomic.AddInt64(&c.memViolations, 1)
	k := kase{Phase: "decode-mem", Family: mc.f.Name, Entry: mc.entry, Limit: mc.lmt, Hex: hex.EncodeToString(mc.in), Mut: mc.mut}
	kind := "other"
	if strings.HasPrefix(mc.mut, "bomb") {
		kind = "length-bomb"
	}
	c.report(map[string]string{"phase": "decode", "kind": "allocates-beyond-limit", "entry": mc.entry, "shape": kind}, k,
		fmt.Sprintf("%s into %s with limit %d allocated %d bytes (> 64*limit + 1 MiB = %d) on %d input bytes %x [%s]", mc.entry, mc.f.Name, mc.lmt, delta, memBound(mc.lmt), len(mc.in), clip(mc.in), mc.mut))
}

// bombCases builds, for one grid value, the inputs with each length prefix
// replaced by a huge one.
func (c *checker) bombCases(f *family, g *gridValue, enc []byte) []memCase {
	var pos []lenPos
	var size int
	var ok bool
	if f.ByValue {
		size, ok = layout(g.V, g.Root.Type, 0, false, &pos)
	} else {
		size, ok = layout(g.V.Addr(), reflect.PtrTo(g.Root.Type), 0, false, &pos)
	}
	if !ok || size != len(enc) {
		c.notes.Add("bomb-positions-unlocated:" + f.Name)
		return nil
	}
	var out []memCase
	for _, p := range pos {
		for _, b := range bombs {
			in := append(append(append([]byte{}, enc[:p.Off]...), b.enc...), enc[p.Off+p.Size:]...)
			mut := fmt.Sprintf("%s@%d(%s)", b.name, p.Off, p.Kind)
			for _, lmt := range finiteLimitsFor(len(in)) {
				out = append(out, memCase{f, "ReadBinary", in, lmt, mut})
			}
			if f.DecodeMsg != nil {
				out = append(out, memCase{f, "DecodeMessage", in, f.MsgLimit, mut})
			}
			if b.name == "bomb-2p62" && p.Kind != "slice" {
				// no limit: the length exceeds what make() can ever satisfy, so
				// nothing is allocated; the decoder must still not panic.  (Not
				// at element-slice positions: there decoding continues on the
				// shifted remainder, i.e. on arbitrary length prefixes without
				// a limit.)
				out = append(out, memCase{f, "ReadBinary", in, 0, mut})
				if f.ByValue {
					out = append(out, memCase{f, "ReadBinaryBytes", in, 0, mut})
				} else {
					// ReadBinaryBytes(d, &T{}) reads the struct itself, without
					// the pointer byte that ReadBinary(&T{}, …) expects
					out = append(out, memCase{f, "ReadBinaryBytes", in[1:], 0, mut})
				}
			}
		}
	}
	return out
}
