// RLP: the in-tree eth/rlp against upstream go-ethereum v1.8.27 rlp on every
// short byte string, and round trip / determinism of the transaction, receipt,
// header and KV payload encodings.
package main

import (
	"bytes"
	"encoding/hex"
	"fmt"
	"math/big"
	"reflect"
	"strings"
	"sync/atomic"

	"verif/core"

	ctypes "github.com/dappledger/AnnChain/chain/types"
	"github.com/dappledger/AnnChain/eth/common"
	etypes "github.com/dappledger/AnnChain/eth/core/types"
	irlp "github.com/dappledger/AnnChain/eth/rlp"
	urlp "github.com/ethereum/go-ethereum/rlp"
)

type rlpCase struct {
	Kind   string     `json:"kind"` // "bytes" | "grid" | "bomb"
	Target string     `json:"target"`
	Hex    string     `json:"hex,omitempty"`
	Value  *valueDesc `json:"value,omitempty"`
	Mut    string     `json:"mut,omitempty"`
	Shape  string     `json:"shape,omitempty"`
}

// ---------------------------------------------------------------- canonical dump

func dump(v reflect.Value) string {
	var sb strings.Builder
	dumpTo(&sb, v)
	return sb.String()
}

func dumpTo(sb *strings.Builder, v reflect.Value) {
	if !v.IsValid() {
		sb.WriteString("invalid")
		return
	}
	t := v.Type()
	switch t.Kind() {
	case reflect.Ptr:
		if v.IsNil() {
			sb.WriteString("nil")
			return
		}
		if t.Elem() == bigIntType {
			sb.WriteString("big:" + v.Interface().(*big.Int).String())
			return
		}
		sb.WriteString("&")
		dumpTo(sb, v.Elem())
	case reflect.Interface:
		if v.IsNil() {
			sb.WriteString("nil")
			return
		}
		dumpTo(sb, v.Elem())
	case reflect.Struct:
		if t == bigIntType {
			x := v.Interface().(big.Int)
			sb.WriteString("big:" + x.String())
			return
		}
		sb.WriteString("{")
		for i := 0; i < t.NumField(); i++ {
			f := t.Field(i)
			if f.PkgPath != "" || f.Tag.Get("rlp") == "-" {
				continue
			}
			sb.WriteString(f.Name + ":")
			dumpTo(sb, v.Field(i))
			sb.WriteString(",")
		}
		sb.WriteString("}")
	case reflect.Slice, reflect.Array:
		if t.Elem().Kind() == reflect.Uint8 {
			sb.WriteString("x")
			if t.Kind() == reflect.Slice {
				sb.WriteString(hex.EncodeToString(v.Bytes()))
				return
			}
			const hexd = "0123456789abcdef"
			for i := 0; i < v.Len(); i++ {
				b := byte(v.Index(i).Uint())
				sb.WriteByte(hexd[b>>4])
				sb.WriteByte(hexd[b&15])
			}
			return
		}
		sb.WriteString("[")
		for i := 0; i < v.Len(); i++ {
			dumpTo(sb, v.Index(i))
			sb.WriteString(",")
		}
		sb.WriteString("]")
	case reflect.String:
		fmt.Fprintf(sb, "%q", v.String())
	case reflect.Bool:
		fmt.Fprintf(sb, "%v", v.Bool())
	case reflect.Uint, reflect.Uint8, reflect.Uint16, reflect.Uint32, reflect.Uint64:
		fmt.Fprintf(sb, "%d", v.Uint())
	case reflect.Int, reflect.Int8, reflect.Int16, reflect.Int32, reflect.Int64:
		fmt.Fprintf(sb, "%d", v.Int())
	default:
		fmt.Fprintf(sb, "?%s", t.Kind())
	}
}

// ---------------------------------------------------------------- targets

type smallStruct struct {
	A uint64
	B []byte
}

type innerStruct struct {
	X uint64
}

type taggedStruct struct {
	P *innerStruct `rlp:"nil"`
	T []uint64     `rlp:"tail"`
}

// mirrors of the unexported consensus encodings in eth/core/types
type txMirror struct {
	AccountNonce uint64
	Price        *big.Int
	GasLimit     uint64
	Recipient    *common.Address `rlp:"nil"`
	Amount       *big.Int
	Payload      []byte
	V            *big.Int
	R            *big.Int
	S            *big.Int
}

type logMirror struct {
	Address common.Address
	Topics  []common.Hash
	Data    []byte
}

type receiptMirror struct {
	PostStateOrStatus []byte
	CumulativeGasUsed uint64
	Bloom             etypes.Bloom
	Logs              []*logMirror
}

type rlpTarget struct {
	Name  string
	NewIn func() interface{} // fresh pointer for the in-tree decoder
	NewUp func() interface{} // fresh pointer for the upstream decoder
}

func sameTarget(name string, proto interface{}) *rlpTarget {
	t := reflect.TypeOf(proto)
	f := func() interface{} { return reflect.New(t).Interface() }
	return &rlpTarget{name, f, f}
}

func rlpTargets() []*rlpTarget {
	return []*rlpTarget{
		{"RawValue", func() interface{} { return new(irlp.RawValue) }, func() interface{} { return new(urlp.RawValue) }},
		sameTarget("uint64", uint64(0)),
		sameTarget("[]byte", []byte(nil)),
		sameTarget("[][]byte", [][]byte(nil)),
		sameTarget("smallStruct", smallStruct{}),
		sameTarget("*big.Int", (*big.Int)(nil)),
		sameTarget("taggedStruct", taggedStruct{}),
		sameTarget("[3]byte", [3]byte{}),
		ifaceTarget(),
		sameTarget("string", ""),
		sameTarget("bool", false),
	}
}

func ifaceTarget() *rlpTarget {
	f := func() interface{} { return new(interface{}) }
	return &rlpTarget{"interface{}", f, f}
}

// ---------------------------------------------------------------- differential decode

// rlpDiff decodes one byte string with both implementations into one target
// type.  Oracle: same accept/reject, same value, same re-encoding.
func (c *checker) rlpDiff(t *rlpTarget, in []byte, mut string, vd *valueDesc) string {
	atomic.AddInt64(&c.evals, 1)
	pi, pu := t.NewIn(), t.NewUp()
	var ei, eu error
	mk := func() kase {
		return kase{Phase: "rlp", RLP: &rlpCase{Kind: "bytes", Target: t.Name, Hex: hex.EncodeToString(in), Mut: mut, Value: vd}}
	}
	if p, v, site := tryFast(func() { ei = irlp.DecodeBytes(in, pi) }); p {
		k := mk()
		c.report(map[string]string{"phase": "rlp", "kind": "panic", "site": site, "panic": panicClass(v), "target": t.Name}, k,
			fmt.Sprintf("in-tree rlp.DecodeBytes(%x) into %s panicked: %v", clip(in), t.Name, core.FirstLine(v)))
		return "panic"
	}
	if p, v, _ := tryFast(func() { eu = urlp.DecodeBytes(in, pu) }); p {
		eu = fmt.Errorf("upstream panic: %v", core.FirstLine(v))
	}
	if (ei == nil) != (eu == nil) {
		k := mk()
		c.report(map[string]string{"phase": "rlp", "kind": "accept-reject-differs", "target": t.Name}, k,
			fmt.Sprintf("decoding %x into %s [%s]: in-tree err=%v, upstream err=%v", clip(in), t.Name, mut, ei, eu))
		return "mismatch"
	}
	if ei != nil {
		return "error"
	}
	vi, vu := reflect.ValueOf(pi).Elem(), reflect.ValueOf(pu).Elem()
	di, du := dump(vi), dump(vu)
	if di != du {
		k := mk()
		c.report(map[string]string{"phase": "rlp", "kind": "value-differs", "target": t.Name}, k,
			fmt.Sprintf("decoding %x into %s: in-tree %s, upstream %s", clip(in), t.Name, clipStr(di), clipStr(du)))
		return "mismatch"
	}
	bi, e1 := irlp.EncodeToBytes(vi.Interface())
	bu, e2 := urlp.EncodeToBytes(vu.Interface())
	if (e1 == nil) != (e2 == nil) || !bytes.Equal(bi, bu) {
		k := mk()
		c.report(map[string]string{"phase": "rlp", "kind": "reencoding-differs", "target": t.Name}, k,
			fmt.Sprintf("re-encoding the value decoded from %x (%s): in-tree %x (%v), upstream %x (%v)", clip(in), t.Name, clip(bi), e1, clip(bu), e2))
		return "mismatch"
	}
	return "value"
}

func clipStr(s string) string {
	if len(s) > 200 {
		return s[:200] + "…"
	}
	return s
}

// rawDiff compares the raw.go helpers (used by the trie decoder).
type rawResult struct {
	kind          int
	content, rest []byte
	splitErr      bool
	count         int
	countErr      bool
	isList, isStr bool
}

func (a rawResult) equal(b rawResult) bool {
	return a.kind == b.kind && bytes.Equal(a.content, b.content) && bytes.Equal(a.rest, b.rest) && a.splitErr == b.splitErr &&
		a.count == b.count && a.countErr == b.countErr && a.isList == b.isList && a.isStr == b.isStr
}

func (c *checker) rawDiff(in []byte) {
	atomic.AddInt64(&c.evals, 1)
	mk := func() kase {
		return kase{Phase: "rlp", RLP: &rlpCase{Kind: "bytes", Target: "raw.Split/CountValues", Hex: hex.EncodeToString(in)}}
	}
	var a, b rawResult
	if p, v, site := tryFast(func() {
		kd, content, rest, err := irlp.Split(in)
		n, err2 := irlp.CountValues(in)
		a = rawResult{kind: int(kd), content: content, rest: rest, splitErr: err != nil, count: n, countErr: err2 != nil}
		_, _, e := irlp.SplitList(in)
		a.isList = e == nil
		_, _, e = irlp.SplitString(in)
		a.isStr = e == nil
	}); p {
		c.report(map[string]string{"phase": "rlp", "kind": "panic", "site": site, "panic": panicClass(v), "target": "raw"}, mk(),
			fmt.Sprintf("in-tree rlp.Split/CountValues(%x) panicked: %v", in, core.FirstLine(v)))
		return
	}
	tryFast(func() {
		kd, content, rest, err := urlp.Split(in)
		n, err2 := urlp.CountValues(in)
		b = rawResult{kind: int(kd), content: content, rest: rest, splitErr: err != nil, count: n, countErr: err2 != nil}
		_, _, e := urlp.SplitList(in)
		b.isList = e == nil
		_, _, e = urlp.SplitString(in)
		b.isStr = e == nil
	})
	if !a.equal(b) {
		c.report(map[string]string{"phase": "rlp", "kind": "value-differs", "target": "raw"}, mk(),
			fmt.Sprintf("rlp.Split/CountValues(%x): in-tree %+v, upstream %+v", in, a, b))
	}
}

// rlpExhaustive: every byte string of length <= maxLen into every target;
// strings of length 3 go into the first coreTargets targets only.
const coreTargets = 7

var rlpOutcomes = []string{"error", "value", "mismatch", "panic"}

func outcomeIndex(s string) int {
	for i, o := range rlpOutcomes {
		if o == s {
			return i
		}
	}
	return 0
}

func (c *checker) rlpExhaustive(maxLen int) (inputs int64) {
	targets := rlpTargets()
	var n int64
	core.Par(257, func(j int) {
		counts := make([][4]int, len(targets))
		var cnt int64
		streamOK, streamBad := 0, 0
		one := func(in []byte) {
			cnt++
			if c.streamDiff(in, "exhaustive", nil) {
				streamOK++
			} else {
				streamBad++
			}
			nt := len(targets)
			if len(in) >= 3 {
				nt = coreTargets
			}
			for ti := 0; ti < nt; ti++ {
				counts[ti][outcomeIndex(c.rlpDiff(targets[ti], in, "exhaustive", nil))]++
			}
			c.rawDiff(in)
		}
		var rec func(prefix []byte)
		rec = func(prefix []byte) {
			one(prefix)
			if len(prefix) == maxLen {
				return
			}
			for b := 0; b < 256; b++ {
				rec(append(prefix, byte(b)))
			}
		}
		if j == 256 {
			one([]byte{})
		} else {
			buf := make([]byte, 1, maxLen)
			buf[0] = byte(j)
			rec(buf)
		}
		atomic.AddInt64(&n, cnt)
		if streamOK > 0 {
			c.classes.AddN("rlp-exhaustive/Stream/same-trace", streamOK)
		}
		if streamBad > 0 {
			c.classes.AddN("rlp-exhaustive/Stream/mismatch", streamBad)
		}
		for ti, t := range targets {
			for oi, v := range counts[ti] {
				if v > 0 {
					c.classes.AddN("rlp-exhaustive/"+t.Name+"/"+rlpOutcomes[oi], v)
				}
			}
		}
	})
	return n
}

// ---------------------------------------------------------------- grid

type rlpRoot struct {
	spec rootSpec
	tgt  *rlpTarget
}

func rlpRoots() []*rlpRoot {
	mk := func(name string, proto interface{}) *rlpRoot {
		t := reflect.TypeOf(proto)
		return &rlpRoot{rootSpec{Name: name, Type: t, RLP: true, Family: name}, sameTarget(name, proto)}
	}
	return []*rlpRoot{
		mk("rlp:KV", ctypes.KV{}),
		mk("rlp:Header", etypes.Header{}),
		mk("rlp:txdata", txMirror{}),
		mk("rlp:receiptRLP", receiptMirror{}),
		mk("rlp:smallStruct", smallStruct{}),
		mk("rlp:taggedStruct", taggedStruct{}),
		mk("rlp:[][]byte", struct{ L [][]byte }{}),
	}
}

func (c *checker) rlpViolation(kind string, r *rlpRoot, g *gridValue, detail string) {
	sig := map[string]string{"phase": "rlp", "kind": kind, "target": r.spec.Name}
	if kind == "value-changed" && g.Desc.Path != "" {
		// which kind of leaf does not survive; for the other kinds the
		// failing class is the operation on the type, not the varied leaf
		sig["leaf"] = g.Kind[g.Desc.Path]
	}
	c.report(sig,
		kase{Phase: "rlp", RLP: &rlpCase{Kind: "grid", Target: r.spec.Name, Value: &g.Desc}}, detail)
}

// rlpGridValue: round trip, determinism, agreement with upstream, and (for the
// mirrors) agreement with the real eth types.  Returns the encoding.
func (c *checker) rlpGridValue(r *rlpRoot, g *gridValue) []byte {
	atomic.AddInt64(&c.evals, 1)
	v := g.V.Addr().Interface()
	var b1, b2, bu []byte
	var e1, e2, eu error
	if p, pv, st := core.Try(func() {
		b1, e1 = irlp.EncodeToBytes(v)
		b2, e2 = irlp.EncodeToBytes(v)
	}); p {
		c.report(map[string]string{"phase": "rlp", "kind": "encode-panic", "site": panicSite(st), "panic": panicClass(pv)},
			kase{Phase: "rlp", RLP: &rlpCase{Kind: "grid", Target: r.spec.Name, Value: &g.Desc}}, fmt.Sprintf("encoding %s panicked: %v", descString(g.Desc), core.FirstLine(pv)))
		return nil
	}
	if e1 != nil || e2 != nil {
		c.rlpViolation("encode-error", r, g, fmt.Sprintf("rlp.EncodeToBytes(%s) fails: %v", descString(g.Desc), e1))
		return nil
	}
	if !bytes.Equal(b1, b2) {
		c.rlpViolation("nondeterministic-encoding", r, g, fmt.Sprintf("two RLP encodings of %s differ", descString(g.Desc)))
		return nil
	}
	core.Try(func() { bu, eu = urlp.EncodeToBytes(v) })
	if eu != nil || !bytes.Equal(b1, bu) {
		c.rlpViolation("encoding-differs-from-upstream", r, g, fmt.Sprintf("%s: in-tree %x, upstream %x (%v)", descString(g.Desc), clip(b1), clip(bu), eu))
		return b1
	}
	// decode with both, compare with the original
	want := dump(g.V)
	for _, side := range []string{"in-tree", "upstream"} {
		ptr := r.tgt.NewIn()
		var err error
		if p, pv, st := core.Try(func() {
			if side == "in-tree" {
				err = irlp.DecodeBytes(b1, ptr)
			} else {
				err = urlp.DecodeBytes(b1, ptr)
			}
		}); p {
			if side == "in-tree" {
				c.report(map[string]string{"phase": "rlp", "kind": "panic", "site": panicSite(st), "panic": panicClass(pv), "target": r.spec.Name},
					kase{Phase: "rlp", RLP: &rlpCase{Kind: "grid", Target: r.spec.Name, Value: &g.Desc}}, fmt.Sprintf("decoding the encoding of %s panicked: %v", descString(g.Desc), core.FirstLine(pv)))
			}
			return b1
		}
		if err != nil {
			if side == "in-tree" {
				c.rlpViolation("decode-error", r, g, fmt.Sprintf("in-tree decode of the encoding of %s fails: %v", descString(g.Desc), err))
			}
			return b1
		}
		got := dump(reflect.ValueOf(ptr).Elem())
		if got != want && side == "in-tree" {
			c.rlpViolation("value-changed", r, g, fmt.Sprintf("RLP round trip of %s: %s -> %s", descString(g.Desc), clipStr(want), clipStr(got)))
			return b1
		}
		if side == "in-tree" {
			b3, e3 := irlp.EncodeToBytes(ptr)
			if e3 != nil || !bytes.Equal(b3, b1) {
				c.rlpViolation("reencoding-differs", r, g, fmt.Sprintf("encode(decode(encode(v))) != encode(v) for %s", descString(g.Desc)))
				return b1
			}
		}
	}
	switch m := v.(type) {
	case *txMirror:
		c.checkRealTx(r, g, m, b1)
	case *receiptMirror:
		c.checkRealReceipt(r, g, m, b1)
	}
	cls := "base"
	if g.Desc.Path != "" {
		cls = g.Kind[g.Desc.Path] + "/" + g.Shape[g.Desc.Path]
	}
	c.classes.Add("rlp-grid/" + r.spec.Name + "/ok/" + cls)
	return b1
}

func bigEq(a, b *big.Int) bool { return a != nil && b != nil && a.Cmp(b) == 0 }

// checkRealTx: the real eth Transaction decodes the mirror's bytes to the same
// field values and re-encodes to the same bytes; the real constructors encode
// like the mirror.
func (c *checker) checkRealTx(r *rlpRoot, g *gridValue, m *txMirror, enc []byte) {
	var tx etypes.Transaction
	var err error
	var re []byte
	var detail string
	if p, pv, st := core.Try(func() {
		err = irlp.DecodeBytes(enc, &tx)
		if err != nil {
			return
		}
		vv, rr, ss := tx.RawSignatureValues()
		switch {
		case tx.Nonce() != m.AccountNonce:
			detail = "nonce"
		case !bigEq(tx.GasPrice(), m.Price):
			detail = "gas price"
		case tx.Gas() != m.GasLimit:
			detail = "gas limit"
		case (tx.To() == nil) != (m.Recipient == nil) || (tx.To() != nil && *tx.To() != *m.Recipient):
			detail = "recipient"
		case !bigEq(tx.Value(), m.Amount):
			detail = "value"
		case !bytes.Equal(tx.Data(), m.Payload):
			detail = "payload"
		case !bigEq(vv, m.V) || !bigEq(rr, m.R) || !bigEq(ss, m.S):
			detail = "signature values"
		}
		re, err = irlp.EncodeToBytes(&tx)
	}); p {
		c.report(map[string]string{"phase": "rlp", "kind": "panic", "site": panicSite(st), "panic": panicClass(pv), "target": "Transaction"},
			kase{Phase: "rlp", RLP: &rlpCase{Kind: "grid", Target: r.spec.Name, Value: &g.Desc}}, fmt.Sprintf("Transaction decode/encode of %s panicked: %v", descString(g.Desc), core.FirstLine(pv)))
		return
	}
	if err != nil {
		c.rlpViolation("decode-error", r, g, fmt.Sprintf("types.Transaction cannot decode %s: %v", descString(g.Desc), err))
		return
	}
	if detail != "" {
		c.rlpViolation("value-changed", r, g, fmt.Sprintf("types.Transaction decoded from %s reports a different %s", descString(g.Desc), detail))
		return
	}
	if !bytes.Equal(re, enc) {
		c.rlpViolation("reencoding-differs", r, g, fmt.Sprintf("types.Transaction re-encodes %s differently: %x vs %x", descString(g.Desc), clip(re), clip(enc)))
		return
	}
	if m.V.Sign() == 0 && m.R.Sign() == 0 && m.S.Sign() == 0 {
		var ntx *etypes.Transaction
		if m.Recipient != nil {
			ntx = etypes.NewTransaction(m.AccountNonce, *m.Recipient, m.Amount, m.GasLimit, m.Price, m.Payload)
		} else {
			ntx = etypes.NewContractCreation(m.AccountNonce, m.Amount, m.GasLimit, m.Price, m.Payload)
		}
		b, e := irlp.EncodeToBytes(ntx)
		if e != nil || !bytes.Equal(b, enc) {
			c.rlpViolation("constructor-encoding-differs", r, g, fmt.Sprintf("NewTransaction(%s) encodes to %x, the field list to %x (%v)", descString(g.Desc), clip(b), clip(enc), e))
		}
	}
}

func (c *checker) checkRealReceipt(r *rlpRoot, g *gridValue, m *receiptMirror, enc []byte) {
	valid := len(m.PostStateOrStatus) == 32 || len(m.PostStateOrStatus) == 0 ||
		(len(m.PostStateOrStatus) == 1 && (m.PostStateOrStatus[0] == 1 || m.PostStateOrStatus[0] == 2))
	var rc etypes.Receipt
	var err error
	var re []byte
	if p, pv, st := core.Try(func() {
		err = irlp.DecodeBytes(enc, &rc)
		if err == nil {
			re, err = irlp.EncodeToBytes(&rc)
		}
	}); p {
		c.report(map[string]string{"phase": "rlp", "kind": "panic", "site": panicSite(st), "panic": panicClass(pv), "target": "Receipt"},
			kase{Phase: "rlp", RLP: &rlpCase{Kind: "grid", Target: r.spec.Name, Value: &g.Desc}}, fmt.Sprintf("Receipt decode/encode of %s panicked: %v", descString(g.Desc), core.FirstLine(pv)))
		return
	}
	if !valid {
		// a post-state that is neither a status code nor a 32-byte root is
		// documented as invalid ("invalid receipt status"); only no-panic applies
		return
	}
	if err != nil {
		c.rlpViolation("decode-error", r, g, fmt.Sprintf("types.Receipt cannot decode %s: %v", descString(g.Desc), err))
		return
	}
	bad := ""
	switch {
	case rc.CumulativeGasUsed != m.CumulativeGasUsed:
		bad = "cumulative gas"
	case rc.Bloom != m.Bloom:
		bad = "bloom"
	case len(rc.Logs) != len(m.Logs):
		bad = "log count"
	case len(m.PostStateOrStatus) == 32 && !bytes.Equal(rc.PostState, m.PostStateOrStatus):
		bad = "post state"
	case len(m.PostStateOrStatus) == 0 && (rc.Status != etypes.ReceiptStatusFailed || len(rc.PostState) != 0):
		bad = "status"
	case len(m.PostStateOrStatus) == 1 && (rc.Status != uint64(m.PostStateOrStatus[0]) || len(rc.PostState) != 0):
		bad = "status"
	}
	for i := 0; bad == "" && i < len(m.Logs); i++ {
		a, b := rc.Logs[i], m.Logs[i]
		if a == nil || a.Address != b.Address || !bytes.Equal(a.Data, b.Data) || len(a.Topics) != len(b.Topics) {
			bad = "log"
			break
		}
		for j := range a.Topics {
			if a.Topics[j] != b.Topics[j] {
				bad = "log topic"
			}
		}
	}
	if bad != "" {
		c.rlpViolation("value-changed", r, g, fmt.Sprintf("types.Receipt decoded from %s reports a different %s", descString(g.Desc), bad))
		return
	}
	if !bytes.Equal(re, enc) {
		c.rlpViolation("reencoding-differs", r, g, fmt.Sprintf("types.Receipt re-encodes %s differently: %x vs %x", descString(g.Desc), clip(re), clip(enc)))
	}
}

// rlpMutations: truncations and single-byte substitutions of one encoding,
// decoded by both implementations into the same type (and, for the mirrors,
// by the real eth type: no panic).
func (c *checker) rlpMutations(r *rlpRoot, g *gridValue, enc []byte, local map[string]int) {
	try := func(in []byte, mut string) {
		// first through the Stream API: an input on which the in-tree stream
		// already departs from upstream (reported there) is not handed to the
		// typed decoders, which allocate what the stream tells them
		if !c.streamDiff(in, mut, &g.Desc) {
			local[r.spec.Name+"/stream-mismatch"]++
			return
		}
		local[r.spec.Name+"/"+c.rlpDiff(r.tgt, in, mut, &g.Desc)]++
		switch r.spec.Name {
		case "rlp:txdata":
			c.rlpRealDecode("Transaction", in, mut)
		case "rlp:receiptRLP":
			c.rlpRealDecode("Receipt", in, mut)
		}
	}
	for k := 0; k < len(enc); k++ {
		try(enc[:k], fmt.Sprintf("truncate@%d", k))
	}
	if atomic.LoadInt64(&c.rlpUnsafe) != 0 {
		// a substituted header byte declares an arbitrary size; a decoder that
		// was seen not to check declared sizes (stream walk, length bombs) is not
		// given those: between a few GiB and 2^48 the Go runtime aborts the process
		c.notes.Add("rlp-header-substitutions-skipped:decoder-does-not-bound-declared-sizes")
		return
	}
	buf := make([]byte, len(enc))
	for _, pos := range rlpStructuralPositions(enc) {
		seen := map[byte]bool{enc[pos]: true}
		for _, s := range []byte{0x00, 0x01, 0x7f, 0x80, 0xff, enc[pos] + 1, enc[pos] - 1} {
			if seen[s] {
				continue
			}
			seen[s] = true
			copy(buf, enc)
			buf[pos] = s
			try(buf, fmt.Sprintf("subst@%d=%02x", pos, s))
		}
	}
}

// rlpRealDecode: the real eth type on arbitrary bytes: error or value, no panic.
func (c *checker) rlpRealDecode(name string, in []byte, mut string) {
	var real interface{} = new(etypes.Transaction)
	if name == "Receipt" {
		real = new(etypes.Receipt)
	}
	atomic.AddInt64(&c.evals, 1)
	if p, pv, st := core.Try(func() { irlp.DecodeBytes(in, real) }); p {
		c.report(map[string]string{"phase": "rlp", "kind": "panic", "site": panicSite(st), "panic": panicClass(pv), "target": name},
			kase{Phase: "rlp", RLP: &rlpCase{Kind: "bytes", Target: name, Hex: hex.EncodeToString(in), Mut: mut}},
			fmt.Sprintf("rlp.DecodeBytes(%x) into %T panicked: %v", clip(in), real, core.FirstLine(pv)))
	}
}

// rlpStructuralPositions: the offsets of all header bytes (prefix and
// length-of-length bytes) of all items of a well-formed encoding, plus the
// first and last payload byte of every string.  Substitutions elsewhere only
// change payload bytes, which both decoders copy verbatim.
func rlpStructuralPositions(enc []byte) []int {
	set := map[int]bool{}
	var walk func(b []byte, off int)
	walk = func(b []byte, off int) {
		for len(b) > 0 {
			k, content, rest, err := urlp.Split(b)
			if err != nil {
				return
			}
			hdr := len(b) - len(rest) - len(content)
			for i := 0; i < hdr; i++ {
				set[off+i] = true
			}
			if k == urlp.List {
				walk(content, off+hdr)
			} else if len(content) > 0 {
				set[off+hdr] = true
				set[off+hdr+len(content)-1] = true
			}
			off += len(b) - len(rest)
			b = rest
		}
	}
	walk(enc, 0)
	for i := 0; i < len(enc) && i < 4; i++ {
		set[i] = true
	}
	var out []int
	for i := 0; i < len(enc); i++ {
		if set[i] {
			out = append(out, i)
		}
	}
	return out
}
