package main

import (
	"encoding/json"
	"fmt"
	"io/ioutil"
	"os"
	"os/exec"
	"path/filepath"
	"runtime/debug"
	"strings"
	"sync/atomic"

	"verif/core"
	"verif/evmkit"
)

// Replica runs are executed in worker subprocesses (this binary re-executed as
// `<bin> worker <in.json> <out.json>`), one run at a time per process:
//   - validateRoutineCount is a package variable of chain/app/evm; inside a
//     worker it only changes between runs;
//   - what an Open of the application costs is page faults on ≈ 130 MB of
//     fresh buffers; threads of ONE process serialise on its address space,
//     separate processes do not;
//   - a panic on a goroutine the application spawns itself cannot be
//     recovered: it then kills one worker, not the check.

type wireRef struct {
	Tips     []evmkit.Tip `json:"tips"`
	Hashes   [][]byte     `json:"hashes"`
	ValidIdx [][]int      `json:"valid_idx"`
	Outcomes []string     `json:"outcomes"`
}

type wireJob struct {
	Chain string   `json:"chain"`
	Cfg   cfg      `json:"cfg"`
	Ref   *wireRef `json:"ref,omitempty"` // nil: this run is the reference, it builds the chain
}

type wireResult struct {
	Chain  string           `json:"chain"`
	Cfg    cfg              `json:"cfg"`
	Blocks []map[string]int `json:"blocks"` // component -> index into Strings
	After  map[string]int   `json:"after,omitempty"`
	Accept []string         `json:"accept"`
	Fail   *failure         `json:"fail,omitempty"`
	Opens  int              `json:"opens"`
	Ref    *wireRef         `json:"ref,omitempty"`
}

type wireOut struct {
	Strings []string     `json:"strings"`
	Results []wireResult `json:"results"`
	Opens   int64        `json:"opens"`
	Blocks  int64        `json:"blocks"`
	Queries int64        `json:"queries"`
}

func toWireRef(r *refChain) *wireRef {
	return &wireRef{Tips: r.tips, Hashes: r.hashes, ValidIdx: r.validIdx, Outcomes: r.outcomes}
}

func fromWireRef(cd *chainDef, w *wireRef) *refChain {
	return &refChain{def: cd, tips: w.Tips, hashes: w.Hashes, validIdx: w.ValidIdx, outcomes: w.Outcomes}
}

// workerMain is the body of a worker subprocess.
func workerMain(inPath, outPath string) {
	evmkit.Silence()
	debug.SetMemoryLimit(1 << 30)
	defaultW = setWorkersRaw(1)
	b, err := ioutil.ReadFile(inPath)
	if err != nil {
		core.Fatal("worker: %v", err)
	}
	var jobs []wireJob
	if err := json.Unmarshal(b, &jobs); err != nil {
		core.Fatal("worker: %v", err)
	}
	work := strings.TrimSuffix(outPath, ".json") + ".d"
	defs := map[string]*chainDef{}
	var out wireOut
	index := map[string]int{}
	ix := func(s string) int {
		if i, ok := index[s]; ok {
			return i
		}
		index[s] = len(out.Strings)
		out.Strings = append(out.Strings, s)
		return index[s]
	}
	for _, j := range jobs {
		cd := defs[j.Chain]
		if cd == nil {
			if cd, err = buildChain(j.Chain); err != nil {
				core.Fatal("worker: %v", err)
			}
			defs[j.Chain] = cd
		}
		var ref *refChain
		if j.Ref != nil {
			ref = fromWireRef(cd, j.Ref)
		}
		setWorkers(j.Cfg.W)
		rr, built := execRun(filepath.Join(work, fmt.Sprintf("%s-p%d-w%d-r%d", j.Chain, j.Cfg.P, j.Cfg.W, j.Cfg.Rep)), cd, ref, j.Cfg)
		wr := wireResult{Chain: rr.Chain, Cfg: rr.Cfg, Accept: rr.Accept, Fail: rr.Fail, Opens: rr.Opens}
		for _, m := range rr.Blocks {
			wm := map[string]int{}
			for k, v := range m {
				wm[k] = ix(v)
			}
			wr.Blocks = append(wr.Blocks, wm)
		}
		if rr.After != nil {
			wr.After = map[string]int{}
			for k, v := range rr.After {
				wr.After[k] = ix(v)
			}
		}
		if built != nil {
			wr.Ref = toWireRef(built)
		}
		out.Results = append(out.Results, wr)
	}
	os.RemoveAll(work)
	out.Opens, out.Blocks, out.Queries = openCount, blockExec, queryExec
	ob, err := json.Marshal(&out)
	if err != nil {
		core.Fatal("worker: %v", err)
	}
	if err := ioutil.WriteFile(outPath+".tmp", ob, 0644); err != nil {
		core.Fatal("worker: %v", err)
	}
	if err := os.Rename(outPath+".tmp", outPath); err != nil {
		core.Fatal("worker: %v", err)
	}
}

var batchSeq int64

// spawned is one run as returned by a worker subprocess.
type spawned struct {
	rr  *runResult
	ref *wireRef // set when the run built the chain
}

// spawn runs one batch of jobs in a worker subprocess.  If the subprocess dies
// the batch is re-run job by job; a job whose own subprocess dies is returned
// as a failed run (stage "process").
func (d *driver) spawn(jobs []wireJob) []spawned {
	id := atomic.AddInt64(&batchSeq, 1)
	in := filepath.Join(d.work, fmt.Sprintf("batch%05d.in.json", id))
	outp := filepath.Join(d.work, fmt.Sprintf("batch%05d.out.json", id))
	b, _ := json.Marshal(jobs)
	if err := ioutil.WriteFile(in, b, 0644); err != nil {
		core.Fatal("cannot write %s: %v", in, err)
	}
	cmd := exec.Command(os.Args[0], "worker", in, outp)
	cmd.Env = append(os.Environ(), "VERIF_ROOT="+core.Root)
	errOut, runErr := cmd.CombinedOutput()
	ob, rerr := ioutil.ReadFile(outp)
	os.Remove(in)
	os.Remove(outp)
	os.RemoveAll(strings.TrimSuffix(outp, ".json") + ".d")
	if runErr == nil && rerr == nil {
		var out wireOut
		if err := json.Unmarshal(ob, &out); err != nil {
			core.Fatal("worker output unreadable: %v", err)
		}
		atomic.AddInt64(&openCount, out.Opens)
		atomic.AddInt64(&blockExec, out.Blocks)
		atomic.AddInt64(&queryExec, out.Queries)
		for i := range out.Strings {
			out.Strings[i] = intern(out.Strings[i])
		}
		var res []spawned
		for _, w := range out.Results {
			rr := &runResult{Chain: w.Chain, Cfg: w.Cfg, Accept: w.Accept, Fail: w.Fail, Opens: w.Opens}
			for _, m := range w.Blocks {
				rm := map[string]string{}
				for k, i := range m {
					rm[k] = out.Strings[i]
				}
				rr.Blocks = append(rr.Blocks, rm)
			}
			if w.After != nil {
				rr.After = map[string]string{}
				for k, i := range w.After {
					rr.After[k] = out.Strings[i]
				}
			}
			res = append(res, spawned{rr, w.Ref})
		}
		return res
	}
	if ee, ok := runErr.(*exec.ExitError); ok && ee.ExitCode() == 2 && strings.Contains(string(errOut), "INTERNAL-ERROR") {
		core.Fatal("worker failed: %s", core.FirstLine(lastLines(string(errOut), 3)))
	}
	if len(jobs) > 1 {
		var all []spawned
		for _, j := range jobs {
			all = append(all, d.spawn([]wireJob{j})...)
		}
		return all
	}
	// a single run killed its process
	site := core.PanicSite(string(errOut))
	msg := fmt.Sprintf("the process executing this replica died (%v): %s", runErr, core.FirstLine(firstPanicLine(string(errOut))))
	return []spawned{{rr: &runResult{Chain: jobs[0].Chain, Cfg: jobs[0].Cfg, Fail: &failure{Block: 0, Stage: "process", Kind: "died", Site: site, Msg: msg}}}}
}

func lastLines(s string, n int) string {
	l := strings.Split(strings.TrimSpace(s), "\n")
	if len(l) > n {
		l = l[len(l)-n:]
	}
	return strings.Join(l, "\n")
}

func firstPanicLine(s string) string {
	for _, l := range strings.Split(s, "\n") {
		if strings.HasPrefix(l, "panic:") || strings.HasPrefix(l, "fatal error:") {
			return l
		}
	}
	return lastLines(s, 1)
}

