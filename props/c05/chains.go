package main

import (
	"encoding/binary"
	"fmt"
	"math/big"
	"strconv"
	"strings"

	"verif/evmkit"

	rtypes "github.com/dappledger/AnnChain/chain/types"
	"github.com/dappledger/AnnChain/eth/common"
	"github.com/dappledger/AnnChain/eth/crypto"
	"github.com/dappledger/AnnChain/eth/rlp"
)

// ---------------------------------------------------------------- chains
//
// A chain is a fixed list of blocks, each a fixed list of raw transactions
// (bytes).  Chains are identified by name; everything is derived from the name
// deterministically, so a replay artefact only has to carry the name.
//
// Accounts: a, b are funded by the harness genesis (DefaultGenesis + Alloc, see
// assumptions), c is never funded (gas price is 0, so c can still send
// zero-value transactions).  store is the Store fixture deployed by a's first
// transaction (nonce 0), store2 a second instance deployed by b.

var (
	accA = evmkit.Key(1)
	accB = evmkit.Key(2)
	accC = evmkit.Key(3)

	storeAddr = evmkit.CreatedAddress(accA.Addr, 0)

	fund = new(big.Int).Exp(big.NewInt(10), big.NewInt(18), nil)

	secp256N = crypto.S256().Params().N
)

type txDef struct {
	Kind string
	Raw  []byte
}

type namedQuery struct {
	Class string // component the result is compared under: nonce | contract-call | receipt | kv | kv-history | kv-prefix | info
	Name  string
	Query []byte // nil for class info
}

type chainDef struct {
	Name    string
	Blocks  [][]txDef
	Queries []namedQuery
	Store2  *common.Address
}

func (cd *chainDef) raw(h int) [][]byte {
	out := make([][]byte, len(cd.Blocks[h]))
	for i, t := range cd.Blocks[h] {
		out[i] = t.Raw
	}
	return out
}

func (cd *chainDef) alloc() map[common.Address]*big.Int {
	return map[common.Address]*big.Int{accA.Addr: fund, accB.Addr: fund}
}

// nonceBook hands out consecutive nonces per account.
type nonceBook map[common.Address]uint64

func (n nonceBook) next(a *evmkit.Account) uint64 {
	v := n[a.Addr]
	n[a.Addr] = v + 1
	return v
}

// builders of the transaction kinds -------------------------------------------------

func txCreate(n nonceBook, a *evmkit.Account) txDef {
	return txDef{"create", evmkit.Create(a, n.next(a), evmkit.StoreInit())}
}
func txTransfer(n nonceBook, a *evmkit.Account, to common.Address, v int64) txDef {
	return txDef{"transfer", evmkit.Transfer(a, n.next(a), to, big.NewInt(v))}
}
func txCallLog(n nonceBook, a *evmkit.Account, to common.Address, w uint64) txDef {
	return txDef{"call-log", evmkit.Call(a, n.next(a), to, evmkit.StoreSet(w))}
}
func txCallPut(n nonceBook, a *evmkit.Account, to common.Address, w uint64) txDef {
	return txDef{"call-nolog", evmkit.Call(a, n.next(a), to, evmkit.StorePut(w))}
}
func txCallRevert(n nonceBook, a *evmkit.Account, to common.Address) txDef {
	return txDef{"call-revert", evmkit.Call(a, n.next(a), to, evmkit.StoreFail())}
}
func txKV(n nonceBook, a *evmkit.Account, kind, key, val string) txDef {
	return txDef{kind, evmkit.KVPut(a, n.next(a), []byte(key), []byte(val))}
}

// txBadNonce: correctly signed, nonce 7 ahead of the sender's (passes the
// signature check, fails inside the state transition; consumes nothing).
func txBadNonce(n nonceBook, a *evmkit.Account, to common.Address) txDef {
	return txDef{"bad-nonce", evmkit.Call(a, n[a.Addr]+7, to, evmkit.StoreSet(99))}
}

// txBadSig: r = 0 (variant 0) or a high-s signature (variant 1): both are
// rejected by the HomesteadSigner, no sender can be recovered.
func txBadSig(n nonceBook, a *evmkit.Account, to common.Address, variant int) txDef {
	spec := evmkit.TxSpec{Nonce: n[a.Addr], To: &to, Gas: evmkit.DefaultGas, Data: evmkit.StoreSet(98)}
	v, r, s := evmkit.SigValues(a, spec)
	if variant == 0 {
		r = new(big.Int)
	} else {
		s = new(big.Int).Sub(secp256N, s)
		v = new(big.Int).SetUint64(27 + 28 - v.Uint64())
	}
	return txDef{"bad-sig", evmkit.EncodeTx(spec, v, r, s)}
}

// txKVBadSig: a key-value transaction whose signature cannot be recovered (r = 0): it must be
// invalid on every replica whatever the number of signature-checking workers.
func txKVBadSig(n nonceBook, a *evmkit.Account, key, val string) txDef {
	to := common.Address{}
	spec := evmkit.TxSpec{Nonce: n[a.Addr], To: &to, Gas: evmkit.DefaultGas, Data: evmkit.KVPayload([]byte(key), []byte(val))}
	v, _, sg := evmkit.SigValues(a, spec)
	return txDef{"kv-bad-sig", evmkit.EncodeTx(spec, v, new(big.Int), sg)}
}

// txHugeGas: a plain transfer whose gas limit is just below 2^64 (gas price is 0 on this chain, so
// it is affordable): whatever a replica executed earlier in its lifetime must not matter for it.
func txHugeGas(n nonceBook, a *evmkit.Account, to common.Address, below uint64) txDef {
	spec := evmkit.TxSpec{Nonce: n.next(a), To: &to, Value: big.NewInt(1), Gas: ^uint64(0) - below}
	return txDef{"huge-gas-transfer", evmkit.Sign(a, spec)}
}

// txHugeGasInvalid: the same with a value the sender cannot pay (invalid after the gas was bought).
func txHugeGasInvalid(n nonceBook, a *evmkit.Account, to common.Address, below uint64) txDef {
	spec := evmkit.TxSpec{Nonce: n[a.Addr], To: &to, Value: new(big.Int).Lsh(big.NewInt(1), 200), Gas: ^uint64(0) - below}
	return txDef{"huge-gas-unaffordable", evmkit.Sign(a, spec)}
}

// Clock fixture (hand-assembled runtime): any call stores the block context
// the EVM sees into storage, so that the state root depends on it:
//
//	42 6000 55            TIMESTAMP        -> slot 0
//	43 6001 55            NUMBER           -> slot 1
//	41 6002 55            COINBASE         -> slot 2
//	6001 43 03 40 6003 55 BLOCKHASH(NUMBER-1) -> slot 3
//	45 6004 55            GASLIMIT         -> slot 4
//	60kk 43 03 40 60ss 55 BLOCKHASH(NUMBER-k) -> slot 0x10+k   for k = 0, 2, 3, 4, 5, 6, 7
//	6001 43 01 40 6018 55 BLOCKHASH(NUMBER+1) -> slot 0x18
//	00                    STOP
//
// (every depth a chain of 6 blocks can reach, the block itself and the next one:
// whatever BLOCKHASH answers for an older block must not depend on which blocks
// the executing process lifetime has seen; k > NUMBER wraps around and reads 0)
var clockRuntimeHex = func() string {
	s := "42600055" + "43600155" + "41600255" + "6001430340600355" + "45600455"
	for _, k := range []int{0, 2, 3, 4, 5, 6, 7} {
		s += fmt.Sprintf("60%02x43034060%02x55", k, 0x10+k)
	}
	return s + "6001430140601855" + "00"
}()

func clockInit() []byte {
	rt := common.Hex2Bytes(clockRuntimeHex)
	return append([]byte{0x60, byte(len(rt)), 0x80, 0x60, 0x0b, 0x60, 0x00, 0x39, 0x60, 0x00, 0xf3}, rt...)
}

func txCreateClock(n nonceBook, a *evmkit.Account) (txDef, common.Address) {
	nonce := n.next(a)
	return txDef{"create", evmkit.Create(a, nonce, clockInit())}, evmkit.CreatedAddress(a.Addr, nonce)
}

func txCallClock(n nonceBook, a *evmkit.Account, clock common.Address) txDef {
	return txDef{"call-blockctx", evmkit.Call(a, n.next(a), clock, nil)}
}

func txGarbage() txDef { return txDef{"garbage", []byte{0xde, 0xad, 0xbe, 0xef}} }

// the chains ---------------------------------------------------------------------------

func buildChain(name string) (*chainDef, error) {
	n := nonceBook{}
	cd := &chainDef{Name: name}
	a, b, c := accA, accB, accC
	st := storeAddr
	switch {
	case name == "K2":
		// the smallest chain on which a lifetime can matter: one KV block, one empty block
		cd.Blocks = [][]txDef{
			{txKV(n, b, "kv-put", "k1", "v1")},
			{},
		}
	case name == "K24":
		// many key-value transactions on DISTINCT keys in one block (three senders, interleaved), then
		// overwrites of some of them in another order next to new keys, then an empty block: the
		// records of a block enter ReceiptsHash as a list, and every replica must build the same list
		var b1, b2 []txDef
		snd := []*evmkit.Account{a, b, c}
		for i := 0; i < 24; i++ {
			b1 = append(b1, txKV(n, snd[i%3], "kv-put", fmt.Sprintf("key-%02d", i), fmt.Sprintf("v%d", i)))
		}
		for i := 0; i < 9; i++ {
			b2 = append(b2, txKV(n, snd[(i+1)%3], "kv-overwrite", fmt.Sprintf("key-%02d", 23-2*i), fmt.Sprintf("w%d", i)))
			b2 = append(b2, txKV(n, snd[(i+2)%3], "kv-put", fmt.Sprintf("new-%02d", i), fmt.Sprintf("n%d", i)))
		}
		cd.Blocks = [][]txDef{b1, b2, {}}
	case name == "H":
		// the Clock fixture deployed in block 1 and called in blocks 3 and 4 (BLOCKHASH of every
		// depth the chain has): the smallest chain on which a restart can change what BLOCKHASH of
		// an older block answers
		mk, clock := txCreateClock(n, a)
		cd.Blocks = [][]txDef{
			{mk},
			{},
			{txCallClock(n, b, clock)},
			{txCallClock(n, a, clock), txCallClock(n, c, clock)},
		}
	case name == "S":
		// k = 1, 2, 3 transactions whose signature cannot be recovered (r = 0 / high-s, they decode
		// fine) FOLLOWED by a good transaction, and 3 of them at the very end of a block: every
		// replica must finish these blocks whatever its number of signature-checking goroutines
		cd.Blocks = [][]txDef{
			{txBadSig(n, b, st, 1), txTransfer(n, a, c.Addr, 1)},
			{txBadSig(n, b, st, 0), txBadSig(n, c, st, 1), txKV(n, b, "kv-put", "k1", "v1")},
			{txBadSig(n, a, st, 1), txBadSig(n, b, st, 1), txKVBadSig(n, c, "k9", "never"), txTransfer(n, a, b.Addr, 2), txKV(n, c, "kv-put", "k2", "v2")},
			{txTransfer(n, b, c.Addr, 1), txBadSig(n, a, st, 0), txBadSig(n, b, st, 1), txBadSig(n, c, st, 0)},
		}
	case name == "A":
		b1 := []txDef{txCreate(n, a), txTransfer(n, a, c.Addr, 5), txKV(n, b, "kv-put", "k1", "v1")}
		b2 := []txDef{txCallLog(n, a, st, 7), txCallRevert(n, a, st), txTransfer(n, b, a.Addr, 3)}
		mk, clock := txCreateClock(n, b)
		b2 = append(b2, mk)
		cd.Blocks = [][]txDef{
			b1,
			b2,
			{},
			{txKV(n, b, "kv-overwrite", "k1", "v2"), txBadNonce(n, a, st), txCallLog(n, a, st, 8), txCallClock(n, c, clock)},
			{txBadSig(n, b, st, 0), txGarbage(), txKVBadSig(n, c, "k9", "never"), txKV(n, a, "kv-put", "k2", "w1"), txCallPut(n, b, st, 5), txHugeGasInvalid(n, c, a.Addr, 50000)},
			{txCallLog(n, a, st, 9), txTransfer(n, a, b.Addr, 1), txCallRevert(n, c, st), txCallLog(n, a, st, 10), txCallClock(n, b, clock), txHugeGas(n, a, b.Addr, 1000)},
		}
	case name == "B":
		cd.Blocks = [][]txDef{
			{},
			{txBadSig(n, a, st, 1), txCreate(n, a), txKV(n, a, "kv-put", "k2", "x")},
			{txCallLog(n, b, st, 1), txCallLog(n, b, st, 2), txBadNonce(n, b, st)},
			{txKV(n, b, "kv-put", "k1", "v1"), txKV(n, b, "kv-overwrite", "k1", "v2"), txTransfer(n, a, c.Addr, 5)},
			{txCallRevert(n, a, st), txGarbage()},
			{txKV(n, a, "kv-overwrite", "k2", "y"), txCallLog(n, c, st, 3), txTransfer(n, b, c.Addr, 1)},
		}
	case name == "C":
		// no KV transaction at all: here ReceiptsHash has no excuse
		s2 := evmkit.CreatedAddress(b.Addr, 1)
		cd.Store2 = &s2
		mk, clock := txCreateClock(n, c)
		cd.Blocks = [][]txDef{
			{txCreate(n, a), txCallLog(n, a, st, 1), mk},
			{txTransfer(n, a, c.Addr, 5), txBadNonce(n, a, st), txCallRevert(n, b, st), txHugeGasInvalid(n, c, a.Addr, 50000)},
			{txCreate(n, b), txCallLog(n, a, s2, 4), txCallClock(n, b, clock), txHugeGas(n, a, c.Addr, 1000)},
			{},
			{txBadSig(n, a, st, 0), txGarbage(), txCallLog(n, a, st, 2), txCallLog(n, a, st, 3), txCallLog(n, a, st, 4), txCallPut(n, a, st, 9), txBadSig(n, b, st, 1)},
			{txTransfer(n, c, a.Addr, 2), txCallLog(n, b, s2, 5), txCallRevert(n, c, st), txCallClock(n, a, clock)},
		}
	case name == "D":
		// KV transactions only in the last block (control: nothing earlier in any lifetime)
		cd.Blocks = [][]txDef{
			{txCreate(n, a), txTransfer(n, a, b.Addr, 2)},
			{txCallLog(n, b, st, 6), txBadNonce(n, b, st)},
			{},
			{txCallRevert(n, a, st), txCallLog(n, a, st, 7), txBadSig(n, a, st, 1)},
			{txTransfer(n, b, c.Addr, 9), txGarbage(), txCallPut(n, c, st, 3)},
			{txKV(n, a, "kv-put", "k1", "v1"), txCallLog(n, a, st, 8), txKV(n, b, "kv-overwrite", "k1", "v2"), txKV(n, a, "kv-put", "k2", "z")},
		}
	case name == "E":
		// KV transactions in every non-empty block, overwrites across and within blocks
		cd.Blocks = [][]txDef{
			{txCreate(n, a), txKV(n, a, "kv-put", "k1", "1")},
			{txKV(n, b, "kv-overwrite", "k1", "2"), txCallLog(n, a, st, 1), txKV(n, a, "kv-put", "k2", "1")},
			{txBadSig(n, b, st, 0), txKV(n, b, "kv-overwrite", "k2", "2"), txKV(n, b, "kv-overwrite", "k2", "3")},
			{},
			{txCallRevert(n, b, st), txKV(n, a, "kv-overwrite", "k1", "3"), txBadNonce(n, a, st), txGarbage()},
			{txTransfer(n, a, c.Addr, 4), txKV(n, c, "kv-put", "k3", "1"), txCallLog(n, c, st, 2)},
		}
	case strings.HasPrefix(name, "ord-"):
		// ord-<perm>-<split>: setup block, then the four kinds L K X R in the
		// order <perm>, the first <split> of them in block 2 and the rest in block 3;
		// every valid one is sent by a with consecutive nonces.
		parts := strings.Split(name, "-")
		if len(parts) != 3 || len(parts[1]) != 4 {
			return nil, fmt.Errorf("bad chain name %q", name)
		}
		split, err := strconv.Atoi(parts[2])
		if err != nil || split < 0 || split > 4 {
			return nil, fmt.Errorf("bad chain name %q", name)
		}
		cd.Blocks = [][]txDef{{txCreate(n, a), txKV(n, b, "kv-put", "k1", "v0"), txBadSig(n, b, st, 0)}, {}, {}}
		seen := map[rune]bool{}
		for i, k := range parts[1] {
			if seen[k] {
				return nil, fmt.Errorf("bad chain name %q", name)
			}
			seen[k] = true
			var t txDef
			switch k {
			case 'L':
				t = txCallLog(n, a, st, uint64(20+i))
			case 'K':
				t = txKV(n, a, "kv-overwrite", "k1", "v"+strconv.Itoa(i+1))
			case 'X':
				t = txBadNonce(n, a, st)
			case 'R':
				t = txCallRevert(n, a, st)
			default:
				return nil, fmt.Errorf("bad chain name %q", name)
			}
			bi := 1
			if i >= split {
				bi = 2
			}
			cd.Blocks[bi] = append(cd.Blocks[bi], t)
		}
	default:
		return nil, fmt.Errorf("unknown chain %q", name)
	}
	cd.Queries = buildQueries(cd)
	return cd, nil
}

func permsOf(s string) []string {
	if len(s) <= 1 {
		return []string{s}
	}
	var out []string
	for i := range s {
		rest := s[:i] + s[i+1:]
		for _, p := range permsOf(rest) {
			out = append(out, string(s[i])+p)
		}
	}
	return out
}

func orderingChains() []string {
	var out []string
	for _, p := range permsOf("LKXR") {
		for split := 0; split <= 4; split++ {
			out = append(out, fmt.Sprintf("ord-%s-%d", p, split))
		}
	}
	return out
}

// ---------------------------------------------------------------- the fixed query list

func buildQueries(cd *chainDef) []namedQuery {
	var qs []namedQuery
	accounts := []struct {
		n string
		a common.Address
	}{{"a", accA.Addr}, {"b", accB.Addr}, {"c", accC.Addr}, {"store", storeAddr}, {"zero", common.Address{}}}
	if cd.Store2 != nil {
		accounts = append(accounts, struct {
			n string
			a common.Address
		}{"store2", *cd.Store2})
	}
	for _, ac := range accounts {
		qs = append(qs, namedQuery{"nonce", "nonce(" + ac.n + ")", append([]byte{rtypes.QueryType_Nonce}, ac.a.Bytes()...)})
	}
	call := func(name string, to common.Address, data []byte) {
		q := evmkit.Sign(accA, evmkit.TxSpec{Nonce: 0, To: &to, Gas: evmkit.DefaultGas, Data: data})
		qs = append(qs, namedQuery{"contract-call", name, append([]byte{rtypes.QueryType_Contract}, q...)})
	}
	// balances: the application has no balance query; read them through the Store fixture
	for _, ac := range accounts {
		call("balance-via-store("+ac.n+")", storeAddr, evmkit.StoreBal(ac.a))
	}
	for slot := uint64(0); slot < 3; slot++ {
		call(fmt.Sprintf("store.slot(%d)", slot), storeAddr, evmkit.StoreGetSlot(slot))
	}
	if cd.Store2 != nil {
		call("store2.slot(0)", *cd.Store2, evmkit.StoreGetSlot(0))
	}
	keys := map[string]bool{"k1": true, "k2": true, "absent": true}
	for bi, blk := range cd.Blocks {
		for ti, t := range blk {
			qs = append(qs, namedQuery{"receipt", fmt.Sprintf("receipt(b%d.t%d %s)", bi+1, ti, t.Kind), append([]byte{rtypes.QueryType_Receipt}, evmkit.TxHash(t.Raw)...)})
			if strings.HasPrefix(t.Kind, "kv-") {
				if k := kvKeyOf(t.Raw); k != "" {
					keys[k] = true
				}
			}
		}
	}
	var ks []string
	for k := range keys {
		ks = append(ks, k)
	}
	sortStrings(ks)
	for _, k := range ks {
		qs = append(qs, namedQuery{"kv", "key(" + k + ")", append([]byte{rtypes.QueryType_Key}, []byte(k)...)})
		h := make([]byte, 8)
		binary.BigEndian.PutUint32(h[0:4], 1)  // page 1
		binary.BigEndian.PutUint32(h[4:8], 20) // page size
		qs = append(qs, namedQuery{"kv-history", "history(" + k + ")", append(append([]byte{rtypes.QueryType_Key_Update_History}, h...), []byte(k)...)})
	}
	pq, err := rlp.EncodeToBytes(&struct {
		Prefix  []byte
		LastKey []byte
		Limit   uint32
	}{[]byte("k"), nil, 50})
	if err != nil {
		panic(err)
	}
	qs = append(qs, namedQuery{"kv-prefix", "prefix(k)", append([]byte{rtypes.QueryType_Key_Prefix}, pq...)})
	qs = append(qs, namedQuery{"info", "Info()", nil})
	return qs
}

func kvKeyOf(raw []byte) string {
	tx, _, err := evmkit.Decode(raw)
	if err != nil || tx == nil {
		return ""
	}
	d := tx.Data()
	if len(d) < len(rtypes.KVTxType) {
		return ""
	}
	kv := &rtypes.KV{}
	if rlp.DecodeBytes(d[len(rtypes.KVTxType):], kv) != nil {
		return ""
	}
	return string(kv.Key)
}

func sortStrings(a []string) {
	for i := 1; i < len(a); i++ {
		for j := i; j > 0 && a[j] < a[j-1]; j-- {
			a[j], a[j-1] = a[j-1], a[j]
		}
	}
}
