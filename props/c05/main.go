// C05 — replicated execution is deterministic: the application hash, the
// receipts hash, the receipts and every query result after block h are a
// function of the genesis and of blocks 1..h alone.
//
// Part (a) of DESIGN §5 C05: explicit enumeration on the REAL chain/app/evm.EVMApp
// (driven stand-alone through verif/evmkit).  For each fixed chain the
// reference replica builds the blocks once; every other replica is fed exactly
// those blocks under one configuration out of
//
//	every partition of the chain into process lifetimes (2^(n-1))  ×  validateRoutineCount ∈ W
//
// plus default-worker-count "catch-up" replicas and repeated runs.  All records
// (per block: AppHash, ReceiptsHash, ExecuteResult, a fixed list of queries;
// after the last block: the same queries answered by a fresh lifetime) must be
// identical, and every replica must accept (Block.ValidateBasic) the next block
// the reference proposes.
//
// Part (b) (controlled-scheduler exploration of verifycpuparallel.go) is not
// in this file; see the SCHED placeholder in the evidence notes.
package main

import (
	"encoding/json"
	"fmt"
	"io/ioutil"
	"os"
	"os/exec"
	"path/filepath"
	"runtime"
	"runtime/debug"
	"sort"
	"strings"
	"sync"
	"sync/atomic"
	"time"

	"verif/core"
	"verif/evmkit"

	"github.com/dappledger/AnnChain/chain/app/evm"
)

var defaultW int // the package's own initial validateRoutineCount (runtime.NumCPU())

var watchdogExpiries, watchdogNotReproduced int64 // runs whose per-block watchdog expired / of those: got through when repeated

func setWorkersRaw(n int) int { return evm.SetVerifValidateRoutineCount(n) }

func setWorkers(w int) {
	if w == 0 {
		w = defaultW
	}
	evm.SetVerifValidateRoutineCount(w)
}

// caseT identifies one comparison; it is what a replay artefact carries.
type caseT struct {
	Chain     string `json:"chain"`
	Run       cfg    `json:"run"`
	Against   cfg    `json:"compared_with"`
	Effect    string `json:"effect"` // lifetime | workers | repeat | restart-after-last-block | failure
	Block     int    `json:"block"`
	Component string `json:"component"`
	Partition string `json:"partition_readable,omitempty"`
}

type driver struct {
	run     *core.Run
	work    string
	mu      sync.Mutex
	refs    map[string]*refChain
	results map[string]map[cfg]*runResult

	evals    int64
	classes  *core.Counter // comparison outcome classes
	records  *core.Counter // distinct per-block records
	states   *core.Counter // distinct (chain, height, lifetime position, workers) application states driven
	restarts int64
	samples  *core.Sampler
}

// parN runs f(i) for i in [0,n) on at most width goroutines.
func parN(n, width int, f func(i int)) {
	if width < 1 {
		width = 1
	}
	var wg sync.WaitGroup
	var next int64 = -1
	for k := 0; k < width && k < n; k++ {
		wg.Add(1)
		go func() {
			defer wg.Done()
			for {
				i := int(atomic.AddInt64(&next, 1))
				if i >= n {
					return
				}
				f(i)
			}
		}()
	}
	wg.Wait()
}

func popcount(x int) int {
	n := 0
	for ; x != 0; x &= x - 1 {
		n++
	}
	return n
}

// lifetimeStart returns the first block (1-based) of the process lifetime that executes block h under partition P.
func lifetimeStart(P, h int) int {
	s := 1
	for j := 1; j < h; j++ {
		if P&(1<<uint(j-1)) != 0 {
			s = j + 1
		}
	}
	return s
}

// kvHistory names the KV transactions that the process lifetime executing
// block h under partition P has already applied in EARLIER blocks.
func kvHistory(ref *refChain, P, h int) string {
	var out []string
	for b := lifetimeStart(P, h); b < h; b++ {
		for _, i := range ref.validIdx[b-1] {
			if strings.HasPrefix(ref.def.Blocks[b-1][i].Kind, "kv-") {
				out = append(out, fmt.Sprintf("b%d.t%d", b, i))
			}
		}
	}
	return "[" + strings.Join(out, " ") + "]"
}

// ---------------------------------------------------------------- running

func (d *driver) dirFor(chain string, c cfg) string {
	return filepath.Join(d.work, chain, fmt.Sprintf("p%d-w%d-r%d", c.P, c.W, c.Rep))
}

func (d *driver) buildReference(name string) *refChain {
	cd, err := buildChain(name)
	if err != nil {
		core.Fatal("%v", err)
	}
	c := cfg{P: 0, W: 1}
	rr, ref := execRun(d.dirFor(name, c), cd, nil, c)
	for i := 0; i < 2 && rr.Fail != nil && rr.Fail.Kind == kindNeverFinishes; i++ {
		rr, ref = execRun(d.dirFor(name, c), cd, nil, c)
	}
	d.mu.Lock()
	d.refs[name] = ref
	d.results[name] = map[cfg]*runResult{c: rr}
	d.mu.Unlock()
	return ref
}

func (d *driver) runOne(name string, c cfg) *runResult {
	d.mu.Lock()
	ref := d.refs[name]
	d.mu.Unlock()
	rr, _ := execRun(d.dirFor(name, c), ref.def, ref, c)
	for i := 0; i < 2 && rr.Fail != nil && rr.Fail.Kind == kindNeverFinishes; i++ {
		rr, _ = execRun(d.dirFor(name, c), ref.def, ref, c)
	}
	d.mu.Lock()
	d.results[name][c] = rr
	d.mu.Unlock()
	return rr
}

// configs enumerates the replica configurations of a chain of n blocks.
func configs(n int, ws []int) []cfg {
	nP := 1 << uint(n-1)
	var out []cfg
	for P := 0; P < nP; P++ {
		for _, w := range ws {
			if P == 0 && w == 1 {
				continue // the reference itself
			}
			out = append(out, cfg{P: P, W: w})
		}
	}
	wmax := ws[len(ws)-1]
	ends := []int{0}
	if nP > 1 {
		ends = append(ends, nP-1)
	}
	for _, P := range ends {
		out = append(out, cfg{P: P, W: 0})         // "catch-up" replicas running with the package default worker count
		out = append(out, cfg{P: P, W: 1, Rep: 1}) // identical configuration once more
		out = append(out, cfg{P: P, W: wmax, Rep: 1})
	}
	return out
}

// ---------------------------------------------------------------- judging

func firstDiff(a, b string) string {
	la, lb := strings.Split(a, "\n"), strings.Split(b, "\n")
	for i := 0; i < len(la) || i < len(lb); i++ {
		var x, y string
		if i < len(la) {
			x = la[i]
		}
		if i < len(lb) {
			y = lb[i]
		}
		if x != y {
			if len(x) > 260 {
				x = x[:260] + "…"
			}
			if len(y) > 260 {
				y = y[:260] + "…"
			}
			return fmt.Sprintf("{%s} vs {%s}", x, y)
		}
	}
	return "(equal)"
}

func siteOf(comp string) string {
	switch {
	case comp == "app-hash" || comp == "receipts-hash":
		return "EVMApp.OnCommit"
	case comp == "execute-result":
		return "EVMApp.OnExecute"
	}
	return "EVMApp.Query"
}

func (d *driver) val(r *runResult, h int, comp string) (string, bool) {
	if r == nil || h > len(r.Blocks) {
		return "", false
	}
	v, ok := r.Blocks[h-1][comp]
	return v, ok
}

// judge evaluates every comparison in which run x is the left-hand side.
// Missing comparators are an internal error in a full run and skipped in replay.
func (d *driver) judge(ref *refChain, res map[cfg]*runResult, x *runResult, only *caseT) {
	n := len(ref.def.Blocks)
	name := ref.def.Name
	get := func(c cfg) *runResult {
		r := res[c]
		if r == nil && only == nil {
			core.Fatal("chain %s: run %v missing", name, c)
		}
		return r
	}
	want := func(effect string) bool { return only == nil || only.Effect == effect }
	report := func(y *runResult, effect, kind string, h int, comp string, sig map[string]string, detail string) {
		k := caseT{Chain: name, Run: x.Cfg, Against: cfg{}, Effect: effect, Block: h, Component: comp, Partition: x.Cfg.partition(n)}
		if y != nil {
			k.Against = y.Cfg
		}
		sig["kind"] = kind
		if comp == "execute-result" && strings.Contains(detail, "?") {
			// ExecuteResult lists bytes that are not a transaction of the block
			sig["shape"] = "result-lists-bytes-not-in-block"
		}
		if _, ok := sig["site"]; !ok {
			sig["site"] = siteOf(comp)
		}
		if _, ok := sig["tx"]; !ok {
			sig["tx"] = "-"
		}
		d.run.Report(sig, k, detail)
	}
	describe := func(y *runResult, h int, comp string, xv, yv string) string {
		s := fmt.Sprintf("chain %s (%d blocks), %s after block %d: replica [lifetimes %s, %s sig-check workers] has %s, replica [lifetimes %s, %s workers] has %s.",
			name, n, comp, h, x.Cfg.partition(n), x.Cfg.workers(), firstDiffShort(xv, yv, true), y.Cfg.partition(n), y.Cfg.workers(), firstDiffShort(xv, yv, false))
		if h <= len(x.Accept) && x.Accept[h-1] != "" {
			s += " A node in the first replica's state rejects the next block proposed by the reference (" + x.Accept[h-1] + ")"
			if h < len(x.Blocks) {
				s += "; the application itself executed that block without complaint (it never looks at the header hashes)"
			}
			s += "."
		}
		return s
	}

	if x.Fail != nil && want("failure") {
		f := x.Fail
		kind, more := f.Stage+"-"+f.Kind, ""
		if f.Kind == kindNeverFinishes {
			kind = kindNeverFinishes
			more = fmt.Sprintf(" (the same in 3 runs out of 3, each in a process of its own); block %d is %s", f.Block, blockKinds(ref.def, f.Block))
			if r0 := res[cfg{P: 0, W: 1}]; r0 != nil && r0 != x && f.Block <= len(r0.Blocks) {
				more += fmt.Sprintf("; the replica [one lifetime, 1 worker] executed it: %s", r0.Blocks[f.Block-1]["execute-result"])
			}
		}
		report(nil, "failure", kind, f.Block, f.Stage, map[string]string{"site": f.Site},
			fmt.Sprintf("chain %s: replica [lifetimes %s, %s workers] %s at block %d during %s: %s%s", name, x.Cfg.partition(n), x.Cfg.workers(), f.Kind, f.Block, f.Stage, f.Msg, more))
	}

	// acceptance must agree with the hashes (sanity of the harness itself)
	r0 := res[cfg{P: 0, W: 1}]
	for h := 1; h <= len(x.Blocks) && r0 != nil && h <= len(r0.Blocks); h++ {
		same := x.Blocks[h-1]["app-hash"] == r0.Blocks[h-1]["app-hash"] && x.Blocks[h-1]["receipts-hash"] == r0.Blocks[h-1]["receipts-hash"]
		if same != (x.Accept[h-1] == "") {
			core.Fatal("chain %s run %v block %d: ValidateBasic verdict %q inconsistent with hash comparison %v", name, x.Cfg, h, x.Accept[h-1], same)
		}
	}

	cmpAll := func(y *runResult, effect, suffix string) {
		if y == nil {
			return
		}
		for h := 1; h <= len(x.Blocks); h++ {
			for _, comp := range components {
				xv, ok1 := d.val(x, h, comp)
				yv, ok2 := d.val(y, h, comp)
				if !ok1 || !ok2 {
					continue
				}
				atomic.AddInt64(&d.evals, 1)
				if xv == yv {
					d.classes.Add(effect + "/" + comp + "/equal")
					continue
				}
				d.classes.Add(effect + "/" + comp + "/differs")
				report(y, effect, comp+suffix, h, comp, map[string]string{}, describe(y, h, comp, xv, yv))
			}
		}
		if x.After != nil && y.After != nil {
			for _, comp := range components {
				xv, ok1 := x.After[comp]
				yv, ok2 := y.After[comp]
				if !ok1 || !ok2 {
					continue
				}
				atomic.AddInt64(&d.evals, 1)
				if xv == yv {
					d.classes.Add(effect + "/after-restart/" + comp + "/equal")
					continue
				}
				d.classes.Add(effect + "/after-restart/" + comp + "/differs")
				report(y, effect, comp+suffix, n, comp, map[string]string{"when": "read-by-a-fresh-lifetime"}, describe(y, n, comp+" (read by a fresh lifetime)", xv, yv))
			}
		}
	}

	// 1. worker-count effect: same partition, one signature-checking goroutine
	if x.Cfg.W != 1 && x.Cfg.Rep == 0 && want("workers") {
		cmpAll(get(cfg{P: x.Cfg.P, W: 1}), "workers", "-depends-on-worker-count")
	}
	// 2. repetition: identical configuration
	if x.Cfg.Rep > 0 && want("repeat") {
		cmpAll(get(cfg{P: x.Cfg.P, W: x.Cfg.W}), "repeat", "-not-reproducible")
	}
	// 3. lifetime effect: same worker count, other partition
	if x.Cfg.P != 0 && x.Cfg.Rep == 0 && x.Cfg.W != 0 && want("lifetime") {
		y0 := get(cfg{P: 0, W: x.Cfg.W})
		for h := 1; h <= len(x.Blocks); h++ {
			for _, comp := range components {
				y := y0
				sig := map[string]string{}
				kvNote := ""
				if comp == "receipts-hash" {
					// Input-shape refinement: two lifetimes that have applied different
					// sets of KV transactions before block h are one class of input;
					// replicas inside one class are compared with the class representative
					// (smallest partition), the representative with the unpartitioned run.
					mine := kvHistory(ref, x.Cfg.P, h)
					rep := x.Cfg.P
					for P := 0; P < x.Cfg.P; P++ {
						if kvHistory(ref, P, h) == mine {
							rep = P
							break
						}
					}
					if rep != x.Cfg.P {
						y = get(cfg{P: rep, W: x.Cfg.W})
						kvNote = fmt.Sprintf(" Both lifetimes had applied the same KV transactions %s before this block.", mine)
					} else if other := kvHistory(ref, 0, h); other != mine {
						sig["tx"] = "kv"
						kvNote = fmt.Sprintf(" KV transactions applied earlier in the executing process lifetime: %s in the first replica, %s in the second.", mine, other)
					}
				}
				if y == nil {
					continue
				}
				xv, ok1 := d.val(x, h, comp)
				yv, ok2 := d.val(y, h, comp)
				if !ok1 || !ok2 {
					continue
				}
				atomic.AddInt64(&d.evals, 1)
				if xv == yv {
					d.classes.Add("lifetime/" + comp + "/equal")
					continue
				}
				kind := comp + "-depends-on-process-lifetime"
				if x.Cfg.W != 1 {
					x1, y1 := res[cfg{P: x.Cfg.P, W: 1}], res[cfg{P: y.Cfg.P, W: 1}]
					a, ok1 := d.val(x1, h, comp)
					b, ok2 := d.val(y1, h, comp)
					if ok1 && ok2 && a == b {
						kind += "-under-parallel-verification-only"
					}
				}
				d.classes.Add("lifetime/" + comp + "/differs" + map[bool]string{true: "(kv-history-differs)", false: ""}[sig["tx"] == "kv"])
				report(y, "lifetime", kind, h, comp, sig, describe(y, h, comp, xv, yv)+kvNote)
			}
		}
		if x.After != nil && y0 != nil && y0.After != nil {
			for _, comp := range components {
				if _, ok := x.After[comp]; !ok {
					continue
				}
				atomic.AddInt64(&d.evals, 1)
				if x.After[comp] == y0.After[comp] {
					d.classes.Add("lifetime/after-restart/" + comp + "/equal")
					continue
				}
				d.classes.Add("lifetime/after-restart/" + comp + "/differs")
				report(y0, "lifetime", comp+"-depends-on-process-lifetime", n, comp, map[string]string{"when": "read-by-a-fresh-lifetime"}, describe(y0, n, comp+" (read by a fresh lifetime)", x.After[comp], y0.After[comp]))
			}
		}
	}
	// 4. restart after the last block: a fresh lifetime must answer every query
	// exactly as the lifetime that executed the last block did
	if x.After != nil && len(x.Blocks) == n && x.Cfg.Rep == 0 && want("restart-after-last-block") {
		for _, comp := range components {
			if !strings.HasPrefix(comp, "query-") {
				continue
			}
			atomic.AddInt64(&d.evals, 1)
			xv, yv := x.After[comp], x.Blocks[n-1][comp]
			if xv == yv {
				d.classes.Add("restart-after-last-block/" + comp + "/equal")
				continue
			}
			d.classes.Add("restart-after-last-block/" + comp + "/differs")
			sig := map[string]string{"when": "restart-after-last-block"}
			fd := firstDiff(xv, yv)
			if i := strings.Index(fd, "PANIC@"); i >= 0 {
				site := fd[i+6:]
				if j := strings.IndexAny(site, " }"); j >= 0 {
					site = site[:j]
				}
				sig["site"] = site
				sig["outcome"] = "panic"
			}
			report(x, "restart-after-last-block", comp+"-changes-across-restart", n, comp, sig,
				fmt.Sprintf("chain %s: replica [lifetimes %s, %s workers] answers %s differently after Stop()+reopen with no block in between: after restart vs before: %s", name, x.Cfg.partition(n), x.Cfg.workers(), comp, fd))
		}
	}
}

func blockKinds(cd *chainDef, h int) string {
	if h < 1 || h > len(cd.Blocks) {
		return "?"
	}
	var ks []string
	for _, t := range cd.Blocks[h-1] {
		ks = append(ks, t.Kind)
	}
	return "[" + strings.Join(ks, " ") + "]"
}

func shortList(a []string, n int) string {
	if len(a) <= n {
		return strings.Join(a, " ")
	}
	return strings.Join(a[:n], " ") + fmt.Sprintf(" (+%d more, see chains_skipped_by_time_cap)", len(a)-n)
}

func firstDiffShort(xv, yv string, left bool) string {
	if !strings.Contains(xv, "\n") && !strings.Contains(yv, "\n") && len(xv) < 200 && len(yv) < 200 {
		if left {
			return xv
		}
		return yv
	}
	fd := firstDiff(xv, yv)
	parts := strings.SplitN(fd, "} vs {", 2)
	if len(parts) != 2 {
		return fd
	}
	if left {
		return parts[0] + "}"
	}
	return "{" + parts[1]
}

func wRank(w int, ws []int) int {
	for i, v := range ws {
		if v == w {
			return i
		}
	}
	return len(ws)
}

func sortedRuns(res map[cfg]*runResult, ws []int) []*runResult {
	var out []*runResult
	for _, r := range res {
		out = append(out, r)
	}
	sort.Slice(out, func(i, j int) bool {
		a, b := out[i].Cfg, out[j].Cfg
		if popcount(a.P) != popcount(b.P) {
			return popcount(a.P) < popcount(b.P)
		}
		if a.P != b.P {
			return a.P < b.P
		}
		if wRank(a.W, ws) != wRank(b.W, ws) {
			return wRank(a.W, ws) < wRank(b.W, ws)
		}
		return a.Rep < b.Rep
	})
	return out
}

// ---------------------------------------------------------------- replay

func (d *driver) replay(k caseT) {
	ref := d.buildReference(k.Chain)
	if ref.res.Fail != nil {
		d.judge(ref, d.results[k.Chain], ref.res, &caseT{Effect: "failure"})
		return
	}
	need := []cfg{k.Run, k.Against, {P: k.Run.P, W: 1}, {P: k.Against.P, W: 1}, {P: 0, W: k.Run.W}, {P: k.Run.P, W: k.Run.W}}
	n := len(ref.def.Blocks)
	if k.Effect == "lifetime" {
		for h := 1; h <= n; h++ {
			mine := kvHistory(ref, k.Run.P, h)
			for P := 0; P < k.Run.P; P++ {
				if kvHistory(ref, P, h) == mine {
					need = append(need, cfg{P: P, W: k.Run.W}, cfg{P: P, W: 1})
					break
				}
			}
		}
	}
	done := map[cfg]bool{{P: 0, W: 1}: true}
	for _, c := range need {
		if done[c] {
			continue
		}
		done[c] = true
		setWorkers(c.W)
		d.runOne(k.Chain, c)
	}
	setWorkers(1)
	d.judge(ref, d.results[k.Chain], d.results[k.Chain][k.Run], &k)
}

// ---------------------------------------------------------------- main

func main() {
	if len(os.Args) >= 3 && os.Args[1] == "raceworker" {
		raceWorker(os.Args[2])
		return
	}
	if len(os.Args) >= 4 && os.Args[1] == "worker" {
		workerMain(os.Args[2], os.Args[3])
		return
	}
	run := core.Start("C05", "model_checking", "XSTATE")
	evmkit.Silence()
	// every open application holds ≈ 100 MB (two 32 MB LevelDB write buffers and
	// what the journal replay allocates); the width of the worker pool bounds the
	// resident set (page faults on fresh memory are what an Open costs)
	debug.SetMemoryLimit(3 << 30)
	defaultW = evm.SetVerifValidateRoutineCount(1)
	d := &driver{run: run, work: run.WorkDir(), refs: map[string]*refChain{}, results: map[string]map[cfg]*runResult{},
		classes: core.NewCounter(), records: core.NewCounter(), states: core.NewCounter(), samples: core.NewSampler(6, run.Seed)}
	os.RemoveAll(d.work)
	os.MkdirAll(d.work, 0755)

	if run.ReplayPath != "" {
		if replaySched(run) {
			return
		}
		var k caseT
		if err := run.ReplayCase(&k); err != nil {
			core.Fatal("cannot load replay: %v", err)
		}
		if k.Chain == "race-pass" {
			notes, wrong := racePass(d.work, 200)
			for _, nline := range notes {
				fmt.Println(nline)
			}
			for _, w := range wrong {
				run.Report(map[string]string{"site": "exeWithCPUParallelVeirfy", "kind": "execute-result-depends-on-schedule", "tx": "bad-sig"}, k, w)
			}
			run.Finish(nil, nil)
		}
		d.replay(k)
		os.RemoveAll(d.work)
		run.Finish(nil, nil)
	}

	chains := []string{"K2", "K24", "S", "H", "C", "A"} // C (no KV transaction: nothing excuses a difference) before A: under a time cap the most discriminating chain completes first
	ws := []int{1, 2, 8}
	if !run.Quick() {
		chains = append(chains, "B", "D", "E")
		chains = append(chains, orderingChains()...)
		ws = []int{1, 2, 3, 8, 16}
	}

	if v := os.Getenv("C05_CHAINS"); v != "" { // development aid: restrict the chains (evidence then says so)
		chains = strings.Split(v, ",")
	}

	procs := 12
	if v := os.Getenv("C05_PROCS"); v != "" {
		fmt.Sscanf(v, "%d", &procs)
	}
	if g := runtime.GOMAXPROCS(0); procs > g {
		procs = g
	}
	if procs < 1 {
		procs = 1
	}
	defs := map[string]*chainDef{}
	for _, name := range chains {
		cd, err := buildChain(name)
		if err != nil {
			core.Fatal("%v", err)
		}
		defs[name] = cd
	}
	// batches of roughly equal cost (cost of a run = number of application opens)
	batchUp := func(jobs []wireJob, target int) [][]wireJob {
		var out [][]wireJob
		var cur []wireJob
		cost := 0
		for _, j := range jobs {
			c := 2 + popcount(j.Cfg.P)
			if len(cur) > 0 && (cost+c > target || cur[0].Chain != j.Chain) {
				out = append(out, cur)
				cur, cost = nil, 0
			}
			cur = append(cur, j)
			cost += c
		}
		if len(cur) > 0 {
			out = append(out, cur)
		}
		return out
	}
	// wall-clock cap: when it is reached no further batch is started; chains
	// whose runs are then incomplete are not judged and listed as skipped
	// (exhaustive:false).  A cap never produces a verdict.
	capS := run.Pick(540, 780) // safety nets: the quick list (6 chains, 294 runs) completes in a fraction of this unless the machine is heavily loaded
	if v := os.Getenv("C05_TIME_CAP"); v != "" {
		fmt.Sscanf(v, "%d", &capS)
	}
	t0 := time.Now()
	var skippedBatches int64
	runBatches := func(batches [][]wireJob) []spawned {
		res := make([][]spawned, len(batches))
		parN(len(batches), procs, func(i int) {
			if capS > 0 && time.Since(t0) > time.Duration(capS)*time.Second {
				atomic.AddInt64(&skippedBatches, 1)
				return
			}
			res[i] = d.spawn(batches[i])
		})
		var all []spawned
		for _, r := range res {
			all = append(all, r...)
		}
		// a run whose per-block watchdog expired is repeated twice, each time in a process of
		// its own; the first repetition that gets through replaces it
		jobOf := map[string]wireJob{}
		for _, b := range batches {
			for _, j := range b {
				jobOf[j.Chain+"/"+j.Cfg.String()] = j
			}
		}
		var again []int
		for i, sp := range all {
			if sp.rr.Fail != nil && sp.rr.Fail.Kind == kindNeverFinishes {
				again = append(again, i)
			}
		}
		parN(len(again), procs, func(k int) {
			i := again[k]
			atomic.AddInt64(&watchdogExpiries, 1)
			j, ok := jobOf[all[i].rr.Chain+"/"+all[i].rr.Cfg.String()]
			if !ok {
				core.Fatal("no job for run %s %v", all[i].rr.Chain, all[i].rr.Cfg)
			}
			for rep := 0; rep < 2; rep++ {
				r := d.spawn([]wireJob{j})
				if len(r) != 1 {
					core.Fatal("re-run of %s %v returned %d results", j.Chain, j.Cfg, len(r))
				}
				if r[0].rr.Fail == nil || r[0].rr.Fail.Kind != kindNeverFinishes {
					atomic.AddInt64(&watchdogNotReproduced, 1)
					all[i] = r[0]
					return
				}
			}
		})
		return all
	}

	// The chains are processed in groups, in priority order (the 6-block chains
	// first, then the ordering chains 20 at a time).  Per group: round 1, the
	// reference replicas build the chains (one worker, one lifetime); round 2,
	// every other configuration is fed the reference's blocks.
	var groups [][]string
	var cur []string
	for _, name := range chains {
		isOrd := strings.HasPrefix(name, "ord-")
		heavy := 0 // the short chains (K2, K24, S, H: a handful of runs each) ride along with the first group of 6-block chains
		for _, c := range cur {
			if len(defs[c].Blocks) >= 6 {
				heavy++
			}
		}
		if len(cur) > 0 && ((isOrd != strings.HasPrefix(cur[0], "ord-")) || (isOrd && len(cur) >= 20) || (!isOrd && heavy >= 3)) {
			groups = append(groups, cur)
			cur = nil
		}
		cur = append(cur, name)
	}
	if len(cur) > 0 {
		groups = append(groups, cur)
	}
	expected := map[string]int{}
	capped := func() bool { return capS > 0 && time.Since(t0) > time.Duration(capS)*time.Second }
	for gi, group := range groups {
		if gi > 0 && capped() {
			break // chains of the remaining groups are listed as skipped below
		}
		var refJobs []wireJob
		for _, name := range group {
			refJobs = append(refJobs, wireJob{Chain: name, Cfg: cfg{P: 0, W: 1}})
		}
		capSaved := capS
		capS = 0 // the references of a started group are always built
		refRuns := runBatches(batchUp(refJobs, 6))
		capS = capSaved
		for _, sp := range refRuns {
			name := sp.rr.Chain
			d.results[name] = map[cfg]*runResult{sp.rr.Cfg: sp.rr}
			if sp.ref == nil {
				sp.ref = &wireRef{}
			}
			d.refs[name] = fromWireRef(defs[name], sp.ref)
			d.refs[name].res = sp.rr
		}
		var jobs []wireJob
		for _, name := range group {
			ref := d.refs[name]
			if ref.res.Fail != nil {
				continue
			}
			n := len(ref.def.Blocks)
			cs := configs(n, ws)
			if strings.HasPrefix(name, "ord-") {
				// the 120 ordering chains: the full partition × worker grid, without the extra replicas
				cs = cs[:0]
				for _, c := range configs(n, ws) {
					if c.W != 0 && c.Rep == 0 {
						cs = append(cs, c)
					}
				}
			}
			wr := toWireRef(ref)
			for _, c := range cs {
				jobs = append(jobs, wireJob{Chain: name, Cfg: c, Ref: wr})
				expected[name]++
			}
		}
		for _, sp := range runBatches(batchUp(jobs, 36)) {
			d.results[sp.rr.Chain][sp.rr.Cfg] = sp.rr
		}
	}
	skippedChains := []string{}
	var judged []string
	for _, name := range chains {
		if d.refs[name] == nil || (d.refs[name].res.Fail == nil && len(d.results[name]) != expected[name]+1) {
			skippedChains = append(skippedChains, name)
			continue
		}
		judged = append(judged, name)
	}
	chains = judged

	// judge, in a fixed order (fewest restarts first, so that the recorded case of a class is a minimal one)
	runs := 0
	txClasses := core.NewCounter()
	chainSummary := map[string]interface{}{}
	for _, name := range chains {
		ref := d.refs[name]
		res := d.results[name]
		n := len(ref.def.Blocks)
		if ref.res.Fail != nil {
			d.judge(ref, res, ref.res, nil)
			continue
		}
		for _, o := range ref.outcomes {
			txClasses.Add(o)
		}
		distinct := map[string]map[string]bool{}
		for _, x := range sortedRuns(res, ws) {
			runs++
			d.judge(ref, res, x, nil)
			atomic.AddInt64(&d.restarts, int64(x.Opens-1))
			for h := 1; h <= len(x.Blocks); h++ {
				var rec []string
				for _, comp := range components {
					v := x.Blocks[h-1][comp]
					rec = append(rec, v)
					key := fmt.Sprintf("block%d/%s", h, comp)
					if distinct[key] == nil {
						distinct[key] = map[string]bool{}
					}
					distinct[key][v] = true
				}
				d.records.Add(name + "/" + fmt.Sprint(h) + "/" + core.Hash(strings.Join(rec, "\x00")))
				d.states.Add(fmt.Sprintf("%s/h%d/since%d/w%d", name, h, lifetimeStart(x.Cfg.P, h), x.Cfg.W))
			}
			if x.Cfg.Rep == 0 && (x.Cfg.P*7+x.Cfg.W)%13 == 0 {
				s := map[string]interface{}{"chain": name, "lifetimes": x.Cfg.partition(n), "workers": x.Cfg.workers()}
				var hs []string
				for h := 1; h <= len(x.Blocks); h++ {
					a, r := x.Blocks[h-1]["app-hash"], x.Blocks[h-1]["receipts-hash"]
					if len(a) > 12 {
						a = a[:12]
					}
					if len(r) > 12 {
						r = r[:12]
					}
					hs = append(hs, fmt.Sprintf("h%d app=%s rcpt=%s %s", h, a, r, x.Blocks[h-1]["execute-result"]))
				}
				s["blocks"] = hs
				d.samples.Add(s)
			}
		}
		if len(chainSummary) < 8 {
			multi := map[string]int{}
			for k, v := range distinct {
				if len(v) > 1 {
					multi[k] = len(v)
				}
			}
			var kinds []string
			for _, b := range ref.def.Blocks {
				var ks []string
				for _, t := range b {
					ks = append(ks, t.Kind)
				}
				kinds = append(kinds, "["+strings.Join(ks, " ")+"]")
			}
			chainSummary[name] = map[string]interface{}{"blocks": kinds, "runs": len(res), "components_with_more_than_one_value": multi}
		}
	}

	notes := []string{
		"part (a) runs the parallel verifier free-running at the listed worker counts (goroutine schedules are the Go runtime's); the controlled-scheduler exploration of chain/app/evm/verifycpuparallel.go (all interleavings of initTxQueue / validateRoutine / the executing loop on 3-tx blocks) is part (b), merged under coverage.sched",
		"the application cannot be switched to exeWithCPUSerialVeirfy (OnExecute calls exeWithCPUParallelVeirfy unconditionally); the serial path is therefore not a replica configuration",
	}
	if !run.Quick() || os.Getenv("C05_RACE") != "" {
		rn, wrong := racePass(d.work, 200)
		notes = append(notes, rn...)
		for _, w := range wrong {
			run.Report(map[string]string{"site": "exeWithCPUParallelVeirfy", "kind": "execute-result-depends-on-schedule", "tx": "bad-sig"}, caseT{Chain: "race-pass"}, w)
		}
	} else {
		notes = append(notes, "free-running -race pass: thorough tier only (set C05_RACE=1 to force it in the quick tier)")
	}
	restricted := os.Getenv("C05_CHAINS") != ""
	incomplete := restricted || len(skippedChains) > 0
	if len(skippedChains) > 0 {
		notes = append(notes, fmt.Sprintf("TIME CAP of %d s reached: %d batches not started; chains not judged (incomplete): %s; largest bound completed: all partitions × all worker counts of the %d chains listed in chain order before them", capS, skippedBatches, shortList(skippedChains, 8), len(chains)))
	}
	if restricted {
		notes = append(notes, "DEVELOPMENT RUN: chains restricted by C05_CHAINS="+os.Getenv("C05_CHAINS"))
	}
	if os.Getenv("C05_DEBUG") != "" {
		var ms runtime.MemStats
		runtime.GC()
		runtime.ReadMemStats(&ms)
		fmt.Fprintf(os.Stderr, "debug: opens=%d heapAlloc=%dMB sys=%dMB numGC=%d goroutines=%d\n", openCount, ms.HeapAlloc>>20, ms.Sys>>20, ms.NumGC, runtime.NumGoroutine())
	}
	run.Notes = notes
	os.RemoveAll(d.work)

	wl := []string{}
	for _, w := range ws {
		wl = append(wl, fmt.Sprint(w))
	}
	nChains6 := 0
	for _, name := range chains {
		if len(d.refs[name].def.Blocks) == 6 {
			nChains6++
		}
	}
	finalCov := core.Coverage{
		"states":                        d.states.Len(),
		"transitions":                   int(blockExec) + int(d.restarts),
		"traces_validated_against_impl": runs,
		"evaluations":                   int(d.evals),
		"distinct_nontrivial":           d.records.Len(),
		"rule":                          "for each fixed chain: the reference replica (one lifetime, 1 worker) builds the blocks; then EVERY partition of the chain into process lifetimes (2^(n-1): Stop()+NewEVMApp+Start on the same directory after the chosen blocks) × EVERY worker count in the list is run on a fresh directory and fed exactly those blocks, plus default-worker-count catch-up replicas (one lifetime / restart after every block) and repeated identical configurations; every run ends with one more restart after which the query list is read again. Chains: K2 (one KV block, one empty block), K24 (24 KV transactions on distinct keys by three senders in one block; 9 overwrites in another order next to 9 new keys; empty block), S (blocks of k = 1, 2, 3 transactions with an unrecoverable signature FOLLOWED by good ones, and 3 of them at the end of a block), H (Clock fixture deployed in block 1, empty block, called in blocks 3 and 4), the 6-block chains (every transaction kind; the Clock fixture stores TIMESTAMP, NUMBER, COINBASE, GASLIMIT and BLOCKHASH(NUMBER-k) for k = -1..7 when called, blocks after its creation), thorough: 120 ordering chains. Every OnExecute runs under a per-block watchdog (expires after >= watchdog.min_wait_s with the process idle, or watchdog.hard_cap_s; an expired run is repeated twice in new processes; 3 expiries out of 3 are reported as kind block-never-finishes). Compared per block and per component (app-hash, receipts-hash, execute-result, 7 query classes): same partition vs 1 worker; same workers vs unpartitioned run (receipts-hash: vs the smallest partition whose executing lifetime had applied the same earlier KV transactions, that one vs the unpartitioned run); repeated runs; after-restart answers vs before-restart answers. states = distinct (chain, height, first block of the executing lifetime, workers); distinct_nontrivial = distinct (chain, height, full record) values observed",
		"exhaustive":                    !incomplete,
		"chains":                        len(chains),
		"chains_skipped_by_time_cap":    skippedChains,
		"time_cap_s":                    capS,
		"chains_of_6_blocks":            nChains6,
		"runs":                          runs,
		"blocks_executed":               int(blockExec),
		"restarts":                      int(d.restarts),
		"application_opens":             int(openCount),
		"queries_evaluated":             int(queryExec),
		"watchdog":                      map[string]interface{}{"min_wait_s": watchdogMinS, "idle_window_s": watchdogIdleS, "hard_cap_s": watchdogHardS, "runs_expired": int(watchdogExpiries), "of_those_finished_when_repeated": int(watchdogNotReproduced)},
		"bounds":                        map[string]interface{}{"blocks_per_chain": "2 (K2), 3 (K24), 4 (S H), 6 (A B C D E), 3 (ord-*)", "partitions": "all 2^(n-1)", "workers": wl, "default_workers": defaultW},
		"outcome_classes":               d.classes.Map(),
		"tx_outcome_classes":            txClasses.Map(),
		"chain_summaries":               chainSummary,
		"samples":                       d.samples.List(),
		"same_config_divergence":        "reported as a violation (kind *-not-reproducible), not as an internal error: for C05 a divergence of two identical runs IS the property failing",
	}
	runSchedPart(run, finalCov)
	run.Finish(finalCov, []string{
		"harness genesis: the repository's core.DefaultGenesis() plus balances for two accounts (evmkit Options.Alloc) so that value transfers can succeed; no account is funded on the real chain",
		"the harness plays gemmill/state/execution.go: OnExecute(h,0,block) then OnCommit(h,0,block); header time is evmkit.BlockTime(h); 'accepts the next block' is decided by the repository's Block.ValidateBasic with the replica's own commit results as state.AppHash/state.ReceiptsHash",
		"a restart is Stop() + NewEVMApp + Start on the same directory between two blocks (never between OnExecute and OnCommit: that is C06)",
		"part (a) leaves goroutine schedules of the parallel signature verifier to the Go runtime; part (b) (coverage.sched) enumerates them under the controlled scheduler on 3-transaction blocks; Result.Log and ExecuteInvalidTx.Error texts are not compared",
		"the model is the implementation itself: every run executes the real EVMApp (traces_validated_against_impl = runs)",
	})
}

// runSchedPart runs part (b), the controlled-scheduler exploration of
// verifycpuparallel.go (props/c05sched, a separate binary because it is built
// with the import-rewriting overlay), in a private root and merges its evidence
// and violations into this run.
func runSchedPart(run *core.Run, cov core.Coverage) {
	bin := filepath.Join(core.Root, ".work", "c05sched", "bin-for-c05")
	if alt := os.Getenv("VERIF_C05SCHED_BIN"); alt != "" {
		bin = alt
	}
	if _, err := os.Stat(bin); err != nil {
		// VERIF_ROOT may point at a private root (seeded-change runs): the binary lives under the real tree
		bin = "/verif/.work/c05sched/bin-for-c05"
	}
	sub := filepath.Join(run.WorkDir(), "schedroot")
	os.RemoveAll(sub)
	os.MkdirAll(sub, 0755)
	if b, err := ioutil.ReadFile(filepath.Join(core.Root, "known_findings.txt")); err == nil {
		ioutil.WriteFile(filepath.Join(sub, "known_findings.txt"), b, 0644)
	}
	cmd := exec.Command(bin, run.Tier)
	cmd.Env = append(os.Environ(), "VERIF_ROOT="+sub, "VERIF_TIER="+run.Tier, "C05B_RACE_BIN="+filepath.Join(filepath.Dir(bin), "c05race"))
	out, err := cmd.CombinedOutput()
	code := 0
	if ee, ok := err.(*exec.ExitError); ok {
		code = ee.ExitCode()
	} else if err != nil {
		core.Fatal("cannot run the SCHED part (%s): %v", bin, err)
	}
	if code != 0 && code != 1 {
		tail := string(out)
		if len(tail) > 3000 {
			tail = tail[len(tail)-3000:]
		}
		core.Fatal("SCHED part failed with exit %d:\n%s", code, tail)
	}
	var ev struct {
		Coverage map[string]interface{} `json:"coverage"`
	}
	if b, err := ioutil.ReadFile(filepath.Join(sub, "evidence", "C05.json")); err == nil {
		json.Unmarshal(b, &ev)
	}
	cov["sched"] = ev.Coverage
	for _, k := range []string{"states", "transitions", "traces_validated_against_impl", "evaluations"} {
		a, ok1 := cov[k].(int)
		b, ok2 := ev.Coverage[k].(float64)
		if ok1 && ok2 {
			cov[k] = a + int(b)
		}
	}
	if ex, ok := ev.Coverage["exhaustive"].(bool); ok && !ex {
		cov["sched_exhaustive"] = false
	}
	for _, l := range strings.Split(string(out), "\n") {
		if strings.HasPrefix(l, "KNOWN-FINDING:") {
			fmt.Println(l)
		}
	}
	arts, _ := filepath.Glob(filepath.Join(sub, "replays", "C05", "*.json"))
	for _, a := range arts {
		b, err := ioutil.ReadFile(a)
		if err != nil {
			continue
		}
		var art struct {
			Sig    map[string]string `json:"sig"`
			Case   json.RawMessage   `json:"case"`
			Detail string            `json:"detail"`
		}
		if json.Unmarshal(b, &art) != nil {
			continue
		}
		if art.Sig == nil {
			art.Sig = map[string]string{}
		}
		art.Sig["part"] = "sched"
		run.Report(art.Sig, map[string]interface{}{"engine": "SCHED", "sched_case": art.Case}, art.Detail)
	}
	if code == 1 && len(arts) == 0 {
		core.Fatal("SCHED part reported a violation but left no artefact")
	}
}

// replaySched hands a SCHED artefact to the SCHED binary.
func replaySched(run *core.Run) bool {
	b, err := ioutil.ReadFile(run.ReplayPath)
	if err != nil {
		return false
	}
	var art struct {
		Case struct {
			Engine    string          `json:"engine"`
			SchedCase json.RawMessage `json:"sched_case"`
		} `json:"case"`
		Sig    map[string]string `json:"sig"`
		Detail string            `json:"detail"`
	}
	if json.Unmarshal(b, &art) != nil || art.Case.Engine != "SCHED" {
		return false
	}
	tmp := filepath.Join(run.WorkDir(), "sched-replay.json")
	nb, _ := json.Marshal(map[string]interface{}{"property": "C05", "engine": "SCHED", "sig": art.Sig, "case": art.Case.SchedCase, "detail": art.Detail})
	ioutil.WriteFile(tmp, nb, 0644)
	bin := "/verif/.work/c05sched/bin-for-c05"
	if alt := filepath.Join(core.Root, ".work", "c05sched", "bin-for-c05"); fileExists(alt) {
		bin = alt
	}
	cmd := exec.Command(bin, "replay", tmp)
	cmd.Stdout, cmd.Stderr = os.Stdout, os.Stderr
	err = cmd.Run()
	if ee, ok := err.(*exec.ExitError); ok {
		os.Exit(ee.ExitCode())
	}
	os.Exit(0)
	return true
}

func fileExists(p string) bool { _, err := os.Stat(p); return err == nil }
