#!/bin/bash
# The C05 check has two binaries: this directory's main (part a: the real application over
# partitions/worker counts, built from the UNMODIFIED sources) and the SCHED exploration of
# verifycpuparallel.go (part b: props/c05sched, built with the import-rewriting overlay).  Part a
# runs part b as a subprocess and merges its evidence and violations.
set -eu
ROOT=$(cd "$(dirname "$0")/../.." && pwd)
export GOFLAGS=-mod=mod GOPROXY=off GOSUMDB=off GOTOOLCHAIN=local
W=$ROOT/.work/c05sched
mkdir -p "$W"
"$ROOT/props/c05sched/prebuild.sh" "$W"
extra=()
if [ -n "${VERIF_EXTRA_BUILDFLAGS:-}" ]; then
  echo "note: VERIF_EXTRA_BUILDFLAGS is not applied to the SCHED binary (it has its own overlay); use VERIF_OVERLAY_SUBST for it" >&2
fi
( cd "$ROOT" && go build -tags verif -overlay "$W/overlay.json" -o "$W/bin-for-c05" ./props/c05sched )
