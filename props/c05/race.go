package main

import (
	"bufio"
	"bytes"
	"fmt"
	"io/ioutil"
	"os"
	"os/exec"
	"path/filepath"
	"sort"
	"strings"
	"time"

	"verif/core"
	"verif/evmkit"

	"github.com/dappledger/AnnChain/chain/app/evm"
)

// Free-running -race pass (DESIGN §4.1 / §5 C05): this package is built once
// more with `go build -race` and run as `<bin> raceworker <dir>`: blocks that
// mix invalid-signature, undecodable and valid transactions are executed on
// the real application at 2 and 8 signature-checking goroutines, `reps` times
// each.  Data-race reports that involve chain/app/evm are violation
// CANDIDATES (listed in the evidence notes), not verdicts; an invalid
// transaction that is reported valid is a verdict.

func raceBlock(n nonceBook, rep int) ([]txDef, []bool) {
	a, b := accA, accB
	st := storeAddr
	txs := []txDef{
		txBadSig(n, b, st, rep%2),
		txCallLog(n, a, st, uint64(rep)),
		txBadSig(n, a, st, (rep+1)%2),
		txGarbage(),
		txCallPut(n, b, st, uint64(rep)),
		txBadSig(n, b, st, 0),
		txCallLog(n, a, st, uint64(rep+1)),
	}
	wantValid := []bool{false, true, false, false, true, false, true}
	return txs, wantValid
}

func raceWorker(dir string) {
	evmkit.Silence()
	reps := 200
	if v := os.Getenv("C05_RACE_REPS"); v != "" {
		fmt.Sscanf(v, "%d", &reps)
	}
	blocks, wrong := 0, 0
	for _, w := range []int{2, 8} {
		evm.SetVerifValidateRoutineCount(w)
		d := filepath.Join(dir, fmt.Sprintf("w%d", w))
		os.RemoveAll(d)
		cd := &chainDef{}
		ch, err := evmkit.Open(evmkit.Options{Dir: d, Alloc: cd.alloc()})
		if err != nil {
			fmt.Println("RACEWORKER-ERROR open:", err)
			os.Exit(3)
		}
		n := nonceBook{}
		if _, err := ch.ExecBlock([][]byte{txCreate(n, accA).Raw}); err != nil {
			fmt.Println("RACEWORKER-ERROR setup:", err)
			os.Exit(3)
		}
		for rep := 0; rep < reps; rep++ {
			txs, want := raceBlock(n, rep)
			raw := make([][]byte, len(txs))
			for i, t := range txs {
				raw[i] = t.Raw
			}
			res, err := ch.ExecBlock(raw)
			if err != nil {
				fmt.Println("RACEWORKER-ERROR exec:", err)
				os.Exit(3)
			}
			blocks++
			_, vidx := execResultString(raw, res.Valid, res.Invalid)
			got := make([]bool, len(raw))
			for _, i := range vidx {
				got[i] = true
			}
			for i := range raw {
				if got[i] != want[i] {
					wrong++
					fmt.Printf("WRONG-OUTCOME workers=%d block=%d tx=%d kind=%s reported-valid=%v (a single-worker run reports %v)\n", w, rep+2, i, txs[i].Kind, got[i], want[i])
					// keep the nonce book in step with what the application did
				}
			}
			if wrong > 0 {
				break
			}
		}
		ch.Close()
		os.RemoveAll(d)
	}
	fmt.Printf("RACEWORKER-DONE blocks=%d wrong=%d\n", blocks, wrong)
}

func sourceRoot() string {
	for _, d := range []string{os.Getenv("VERIF_SRC"), core.Root, "/verif"} {
		if d == "" {
			continue
		}
		if b, err := ioutil.ReadFile(filepath.Join(d, "go.mod")); err == nil && bytes.Contains(b, []byte("module verif")) {
			if _, err := os.Stat(filepath.Join(d, "props", "c05")); err == nil {
				return d
			}
		}
	}
	return ""
}

// racePass builds and runs the race worker; returns evidence notes and the
// wrong-outcome lines (verdicts).
func racePass(work string, reps int) (notes []string, wrong []string) {
	src := sourceRoot()
	if src == "" {
		return []string{"free-running -race pass NOT RUN: harness sources not found"}, nil
	}
	os.MkdirAll(work, 0755)
	bin := filepath.Join(work, "c05race.bin")
	t0 := time.Now()
	// -race switches on checkptr, which the vendored 2019 x/crypto sha3
	// (unaligned xor) trips sporadically: an instrumentation artefact, switched off
	args := []string{"build", "-race", "-gcflags=all=-d=checkptr=0", "-tags", "verif"}
	if ov := os.Getenv("C05_OVERLAY"); ov != "" {
		args = append(args, "-overlay", ov)
	}
	// seeded-change testing through vcheck: the same extra build flags (e.g. -overlay)
	args = append(args, strings.Fields(os.Getenv("VERIF_EXTRA_BUILDFLAGS"))...)
	args = append(args, "-o", bin, "./props/c05")
	cmd := exec.Command("go", args...)
	cmd.Dir = src
	cmd.Env = append(os.Environ(), "GOFLAGS=-mod=mod", "GOPROXY=off", "GOSUMDB=off", "GOTOOLCHAIN=local", "CGO_ENABLED=1")
	if out, err := cmd.CombinedOutput(); err != nil {
		o := string(out)
		if len(o) > 400 {
			o = o[:400]
		}
		return []string{fmt.Sprintf("free-running -race pass NOT RUN: go build -race failed: %v: %s", err, o)}, nil
	}
	buildS := time.Since(t0).Seconds()
	logBase := filepath.Join(work, "racelog")
	w := exec.Command(bin, "raceworker", filepath.Join(work, "race"))
	w.Env = append(os.Environ(), "GORACE=log_path="+logBase+" halt_on_error=0", fmt.Sprintf("C05_RACE_REPS=%d", reps))
	t1 := time.Now()
	out, err := w.CombinedOutput()
	runS := time.Since(t1).Seconds()
	done := ""
	sc := bufio.NewScanner(bytes.NewReader(out))
	sc.Buffer(make([]byte, 1<<20), 1<<20)
	for sc.Scan() {
		l := sc.Text()
		switch {
		case strings.HasPrefix(l, "WRONG-OUTCOME"):
			wrong = append(wrong, "free-running -race binary: "+l)
		case strings.HasPrefix(l, "RACEWORKER-DONE"), strings.HasPrefix(l, "RACEWORKER-ERROR"):
			done = l
		}
	}
	if done == "" {
		o := string(out)
		if len(o) > 400 {
			o = o[len(o)-400:]
		}
		return []string{fmt.Sprintf("free-running -race pass INCOMPLETE (worker died: %v): …%s", err, o)}, wrong
	}
	// collect the reports
	files, _ := filepath.Glob(logBase + ".*")
	type rep struct {
		n     int
		first string
	}
	seen := map[string]*rep{}
	total := 0
	for _, f := range files {
		b, _ := ioutil.ReadFile(f)
		for _, blk := range strings.Split(string(b), "==================") {
			if !strings.Contains(blk, "WARNING: DATA RACE") {
				continue
			}
			total++
			key := raceKey(blk)
			if seen[key] == nil {
				seen[key] = &rep{first: blk}
			}
			seen[key].n++
		}
	}
	var keys []string
	for k := range seen {
		keys = append(keys, k)
	}
	sort.Strings(keys)
	notes = append(notes, fmt.Sprintf("free-running -race pass: %s; go build -race %.0fs, run %.0fs; %d data-race reports in %d distinct access pairs. A race report is a violation CANDIDATE (to be confirmed by the SCHED exploration), not a verdict.", done, buildS, runS, total, len(keys)))
	for _, k := range keys {
		tag := "race candidate (outside chain/app/evm)"
		if strings.Contains(k, "chain/app/evm") {
			tag = "RACE CANDIDATE in chain/app/evm"
		}
		notes = append(notes, fmt.Sprintf("%s ×%d: %s", tag, seen[k].n, k))
	}
	return notes, wrong
}

// raceKey condenses one race report to "<access> <top repo frame>  /  <access> <top repo frame>".
func raceKey(blk string) string {
	var parts []string
	lines := strings.Split(blk, "\n")
	for i := 0; i < len(lines); i++ {
		l := strings.TrimSpace(lines[i])
		isAcc := strings.HasPrefix(l, "Write at") || strings.HasPrefix(l, "Read at") || strings.HasPrefix(l, "Previous write at") || strings.HasPrefix(l, "Previous read at") ||
			strings.HasPrefix(l, "Atomic") || strings.HasPrefix(l, "Previous atomic")
		if !isAcc {
			continue
		}
		acc := strings.Fields(l)
		kind := acc[0]
		if kind == "Previous" && len(acc) > 1 {
			kind = "previous " + acc[1]
		}
		frame := "?"
		for j := i + 1; j < len(lines) && strings.TrimSpace(lines[j]) != ""; j += 2 {
			fn := strings.TrimSpace(lines[j])
			if strings.Contains(fn, "dappledger/AnnChain/") {
				if k := strings.LastIndex(fn, "("); k > 0 {
					fn = fn[:k]
				}
				loc := ""
				if j+1 < len(lines) {
					loc = strings.TrimSpace(lines[j+1])
					if k := strings.Index(loc, " +0x"); k > 0 {
						loc = loc[:k]
					}
					loc = " " + filepath.Base(loc)
				}
				frame = strings.TrimPrefix(fn, "github.com/dappledger/AnnChain/") + loc
				break
			}
		}
		parts = append(parts, strings.ToLower(kind)+" "+frame)
	}
	return strings.Join(parts, "  /  ")
}
