package main

import (
	"bytes"
	"encoding/hex"
	"fmt"
	"os"
	"strings"
	"sync"
	"sync/atomic"
	"syscall"
	"time"

	"verif/core"
	"verif/evmkit"

	gtypes "github.com/dappledger/AnnChain/gemmill/types"
)

// cfg is one replica configuration: how the chain is cut into process
// lifetimes and how many signature-checking goroutines the application starts.
type cfg struct {
	P   int `json:"partition"` // bit i set: Stop() + NewEVMApp + Start on the same directory after block i+1
	W   int `json:"workers"`   // validateRoutineCount; 0 = the package default (runtime.NumCPU())
	Rep int `json:"rep"`       // repetition index of an otherwise identical configuration
}

func (c cfg) String() string {
	return fmt.Sprintf("P=%s W=%s rep=%d", c.partition(0), c.workers(), c.Rep)
}

func (c cfg) workers() string {
	if c.W == 0 {
		return "default"
	}
	return fmt.Sprint(c.W)
}

// partition renders P for n blocks as e.g. "12|3|456" ("|" = restart).
func (c cfg) partition(n int) string {
	if n == 0 {
		return fmt.Sprintf("%d", c.P)
	}
	var b strings.Builder
	for h := 1; h <= n; h++ {
		fmt.Fprintf(&b, "%d", h)
		if h < n && c.P&(1<<uint(h-1)) != 0 {
			b.WriteByte('|')
		}
	}
	return b.String()
}

type failure struct {
	Block int    // 1-based height at which it happened
	Stage string // execute | commit | restart | query-restart | open
	Kind  string // panic | error
	Site  string
	Msg   string
}

// runResult is everything recorded about one replica run.
type runResult struct {
	Chain  string
	Cfg    cfg
	Blocks []map[string]string // per block: component -> value (interned strings)
	After  map[string]string   // query components read by a fresh lifetime after the last block
	Accept []string            // per block: "" if the next proposed block passes Block.ValidateBasic with this replica's hashes, else the error
	Fail   *failure
	Opens  int
}

// refChain is the chain as built by the reference run: the exact blocks every
// other replica is fed.
type refChain struct {
	def      *chainDef
	tips     []evmkit.Tip // tips[h] = consensus tip after block h (tips[0]: before block 1)
	hashes   [][]byte     // hashes[h-1] = hash of block h
	validIdx [][]int      // per block: indices of the txs the reference reported valid
	res      *runResult
	outcomes []string // per tx: kind/outcome class (coverage)
}

var components = []string{"app-hash", "receipts-hash", "execute-result", "query-nonce", "query-contract-call", "query-receipt", "query-kv", "query-kv-history", "query-kv-prefix", "query-info"}

var (
	internMu  sync.Mutex
	internTab = map[string]string{}
	openCount int64
	blockExec int64
	queryExec int64
)

func intern(s string) string {
	internMu.Lock()
	defer internMu.Unlock()
	if v, ok := internTab[s]; ok {
		return v
	}
	internTab[s] = s
	return s
}

// runQueries evaluates the chain's fixed query list on the running application.
func runQueries(c *evmkit.Chain, cd *chainDef) map[string]string {
	parts := map[string][]string{}
	for _, q := range cd.Queries {
		var val string
		if q.Class == "info" {
			p, v, st := core.Try(func() {
				in := c.App.Info()
				val = fmt.Sprintf("height=%d app=%x", in.LastBlockHeight, in.LastBlockAppHash)
			})
			if p {
				val = "PANIC@" + core.PanicSite(st) + " " + core.FirstLine(v)
			}
		} else {
			var res gtypes.Result
			p, v, st := core.Try(func() { res = c.App.Query(q.Query) })
			if p {
				_ = v
				val = "PANIC@" + core.PanicSite(st)
			} else {
				// Result.Log is message text ("Can be non-deterministic"): not compared
				val = fmt.Sprintf("code=%d data=%x", int(res.Code), res.Data)
			}
		}
		atomic.AddInt64(&queryExec, 1)
		parts["query-"+q.Class] = append(parts["query-"+q.Class], q.Name+" -> "+val)
	}
	out := map[string]string{}
	for k, v := range parts {
		out[k] = intern(strings.Join(v, "\n"))
	}
	return out
}

func execResultString(txs [][]byte, valid, invalid [][]byte) (string, []int) {
	used := make([]bool, len(txs))
	find := func(raw []byte) (string, int) {
		for i, t := range txs {
			if !used[i] && bytes.Equal(t, raw) {
				used[i] = true
				return fmt.Sprint(i), i
			}
		}
		h := hex.EncodeToString(raw)
		if len(h) > 24 {
			h = h[:24] + "…"
		}
		return "?" + h, -1
	}
	var v, iv []string
	var vi []int
	for _, r := range valid {
		s, k := find(r)
		v = append(v, s)
		if k >= 0 {
			vi = append(vi, k)
		}
	}
	for _, r := range invalid {
		s, _ := find(r)
		iv = append(iv, s)
	}
	return "valid=[" + strings.Join(v, ",") + "] invalid=[" + strings.Join(iv, ",") + "]", vi
}

// execRun executes the chain on a fresh directory under configuration c.  With
// ref == nil the run is the proposer: it builds every block from its own tip
// and returns the chain it built.  Otherwise it is fed exactly the reference's
// blocks (rebuilt from the reference tips and checked to hash identically).
func execRun(dir string, cd *chainDef, ref *refChain, c cfg) (*runResult, *refChain) {
	os.RemoveAll(dir)
	defer os.RemoveAll(dir)
	n := len(cd.Blocks)
	rr := &runResult{Chain: cd.Name, Cfg: c}
	var built *refChain
	if ref == nil {
		built = &refChain{def: cd, res: rr}
	}
	ch, err := evmkit.Open(evmkit.Options{Dir: dir, Alloc: cd.alloc()})
	if err != nil {
		core.Fatal("cannot open a fresh application in %s: %v", dir, err)
	}
	atomic.AddInt64(&openCount, 1)
	rr.Opens++
	defer func() {
		if ch.App != nil {
			core.Try(func() { ch.Close() })
		}
	}()
	if built != nil {
		built.tips = append(built.tips, ch.Tip)
	}
	for h := 1; h <= n; h++ {
		txs := cd.raw(h - 1)
		var prev evmkit.Tip
		if ref != nil {
			prev = ref.tips[h-1]
		} else {
			prev = built.tips[h-1]
		}
		blk := evmkit.MakeBlockAt(prev, txs)
		if ref != nil && !bytes.Equal(blk.Hash(), ref.hashes[h-1]) {
			core.Fatal("chain %s: rebuilt block %d does not hash like the reference block (%x vs %x)", cd.Name, h, blk.Hash(), ref.hashes[h-1])
		}
		var er gtypes.ExecuteResult
		var cr gtypes.CommitResult
		var xerr error
		finished, p, v, st := executeWatched(func() { er, xerr = ch.Execute(blk) })
		if !finished {
			// OnExecute is still running on its goroutine: the application object is abandoned
			// (not stopped: Stop could block behind it), the run ends here
			ch.App = nil
			rr.Fail = &failure{h, "execute", kindNeverFinishes, "EVMApp.OnExecute", v}
			return rr, built
		}
		if p {
			rr.Fail = &failure{h, "execute", "panic", core.PanicSite(st), core.FirstLine(v)}
			return rr, built
		}
		if xerr != nil {
			rr.Fail = &failure{h, "execute", "error", "EVMApp.OnExecute", xerr.Error()}
			return rr, built
		}
		if p, v, st := core.Try(func() { cr, xerr = ch.Commit(blk) }); p {
			rr.Fail = &failure{h, "commit", "panic", core.PanicSite(st), core.FirstLine(v)}
			return rr, built
		}
		if xerr != nil {
			rr.Fail = &failure{h, "commit", "error", "EVMApp.OnCommit", xerr.Error()}
			return rr, built
		}
		atomic.AddInt64(&blockExec, 1)
		valid, invalid, _ := evmkit.SplitResult(er)
		exs, vidx := execResultString(txs, valid, invalid)
		obs := map[string]string{
			"app-hash":       intern(hex.EncodeToString(cr.AppHash)),
			"receipts-hash":  intern(hex.EncodeToString(cr.ReceiptsHash)),
			"execute-result": intern(exs),
		}
		for k, v := range runQueries(ch, cd) {
			obs[k] = v
		}
		rr.Blocks = append(rr.Blocks, obs)
		// would this replica accept the block the others propose next?  The next
		// block's header carries the reference's hashes; the replica's consensus
		// state carries the hashes its own commit returned (state.AppHash /
		// state.ReceiptsHash) and checks them with Block.ValidateBasic.
		if built != nil {
			built.tips = append(built.tips, ch.Tip)
			built.hashes = append(built.hashes, blk.Hash())
			built.validIdx = append(built.validIdx, vidx)
			rr.Accept = append(rr.Accept, "")
		} else {
			var nextTxs [][]byte
			if h < n {
				nextTxs = cd.raw(h)
			}
			next := evmkit.MakeBlockAt(ref.tips[h], nextTxs)
			verr := next.ValidateBasic(evmkit.ChainID, int64(h), gtypes.BlockID{Hash: blk.Hash()}, evmkit.BlockTime(int64(h)), cr.AppHash, cr.ReceiptsHash)
			if verr != nil {
				rr.Accept = append(rr.Accept, verr.Error())
			} else {
				rr.Accept = append(rr.Accept, "")
			}
		}
		if h < n && c.P&(1<<uint(h-1)) != 0 {
			var rerr error
			if p, v, st := core.Try(func() { rerr = ch.Reopen() }); p {
				rr.Fail = &failure{h, "restart", "panic", core.PanicSite(st), core.FirstLine(v)}
				return rr, built
			}
			if rerr != nil {
				rr.Fail = &failure{h, "restart", "error", "EVMApp.Start", rerr.Error()}
				return rr, built
			}
			atomic.AddInt64(&openCount, 1)
			rr.Opens++
		}
	}
	if built != nil {
		built.outcomes = txOutcomes(ch, cd, built)
	}
	// a fresh lifetime after the last block: what does it answer?  (Read in the
	// 1-worker runs of every partition only: no block is executed in that
	// lifetime, so the worker count cannot matter, and an open is expensive.)
	if c.W != 1 {
		return rr, built
	}
	var rerr error
	if p, v, st := core.Try(func() { rerr = ch.Reopen() }); p {
		rr.Fail = &failure{n, "restart", "panic", core.PanicSite(st), core.FirstLine(v)}
		return rr, built
	}
	if rerr != nil {
		rr.Fail = &failure{n, "restart", "error", "EVMApp.Start", rerr.Error()}
		return rr, built
	}
	atomic.AddInt64(&openCount, 1)
	rr.Opens++
	rr.After = runQueries(ch, cd)
	return rr, built
}

// txOutcomes classifies every transaction of the chain by what the reference
// run made of it (coverage only; nothing is judged here).
func txOutcomes(ch *evmkit.Chain, cd *chainDef, ref *refChain) []string {
	var out []string
	for bi, blk := range cd.Blocks {
		isValid := map[int]bool{}
		for _, i := range ref.validIdx[bi] {
			isValid[i] = true
		}
		if len(blk) == 0 {
			out = append(out, "empty-block")
		}
		for ti, t := range blk {
			cls := t.Kind + "/invalid"
			if isValid[ti] {
				cls = t.Kind + "/valid"
				var desc string
				core.Try(func() {
					rc, _, ok := ch.Receipt(evmkit.TxHash(t.Raw))
					switch {
					case !ok:
						desc = "no-receipt"
					case rc == nil:
						desc = "undecodable-receipt"
					default:
						desc = fmt.Sprintf("status%d/logs%d", rc.Status, len(rc.Logs))
						if (rc.ContractAddress != [20]byte{}) {
							desc += "/created"
						}
					}
				})
				cls += "/" + desc
			}
			out = append(out, cls)
		}
	}
	return out
}

// ---------------------------------------------------------------- per-block watchdog
//
// "Obtains identical hashes" includes obtaining hashes at all: a replica whose
// OnExecute never returns for a block the others executed never accepts the
// next block.  Nothing inside the process can prove "never", so the decision
// is made as conservatively as a running check can: OnExecute runs on a
// goroutine of its own; the block is declared not finishing when it has been
// running for watchdogMinS seconds AND the process has used (almost) no CPU
// during the last watchdogIdleS seconds (everything is blocked - an overloaded
// machine delays a runnable process, it does not stop its CPU clock for good), or
// when it has been running for watchdogHardS seconds whatever the CPU clock says
// (a livelock burns CPU).  The driver then repeats the whole run twice in new
// processes; only 3 expiries out of 3 are reported (kind block-never-finishes).
// A block of these chains executes in milliseconds.

const kindNeverFinishes = "block-never-finishes"

var (
	watchdogMinS  = 60
	watchdogIdleS = 10
	watchdogHardS = 150
)

func init() {
	if v := os.Getenv("C05_WATCHDOG_S"); v != "" { // development aid
		fmt.Sscanf(v, "%d", &watchdogMinS)
		watchdogHardS = watchdogMinS * 5 / 2
	}
}

func cpuTime() time.Duration {
	var ru syscall.Rusage
	if syscall.Getrusage(syscall.RUSAGE_SELF, &ru) != nil {
		return 0
	}
	return time.Duration(ru.Utime.Nano() + ru.Stime.Nano())
}

// executeWatched runs f under core.Try on a new goroutine.  finished=false:
// the watchdog expired (msg says how), f is still running.
func executeWatched(f func()) (finished, panicked bool, msg, stack string) {
	type out struct {
		p     bool
		v, st string
	}
	done := make(chan out, 1)
	go func() {
		p, v, st := core.Try(f)
		done <- out{p, fmt.Sprint(v), st}
	}()
	t0 := time.Now()
	tick := time.NewTicker(time.Second)
	defer tick.Stop()
	var hist []time.Duration // CPU clock, one reading per second
	for {
		select {
		case o := <-done:
			return true, o.p, o.v, o.st
		case <-tick.C:
		}
		hist = append(hist, cpuTime())
		el := time.Since(t0)
		if el >= time.Duration(watchdogHardS)*time.Second {
			return false, false, fmt.Sprintf("OnExecute has not returned after %d s (process still using CPU)", watchdogHardS), ""
		}
		if el >= time.Duration(watchdogMinS)*time.Second && len(hist) > watchdogIdleS {
			used := hist[len(hist)-1] - hist[len(hist)-1-watchdogIdleS]
			if used < 200*time.Millisecond {
				return false, false, fmt.Sprintf("OnExecute has not returned after %d s and the process used %d ms of CPU during the last %d s (every goroutine is blocked)", int(el/time.Second), int(used/time.Millisecond), watchdogIdleS), ""
			}
		}
	}
}
