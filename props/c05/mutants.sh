#!/bin/bash
# Detection demos for C05: builds the driver against mutated copies of the
# anchored sources (go build -overlay; /repo is never touched) and runs the
# quick tier in a private VERIF_ROOT.  Expected: 'none' exits 0, every mutant exits 1.
#   props/c05/mutants.sh [mutant ...]        (default: all)
# Environment: C05_CHAINS=A,C restricts the chains (faster on a busy machine).
set -u
ROOT=$(cd "$(dirname "$0")/../.." && pwd)
REPO=${VERIF_REPO:-/repo}
export GOFLAGS=-mod=mod GOPROXY=off GOSUMDB=off GOTOOLCHAIN=local
W=$ROOT/.work/c05/mut
mkdir -p "$W"

gen() { # $1 = mutant name ; writes $W/$1/overlay.json
  python3 - "$1" "$REPO" "$W/$1" <<'EOF'
import json, os, sys
name, repo, out = sys.argv[1:4]
os.makedirs(out, exist_ok=True)
evm = repo + "/chain/app/evm/evm.go"
par = repo + "/chain/app/evm/verifycpuparallel.go"
def patch(path, pairs):
    s = open(path).read()
    for old, new in pairs:
        assert s.count(old) == 1, (name, "pattern not found exactly once", old)
        s = s.replace(old, new)
    dst = os.path.join(out, os.path.basename(path))
    open(dst, "w").write(s)
    return {path: dst}
rep = {}
if name == "hoist-temreceipt":
    # (a) the per-transaction scratch slice of receipts becomes a package variable:
    # it survives from transaction to transaction, block to block, until the process ends
    rep.update(patch(evm, [
        ("\t\ttemReceipt := make([]*etypes.Receipt, 0)\n", ""),
        ("type LastBlockInfo struct {", "var temReceipt = make([]*etypes.Receipt, 0)\n\ntype LastBlockInfo struct {"),
    ]))
elif name == "gas-accumulator":
    # (a') the used-gas counter handed to ApplyTransaction is shared by all transactions of the process
    rep.update(patch(evm, [
        ("\t\tnew(uint64),\n", "\t\t&usedGasAcc,\n"),
        ("type LastBlockInfo struct {", "var usedGasAcc uint64\n\ntype LastBlockInfo struct {"),
    ]))
elif name == "completion-order":
    # (b) transactions are executed in the order in which their signature check completes
    rep.update(patch(par, [
        ("""	size := len(txs)
	for i := 0; i < size; i++ {
		lsize := len(appTxQ[i])
		var oriBytes []byte
		var err error
		exec, end := beginExec()
""", """	size := len(txs)
	doneTx := make([]bool, size)
	for remaining := size; remaining > 0; {
		for i := 0; i < size; i++ {
			if doneTx[i] {
				continue
			}
			pc := &appTxQ[i][0]
			st := atomic.LoadInt32(&pc.status)
			if st != appTxStatusChecked && st != appTxStatusFailed {
				continue
			}
			pc.ready.Wait()
			exec, end := beginExec()
			if st == appTxStatusChecked {
				pc.err = exec(i, pc.rawbytes, pc.tx)
			}
			end(pc.oribys, pc.err)
			doneTx[i] = true
			remaining--
		}
		runtime.Gosched()
	}
	for i := size; i < size; i++ {
		lsize := len(appTxQ[i])
		var oriBytes []byte
		var err error
		exec, end := beginExec()
"""),
    ]))
elif name == "map-order-receipts":
    # (c) the leaves of the receipts hash are collected through a Go map (iteration order is random)
    rep.update(patch(evm, [
        ("""	err := app.keyValueHistoryManager.SaveKeyHistory(app.keyValueHistories)
""", """	bag := map[int][]byte{}
	for i, b := range savedReceipts {
		bag[i] = b
	}
	savedReceipts = savedReceipts[:0]
	for _, b := range bag {
		savedReceipts = append(savedReceipts, b)
	}
	err := app.keyValueHistoryManager.SaveKeyHistory(app.keyValueHistories)
"""),
    ]))
elif name == "wallclock-header":
    # (d) the EVM block context carries the node's wall clock instead of the block time
    rep.update(patch(evm, [
        ("\t\tTime:       big.NewInt(block.Header.Time.Unix()),\n", "\t\tTime:       big.NewInt(time.Now().UnixNano()),\n"),
        ('\t"sync"\n', '\t"sync"\n\t"time"\n'),
    ]))
elif name == "kv-nonce-in-memory":
    # (e) the nonce bump of a KV transaction is remembered in a process-wide map
    # instead of being read from the state: lost at a restart
    rep.update(patch(evm, [
        ("\tstate.SetNonce(from, state.GetNonce(from)+1)\n", "\tif _, ok := kvNonce[from]; !ok {\n\t\tkvNonce[from] = state.GetNonce(from)\n\t}\n\tkvNonce[from]++\n\tstate.SetNonce(from, kvNonce[from])\n"),
        ("type LastBlockInfo struct {", "var kvNonce = map[common.Address]uint64{}\n\ntype LastBlockInfo struct {"),
    ]))
elif name == "none":
    pass  # baseline: the unchanged tree, must exit 0 with the proposed known: lines
else:
    sys.exit("unknown mutant " + name)
json.dump({"Replace": rep}, open(os.path.join(out, "overlay.json"), "w"), indent=1)
EOF
}

ALL="none hoist-temreceipt gas-accumulator completion-order map-order-receipts wallclock-header kv-nonce-in-memory"
[ $# -gt 0 ] && ALL="$*"
rc=0
for m in $ALL; do
  gen "$m" || { echo "MUTANT $m: generation failed"; rc=2; continue; }
  [ -n "${C05_MUT_GEN_ONLY:-}" ] && { echo "MUTANT $m: overlay generated"; continue; }
  ( cd "$ROOT" && go build -tags verif -overlay "$W/$m/overlay.json" -o "$W/$m/bin" ./props/c05 ) || { echo "MUTANT $m: does not compile"; rc=2; continue; }
  mkdir -p "$W/$m/root"
  # the mutant run must not be excused by the known-findings file of the real tree
  # except for the findings that are already there
  cat "$ROOT/known_findings.txt" "$ROOT/props/c05/PROPOSED_KNOWN.txt" > "$W/$m/root/known_findings.txt"
  C05_TIME_CAP=${C05_TIME_CAP:-0} VERIF_ROOT="$W/$m/root" "$W/$m/bin" quick > "$W/$m/out.txt" 2>&1
  code=$?
  echo "MUTANT $m: exit $code  ($(grep -c '^VIOLATION' "$W/$m/out.txt") violation classes; $(tail -1 "$W/$m/out.txt"))"
  grep -A1 '^VIOLATION' "$W/$m/out.txt" | grep 'sig:' | sed 's/^/      /' | head -8
  if [ "$m" = none ]; then [ $code -eq 0 ] || rc=1; else [ $code -eq 1 ] || rc=1; fi
done
exit $rc
