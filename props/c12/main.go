// C12 — liveness under fair delivery (CONSNET part).
// height; every honest chain is linear.  CONSNET engine (DESIGN §4.3, §5 C01).
package main

import (
	"time"

	"verif/consnet"
	"verif/core"
)

func main() {
	(&consnet.StdCheck{
		ID: "C12", Level: "model_checking", Focus: []string{"C12"}, DeathProp: "C12",
		Build: func(run *core.Run) ([]*consnet.Scenario, string, map[string]interface{}) {
			d := run.Pick(2, 3)
			cfgs := []consnet.Scenario{
				{Powers: []int64{1, 1, 1, 1}, Byz: 0, Heights: 2},
			}
			if !run.Quick() {
				cfgs = append(cfgs,
					consnet.Scenario{Powers: []int64{1, 1, 1, 1}, Byz: 1, Heights: 2},
					consnet.Scenario{Powers: []int64{1, 1, 1, 3}, Byz: 0, Heights: 2},
					consnet.Scenario{Powers: []int64{2, 2, 3}, Byz: -1, Heights: 2},
				)
			}
			full := func(cfg consnet.Scenario) []consnet.Rule {
				return consnet.BuildMenu(consnet.MenuOpts{N: len(cfg.Powers), Byz: cfg.Byz, Rounds: []int64{0, 1}, Heights: []int64{1},
					Hold: true, Mute: !run.Quick(), Early: true, ByzBasic: true, ByzSplit: true, SplitAlt: []string{"nil", "alt"}, Lifo: !run.Quick()})
			}
			var scs []*consnet.Scenario
			// a validator-set change in block 1 (validator 3: power 1 -> 5) followed by every single rule
			vcCfg := []consnet.Scenario{{Powers: []int64{1, 1, 1, 1}, Byz: 0, Heights: 3, ValChange: &consnet.ValChange{Height: 1, Index: 3, Power: 5}}}
			scs = append(scs, consnet.Product(vcCfg, full, 1)...)
			if run.Quick() {
				// quick: every single rule of the full menu, every pair of round-0 rules
				small := func(cfg consnet.Scenario) []consnet.Rule {
					return consnet.BuildMenu(consnet.MenuOpts{N: len(cfg.Powers), Byz: cfg.Byz, Rounds: []int64{0}, Heights: []int64{1},
						Hold: true, Early: true, ByzBasic: true, ByzSplit: true, SplitAlt: []string{"nil", "alt"}})
				}
				seen := map[string]bool{}
				for _, sc := range append(consnet.Product(cfgs, full, 1), consnet.Product(cfgs, small, 2)...) {
					if k := sc.String(); !seen[k] {
						seen[k] = true
						scs = append(scs, sc)
					}
				}
			} else {
				scs = append(scs, consnet.Product(cfgs, full, d)...)
			}
			// crash of each honest node before every (quick: every 3rd) durable write in a fork attempt that only
			// the crashed node's restored lock prevents - with the harness repair of the reloaded proposer and without
			forkAttempt := []consnet.Rule{{Kind: "hold", Node: 3, Msg: "prevote", Round: 0}, {Kind: "byz-split", Msg: "precommit", Round: 0, Set: []int{2}, Alt: "nil"}, {Kind: "byz-fresh", Round: 1}}
			crashBases := []consnet.Scenario{
				{Powers: []int64{1, 1, 1, 1}, Byz: 1, Heights: 2, Rules: forkAttempt},
				{Powers: []int64{1, 1, 1, 1}, Byz: 1, Heights: 2, Rules: forkAttempt, NoProposerFix: true},
			}
			// ... and in a height that goes through six undecided rounds (two nodes do not see the proposal of a
			// round, the prevotes split 2:2): a validator restarted late in such a height must come back
			var many []consnet.Rule
			plain := consnet.Scenario{Powers: []int64{1, 1, 1, 1}, Byz: -1, Heights: 1}
			for r := int64(0); r < 6; r++ {
				p := consnet.ProposerAt(&plain, 1, r)
				held := 0
				for j := 3; j >= 0 && held < 2; j-- {
					if j != p {
						many = append(many, consnet.Rule{Kind: "hold", Node: j, Msg: "proposal", Round: r})
						held++
					}
				}
			}
			crashBases = append(crashBases, consnet.Scenario{Powers: []int64{1, 1, 1, 1}, Byz: -1, Heights: 1, Rules: many})
			crashes, crashInfo := consnet.CrashScenarios(crashBases, run.WorkDir()+"/crashref", run.Pick(3, 1), []int{0, 1})
			scs = append(scs, crashes...)
			// delay-bounded scheduling: every single (thorough: also pairs of) non-default choice at
			// every scheduling decision of three base executions
			devBases := []consnet.Scenario{
				{Powers: []int64{1, 1, 1, 1}, Byz: -1, Heights: 2},
				{Powers: []int64{1, 1, 1, 1}, Byz: 0, Heights: 2, Rules: []consnet.Rule{{Kind: "byz-silent", Msg: "proposal", Round: 0}}},
				{Powers: []int64{1, 1, 1, 1}, Byz: -1, Heights: 2, Rules: []consnet.Rule{{Kind: "hold", Node: 1, Msg: "proposal", Round: 0}, {Kind: "hold", Node: 3, Msg: "prevote", Round: 0}}},
			}
			if run.Quick() {
				devBases = devBases[:1]
			}
			devs, devInfo := consnet.DeviationScenarios(devBases, run.Pick(1, 2), run.WorkDir()+"/devref", 20000)
			scs = append(scs, devs...)
			bounds := map[string]interface{}{"deviation_bound": d, "validators": 4, "heights": 2, "rounds_named_by_rules": []int{0, 1}, "delay_bounded_schedules": len(devs), "delay_bounded_info": devInfo, "crash_scenarios": len(crashes), "crash_info": crashInfo}
			return scs, "delay-bounded scheduling (every non-default input choice - other pending delivery, early/deferred delivery, any armed timeout, skipped turn - at every scheduling decision of the base executions; thorough: pairs) plus every compatible subset of <= d deviation rules (quick: all single rules naming rounds 0-1 and all pairs of round-0 rules; thorough: all subsets of size <= 3 of the full menu, budget-capped) (hold/mute/early-timeout/Byzantine silent, equivocating proposal, fresh proposal, split votes, future-round votes) over 4 real ConsensusState machines (one Byzantine, honest by default), each execution run to 2 committed heights under the fair default schedule; distinct = distinct (committed block per node and height, max round) outcomes",
				bounds
		},
		Budget: func(run *core.Run) time.Duration {
			if run.Quick() {
				return 600 * time.Second // a safety net: the quick list completes in 1-3 minutes unless the machine is heavily loaded
			}
			return 12 * time.Minute
		},
		Extra: func(run *core.Run, cov core.Coverage) {
			consnet.RunTickerAndHookDriver(run, cov)
			consnet.RunSoloLivenessDriver(run, cov)
		},
		Assume: []string{"the real timeoutTicker and types.Hook (replaced by harness objects in the gated executions) are driven separately with real goroutines: every schedule sequence of <= 2 (thorough 3) timeouts over 16 height/round/step values and every sequence of <= 3 (4) Sync/Async hook calls with succeeding and failing callbacks; progress-based oracle, a candidate is reported only when it reproduces 5/5", "Byzantine validators sign only with their own key; hash and signature schemes are sound",
			"network model: every message ever sent stays deliverable; the default schedule hands a message to a node when its round state can use it (as gossip does); rules withhold, duplicate, reorder or forge",
			"toy application (app hash = hash of the block) behind the real hook interface"},
	}).Main()
}
