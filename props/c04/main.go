// C04 — locking discipline (proof-of-lock rules), CONSNET monitor on every emitted vote.
// height; every honest chain is linear.  CONSNET engine (DESIGN §4.3, §5 C01).
package main

import (
	"fmt"
	"strings"
	"time"

	"verif/consnet"
	"verif/core"
)

func main() {
	(&consnet.StdCheck{
		ID: "C04", Level: "model_checking", Focus: []string{"C04"},
		Build: func(run *core.Run) ([]*consnet.Scenario, string, map[string]interface{}) {
			d := run.Pick(2, 3)
			cfgs := []consnet.Scenario{
				{Powers: []int64{1, 1, 1, 1}, Byz: 0, Heights: 2},
			}
			if !run.Quick() {
				cfgs = append(cfgs,
					consnet.Scenario{Powers: []int64{1, 1, 1, 1}, Byz: 1, Heights: 2},
					consnet.Scenario{Powers: []int64{1, 1, 1, 3}, Byz: 0, Heights: 2},
					consnet.Scenario{Powers: []int64{2, 2, 3}, Byz: -1, Heights: 2},
				)
			}
			full := func(cfg consnet.Scenario) []consnet.Rule {
				return consnet.BuildMenu(consnet.MenuOpts{N: len(cfg.Powers), Byz: cfg.Byz, Rounds: []int64{0, 1}, Heights: []int64{1},
					Hold: true, Mute: !run.Quick(), Early: true, ByzBasic: true, ByzSplit: true, SplitAlt: []string{"nil", "alt"}, Lifo: !run.Quick()})
			}
			var scs []*consnet.Scenario
			// a validator-set change in block 1 (validator 3: power 1 -> 5) followed by every single rule
			vcCfg := []consnet.Scenario{{Powers: []int64{1, 1, 1, 1}, Byz: 0, Heights: 3, ValChange: &consnet.ValChange{Height: 1, Index: 3, Power: 5}}}
			scs = append(scs, consnet.Product(vcCfg, full, 1)...)
			if run.Quick() {
				// quick: every single rule of the full menu, every pair of round-0 rules
				small := func(cfg consnet.Scenario) []consnet.Rule {
					return consnet.BuildMenu(consnet.MenuOpts{N: len(cfg.Powers), Byz: cfg.Byz, Rounds: []int64{0}, Heights: []int64{1},
						Hold: true, Early: true, ByzBasic: true, ByzSplit: true, SplitAlt: []string{"nil", "alt"}})
				}
				seen := map[string]bool{}
				for _, sc := range append(consnet.Product(cfgs, full, 1), consnet.Product(cfgs, small, 2)...) {
					if k := sc.String(); !seen[k] {
						seen[k] = true
						scs = append(scs, sc)
					}
				}
			} else {
				scs = append(scs, consnet.Product(cfgs, full, d)...)
			}
			// crash of each honest node before every (quick: every 3rd) durable write in a fork attempt that only
			// the crashed node's restored lock prevents - with the harness repair of the reloaded proposer and without
			forkAttempt := []consnet.Rule{{Kind: "hold", Node: 3, Msg: "prevote", Round: 0}, {Kind: "byz-split", Msg: "precommit", Round: 0, Set: []int{2}, Alt: "nil"}, {Kind: "byz-fresh", Round: 1}}
			crashBases := []consnet.Scenario{
				{Powers: []int64{1, 1, 1, 1}, Byz: 1, Heights: 2, Rules: forkAttempt},
				{Powers: []int64{1, 1, 1, 1}, Byz: 1, Heights: 2, Rules: forkAttempt, NoProposerFix: true},
			}
			crashes, crashInfo := consnet.CrashScenarios(crashBases, run.WorkDir()+"/crashref", run.Pick(3, 1), []int{0, 1})
			scs = append(scs, crashes...)
			// delay-bounded scheduling: every single (thorough: also pairs of) non-default choice at
			// every scheduling decision of three base executions
			devBases := []consnet.Scenario{
				{Powers: []int64{1, 1, 1, 1}, Byz: -1, Heights: 2},
				{Powers: []int64{1, 1, 1, 1}, Byz: 0, Heights: 2, Rules: []consnet.Rule{{Kind: "byz-silent", Msg: "proposal", Round: 0}}},
				{Powers: []int64{1, 1, 1, 1}, Byz: -1, Heights: 2, Rules: []consnet.Rule{{Kind: "hold", Node: 1, Msg: "proposal", Round: 0}, {Kind: "hold", Node: 3, Msg: "prevote", Round: 0}}},
			}
			if run.Quick() {
				devBases = devBases[:1]
			}
			devs, devInfo := consnet.DeviationScenarios(devBases, run.Pick(1, 2), run.WorkDir()+"/devref", 20000)
			scs = append(scs, devs...)
			bounds := map[string]interface{}{"deviation_bound": d, "validators": 4, "heights": 2, "rounds_named_by_rules": []int{0, 1}, "delay_bounded_schedules": len(devs), "delay_bounded_info": devInfo, "crash_scenarios": len(crashes), "crash_info": crashInfo}
			return scs, "delay-bounded scheduling (every non-default input choice - other pending delivery, early/deferred delivery, any armed timeout, skipped turn - at every scheduling decision of the base executions; thorough: pairs) plus every compatible subset of <= d deviation rules (quick: all single rules naming rounds 0-1 and all pairs of round-0 rules; thorough: all subsets of size <= 3 of the full menu, budget-capped) (hold/mute/early-timeout/Byzantine silent, equivocating proposal, fresh proposal, split votes, future-round votes) over 4 real ConsensusState machines (one Byzantine, honest by default), each execution run to 2 committed heights under the fair default schedule; distinct = distinct (committed block per node and height, max round) outcomes",
				bounds
		},
		Budget: func(run *core.Run) time.Duration {
			if run.Quick() {
				return 600 * time.Second // a safety net: the quick list completes in 1-3 minutes unless the machine is heavily loaded
			}
			return 12 * time.Minute
		},
		Extra: soloDriver,
		Assume: []string{"Byzantine validators sign only with their own key; hash and signature schemes are sound",
			"network model: every message ever sent stays deliverable; the default schedule hands a message to a node when its round state can use it (as gossip does); rules withhold, duplicate, reorder or forge",
			"toy application (app hash = hash of the block) behind the real hook interface"},
	}).Main()
}

// soloDriver: breadth-first search over round scripts played to ONE real
// validator by a fully adversarial environment (the harness holds the other
// three keys).  States are deduplicated by (round-state digest, monitor lock).
func soloDriver(run *core.Run, cov core.Coverage) {
	// pass "deep": four rounds, narrow menus after round 0 (both tiers; completes in a minute or two)
	soloPass(run, cov, true, "solo", 600) // safety net; completes in 1-2 minutes unless the machine is heavily loaded
	if !run.Quick() {
		// pass "wide": three rounds with the wide menus incl. late votes, then two narrow rounds, time-capped
		soloPass(run, cov, false, "solo_wide", 420)
	}
}

// soloPass: deep = the quick tier's plan (wide menu in round 0 only, pruned frontier).
func soloPass(run *core.Run, cov core.Coverage, deep bool, tag string, seconds int) {
	// rounds 0-1 (wide pass 0-2) with the wide per-round menus, two further rounds with the narrow menu
	// (a lock taken in round 1 or renewed in round 2 must survive the late polka of an earlier round)
	wideRounds := 2
	if !deep {
		wideRounds = 3
	}
	rounds := wideRounds + 2
	deadline := time.Now().Add(time.Duration(seconds) * time.Second)
	type st struct {
		steps  []consnet.SoloStep
		lock   string
		powers []int64
	}
	// round 0 is played on three power vectors whose totals cover every residue mod 3
	// (quorum arithmetic at the exact-2/3 boundary); deeper rounds on equal powers
	frontier := []st{{powers: []int64{1, 1, 1, 1}}, {powers: []int64{1, 1, 1, 2}}, {powers: []int64{1, 1, 2, 2}}}
	seen := map[string]bool{}
	runs, transitions, viol := 0, 0, 0
	complete := 0
	for r := 0; r < rounds; r++ {
		var scs []*consnet.Scenario
		for _, f := range frontier {
			var scripts [][]consnet.SoloStep
			narrow := r >= wideRounds || (deep && r > 0)
			switch {
			case narrow:
				// narrow menu: from round 2 on the whole narrow menu for states whose lock was taken or renewed in
				// the round before (a lock of round r-1 facing the late polka of an earlier round is the history
				// these rounds are for), three scripts for older locks
				if r > 1 && f.lock == "" {
					continue
				}
				scripts = consnet.SoloNarrowScripts(int64(r))
				if r > 1 && !strings.HasPrefix(f.lock, fmt.Sprintf("%d/", r-1)) {
					// an older lock: only idle / renew / the other block's polka
					scripts = [][]consnet.SoloStep{scripts[0], scripts[3], scripts[4]}
				}
			case r > 1 && f.lock == "":
				continue // wide menus in deeper rounds: only states that hold a lock are expanded (the discipline under test)
			default:
				scripts = consnet.SoloRoundScriptsLate(int64(r), r > 0)
				if deep {
					scripts = consnet.SoloRoundScripts(int64(r), r > 0)
				}
			}
			for _, s := range scripts {
				steps := append(append([]consnet.SoloStep{}, f.steps...), s...)
				scs = append(scs, &consnet.Scenario{ID: len(scs), Powers: f.powers, Byz: -1, Heights: 1, Mode: "nohash", Solo: &consnet.SoloSpec{Node: 2, Steps: steps}})
			}
		}
		var next []st
		levelDone := true
		for len(scs) > 0 {
			if time.Now().After(deadline) {
				levelDone = false
				cov[tag+"_scripts_skipped_by_budget"] = len(scs)
				break
			}
			k := 256
			if k > len(scs) {
				k = len(scs)
			}
			chunk := scs[:k]
			scs = scs[k:]
			consnet.RunPool(chunk, consnet.PoolOpts{WorkBase: run.WorkDir() + "/" + tag}, func(o consnet.CaseOutcome) {
				runs++
				if o.Res == nil {
					if o.Died && o.PanicLine != "" {
						run.Notes = append(run.Notes, "solo driver: node goroutine panicked (counted under C08): "+o.PanicLine+" in "+o.Sc.String())
					}
					return
				}
				transitions += o.Res.Steps
				for _, v := range o.Res.Viols {
					if v.Prop == "C04" {
						viol++
						v.Sig["driver"] = "solo"
						run.Report(v.Sig, o.Sc, v.Detail+" | "+o.Sc.String())
					}
				}
				k := fmt.Sprint(o.Sc.Powers) + consnet.SoloKey(o.Res)
				if !seen[k] {
					seen[k] = true
					if len(o.Res.Commits) == 0 {
						lock := o.Res.Extra["lock"]
						if strings.HasSuffix(lock, "/") {
							lock = ""
						}
						if o.Sc.Powers[3] == 1 && o.Sc.Powers[2] == 1 && (!deep || quickFrontier(o.Sc.Solo.Steps)) {
							next = append(next, st{o.Sc.Solo.Steps, lock, o.Sc.Powers})
						}
					}
				}
			})
		}
		if !levelDone {
			break
		}
		complete = r + 1
		cov[fmt.Sprintf("%s_frontier_after_round_%d", tag, r)] = len(next)
		frontier = next
		if len(frontier) == 0 {
			break
		}
	}
	cov[tag+"_scripts_executed"] = runs
	cov[tag+"_distinct_states"] = len(seen)
	cov[tag+"_rounds_completed"] = complete
	cov[tag+"_rounds_planned"] = rounds
	cov[tag+"_inputs_processed"] = transitions
	if s, ok := cov["states"].(int); ok {
		cov["states"] = s + len(seen)
	}
	if t, ok := cov["transitions"].(int); ok {
		cov["transitions"] = t + transitions
	}
	if complete < rounds {
		cov["exhaustive"] = false
	}
}

// quickFrontier: the quick tier continues only from states reached by the core inputs (no precommits from
// the others except all-nil, prevotes all-one-block, all-nil, split, or two of three for one block - the
// incomplete polka a late vote can complete); every round-0 script is still executed and judged.
func quickFrontier(steps []consnet.SoloStep) bool {
	for _, s := range steps {
		switch s.Kind {
		case "prevotes":
			switch s.Arg {
			case "AAA", "BBB", "NNN", "ABN", "AA-", "BB-":
			default:
				return false
			}
		case "precommits":
			if s.Arg != "NNN" {
				return false
			}
		}
	}
	return true
}
