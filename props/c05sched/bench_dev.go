package main

import (
	"encoding/json"
	"fmt"
	"os"
	"runtime/pprof"
	"time"

	"verif/evmkit"
	"verif/sched"
	"verif/sched/c05b"
)

func init() {
	if len(os.Args) > 1 && os.Args[1] == "bench" {
		go bench()
		select {}
	}
}

func bench() {
	{
		evmkit.Silence()
		kinds := "VBU"
		if len(os.Args) > 2 {
			kinds = os.Args[2]
		}
		cfg, _ := json.Marshal(c05b.Config{Kinds: kinds, Validators: 2})
		f, _ := os.Create("/verif/.work/c05sched/cpu.prof")
		pprof.StartCPUProfile(f)
		t0 := time.Now()
		n := 2000
		steps := 0
		for i := 0; i < n; i++ {
			x, _, err := sched.RunOnce(c05b.Program, cfg, nil, nil, nil, 4000, false)
			if err != nil {
				panic(err)
			}
			steps += x.Steps
		}
		pprof.StopCPUProfile()
		d := time.Since(t0)
		fmt.Printf("%d executions, %d steps each, %v per execution\n", n, steps/n, d/time.Duration(n))
		os.Exit(0)
	}
}
