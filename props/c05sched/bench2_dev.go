package main

import (
	"fmt"
	"os"
	"time"

	"verif/sched"
)

func init() {
	if len(os.Args) > 1 && os.Args[1] == "selftest" {
		go func() {
			t0 := time.Now()
			m := sched.SelfTest()
			fmt.Println(time.Since(t0), m["selftest_schedules"])
			os.Exit(0)
		}()
		select {}
	}
}
