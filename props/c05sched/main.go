// c05sched runs the SCHED part of property C05 stand-alone
// (`./vcheck c05sched quick`).  The exploration itself is the library
// verif/sched/c05b; the C05 check calls the same library once merged:
//
//	if run.ReplayPath != "" && c05b.Replay(run) { run.Finish(nil, nil) }
//	cov["sched"] = c05b.Run(run); assumptions = append(assumptions, c05b.Assumptions()...)
//
// and needs this directory's BUILDFLAGS and prebuild.sh (overlay + race binary).
package main

import (
	"verif/core"
	"verif/sched/c05b"
)

func main() {
	run := core.Start("C05", "model_checking", "SCHED")
	if run.ReplayPath != "" {
		if !c05b.Replay(run) {
			core.Fatal("%s is not a SCHED replay artefact of C05", run.ReplayPath)
		}
		run.Finish(nil, nil)
	}
	cov := c05b.Run(run)
	run.Finish(cov, c05b.Assumptions())
}
