#!/bin/bash
# Detection demonstrations for the SCHED part of C05 ("overlay on overlay"):
# each mutant is a copy of the CURRENT /repo/chain/app/evm/verifycpuparallel.go
# with one realistic change; overlaygen reads the copy instead of the repo file
# (VERIF_OVERLAY_SUBST), the check is built by hand against that overlay and run
# in the quick tier with a private VERIF_ROOT, so neither /repo nor the real
# evidence/replays are touched (exit 1 = caught).  The two revert-* mutants
# take back the repairs of the two defects this check found (commit bea6724 in
# /repo): they must be caught again, with the original signatures.
#   usage: props/c05sched/mutants.sh [name...]      (default: all)
set -u
ROOT=$(cd "$(dirname "$0")/../.." && pwd)
REPO=${VERIF_REPO:-/repo}
export GOFLAGS=-mod=mod GOPROXY=off GOSUMDB=off GOTOOLCHAIN=local
SRC=chain/app/evm/verifycpuparallel.go
ALL="exec-on-checking drop-done no-recheck-after-wait claim-without-cas revert-err-fix revert-oribys-fix"
[ $# -gt 0 ] && ALL="$*"
for m in $ALL; do
  W=$ROOT/.work/c05sched/mut/$m
  rm -rf "$W"; mkdir -p "$W/root"
  cp "$ROOT/known_findings.txt" "$W/root/"
  python3 - "$REPO/$SRC" "$W/mutant.go" "$m" <<'PY' || { echo "MUTANT $m: cannot apply (source changed?)"; continue; }
import sys
src, dst, m = sys.argv[1:4]
s = open(src).read()
def rep(old, new, count=1):
    global s
    assert s.count(old) >= 1, "pattern not found: " + old
    s = s.replace(old, new, count)
if m == "exec-on-checking":      # DESIGN C05 D: execute on Checking as well as Checked
    rep("\t\t\t\tcase appTxStatusChecked:\n", "\t\t\t\tcase appTxStatusChecked, appTxStatusChecking:\n")
elif m == "drop-done":           # the per-tx WaitGroup is never released
    rep("\tdefer tx.ready.Done()\n", "")
elif m == "no-recheck-after-wait":  # trust Wait() instead of re-reading the status word
    rep("\t\t\t\tdefault:\n\t\t\t\t\tpcur.ready.Wait()\n",
        "\t\t\t\tdefault:\n\t\t\t\t\tpcur.ready.Wait()\n\t\t\t\t\tif atomic.LoadInt32(&pcur.status) != appTxStatusFailed {\n\t\t\t\t\t\tpcur.err = exec(i, pcur.rawbytes, pcur.tx)\n\t\t\t\t\t}\n\t\t\t\t\tbreak INNERFOR\n")
elif m == "claim-without-cas":   # validators claim a tx with load+store instead of compare-and-swap
    rep("\tswapped := atomic.CompareAndSwapInt32(&tx.status, appTxStatusInit, appTxStatusChecking)\n",
        "\tswapped := atomic.LoadInt32(&tx.status) == appTxStatusInit\n\tif swapped {\n\t\tatomic.StoreInt32(&tx.status, appTxStatusChecking)\n\t}\n")
elif m == "revert-err-fix":      # defect 1 again: status Failed published before tx.err
    rep("\t\ttx.err = err // the error must be visible before the status that announces it\n", "")
elif m == "revert-oribys-fix":   # defect 2 again: status Init published before oribys
    rep("\tif j == 0 {\n\t\t// publish the original bytes before the status that makes this entry visible\n\t\tapptxQ[i][j].oribys = tptx\n\t}\n", "")
else:
    sys.exit("unknown mutant " + m)
open(dst, "w").write(s)
PY
  ( cd "$ROOT" && C05B_NO_RACE=1 VERIF_OVERLAY_SUBST="$SRC=$W/mutant.go" ./props/c05sched/prebuild.sh "$W" 2>"$W/prebuild.log" \
      && go build -tags verif -overlay "$W/overlay.json" -o "$W/bin" ./props/c05sched ) || { echo "MUTANT $m: BUILD FAILED (see $W/prebuild.log)"; continue; }
  start=$(date +%s)
  VERIF_ROOT="$W/root" C05B_RACE_BIN=/nonexistent ${MUT_ENV:-} "$W/bin" quick > "$W/out.txt" 2>"$W/err.txt"
  rc=$?
  echo "MUTANT $m: exit $rc ($(( $(date +%s) - start )) s)"
  grep -A1 -E "^VIOLATION|^KNOWN-FINDING|INTERNAL" "$W/out.txt" "$W/err.txt" | grep -E "sig:|KNOWN-FINDING|INTERNAL" | cut -c1-260 | sed 's/^/    /'
done
