// C17 — block parts and Merkle proofs: only genuine parts accepted, exact
// reassembly.  Exhaustive small-scope enumeration on the real types.PartSet and
// go-merkle simple tree (DESIGN §5 C17).  Concurrent deliveries of parts (the
// reactor delivers from one goroutine per peer) are a separate binary
// (props/c17sched: SCHED exploration of every interleaving up to a preemption
// bound, built with the import-rewriting overlay by prebuild.sh); runSchedPart
// runs it and merges its evidence and violations.
package main

import (
	"bytes"
	"encoding/json"
	"fmt"
	"io"
	"io/ioutil"
	"os"
	"os/exec"
	"path/filepath"
	"strings"
	"sync/atomic"

	"verif/core"

	merkle "github.com/dappledger/AnnChain/gemmill/modules/go-merkle"
	"github.com/dappledger/AnnChain/gemmill/types"
)

// ---------------------------------------------------------------- part sets

type partCase struct {
	Kind     string `json:"kind"` // "arrival" | "mutant" | "merkle"
	Pattern  string `json:"pattern,omitempty"`
	Len      int    `json:"len"`
	PartSize int    `json:"part_size"`
	Order    []int  `json:"order,omitempty"`  // arrival: indices in arrival order (with a duplicate)
	Part     int    `json:"part,omitempty"`   // mutant: which part is mutated
	Mutant   string `json:"mutant,omitempty"` // mutant name
	Arg      int    `json:"arg,omitempty"`    // mutant argument
	Pre      string `json:"pre,omitempty"`    // receiver pre-state: empty | others | all-but-target... see code
	Leaves   int    `json:"leaves,omitempty"` // merkle
	Index    int    `json:"index,omitempty"`  // merkle
	Total    int    `json:"total,omitempty"`  // merkle
	Leaf     int    `json:"leaf,omitempty"`   // merkle: which leaf hash is offered
	ProofOf  int    `json:"proof_of,omitempty"`
}

func mkData(pattern string, n int) []byte {
	d := make([]byte, n)
	for i := range d {
		switch pattern {
		case "distinct":
			d[i] = byte(i*7 + 1)
		case "zero":
			d[i] = 0
		}
	}
	return d
}

func clonePart(p *types.Part) *types.Part {
	q := &types.Part{Index: p.Index, Bytes: append([]byte(nil), p.Bytes...)}
	if p.Proof.Aunts != nil {
		q.Proof.Aunts = make([][]byte, len(p.Proof.Aunts))
		for i, a := range p.Proof.Aunts {
			q.Proof.Aunts[i] = append([]byte(nil), a...)
		}
	}
	return q
}

func partsEqual(a, b *types.Part) bool {
	if a.Index != b.Index || !bytes.Equal(a.Bytes, b.Bytes) || len(a.Proof.Aunts) != len(b.Proof.Aunts) {
		return false
	}
	for i := range a.Proof.Aunts {
		if !bytes.Equal(a.Proof.Aunts[i], b.Proof.Aunts[i]) {
			return false
		}
	}
	return true
}

// readAll reads r with read buffers of size chunk (0 = ioutil.ReadAll).
func readAll(r io.Reader, chunk int) ([]byte, error) {
	if chunk == 0 {
		return ioutil.ReadAll(r)
	}
	var out []byte
	buf := make([]byte, chunk)
	for guard := 0; guard < 100000; guard++ {
		n, err := r.Read(buf)
		out = append(out, buf[:n]...)
		if err == io.EOF {
			return out, nil
		}
		if err != nil {
			return out, err
		}
	}
	return out, fmt.Errorf("reader did not terminate")
}

type model struct {
	total   int
	present []bool
	count   int
}

func checkObservers(ps *types.PartSet, m *model) string {
	if ps.Count() != m.count {
		return fmt.Sprintf("Count=%d want %d", ps.Count(), m.count)
	}
	if ps.IsComplete() != (m.count == m.total) {
		return fmt.Sprintf("IsComplete=%v with %d/%d", ps.IsComplete(), m.count, m.total)
	}
	ba := ps.BitArray()
	for i := 0; i < m.total; i++ {
		if ba.GetIndex(i) != m.present[i] {
			return fmt.Sprintf("BitArray[%d]=%v want %v", i, ba.GetIndex(i), m.present[i])
		}
		if (ps.GetPart(i) != nil) != m.present[i] {
			return fmt.Sprintf("GetPart(%d) presence mismatch", i)
		}
	}
	return ""
}

func checkComplete(ps *types.PartSet, sender *types.PartSet, data []byte) string {
	if !ps.IsComplete() {
		return "not complete after all genuine parts"
	}
	if !bytes.Equal(ps.Hash(), sender.Hash()) || !ps.HasHeader(sender.Header()) {
		return "header/hash differs from sender"
	}
	for _, chunk := range []int{0, 1, 2, 3, 7, 64} {
		got, err := readAll(ps.GetReader(), chunk)
		if err != nil {
			return fmt.Sprintf("reader error (chunk %d): %v", chunk, err)
		}
		if !bytes.Equal(got, data) {
			return fmt.Sprintf("reassembled bytes differ (chunk %d): got %x want %x", chunk, got, data)
		}
	}
	return ""
}

type ctx struct {
	run     *core.Run
	evals   int64
	classes *core.Counter
	samples *core.Sampler
}

func (c *ctx) violation(kase partCase, site, kind, detail string) {
	sig := map[string]string{"site": site, "kind": kind, "mutant": kase.Mutant, "case": kase.Kind}
	c.run.Report(sig, kase, detail)
}

// runArrival: genuine parts in the given order (may contain duplicates).
func (c *ctx) runArrival(kase partCase) {
	atomic.AddInt64(&c.evals, 1)
	data := mkData(kase.Pattern, kase.Len)
	var sender, recv *types.PartSet
	if p, v, st := core.Try(func() {
		sender = types.NewPartSetFromData(data, kase.PartSize)
		recv = types.NewPartSetFromHeader(sender.Header())
	}); p {
		c.violation(kase, core.PanicSite(st), "panic", fmt.Sprintf("panic building part set: %v", core.FirstLine(v)))
		return
	}
	total := sender.Total()
	want := (kase.Len + kase.PartSize - 1) / kase.PartSize
	if total != want {
		c.violation(kase, "NewPartSetFromData", "wrong-total", fmt.Sprintf("total=%d want %d", total, want))
		return
	}
	m := &model{total: total, present: make([]bool, total)}
	p, v, st := core.Try(func() {
		if msg := checkObservers(recv, m); msg != "" {
			c.violation(kase, "PartSet", "observer", "fresh set: "+msg)
			return
		}
		for step, idx := range kase.Order {
			part := clonePart(sender.GetPart(idx))
			added, err := recv.AddPart(part, true)
			wantAdded := !m.present[idx]
			if added != wantAdded || (wantAdded && err != nil) {
				c.violation(kase, "PartSet.AddPart", "genuine-part-verdict", fmt.Sprintf("step %d part %d: added=%v err=%v, want added=%v", step, idx, added, err, wantAdded))
				return
			}
			if wantAdded {
				m.present[idx] = true
				m.count++
			}
			if msg := checkObservers(recv, m); msg != "" {
				c.violation(kase, "PartSet", "observer", fmt.Sprintf("after step %d: %s", step, msg))
				return
			}
		}
		if m.count == total {
			if msg := checkComplete(recv, sender, data); msg != "" {
				c.violation(kase, "PartSet.GetReader", "reassembly", msg)
			}
		}
	})
	if p {
		c.violation(kase, core.PanicSite(st), "panic", fmt.Sprintf("panic: %v", core.FirstLine(v)))
	}
}

// mutants of one part
type mutant struct {
	name string
	arg  int
}

func mutantsFor(total, i, nAunts, nBytes int) []mutant {
	var ms []mutant
	for _, idx := range []int{-2, -1, i - 1, i + 1, total, total + 1, 1 << 31} {
		if idx == i {
			continue
		}
		name := "index-other"
		switch {
		case idx < 0:
			name = "index-negative"
		case idx >= total:
			name = "index-too-large"
		}
		ms = append(ms, mutant{name, idx})
	}
	if nBytes > 0 {
		for _, pos := range uniq([]int{0, nBytes / 2, nBytes - 1}) {
			ms = append(ms, mutant{"byte-flip", pos})
		}
		ms = append(ms, mutant{"bytes-drop-last", 0})
	}
	ms = append(ms, mutant{"bytes-append", 0}, mutant{"bytes-empty", 0})
	for a := 0; a < nAunts; a++ {
		ms = append(ms, mutant{"aunt-flip", a}, mutant{"aunt-drop", a}, mutant{"aunt-dup", a})
	}
	for a := 0; a <= nAunts; a++ {
		ms = append(ms, mutant{"aunt-insert", a}) // a junk hash inserted at every position, front included
	}
	ms = append(ms, mutant{"aunt-append", 0}, mutant{"aunts-nil", 0})
	for j := 0; j < total; j++ {
		if j != i {
			ms = append(ms, mutant{"proof-of-other", j}, mutant{"other-part-this-index", j})
		}
	}
	return ms
}

func uniq(a []int) []int {
	var o []int
	seen := map[int]bool{}
	for _, x := range a {
		if !seen[x] {
			seen[x] = true
			o = append(o, x)
		}
	}
	return o
}

func applyMutant(sender *types.PartSet, i int, mu mutant) *types.Part {
	p := clonePart(sender.GetPart(i))
	switch mu.name {
	case "index-negative", "index-too-large", "index-other":
		p.Index = mu.arg
	case "byte-flip":
		p.Bytes[mu.arg] ^= 0x01
	case "bytes-drop-last":
		p.Bytes = p.Bytes[:len(p.Bytes)-1]
	case "bytes-append":
		p.Bytes = append(p.Bytes, 0x5a)
	case "bytes-empty":
		p.Bytes = []byte{}
	case "aunt-flip":
		p.Proof.Aunts[mu.arg][0] ^= 0x80
	case "aunt-drop":
		p.Proof.Aunts = append(p.Proof.Aunts[:mu.arg:mu.arg], p.Proof.Aunts[mu.arg+1:]...)
	case "aunt-dup":
		a := append([][]byte{}, p.Proof.Aunts[:mu.arg+1]...)
		a = append(a, append([]byte(nil), p.Proof.Aunts[mu.arg]...))
		p.Proof.Aunts = append(a, p.Proof.Aunts[mu.arg+1:]...)
	case "aunt-insert":
		a := append([][]byte{}, p.Proof.Aunts[:mu.arg]...)
		a = append(a, bytes.Repeat([]byte{0x77}, 20))
		p.Proof.Aunts = append(a, p.Proof.Aunts[mu.arg:]...)
	case "aunt-append":
		p.Proof.Aunts = append(p.Proof.Aunts, bytes.Repeat([]byte{0x11}, 20))
	case "aunts-nil":
		p.Proof.Aunts = nil
	case "proof-of-other":
		p.Proof = clonePart(sender.GetPart(mu.arg)).Proof
	case "other-part-this-index":
		q := clonePart(sender.GetPart(mu.arg))
		q.Index = i
		p = q
	}
	return p
}

// runMutant: offer one mutated part to a receiver in a given pre-state; it must
// be accepted iff it is bit-identical to the genuine part at its index and that
// index is still missing; a rejected part must leave the set untouched and the
// set must still complete to the exact bytes.
func (c *ctx) runMutant(kase partCase) {
	atomic.AddInt64(&c.evals, 1)
	data := mkData(kase.Pattern, kase.Len)
	sender := types.NewPartSetFromData(data, kase.PartSize)
	total := sender.Total()
	recv := types.NewPartSetFromHeader(sender.Header())
	m := &model{total: total, present: make([]bool, total)}
	add := func(j int) {
		recv.AddPart(clonePart(sender.GetPart(j)), true)
		m.present[j] = true
		m.count++
	}
	switch kase.Pre {
	case "empty":
	case "others":
		for j := 0; j < total; j++ {
			if j != kase.Part {
				add(j)
			}
		}
	case "all":
		for j := 0; j < total; j++ {
			add(j)
		}
	}
	mp := applyMutant(sender, kase.Part, mutant{kase.Mutant, kase.Arg})
	genuine := false
	if mp.Index >= 0 && mp.Index < total && partsEqual(mp, sender.GetPart(mp.Index)) {
		genuine = true
	}
	wantAdded := genuine && !m.present[mp.Index]
	var added bool
	var err error
	if p, v, st := core.Try(func() { added, err = recv.AddPart(mp, true) }); p {
		c.violation(kase, core.PanicSite(st), "panic", fmt.Sprintf("AddPart panicked on %s(%d): %v", kase.Mutant, kase.Arg, core.FirstLine(v)))
		return
	}
	c.classes.Add(fmt.Sprintf("%s/%s/added=%v/err=%v", kase.Mutant, kase.Pre, added, err != nil))
	if added != wantAdded {
		c.violation(kase, "PartSet.AddPart", "accepts-non-genuine", fmt.Sprintf("mutant %s(%d) of part %d (total %d, pre %s): added=%v err=%v want added=%v", kase.Mutant, kase.Arg, kase.Part, total, kase.Pre, added, err, wantAdded))
		return
	}
	if wantAdded {
		m.present[mp.Index] = true
		m.count++
	}
	p, v, st := core.Try(func() {
		if msg := checkObservers(recv, m); msg != "" {
			c.violation(kase, "PartSet.AddPart", "rejected-part-changed-set", msg)
			return
		}
		for j := 0; j < total; j++ {
			if !m.present[j] {
				ok, e := recv.AddPart(clonePart(sender.GetPart(j)), true)
				if !ok || e != nil {
					c.violation(kase, "PartSet.AddPart", "set-corrupted", fmt.Sprintf("genuine part %d refused after mutant: %v %v", j, ok, e))
					return
				}
			}
		}
		if msg := checkComplete(recv, sender, data); msg != "" {
			c.violation(kase, "PartSet.GetReader", "set-corrupted", msg)
		}
	})
	if p {
		c.violation(kase, core.PanicSite(st), "panic", fmt.Sprintf("panic after mutant: %v", core.FirstLine(v)))
	}
}

// ---------------------------------------------------------------- merkle

type leafItem []byte

func (l leafItem) Hash() []byte { return []byte(l) }

func leafHash(i int) []byte {
	// distinct, fixed-size pseudo hashes
	b := bytes.Repeat([]byte{byte(i + 1)}, 20)
	b[0] = 0xA0
	return b
}

// pathShape returns the left/right path of (index,total) or "" if invalid.
func pathShape(index, total int) string {
	if index < 0 || total <= 0 || index >= total {
		return ""
	}
	if total == 1 {
		return "."
	}
	nl := (total + 1) / 2
	if index < nl {
		s := pathShape(index, nl)
		return s + "L"
	}
	return pathShape(index-nl, total-nl) + "R"
}

func (c *ctx) runMerkle(n int) {
	hashes := make([][]byte, n)
	items := make([]merkle.Hashable, n)
	for i := 0; i < n; i++ {
		hashes[i] = leafHash(i)
		items[i] = leafItem(hashes[i])
	}
	kbase := partCase{Kind: "merkle", Leaves: n}
	var root, root2 []byte
	var proofs []*merkle.SimpleProof
	if p, v, st := core.Try(func() {
		root = merkle.SimpleHashFromHashes(hashes)
		root2, proofs = merkle.SimpleProofsFromHashables(items)
	}); p {
		c.violation(kbase, core.PanicSite(st), "panic", core.FirstLine(v))
		return
	}
	atomic.AddInt64(&c.evals, 1)
	r3 := merkle.SimpleHashFromHashes(hashes)
	if !bytes.Equal(root, root2) || !bytes.Equal(root, r3) {
		c.violation(kbase, "merkle.SimpleHashFromHashes", "root-not-deterministic", fmt.Sprintf("n=%d roots %x %x %x", n, root, root2, r3))
		return
	}
	// binding: changing, dropping or swapping any leaf changes the root
	for i := 0; i < n; i++ {
		alt := make([][]byte, n)
		copy(alt, hashes)
		alt[i] = leafHash(100 + i)
		if bytes.Equal(merkle.SimpleHashFromHashes(alt), root) {
			c.violation(kbase, "merkle.SimpleHashFromHashes", "root-not-binding", fmt.Sprintf("n=%d leaf %d replaced, same root", n, i))
		}
		if n > 1 {
			drop := append(append([][]byte{}, hashes[:i]...), hashes[i+1:]...)
			if bytes.Equal(merkle.SimpleHashFromHashes(drop), root) {
				c.violation(kbase, "merkle.SimpleHashFromHashes", "root-not-binding", fmt.Sprintf("n=%d leaf %d dropped, same root", n, i))
			}
		}
		if i+1 < n {
			sw := make([][]byte, n)
			copy(sw, hashes)
			sw[i], sw[i+1] = sw[i+1], sw[i]
			if bytes.Equal(merkle.SimpleHashFromHashes(sw), root) {
				c.violation(kbase, "merkle.SimpleHashFromHashes", "root-not-binding", fmt.Sprintf("n=%d leaves %d,%d swapped, same root", n, i, i+1))
			}
		}
		atomic.AddInt64(&c.evals, 3)
	}
	if len(proofs) != n {
		c.violation(kbase, "merkle.SimpleProofsFromHashables", "proof-count", fmt.Sprintf("n=%d proofs=%d", n, len(proofs)))
		return
	}
	for i := 0; i < n; i++ {
		if g := proofs[i].GenRoot(i, n, hashes[i]); !bytes.Equal(g, root) {
			c.violation(kbase, "merkle.SimpleProof.GenRoot", "genuine-proof-fails", fmt.Sprintf("n=%d i=%d", n, i))
		}
		for idx := -2; idx <= 19; idx++ {
			for tot := -2; tot <= 19; tot++ {
				for _, leaf := range uniq([]int{i, (i + 1) % n, (i + n - 1) % n}) {
					atomic.AddInt64(&c.evals, 1)
					kase := partCase{Kind: "merkle", Leaves: n, ProofOf: i, Index: idx, Total: tot, Leaf: leaf}
					var ok bool
					if p, v, st := core.Try(func() { ok = proofs[i].Verify(idx, tot, hashes[leaf], root) }); p {
						shape := "total<=0"
						if tot > 0 {
							shape = "total>0"
						}
						neg := "index>=0"
						if idx < 0 {
							neg = "index<0"
						}
						c.run.Report(map[string]string{"site": core.PanicSite(st), "kind": "panic", "case": "merkle", "index": neg, "total": shape}, kase,
							fmt.Sprintf("Verify(index=%d,total=%d) panicked: %v", idx, tot, core.FirstLine(v)))
						continue
					}
					want := idx == i && tot == n && leaf == i
					if ok == want {
						continue
					}
					if !ok {
						c.run.Report(map[string]string{"site": "merkle.SimpleProof.Verify", "kind": "genuine-proof-fails", "case": "merkle"}, kase,
							fmt.Sprintf("genuine proof of leaf %d/%d does not verify", i, n))
						continue
					}
					// verified although not the genuine triple: classify
					kind := "accepts-wrong-leaf"
					switch {
					case leaf != i:
						kind = "accepts-wrong-leaf"
					case idx < 0:
						kind = "accepts-negative-index"
					case idx != i && tot == n:
						kind = "accepts-wrong-index"
					case pathShape(idx, tot) == pathShape(i, n):
						kind = "accepts-other-total-same-path-shape"
					default:
						kind = "accepts-wrong-index-total"
					}
					c.run.Report(map[string]string{"site": "merkle.SimpleProof.Verify", "kind": kind, "case": "merkle"}, kase,
						fmt.Sprintf("proof of leaf %d in tree of %d verifies for (index=%d,total=%d,leaf=%d)", i, n, idx, tot, leaf))
				}
			}
		}
	}
}

// ---------------------------------------------------------------- enumeration

func perms(n int) [][]int {
	if n == 0 {
		return [][]int{{}}
	}
	var out [][]int
	var rec func(cur []int, used []bool)
	rec = func(cur []int, used []bool) {
		if len(cur) == n {
			out = append(out, append([]int(nil), cur...))
			return
		}
		for i := 0; i < n; i++ {
			if !used[i] {
				used[i] = true
				rec(append(cur, i), used)
				used[i] = false
			}
		}
	}
	rec(nil, make([]bool, n))
	return out
}

func arrivalOrders(total int, thorough bool) [][]int {
	var out [][]int
	if total == 0 {
		return [][]int{{}}
	}
	if total <= 5 {
		for _, p := range perms(total) {
			// one duplicate of each part inserted at every later position
			for d := 0; d < total; d++ {
				for pos := 0; pos <= total; pos++ {
					o := append(append(append([]int{}, p[:pos]...), d), p[pos:]...)
					out = append(out, o)
				}
			}
			if !thorough && total == 5 {
				// quick tier: for total 5 keep all permutations but only end-position duplicates
				out = out[:len(out)-total*(total+1)]
				for d := 0; d < total; d++ {
					out = append(out, append(append([]int{}, p...), d))
				}
			}
		}
		return out
	}
	id := make([]int, total)
	for i := range id {
		id[i] = i
	}
	out = append(out, append([]int{}, id...))
	rev := make([]int, total)
	for i := range rev {
		rev[i] = total - 1 - i
	}
	out = append(out, append(rev, rev[0]))
	for i := 0; i+1 < total; i++ {
		o := append([]int{}, id...)
		o[i], o[i+1] = o[i+1], o[i]
		out = append(out, append(o, i))
	}
	return out
}

func main() {
	run := core.Start("C17", "model_checking", "XSTATE")
	c := &ctx{run: run, classes: core.NewCounter(), samples: core.NewSampler(6, run.Seed)}

	if run.ReplayPath != "" {
		if replaySched(run) {
			return
		}
		var k partCase
		if err := run.ReplayCase(&k); err != nil {
			core.Fatal("cannot load replay: %v", err)
		}
		switch k.Kind {
		case "arrival":
			c.runArrival(k)
		case "mutant":
			c.runMutant(k)
		case "merkle":
			c.runMerkle(k.Leaves)
		}
		run.Finish(nil, nil)
	}

	maxLen, maxPS := 40, 9
	var cases []partCase
	states := core.NewCounter()
	for _, pattern := range []string{"distinct", "zero"} {
		for l := 0; l <= maxLen; l++ {
			for ps := 1; ps <= maxPS; ps++ {
				total := (l + ps - 1) / ps
				for _, o := range arrivalOrders(total, !run.Quick()) {
					cases = append(cases, partCase{Kind: "arrival", Pattern: pattern, Len: l, PartSize: ps, Order: o})
				}
				if total == 0 {
					continue
				}
				sender := types.NewPartSetFromData(mkData(pattern, l), ps)
				for i := 0; i < total; i++ {
					p := sender.GetPart(i)
					for _, mu := range mutantsFor(total, i, len(p.Proof.Aunts), len(p.Bytes)) {
						for _, pre := range []string{"empty", "others", "all"} {
							cases = append(cases, partCase{Kind: "mutant", Pattern: pattern, Len: l, PartSize: ps, Part: i, Mutant: mu.name, Arg: mu.arg, Pre: pre})
						}
					}
				}
			}
		}
	}
	arrivals, mutants := 0, 0
	for _, k := range cases {
		if k.Kind == "arrival" {
			arrivals++
		} else {
			mutants++
		}
	}
	core.Par(len(cases), func(i int) {
		k := cases[i]
		// cases run concurrently on all cores: a panic anywhere inside the code under test
		// (also one caused by state shared between concurrent callers) is a verdict, not a crash of the check
		if p, v, st := core.Try(func() {
			if k.Kind == "arrival" {
				c.runArrival(k)
				states.Add(fmt.Sprintf("%s/%d/%d", k.Pattern, k.Len, k.PartSize))
			} else {
				c.runMutant(k)
			}
		}); p {
			c.run.Report(map[string]string{"site": core.PanicSite(st), "kind": "panic", "case": k.Kind, "mutant": k.Mutant, "concurrent": "yes"}, k,
				"panic while cases run concurrently: "+core.FirstLine(v))
		}
		if i%9973 == 0 {
			c.samples.Add(k)
		}
	})
	maxLeaves := 17
	core.Par(maxLeaves, func(i int) {
		if p, v, st := core.Try(func() { c.runMerkle(i + 1) }); p {
			c.run.Report(map[string]string{"site": core.PanicSite(st), "kind": "panic", "case": "merkle", "concurrent": "yes"}, partCase{Kind: "merkle", Leaves: i + 1},
				"panic while trees are checked concurrently: "+core.FirstLine(v))
		}
	})
	c.samples.Add(partCase{Kind: "merkle", Leaves: 7, ProofOf: 3, Index: 3, Total: 8, Leaf: 3})

	cov := core.Coverage{
		"states":                        int64(states.Len() + maxLeaves),
		"transitions":                   c.evals,
		"traces_validated_against_impl": c.evals,
		"evaluations":                   c.evals,
		"distinct_nontrivial":           c.classes.Len(),
		"rule":                          "every (data length 0..40, part size 1..9, byte pattern distinct|zero) × {every arrival permutation with one duplicate at every position for totals<=5; identity, reverse and adjacent transpositions above} and × every single-field mutant (index −2,−1,i±1,total,total+1,2^31; byte flips first/middle/last, append, drop, empty; each aunt flipped/dropped/duplicated, a junk aunt inserted at every position, extra aunt, nil aunts; proof of every other part; every other part under this index) × receiver pre-state {empty, all others present, complete}; Merkle trees of 1..17 leaves × every leaf's proof × every (index,total) in [−2,19]² × {own leaf, neighbours}; distinct_nontrivial counts distinct (mutant kind, pre-state, verdict) classes observed",
		"arrival_cases":                 arrivals,
		"mutant_cases":                  mutants,
		"merkle_trees":                  maxLeaves,
		"outcome_classes":               c.classes.Map(),
		"samples":                       c.samples.List(),
		"exhaustive":                    true,
		"bounds":                        map[string]int{"max_len": maxLen, "max_part_size": maxPS, "max_leaves": maxLeaves},
	}
	// part (b): concurrent deliveries / readers on one PartSet under the controlled scheduler
	schedAssumptions := runSchedPart(run, cov)
	run.Finish(cov, append([]string{
		"collision resistance of the configured hash (ripemd160): 'accept iff bit-identical' is decided by comparing with the genuine part",
		"the model is the implementation itself: every enumerated case is executed on the real types.PartSet / go-merkle code (traces_validated_against_impl = all)",
	}, schedAssumptions...))
}

// ---------------------------------------------------------------- SCHED part (separate binary)

// runSchedPart runs part (b), the controlled-scheduler exploration of
// concurrent deliveries to one PartSet (props/c17sched, a separate binary because it is built with
// the import-rewriting overlay), in a private root and merges its evidence and
// violations into this run.  Returns the assumptions of that part.
func runSchedPart(run *core.Run, cov core.Coverage) []string {
	bin := schedBin()
	if alt := os.Getenv("VERIF_C17SCHED_BIN"); alt != "" {
		bin = alt
	}
	if _, err := os.Stat(bin); err != nil {
		core.Fatal("the SCHED binary %s is missing (props/c17/prebuild.sh builds it)", bin)
	}
	sub := filepath.Join(run.WorkDir(), "schedroot")
	os.RemoveAll(sub)
	os.MkdirAll(sub, 0755)
	if b, err := ioutil.ReadFile(filepath.Join(core.Root, "known_findings.txt")); err == nil {
		ioutil.WriteFile(filepath.Join(sub, "known_findings.txt"), b, 0644)
	}
	cmd := exec.Command(bin, run.Tier)
	cmd.Env = append(os.Environ(), "VERIF_ROOT="+sub, "VERIF_TIER="+run.Tier, "C17B_RACE_BIN="+filepath.Join(filepath.Dir(bin), "c17race"))
	out, err := cmd.CombinedOutput()
	code := 0
	if ee, ok := err.(*exec.ExitError); ok {
		code = ee.ExitCode()
	} else if err != nil {
		core.Fatal("cannot run the SCHED part (%s): %v", bin, err)
	}
	if code != 0 && code != 1 {
		tail := string(out)
		if len(tail) > 3000 {
			tail = tail[len(tail)-3000:]
		}
		core.Fatal("SCHED part failed with exit %d:\n%s", code, tail)
	}
	var ev struct {
		Coverage    map[string]interface{} `json:"coverage"`
		Assumptions []string               `json:"assumptions"`
	}
	if b, err := ioutil.ReadFile(filepath.Join(sub, "evidence", "C17.json")); err == nil {
		json.Unmarshal(b, &ev)
	}
	if ev.Coverage == nil {
		core.Fatal("SCHED part left no evidence (exit %d)", code)
	}
	cov["sched"] = ev.Coverage
	for _, k := range []string{"states", "transitions", "traces_validated_against_impl", "evaluations"} {
		a, ok1 := cov[k].(int64)
		b, ok2 := ev.Coverage[k].(float64)
		if ok1 && ok2 {
			cov[k] = a + int64(b)
		}
	}
	if ex, ok := ev.Coverage["exhaustive"].(bool); ok && !ex {
		cov["sched_exhaustive"] = false
	}
	for _, l := range strings.Split(string(out), "\n") {
		if strings.HasPrefix(l, "KNOWN-FINDING:") {
			fmt.Println(l)
		}
	}
	arts, _ := filepath.Glob(filepath.Join(sub, "replays", "C17", "*.json"))
	for _, a := range arts {
		b, err := ioutil.ReadFile(a)
		if err != nil {
			continue
		}
		var art struct {
			Sig    map[string]string `json:"sig"`
			Case   json.RawMessage   `json:"case"`
			Detail string            `json:"detail"`
		}
		if json.Unmarshal(b, &art) != nil {
			continue
		}
		if art.Sig == nil {
			art.Sig = map[string]string{}
		}
		art.Sig["part"] = "sched"
		run.Report(art.Sig, map[string]interface{}{"engine": "SCHED", "sched_case": art.Case}, art.Detail)
	}
	if code == 1 && len(arts) == 0 {
		core.Fatal("SCHED part reported a violation but left no artefact")
	}
	if os.Getenv("VERIF_MUT_ROOT") != "" && os.Getenv("VERIF_C17SCHED_BIN") == "" && os.Getenv("SEED_KEEP") == "" && strings.HasPrefix(filepath.Base(filepath.Dir(bin)), "c17sched-mut-") {
		// single-use build of a seeded run (kept with SEED_KEEP=1 so that its artefacts can be replayed)
		os.RemoveAll(filepath.Dir(bin))
	}
	return ev.Assumptions
}

// replaySched hands a SCHED artefact to the SCHED binary.
func replaySched(run *core.Run) bool {
	b, err := ioutil.ReadFile(run.ReplayPath)
	if err != nil {
		return false
	}
	var art struct {
		Case struct {
			Engine    string          `json:"engine"`
			SchedCase json.RawMessage `json:"sched_case"`
		} `json:"case"`
		Sig    map[string]string `json:"sig"`
		Detail string            `json:"detail"`
	}
	if json.Unmarshal(b, &art) != nil || art.Case.Engine != "SCHED" {
		return false
	}
	tmp := filepath.Join(run.WorkDir(), "sched-replay.json")
	nb, _ := json.Marshal(map[string]interface{}{"property": "C17", "engine": "SCHED", "sig": art.Sig, "case": art.Case.SchedCase, "detail": art.Detail})
	ioutil.WriteFile(tmp, nb, 0644)
	bin := schedBin()
	cmd := exec.Command(bin, "replay", tmp)
	cmd.Stdout, cmd.Stderr = os.Stdout, os.Stderr
	err = cmd.Run()
	if ee, ok := err.(*exec.ExitError); ok {
		os.Exit(ee.ExitCode())
	}
	os.Exit(0)
	return true
}

// schedBin locates the SCHED binary that props/c17/prebuild.sh built: below
// the .work directory this binary itself lives in (VERIF_ROOT may be a private
// root), in a directory of its own for seeded runs (VERIF_MUT_ROOT).
func schedBin() string {
	work := filepath.Join("/verif", ".work")
	if self, err := os.Executable(); err == nil {
		if d := filepath.Dir(filepath.Dir(self)); filepath.Base(d) == ".work" {
			work = d
		}
	}
	dir := "c17sched"
	if m := os.Getenv("VERIF_MUT_ROOT"); m != "" {
		dir += "-mut-" + filepath.Base(m)
	}
	return filepath.Join(work, dir, "bin-for-c17")
}
