# Seeded-mutation demo for C08 part (ii): writes go-build overlays and mutant roots under /verif/.work/c08net-mut
# usage: mkdir -p /verif/.work/c08net-mut/{a,b,c,root_a,root_b,root_c}; python3 mk_mutants.py; BUDGET=70 bash run_mutants.sh b c
# a = PickVoteToSend nil check (equivalent mutant: never reached), b = VoteSet.Size nil receiver, c = Commit.Size nil receiver
import json

# mutant a: PeerState.PickVoteToSend loses its "nothing worth sending" nil check
src = open('/repo/gemmill/consensus/pbft/reactor.go').read()
old = '''	if psVotes == nil {
		return nil, false // Not something worth sending
	}
'''
assert src.count(old) == 1
open('/verif/.work/c08net-mut/a/reactor.go', 'w').write(src.replace(old, ''))
json.dump({"Replace": {"/repo/gemmill/consensus/pbft/reactor.go": "/verif/.work/c08net-mut/a/reactor.go"}},
          open('/verif/.work/c08net-mut/a/overlay.json', 'w'))

# mutant b: VoteSet.Size loses its nil-receiver check
src = open('/repo/gemmill/types/vote_set.go').read()
i = src.find('func (voteSet *VoteSet) Size() int {')
j = src.find('\n}\n', i) + 3
body = src[i:j]
assert 'voteSet == nil' in body, body
new = '''func (voteSet *VoteSet) Size() int {
	return voteSet.valSet.Size()
}
'''
open('/verif/.work/c08net-mut/b/vote_set.go', 'w').write(src[:i] + new + src[j:])
json.dump({"Replace": {"/repo/gemmill/types/vote_set.go": "/verif/.work/c08net-mut/b/vote_set.go"}},
          open('/verif/.work/c08net-mut/b/overlay.json', 'w'))

base = open('/verif/known_findings.txt').read()
extra = '''known: property=C08 match=kind=node-goroutine-panic;part=peer-state;type=CommitStepMessage;field=CommitStepMessage.BlockParts demo-baseline: malformed BlockParts bit array of a CommitStepMessage stored in the peer state
known: property=C08 match=kind=node-goroutine-panic;part=peer-state;type=ProposalPOLMessage;field=ProposalPOLMessage.ProposalPOL demo-baseline: malformed ProposalPOL bit array stored in the peer state
'''
for r in ('root_a', 'root_b'):
    open('/verif/.work/c08net-mut/%s/known_findings.txt' % r, 'w').write(base + extra)
print(body)

# mutant c: Commit.Size loses its nil-receiver check
src = open('/repo/gemmill/types/block.go').read()
old = '''func (commit *Commit) Size() int {
	if commit == nil {
		return 0
	}
	return len(commit.Precommits)
}'''
assert src.count(old) == 1
open('/verif/.work/c08net-mut/c/block.go', 'w').write(src.replace(old, '''func (commit *Commit) Size() int {
	return len(commit.Precommits)
}'''))
json.dump({"Replace": {"/repo/gemmill/types/block.go": "/verif/.work/c08net-mut/c/block.go"}},
          open('/verif/.work/c08net-mut/c/overlay.json', 'w'))
open('/verif/.work/c08net-mut/root_c/known_findings.txt', 'w').write(base + extra)
