#!/bin/bash
# builds each mutant of the anchored code through `go build -overlay` and runs the quick tier against it
export GOFLAGS=-mod=mod GOPROXY=off GOSUMDB=off GOTOOLCHAIN=local GOMAXPROCS=16
cd /verif
for m in "$@"; do
  go build -tags verif -overlay /verif/.work/c08net-mut/$m/overlay.json -o /verif/.work/c08net-mut/$m/mut ./props/c08net || exit 9
  VERIF_C08NET_BUDGET=${BUDGET:-70} VERIF_ROOT=/verif/.work/c08net-mut/root_$m /verif/.work/c08net-mut/$m/mut quick > /verif/.work/c08net-mut/$m/out.txt 2>&1
  echo "exit=$?" >> /verif/.work/c08net-mut/$m/out.txt
done
