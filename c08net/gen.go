package c08net

import (
	"bytes"
	"fmt"
	"math"
	"reflect"
	"strings"
	"time"

	bc "github.com/dappledger/AnnChain/gemmill/blockchain"
	"github.com/dappledger/AnnChain/gemmill/consensus/pbft"
	crypto "github.com/dappledger/AnnChain/gemmill/go-crypto"
	"github.com/dappledger/AnnChain/gemmill/go-wire"
	"github.com/dappledger/AnnChain/gemmill/mempool"
	gcmn "github.com/dappledger/AnnChain/gemmill/modules/go-common"
	"github.com/dappledger/AnnChain/gemmill/p2p"
	"github.com/dappledger/AnnChain/gemmill/types"
)

// ---------------------------------------------------------------- pex mirror
//
// The two PEX messages are unexported in gemmill/p2p; go-wire encodes
// structurally (type byte of the registered concrete type, then the exported
// fields in order), so mirror types registered with the same type bytes give
// the same bytes on the wire.  checkPexMirror() verifies that against the real
// decoder.

type PexMirrorMessage interface{}

type pexRequestMirror struct{}

type netAddrMirror struct {
	IP   []byte
	Port uint16
}

type pexAddrsMirror struct {
	Addrs []*netAddrMirror
}

var _ = wire.RegisterInterface(
	struct{ PexMirrorMessage }{},
	wire.ConcreteType{&pexRequestMirror{}, byte(0x01)},
	wire.ConcreteType{&pexAddrsMirror{}, byte(0x02)},
)

func checkPexMirror() error {
	bz := wire.BinaryBytes(struct{ PexMirrorMessage }{&pexAddrsMirror{Addrs: []*netAddrMirror{{IP: []byte{127, 0, 0, 1}, Port: 7}}}})
	_, msg, err := p2p.DecodeMessage(bz)
	if err != nil {
		return fmt.Errorf("pex mirror does not decode: %v", err)
	}
	if s := fmt.Sprintf("%T %v", msg, msg); !strings.Contains(s, "pexAddrsMessage") || !strings.Contains(s, "127.0.0.1:7") {
		return fmt.Errorf("pex mirror decodes to %s", s)
	}
	bz = wire.BinaryBytes(struct{ PexMirrorMessage }{&pexRequestMirror{}})
	_, msg, err = p2p.DecodeMessage(bz)
	if err != nil || !strings.Contains(fmt.Sprintf("%T", msg), "pexRequestMessage") {
		return fmt.Errorf("pex request mirror decodes to %T (%v)", msg, err)
	}
	return nil
}

// ---------------------------------------------------------------- message table

type msgSpec struct {
	name  string
	group string // consensus | blockchain | mempool | pex
	ch    byte
	quick bool // part of the quick tier (the six peer-state messages)
}

var msgTable = []msgSpec{
	{"NewRoundStepMessage", "consensus", pbft.StateChannel, true},
	{"CommitStepMessage", "consensus", pbft.StateChannel, true},
	{"ProposalPOLMessage", "consensus", pbft.DataChannel, true},
	{"HasVoteMessage", "consensus", pbft.StateChannel, true},
	{"VoteSetMaj23Message", "consensus", pbft.StateChannel, true},
	{"VoteSetBitsMessage", "consensus", pbft.VoteSetBitsChannel, true},
	{"bcBlockRequestMessage", "blockchain", bc.BlockchainChannel, false},
	{"bcBlockResponseMessage", "blockchain", bc.BlockchainChannel, false},
	{"bcStatusRequestMessage", "blockchain", bc.BlockchainChannel, false},
	{"bcStatusResponseMessage", "blockchain", bc.BlockchainChannel, false},
	{"TxMessage", "mempool", mempool.MempoolChannel, false},
	{"pexRequestMessage", "pex", p2p.PexChannel, false},
	{"pexAddrsMessage", "pex", p2p.PexChannel, false},
}

func specOf(name string) *msgSpec {
	for i := range msgTable {
		if msgTable[i].name == name {
			return &msgTable[i]
		}
	}
	return nil
}

// genCtx is what a valid instance is built for.
type genCtx struct {
	mode    string // live | ahead | behind
	H0      int64  // the node's height when the script is sent
	T       int64  // the height the attacker claims
	hdr     types.PartSetHeader
	realHdr bool
	block   *types.Block // a stored block (height H0-1)
	valAddr []byte
	nonce   int
}

func garbageSig() crypto.Signature {
	var s crypto.SignatureEd25519
	for i := range s {
		s[i] = byte(i)
	}
	return s
}

func (c *genCtx) blockID() types.BlockID {
	return types.BlockID{Hash: bytes.Repeat([]byte{2}, 20), PartsHeader: types.PartSetHeader{Total: 1, Hash: bytes.Repeat([]byte{3}, 20)}}
}

// base builds a valid instance of the named message.
func (c *genCtx) base(name string) interface{} {
	switch name {
	case "NewRoundStepMessage":
		// later than the prelude's (T, 0, NewHeight), otherwise it is dropped as a duplicate
		return &pbft.NewRoundStepMessage{Height: c.T, Round: 0, Step: pbft.RoundStepPrevote, SecondsSinceStartTime: 1, LastCommitRound: 0}
	case "CommitStepMessage":
		return &pbft.CommitStepMessage{Height: c.T, BlockPartsHeader: c.hdr, BlockParts: gcmn.NewBitArray(c.hdr.Total)}
	case "ProposalPOLMessage":
		return &pbft.ProposalPOLMessage{Height: c.T, ProposalPOLRound: 0, ProposalPOL: gcmn.NewBitArray(1)}
	case "HasVoteMessage":
		return &pbft.HasVoteMessage{Height: c.T, Round: 0, Type: types.VoteTypePrevote, Index: 0}
	case "VoteSetMaj23Message":
		return &pbft.VoteSetMaj23Message{Height: c.T, Round: 0, Type: types.VoteTypePrevote, BlockID: c.blockID()}
	case "VoteSetBitsMessage":
		return &pbft.VoteSetBitsMessage{Height: c.T, Round: 0, Type: types.VoteTypePrevote, BlockID: c.blockID(), Votes: gcmn.NewBitArray(1)}
	case "bcBlockRequestMessage":
		return &bc.VerifBlockRequestMessage{Height: c.H0 - 1}
	case "bcBlockResponseMessage":
		return &bc.VerifBlockResponseMessage{Block: copyBlock(c.block)}
	case "bcStatusRequestMessage":
		return &bc.VerifStatusRequestMessage{Height: c.H0}
	case "bcStatusResponseMessage":
		return &bc.VerifStatusResponseMessage{Height: c.H0 + 5}
	case "TxMessage":
		return &mempool.TxMessage{Tx: types.Tx(fmt.Sprintf("attacker-tx-%06d", c.nonce))}
	case "pexRequestMessage":
		return &pexRequestMirror{}
	case "pexAddrsMessage":
		return &pexAddrsMirror{Addrs: []*netAddrMirror{{IP: []byte{127, 0, 0, 1}, Port: 1}, {IP: []byte{127, 0, 0, 1}, Port: 2}}}
	}
	return nil
}

func copyBlock(b *types.Block) *types.Block {
	if b == nil {
		return nil
	}
	bz := wire.BinaryBytes(b)
	var err error
	n := 0
	out := wire.ReadBinary(&types.Block{}, bytes.NewReader(bz), 0, &n, &err).(*types.Block)
	if err != nil {
		panic(fmt.Sprintf("copyBlock: %v", err))
	}
	return out
}

// encode wraps a message of the given group in its registered interface.
func encode(group string, m interface{}) (bz []byte, ok bool) {
	defer func() {
		if recover() != nil {
			bz, ok = nil, false
		}
	}()
	switch group {
	case "consensus":
		return wire.BinaryBytes(struct{ pbft.ConsensusMessage }{m}), true
	case "blockchain":
		return wire.BinaryBytes(struct{ bc.BlockchainMessage }{m}), true
	case "mempool":
		return wire.BinaryBytes(struct{ mempool.MempoolMessage }{m}), true
	case "pex":
		return wire.BinaryBytes(struct{ PexMirrorMessage }{m}), true
	}
	return nil, false
}

type wireMsg struct {
	Ch byte
	Bz []byte
}

// prelude is the well-formed context sent before the poisoned message: a
// NewRoundStep that puts the attacker "at height T", plus, per type, what makes
// the node's peer state receptive (a proposal naming POL round 0 for
// ProposalPOL; a vote, which makes Receive allocate the peer's vote bit arrays,
// for HasVote and VoteSetBits).
func (c *genCtx) prelude(name string) []wireMsg {
	sp := specOf(name)
	if sp == nil || sp.group != "consensus" {
		return nil
	}
	lcr := int64(0)
	if c.T <= 1 {
		lcr = -1
	}
	enc := func(m interface{}) []byte {
		bz, _ := encode("consensus", m)
		return bz
	}
	switch name {
	case "ProposalPOLMessage":
		return []wireMsg{
			{pbft.StateChannel, enc(&pbft.NewRoundStepMessage{Height: c.T, Round: 1, Step: pbft.RoundStepPropose, SecondsSinceStartTime: 0, LastCommitRound: lcr})},
			{pbft.DataChannel, enc(&pbft.ProposalMessage{Proposal: &types.Proposal{Height: c.T, Round: 1, BlockPartsHeader: types.PartSetHeader{Total: 1, Hash: bytes.Repeat([]byte{4}, 20)}, POLRound: 0, Signature: garbageSig()}})},
		}
	case "HasVoteMessage", "VoteSetBitsMessage":
		return []wireMsg{
			{pbft.StateChannel, enc(&pbft.NewRoundStepMessage{Height: c.T, Round: 0, Step: pbft.RoundStepNewHeight, SecondsSinceStartTime: 0, LastCommitRound: lcr})},
			{pbft.VoteChannel, enc(&pbft.VoteMessage{Vote: &types.Vote{ValidatorAddress: c.valAddr, ValidatorIndex: 0, Height: c.T, Round: 0, Type: types.VoteTypePrevote, Signature: garbageSig()}})},
		}
	}
	return []wireMsg{{pbft.StateChannel, enc(&pbft.NewRoundStepMessage{Height: c.T, Round: 0, Step: pbft.RoundStepNewHeight, SecondsSinceStartTime: 0, LastCommitRound: lcr})}}
}

// ---------------------------------------------------------------- field mutations

var intBoundary = []int64{math.MinInt64, -65, -64, -1, 0, 1, 2, 63, 64, 65, 1 << 31, math.MaxInt64}

type step struct {
	kind int // 0 field, 1 deref, 2 index
	i    int
}

func walk(root reflect.Value, path []step) reflect.Value {
	v := root
	for _, s := range path {
		switch s.kind {
		case 0:
			v = v.Field(s.i)
		case 1:
			v = v.Elem()
		case 2:
			v = v.Index(s.i)
		}
	}
	return v
}

type mutation struct {
	field string // full path
	class string // path with the inside of a BitArray collapsed (signature class)
	val   string
	apply func(root reflect.Value)
}

var bitArrayType = reflect.TypeOf(gcmn.BitArray{})
var timeType = reflect.TypeOf(time.Time{})

func ext(p []step, s step) []step { return append(append([]step{}, p...), s) }

// enumMuts lists, in a fixed order, every single-field boundary mutation of v.
func enumMuts(v reflect.Value, field, class string, frozen bool, p []step, out *[]mutation) {
	add := func(val string, f func(fv reflect.Value)) {
		pp := p
		*out = append(*out, mutation{field: field, class: class, val: val, apply: func(root reflect.Value) { f(walk(root, pp)) }})
	}
	sub := func(name string) (string, string) {
		if frozen {
			return field + name, class
		}
		return field + name, class + name
	}
	switch v.Kind() {
	case reflect.Ptr:
		add("nil", func(f reflect.Value) { f.Set(reflect.Zero(f.Type())) })
		if !v.IsNil() {
			fr := frozen || v.Type().Elem() == bitArrayType
			enumMuts(v.Elem(), field, class, fr, ext(p, step{1, 0}), out)
		}
	case reflect.Struct:
		if v.Type() == timeType {
			add("zero", func(f reflect.Value) { f.Set(reflect.ValueOf(time.Time{})) })
			return
		}
		for i := 0; i < v.NumField(); i++ {
			sf := v.Type().Field(i)
			if sf.PkgPath != "" {
				continue
			}
			f2, c2 := sub("." + sf.Name)
			enumMuts(v.Field(i), f2, c2, frozen, ext(p, step{0, i}), out)
		}
	case reflect.Bool:
		add("flip", func(f reflect.Value) { f.SetBool(!f.Bool()) })
	case reflect.Int, reflect.Int64, reflect.Int32:
		// literal boundary values plus the neighbours of the valid value; nothing is
		// de-duplicated against the live value so that the case keys do not depend on it
		for _, b := range intBoundary {
			b := b
			add(fmt.Sprintf("%d", b), func(f reflect.Value) { f.SetInt(b) })
		}
		for _, d := range []int64{-1, 1} {
			d := d
			add(fmt.Sprintf("valid%+d", d), func(f reflect.Value) { f.SetInt(f.Int() + d) })
		}
	case reflect.Uint8, reflect.Uint16, reflect.Uint64, reflect.Uint32:
		var vals []uint64
		switch v.Kind() {
		case reflect.Uint8:
			vals = []uint64{0, 1, 2, 3, 4, 8, 9, 0x7f, 0x80, 0xff}
		case reflect.Uint16:
			vals = []uint64{0, 1, 0x7fff, 0x8000, 0xffff}
		default:
			vals = []uint64{0, 1, 1 << 31, 1 << 63, math.MaxUint64}
		}
		for _, b := range vals {
			b := b
			add(fmt.Sprintf("%d", b), func(f reflect.Value) { f.SetUint(b) })
		}
	case reflect.String:
		for _, k := range []string{"empty", "one", "long"} {
			k := k
			add(k, func(f reflect.Value) {
				switch k {
				case "empty":
					f.SetString("")
				case "one":
					f.SetString("x")
				case "long":
					f.SetString(strings.Repeat("L", 300))
				}
			})
		}
	case reflect.Interface: // crypto.Signature
		for _, k := range []string{"nil", "garbage", "secp"} {
			k := k
			add(k, func(f reflect.Value) {
				switch k {
				case "nil":
					f.Set(reflect.Zero(f.Type()))
				case "garbage":
					f.Set(reflect.ValueOf(garbageSig()))
				case "secp":
					f.Set(reflect.ValueOf(crypto.SignatureSecp256k1([]byte{1, 2, 3})))
				}
			})
		}
	case reflect.Slice:
		et := v.Type().Elem()
		switch {
		case et.Kind() == reflect.Uint8:
			for _, k := range []string{"nil", "empty", "one", "flip", "long"} {
				k := k
				add(k, func(f reflect.Value) {
					switch k {
					case "nil":
						f.Set(reflect.Zero(f.Type()))
					case "empty":
						f.Set(reflect.MakeSlice(f.Type(), 0, 0))
					case "one":
						f.SetBytes([]byte{0x42})
					case "flip":
						b := append([]byte(nil), f.Bytes()...)
						if len(b) > 0 {
							b[len(b)/2] ^= 0x10
						} else {
							b = []byte{0x10}
						}
						f.SetBytes(b)
					case "long":
						f.SetBytes(bytes.Repeat([]byte{0xAB}, 300))
					}
				})
			}
		case et.Kind() == reflect.Uint64: // BitArray.Elems
			for _, k := range []string{"nil", "empty", "short", "long", "ones"} {
				k := k
				add(k, func(f reflect.Value) {
					switch k {
					case "nil":
						f.Set(reflect.Zero(f.Type()))
					case "empty":
						f.Set(reflect.MakeSlice(f.Type(), 0, 0))
					case "short":
						if f.Len() > 0 {
							f.Set(f.Slice(0, f.Len()-1))
						}
					case "long":
						f.Set(reflect.AppendSlice(f, reflect.ValueOf([]uint64{^uint64(0), ^uint64(0)})))
					case "ones":
						for i := 0; i < f.Len(); i++ {
							f.Index(i).SetUint(^uint64(0))
						}
					}
				})
			}
		default: // slices of pointers, structs or byte slices
			for _, k := range []string{"nil", "empty", "drop", "dup", "zero-entry", "many"} {
				k := k
				add(k, func(f reflect.Value) {
					switch k {
					case "nil":
						f.Set(reflect.Zero(f.Type()))
					case "empty":
						f.Set(reflect.MakeSlice(f.Type(), 0, 0))
					case "drop":
						if f.Len() > 0 {
							f.Set(f.Slice(0, f.Len()-1))
						}
					case "dup":
						if f.Len() > 0 {
							f.Set(reflect.Append(f, f.Index(0)))
						}
					case "zero-entry":
						f.Set(reflect.Append(f, reflect.Zero(f.Type().Elem())))
					case "many":
						if f.Len() > 0 {
							s := f
							for i := 0; i < 200; i++ {
								s = reflect.Append(s, f.Index(0))
							}
							f.Set(s)
						}
					}
				})
			}
			if v.Len() > 0 {
				f2, c2 := sub("[0]")
				enumMuts(v.Index(0), f2, c2, frozen, ext(p, step{2, 0}), out)
			}
		}
	}
}

// sliceFields lists every slice-typed field (for the wire-level length cases).
func sliceFields(v reflect.Value, field, class string, frozen bool, p []step, out *[]mutation) {
	switch v.Kind() {
	case reflect.Ptr:
		if !v.IsNil() {
			sliceFields(v.Elem(), field, class, frozen || v.Type().Elem() == bitArrayType, ext(p, step{1, 0}), out)
		}
	case reflect.Struct:
		for i := 0; i < v.NumField(); i++ {
			sf := v.Type().Field(i)
			if sf.PkgPath != "" {
				continue
			}
			c2 := class + "." + sf.Name
			if frozen {
				c2 = class
			}
			sliceFields(v.Field(i), field+"."+sf.Name, c2, frozen, ext(p, step{0, i}), out)
		}
	case reflect.Slice:
		pp := p
		*out = append(*out, mutation{field: field, class: class, apply: func(root reflect.Value) {
			f := walk(root, pp)
			f.Set(reflect.Append(f, reflect.Zero(f.Type().Elem())))
		}})
		if v.Type().Elem().Kind() != reflect.Uint8 && v.Type().Elem().Kind() != reflect.Uint64 && v.Len() > 0 {
			c2 := class + "[0]"
			if frozen {
				c2 = class
			}
			sliceFields(v.Index(0), field+"[0]", c2, frozen, ext(p, step{2, 0}), out)
		}
	}
}

var absurdLens = []struct {
	name string
	bz   []byte
}{
	{"2^20", []byte{0x03, 0x10, 0x00, 0x00}},
	{"2^31-1", []byte{0x04, 0x7f, 0xff, 0xff, 0xff}},
	{"2^63-1", []byte{0x08, 0x7f, 0xff, 0xff, 0xff, 0xff, 0xff, 0xff, 0xff}},
	{"-1", []byte{0xf1, 0x01}},
}

// ---------------------------------------------------------------- render (no methods are called: a poisoned BitArray's String() may panic)

func render(v reflect.Value, depth int) string {
	if depth > 6 {
		return "…"
	}
	switch v.Kind() {
	case reflect.Ptr:
		if v.IsNil() {
			return "nil"
		}
		return "&" + render(v.Elem(), depth+1)
	case reflect.Interface:
		if v.IsNil() {
			return "nil"
		}
		return render(v.Elem(), depth+1)
	case reflect.Struct:
		if v.Type() == timeType {
			return "time"
		}
		var parts []string
		for i := 0; i < v.NumField(); i++ {
			sf := v.Type().Field(i)
			if sf.PkgPath != "" {
				continue
			}
			parts = append(parts, sf.Name+":"+render(v.Field(i), depth+1))
		}
		return "{" + strings.Join(parts, " ") + "}"
	case reflect.Slice, reflect.Array:
		if v.Kind() == reflect.Slice && v.IsNil() {
			return "nil[]"
		}
		if v.Type().Elem().Kind() == reflect.Uint8 {
			n := v.Len()
			if n > 8 {
				return fmt.Sprintf("bytes(%d)", n)
			}
			b := make([]byte, n)
			for i := 0; i < n; i++ {
				b[i] = byte(v.Index(i).Uint())
			}
			return fmt.Sprintf("%x", b)
		}
		var parts []string
		for i := 0; i < v.Len() && i < 3; i++ {
			parts = append(parts, render(v.Index(i), depth+1))
		}
		if v.Len() > 3 {
			parts = append(parts, fmt.Sprintf("…(%d)", v.Len()))
		}
		return "[" + strings.Join(parts, " ") + "]"
	case reflect.Int, reflect.Int64, reflect.Int32, reflect.Int8, reflect.Int16:
		return fmt.Sprintf("%d", v.Int())
	case reflect.Uint8, reflect.Uint16, reflect.Uint32, reflect.Uint64, reflect.Uint:
		return fmt.Sprintf("%d", v.Uint())
	case reflect.String:
		if v.Len() > 20 {
			return fmt.Sprintf("string(%d)", v.Len())
		}
		return fmt.Sprintf("%q", v.String())
	case reflect.Bool:
		return fmt.Sprintf("%v", v.Bool())
	}
	return v.Kind().String()
}

// ---------------------------------------------------------------- case generation

// genCase is one generated input: the poisoned message and where it goes.
type genCase struct {
	Key    string // family/type/index: position in the generator's fixed order
	Family string
	Type   string
	Field  string
	Class  string
	Val    string
	Ch     byte
	Bz     []byte
	Text   string // rendering of the message (structured families)
}

// familiesOf lists the families generated per message type.
var familiesOf = []string{"structured", "first", "lenfix", "bytesub", "trunc", "wrongchan"}

// genType generates every case of one family for one message type.
func (c *genCtx) genType(name, family string) []genCase {
	sp := specOf(name)
	if sp == nil {
		return nil
	}
	var out []genCase
	emit := func(field, class, val string, ch byte, bz []byte, text string) {
		out = append(out, genCase{Key: fmt.Sprintf("%s/%s/%s=%s", family, name, field, val), Family: family, Type: name, Field: field, Class: class, Val: val, Ch: ch, Bz: bz, Text: text})
	}
	valid := func() []byte {
		bz, _ := encode(sp.group, c.base(name))
		return bz
	}
	switch family {
	case "structured", "first":
		if family == "first" && name != "NewRoundStepMessage" {
			return nil // "first" = the poisoned NewRoundStep is the very first message (no prelude)
		}
		b := c.base(name)
		if bz, ok := encode(sp.group, b); ok {
			emit(name, name, "valid", sp.ch, bz, render(reflect.ValueOf(b), 0))
		}
		var muts []mutation
		enumMuts(reflect.ValueOf(b), name, name, false, nil, &muts)
		for _, mu := range muts {
			m := c.base(name)
			okApply := true
			func() {
				defer func() {
					if recover() != nil {
						okApply = false
					}
				}()
				mu.apply(reflect.ValueOf(m))
			}()
			if !okApply {
				continue
			}
			bz, ok := encode(sp.group, m)
			if !ok {
				continue // not encodable, hence not sendable as a structured message
			}
			emit(mu.field, mu.class, mu.val, sp.ch, bz, render(reflect.ValueOf(m), 0))
		}
	case "lenfix":
		b := c.base(name)
		enc0, ok := encode(sp.group, b)
		if !ok {
			return nil
		}
		var fields []mutation
		sliceFields(reflect.ValueOf(b), name, name, false, nil, &fields)
		for _, f := range fields {
			m := c.base(name)
			okApply := true
			func() {
				defer func() {
					if recover() != nil {
						okApply = false
					}
				}()
				f.apply(reflect.ValueOf(m))
			}()
			if !okApply {
				continue
			}
			enc1, ok := encode(sp.group, m)
			if !ok {
				continue
			}
			p := 0
			for p < len(enc0) && p < len(enc1) && enc0[p] == enc1[p] {
				p++
			}
			if p >= len(enc0) {
				continue
			}
			var start, end int // the length prefix is enc0[start:end]
			if enc0[p] == 0x00 {
				start, end = p, p+1
			} else if p > 0 && enc0[p-1] == 0x01 {
				start, end = p-1, p+1
			} else {
				continue
			}
			for _, al := range absurdLens {
				bz := append(append(append([]byte{}, enc0[:start]...), al.bz...), enc0[end:]...)
				emit(f.field, f.class, "len="+al.name, sp.ch, bz, fmt.Sprintf("valid %s with the length prefix of %s replaced by %s", name, f.field, al.name))
			}
		}
	case "bytesub":
		bz := valid()
		for pos := 0; pos < len(bz); pos++ {
			for _, v := range []byte{0x00, 0x01, 0x7f, 0x80, 0xff} {
				m := append([]byte(nil), bz...)
				m[pos] = v
				// the signature class of a byte mutation is the field it changes when the
				// result still decodes (so that one defect has one class whichever family finds it)
				emit(name, diffClass(name, sp.group, bz, m), fmt.Sprintf("byte %d/%d:=%02x", pos, len(bz), v), sp.ch, m, "")
			}
		}
	case "trunc":
		bz := valid()
		for l := 1; l < len(bz); l++ {
			m := append([]byte(nil), bz[:l]...)
			emit(name, diffClass(name, sp.group, bz, m), fmt.Sprintf("first %d of %d bytes", l, len(bz)), sp.ch, m, "")
		}
	case "wrongchan":
		bz := valid()
		for _, ch := range servedChannels {
			if ch != sp.ch {
				emit(name, name, fmt.Sprintf("valid on channel %02x", ch), ch, bz, "")
			}
		}
	}
	return out
}

// decodeAs decodes bz with the group's real decoder (nil when it does not decode).
func decodeAs(group string, bz []byte) (m interface{}) {
	defer func() {
		if recover() != nil {
			m = nil
		}
	}()
	var err error
	switch group {
	case "consensus":
		_, m, err = pbft.DecodeMessage(bz)
	case "mempool":
		_, m, err = mempool.DecodeMessage(bz)
	case "pex":
		_, m, err = p2p.DecodeMessage(bz)
	default:
		return nil // block-sync messages: a mutated length may ask for a 22 MB buffer; class = type
	}
	if err != nil {
		return nil
	}
	return m
}

// diffClass names the first field in which the decoded mutant differs from the
// decoded valid message (the inside of a BitArray collapsed), or the type name.
func diffClass(name, group string, valid, mutant []byte) string {
	a, b := decodeAs(group, valid), decodeAs(group, mutant)
	if a == nil || b == nil || reflect.TypeOf(a) != reflect.TypeOf(b) {
		return name
	}
	if c, ok := firstDiff(reflect.ValueOf(a), reflect.ValueOf(b), name, false); ok {
		return c
	}
	return name
}

func firstDiff(a, b reflect.Value, class string, frozen bool) (string, bool) {
	switch a.Kind() {
	case reflect.Ptr, reflect.Interface:
		if a.IsNil() || b.IsNil() {
			return class, a.IsNil() != b.IsNil()
		}
		if a.Kind() == reflect.Interface && a.Elem().Type() != b.Elem().Type() {
			return class, true
		}
		return firstDiff(a.Elem(), b.Elem(), class, frozen || (a.Kind() == reflect.Ptr && a.Type().Elem() == bitArrayType))
	case reflect.Struct:
		if a.Type() == timeType {
			return class, a.Interface().(time.Time) != b.Interface().(time.Time)
		}
		for i := 0; i < a.NumField(); i++ {
			sf := a.Type().Field(i)
			if sf.PkgPath != "" {
				continue
			}
			c2 := class + "." + sf.Name
			if frozen {
				c2 = class
			}
			if c, ok := firstDiff(a.Field(i), b.Field(i), c2, frozen); ok {
				return c, true
			}
		}
		return class, false
	case reflect.Slice, reflect.Array:
		if a.Len() != b.Len() {
			return class, true
		}
		for i := 0; i < a.Len(); i++ {
			c2 := class
			if !frozen && a.Type().Elem().Kind() != reflect.Uint8 && a.Type().Elem().Kind() != reflect.Uint64 {
				c2 = class + "[0]"
			}
			if c, ok := firstDiff(a.Index(i), b.Index(i), c2, frozen); ok {
				return c, true
			}
		}
		return class, false
	case reflect.Int, reflect.Int64, reflect.Int32, reflect.Int16, reflect.Int8:
		return class, a.Int() != b.Int()
	case reflect.Uint8, reflect.Uint16, reflect.Uint32, reflect.Uint64, reflect.Uint:
		return class, a.Uint() != b.Uint()
	case reflect.String:
		return class, a.String() != b.String()
	case reflect.Bool:
		return class, a.Bool() != b.Bool()
	}
	return class, false
}

// genRaw generates every 1-byte string on one channel.
func genRaw(ch byte) []genCase {
	var out []genCase
	name := fmt.Sprintf("raw@%02x", ch)
	for a := 0; a < 256; a++ {
		out = append(out, genCase{Key: fmt.Sprintf("raw1/%s/%02x", name, a), Family: "raw1", Type: name, Field: name, Class: name, Val: fmt.Sprintf("%02x", a), Ch: ch, Bz: []byte{byte(a)}})
	}
	return out
}
