package c08net

import (
	"fmt"
	"reflect"
	"sync"
	"time"

	"github.com/spf13/viper"

	bc "github.com/dappledger/AnnChain/gemmill/blockchain"
	"github.com/dappledger/AnnChain/gemmill/consensus/pbft"
	"github.com/dappledger/AnnChain/gemmill/go-wire"
	"github.com/dappledger/AnnChain/gemmill/mempool"
	"github.com/dappledger/AnnChain/gemmill/p2p"
)

// unservedChannel is a channel id the attacker's switch has and the node's has not.
const unservedChannel = byte(0x7f)

// servedChannels are the channel ids the node serves (probe excluded).
var servedChannels = []byte{pbft.StateChannel, pbft.DataChannel, pbft.VoteChannel, pbft.VoteSetBitsChannel, mempool.MempoolChannel, bc.BlockchainChannel, p2p.PexChannel}

// attackerReactor claims every channel id of the node and only counts what the node sends.
type attackerReactor struct {
	p2p.BaseReactor
	mu    sync.Mutex
	recv  map[string]int
	peers chan *p2p.Peer
}

func newAttackerReactor() *attackerReactor {
	r := &attackerReactor{recv: map[string]int{}, peers: make(chan *p2p.Peer, 4)}
	r.BaseReactor = *p2p.NewBaseReactor("VerifAttacker", r)
	return r
}

func (r *attackerReactor) GetChannels() []*p2p.ChannelDescriptor {
	var out []*p2p.ChannelDescriptor
	for _, id := range append(append([]byte{}, servedChannels...), probeChannel, unservedChannel) {
		out = append(out, &p2p.ChannelDescriptor{ID: id, Priority: 1, SendQueueCapacity: 100})
	}
	return out
}
func (r *attackerReactor) AddPeer(p *p2p.Peer) {
	select {
	case r.peers <- p:
	default:
	}
}
func (r *attackerReactor) RemovePeer(*p2p.Peer, interface{}) {}
func (r *attackerReactor) Receive(ch byte, src *p2p.Peer, bz []byte) {
	k := fmt.Sprintf("%02x", ch)
	if len(bz) > 0 {
		k += fmt.Sprintf("/%02x", bz[0])
	}
	r.mu.Lock()
	r.recv[k]++
	r.mu.Unlock()
}
func (r *attackerReactor) counts() map[string]int {
	r.mu.Lock()
	defer r.mu.Unlock()
	o := map[string]int{}
	for k, v := range r.recv {
		o[k] = v
	}
	return o
}

// rawValue returns a value whose go-wire encoding is exactly bz: a fixed-size
// byte array is written without a length prefix.
func rawValue(bz []byte) interface{} {
	t := reflect.ArrayOf(len(bz), reflect.TypeOf(byte(0)))
	v := reflect.New(t).Elem()
	reflect.Copy(v, reflect.ValueOf(bz))
	return v.Interface()
}

// checkRawEncoding verifies the claim above against the real encoder.
func checkRawEncoding() error {
	for _, bz := range [][]byte{{0x00}, {0xff}, {0x01, 0x02, 0x03}, make([]byte, 300)} {
		got := wire.BinaryBytes(rawValue(bz))
		if string(got) != string(bz) {
			return fmt.Errorf("raw encoding of %x is %x", bz, got)
		}
	}
	return nil
}

// Attacker is one malicious peer: a real switch with the scripted reactor.
type Attacker struct {
	Sw   *p2p.Switch
	R    *attackerReactor
	Peer *p2p.Peer // the attacker's handle on its connection to the node
}

func p2pConf() *viper.Viper {
	c := viper.New()
	c.Set("authenticated_encryption", true) // AddPeerWithConnection casts to *SecretConnection unconditionally
	c.Set("handshake_timeout_seconds", 20)
	c.Set("connection_reset_wait", 300)
	return c
}

// newAttackerSwitch makes and starts a lone attacker switch.
func newAttackerSwitch(cfg *viper.Viper, listenAddr string) *Attacker {
	a := &Attacker{R: newAttackerReactor()}
	sws := p2p.MakeConnectedSwitches(cfg, 1, func(i int, sw *p2p.Switch) *p2p.Switch {
		sw.AddReactor("ATTACKER", a.R)
		return sw
	}, func([]*p2p.Switch, int, int) {})
	a.Sw = sws[0]
	a.Sw.NodeInfo().ListenAddr = listenAddr
	return a
}

// connect joins the attacker to the node through the real handshake; the node
// sees an inbound peer.
func (a *Attacker) connect(n *Node) error {
	p2p.Connect2Switches([]*p2p.Switch{n.Sw, a.Sw}, 0, 1)
	select {
	case p := <-a.R.peers:
		a.Peer = p
		return nil
	case <-time.After(10 * time.Second):
		return fmt.Errorf("attacker did not get a peer")
	}
}

// nodeSidePeer returns the node's Peer object for the attacker (nil once removed).
func (a *Attacker) nodeSidePeer(n *Node) *p2p.Peer {
	return n.Sw.Peers().Get(a.Sw.NodeInfo().PubKey.KeyString())
}

func (a *Attacker) stop() {
	defer func() { recover() }()
	a.Sw.Stop()
}
