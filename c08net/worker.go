package c08net

import (
	"bufio"
	"encoding/binary"
	"encoding/hex"
	"encoding/json"
	"fmt"
	"os"
	"path/filepath"
	"sync"
	"time"

	"github.com/dappledger/AnnChain/gemmill/consensus/pbft"
	gcmn "github.com/dappledger/AnnChain/gemmill/modules/go-common"
	"github.com/dappledger/AnnChain/gemmill/p2p"
	"github.com/dappledger/AnnChain/gemmill/types"
)

// Case is one scenario; it is what a replay artefact carries.  The concrete
// bytes are re-derived by the worker from the live node (heights and block
// hashes differ from run to run); Key names the mutation.
type Case struct {
	ID     int    `json:"id"`
	Key    string `json:"key"`
	Family string `json:"family"`
	Type   string `json:"type"`
	Field  string `json:"field"`
	Class  string `json:"class"`
	Val    string `json:"val"`
	Mode   string `json:"mode"` // live: claims the node's current height; ahead: current+2; behind: current-2
	Chan   byte   `json:"chan"`
	Long   bool   `json:"long"` // also wait one queryMaj23Routine period (2 s)
}

// Outcome is the worker's answer for one case.
type Outcome struct {
	ID           int            `json:"id"`
	Class        string         `json:"class"` // ok | stall | undelivered | setup | late | nokey
	Disconnected bool           `json:"disconnected"`
	H0           int64          `json:"h0"`
	T            int64          `json:"t"`
	Hend         int64          `json:"hend"`
	Blocks       int64          `json:"blocks"` // blocks committed after delivery
	PRS          string         `json:"prs"`    // the node's view of the attacker after delivery
	Recv         map[string]int `json:"recv"`   // what the node sent to the attacker, by channel/type byte
	Wire         string         `json:"wire"`   // the poisoned message, hex
	Text         string         `json:"text"`
	Detail       string         `json:"detail"`
	WallMS       int64          `json:"wall_ms"`
	Late         bool           `json:"late"`     // the script arrived after the node left the addressed height (after 4 attempts)
	Attempts     int            `json:"attempts"` // attempts needed (late ones do not count)
	Recycle      bool           `json:"recycle"`
}

// EnumEntry is one generated input as listed by the enumeration worker.
type EnumEntry struct {
	Key    string `json:"key"`
	Family string `json:"family"`
	Type   string `json:"type"`
	Field  string `json:"field"`
	Class  string `json:"class"`
	Val    string `json:"val"`
	Chan   byte   `json:"chan"`
}

const (
	caseDeadline   = 20 * time.Second
	gossipPeriods  = 3
	gossipSleep    = 100 * time.Millisecond // pbft.peerGossipSleepDuration
	maj23Sleep     = 2 * time.Second        // pbft.peerQueryMaj23SleepDuration
	recycleHeight  = 200                    // heights stay below 256 so that every encoding keeps its length
	startupHeight  = 3
	freshHeightAge = 25 * time.Millisecond
)

// IsWorker reports whether this process is a c08net worker.
func IsWorker() bool { return len(os.Args) > 1 && os.Args[1] == "c08net-worker" }

type heightWatch struct {
	mu     sync.Mutex
	h      int64
	change time.Time
	next   chan struct{} // closed at the next height change
}

// attach subscribes to the node's NewRoundStep events (fired synchronously by
// the consensus goroutine on every step), so a height change is seen when it happens.
func (w *heightWatch) attach(n *Node) {
	w.h, w.change, w.next = n.Height(), time.Now(), make(chan struct{})
	types.AddListenerForEvent(n.evsw, "verif-height", types.EventStringNewRoundStep(), func(ed types.TMEventData) {
		rs, ok := ed.(types.EventDataRoundState)
		if !ok {
			return
		}
		w.mu.Lock()
		if rs.Height != w.h {
			w.h, w.change = rs.Height, time.Now()
			close(w.next)
			w.next = make(chan struct{})
		}
		w.mu.Unlock()
	})
}

// waitChange waits for the next height change.
func (w *heightWatch) waitChange(d time.Duration) bool {
	w.mu.Lock()
	ch := w.next
	w.mu.Unlock()
	select {
	case <-ch:
		return true
	case <-time.After(d):
		return false
	}
}

func (w *heightWatch) get() (int64, time.Duration) {
	w.mu.Lock()
	defer w.mu.Unlock()
	return w.h, time.Since(w.change)
}

// WorkerMain is the body of a worker subprocess.
func WorkerMain() {
	dir := os.Getenv("VERIF_WORKER_DIR")
	if dir == "" {
		fmt.Fprintln(os.Stderr, "c08net worker: VERIF_WORKER_DIR not set")
		os.Exit(3)
	}
	if err := checkRawEncoding(); err != nil {
		fmt.Fprintln(os.Stderr, "c08net worker:", err)
		os.Exit(3)
	}
	if err := checkPexMirror(); err != nil {
		fmt.Fprintln(os.Stderr, "c08net worker:", err)
		os.Exit(3)
	}
	cfg := p2pConf()
	var node *Node
	var nerr error
	p2p.MakeConnectedSwitches(cfg, 1, func(i int, sw *p2p.Switch) *p2p.Switch {
		node, nerr = newNode(filepath.Join(dir, "node"), cfg, sw)
		return sw
	}, func([]*p2p.Switch, int, int) {})
	if nerr != nil {
		fmt.Fprintln(os.Stderr, "c08net worker: node:", nerr)
		os.Exit(3)
	}
	node.Sw.NodeInfo().ListenAddr = "127.0.0.1:46656"
	if !node.waitHeight(startupHeight, 30*time.Second) {
		fmt.Fprintln(os.Stderr, "c08net worker: node does not reach the start height")
		os.Exit(4)
	}
	hw := &heightWatch{}
	hw.attach(node)
	out := bufio.NewWriter(os.Stdout)
	if len(os.Args) > 2 && os.Args[2] == "enum" {
		b, _ := json.Marshal(enumerate(node))
		out.Write(b)
		out.WriteByte('\n')
		out.Flush()
		os.Exit(0)
	}
	in := bufio.NewReaderSize(os.Stdin, 1<<20)
	for {
		line, err := in.ReadBytes('\n')
		if len(line) > 1 {
			// one line = one batch: its cases run concurrently against the node, each with
			// its own attacker switch (a batch of one is the plain sequential mode)
			var cs []*Case
			if e := json.Unmarshal(line, &cs); e != nil {
				fmt.Fprintf(os.Stderr, "c08net worker: bad batch: %v\n", e)
				os.Exit(3)
			}
			for _, c := range cs {
				fmt.Fprintf(os.Stderr, "##C08NET %d %s\n", c.ID, c.Key)
			}
			outs := make([]*Outcome, len(cs))
			var wg sync.WaitGroup
			for i := range cs {
				wg.Add(1)
				go func(i int) {
					defer wg.Done()
					outs[i] = runCase(node, hw, cs[i])
				}(i)
			}
			wg.Wait()
			b, _ := json.Marshal(outs)
			out.Write(b)
			out.WriteByte('\n')
			out.Flush()
		}
		if err != nil {
			os.Exit(0)
		}
	}
}

func newCtx(n *Node, mode string, h0 int64, nonce int) *genCtx {
	c := &genCtx{mode: mode, H0: h0, nonce: nonce, valAddr: n.Key.PubKey().Address()}
	switch mode {
	case "ahead":
		c.T = h0 + 2 // the script is in place a whole height before the node gets there
	case "behind":
		c.T = h0 - 2
	default:
		c.T = h0
	}
	c.hdr = types.PartSetHeader{Total: 3, Hash: []byte("\x01\x01\x01\x01\x01\x01\x01\x01\x01\x01\x01\x01\x01\x01\x01\x01\x01\x01\x01\x01")}
	if mode == "behind" {
		if meta := n.Store.LoadBlockMeta(c.T); meta != nil {
			c.hdr, c.realHdr = meta.PartsHeader, true
		}
	}
	c.block = n.Store.LoadBlock(h0 - 1)
	return c
}

// enumerate lists every generated input (keys only).
func enumerate(n *Node) []EnumEntry {
	c := newCtx(n, "live", n.Height(), 0)
	var out []EnumEntry
	add := func(gs []genCase) {
		for _, g := range gs {
			out = append(out, EnumEntry{Key: g.Key, Family: g.Family, Type: g.Type, Field: g.Field, Class: g.Class, Val: g.Val, Chan: g.Ch})
		}
	}
	for _, sp := range msgTable {
		for _, fam := range familiesOf {
			add(c.genType(sp.name, fam))
		}
	}
	for _, ch := range servedChannels {
		add(genRaw(ch))
	}
	return out
}

func findCase(ctx *genCtx, c *Case) *genCase {
	var gs []genCase
	switch c.Family {
	case "raw1":
		gs = genRaw(c.Chan)
	case "unserved":
		bz, _ := encode("consensus", ctx.base("NewRoundStepMessage"))
		return &genCase{Key: c.Key, Family: c.Family, Type: c.Type, Ch: unservedChannel, Bz: bz}
	default:
		gs = ctx.genType(c.Type, c.Family)
	}
	for i := range gs {
		if gs[i].Key == c.Key {
			return &gs[i]
		}
	}
	return nil
}

func baShape(b *gcmn.BitArray) string {
	if b == nil {
		return "nil"
	}
	return fmt.Sprintf("%d:%d", b.Bits, len(b.Elems))
}

func relH(h, t int64) string {
	if d := h - t; d >= -5 && d <= 5 {
		return fmt.Sprintf("T%+d", d)
	}
	return fmt.Sprintf("%d", h)
}

// prsDigest summarises the node's PeerRoundState for the attacker without
// calling any method of a possibly malformed BitArray.
func prsDigest(p *p2p.Peer, t int64) string {
	if p == nil {
		return "peer-removed"
	}
	v := p.Data.Get(types.PeerStateKey)
	ps, ok := v.(*pbft.PeerState)
	if !ok || ps == nil {
		return "no-peer-state"
	}
	r := ps.GetRoundState()
	return fmt.Sprintf("H=%s R=%d S=%d prop=%v pbph=%d pbp=%s polr=%d pol=%s pv=%s pc=%s lcr=%d lc=%s ccr=%d cc=%s",
		relH(r.Height, t), r.Round, r.Step, r.Proposal, r.ProposalBlockPartsHeader.Total, baShape(r.ProposalBlockParts), r.ProposalPOLRound, baShape(r.ProposalPOL),
		baShape(r.Prevotes), baShape(r.Precommits), r.LastCommitRound, baShape(r.LastCommit), r.CatchupCommitRound, baShape(r.CatchupCommit))
}

// runCase runs one case; when the script of a live/ahead case reaches the node
// only after the node has left the addressed height (an overloaded machine), the
// attempt does not count and the case is run again with a fresh attacker.
func runCase(n *Node, hw *heightWatch, c *Case) (o *Outcome) {
	for attempt := 1; ; attempt++ {
		o = runAttempt(n, hw, c, attempt)
		if !o.Late || attempt == 4 {
			o.Attempts = attempt
			return o
		}
	}
}

func runAttempt(n *Node, hw *heightWatch, c *Case, attempt int) (o *Outcome) {
	start := time.Now()
	o = &Outcome{ID: c.ID, Class: "ok"}
	defer func() {
		o.WallMS = int64(time.Since(start) / time.Millisecond)
		o.Hend = n.Height()
		o.Recycle = o.Hend > recycleHeight
	}()
	listen := fmt.Sprintf("127.0.0.1:%d", 20000+(c.ID*4+attempt)%40000)
	if c.Family == "handshake" {
		listen = c.Val // the attacker's NodeInfo.ListenAddr as sent in the node-info handshake
	}
	att := newAttackerSwitch(n.P2PConf, listen)
	defer func() {
		att.stop()
		dl := time.Now().Add(5 * time.Second)
		for att.nodeSidePeer(n) != nil && time.Now().Before(dl) {
			time.Sleep(2 * time.Millisecond)
		}
		if att.nodeSidePeer(n) != nil {
			o.Detail += " [node still lists the attacker 5 s after its connection closed]"
		}
	}()
	if err := att.connect(n); err != nil {
		o.Class, o.Detail = "setup", err.Error()
		return
	}
	if c.Mode == "mirror" {
		runMirror(n, c, att, o)
		return
	}
	t0 := time.Now()
	// the script is sent right after a height change so that it arrives (the
	// MConnection flushes 100 ms after the first write) within that height
	h0, age := hw.get()
	if c.Mode == "live" && age > freshHeightAge {
		if !hw.waitChange(caseDeadline) {
			o.Class, o.Detail = "setup", "the node made no progress before the injection"
			return
		}
		h0, _ = hw.get()
	}
	ctx := newCtx(n, c.Mode, h0, c.ID)
	o.H0, o.T = h0, ctx.T
	sp0 := specOf(c.Type)
	if c.Family == "handshake" {
		// nothing is sent on any channel: the case is the handshake itself
		st := n.Store.Height()
		dl := time.Now().Add(caseDeadline)
		for n.Store.Height() < st+3 {
			if time.Now().After(dl) {
				o.Class, o.Detail = "stall", "no 3 further blocks after the handshake"
				break
			}
			time.Sleep(10 * time.Millisecond)
		}
		o.Blocks = n.Store.Height() - st
		o.Disconnected = att.nodeSidePeer(n) == nil
		return
	}
	g := findCase(ctx, c)
	if g == nil {
		o.Class, o.Detail = "nokey", "the generator has no case "+c.Key+" for the live node"
		return
	}
	o.Wire = hex.EncodeToString(g.Bz)
	if len(o.Wire) > 400 {
		o.Wire = o.Wire[:400] + "…"
	}
	o.Text = g.Text
	fmt.Fprintf(os.Stderr, "##C08MSG %d node height %d, claimed height %d, msg %s wire %s\n", c.ID, h0, ctx.T, g.Text, o.Wire)
	var script []wireMsg
	if c.Family != "first" && c.Family != "raw1" && c.Family != "unserved" {
		script = append(script, ctx.prelude(c.Type)...)
	}
	script = append(script, wireMsg{g.Ch, g.Bz})
	nonce := make([]byte, 16)
	binary.BigEndian.PutUint64(nonce, uint64(c.ID))
	binary.BigEndian.PutUint64(nonce[8:], uint64(time.Now().UnixNano()))
	script = append(script, wireMsg{probeChannel, nonce})
	arrived := n.Probe.expect(nonce)
	for _, m := range script {
		att.Peer.Send(m.Ch, rawValue(m.Bz))
	}
	// delivered = the nonce sent after the script has arrived, or the node has dropped the attacker
	dl := time.Now().Add(caseDeadline)
	delivered := false
	for !delivered {
		select {
		case <-arrived:
			delivered = true
		case <-time.After(5 * time.Millisecond):
			if att.nodeSidePeer(n) == nil {
				delivered = true
			}
		}
		if !delivered && time.Now().After(dl) {
			o.Class, o.Detail = "undelivered", "the end-of-script marker did not reach the node and the node did not drop the attacker"
			return
		}
	}
	tDel := time.Now()
	storeAtDel := n.Store.Height()
	if hd := n.Height(); att.nodeSidePeer(n) != nil && sp0 != nil && sp0.group == "consensus" &&
		((c.Mode == "live" && hd != ctx.T) || (c.Mode == "ahead" && hd >= ctx.T)) {
		o.Late, o.Class = true, "late"
		o.Detail = fmt.Sprintf("the script for height %d reached the node at height %d", ctx.T, hd)
		return
	}
	// give the few microseconds between the marker and a message on another channel
	time.Sleep(5 * time.Millisecond)
	o.PRS = prsDigest(att.nodeSidePeer(n), ctx.T)
	// progress: three further blocks, the claimed height passed by three, and the
	// gossip routines (sleep 100 ms; queryMaj23 2 s) have had their periods
	sp := specOf(c.Type)
	needH := int64(0)
	if sp != nil && sp.group == "consensus" {
		needH = ctx.T + 3
	}
	dl = time.Now().Add(caseDeadline)
	for {
		done := n.Store.Height() >= storeAtDel+3 && n.Height() >= needH &&
			time.Since(tDel) >= gossipPeriods*gossipSleep+50*time.Millisecond &&
			(!c.Long || time.Since(t0) >= maj23Sleep+250*time.Millisecond)
		if done {
			break
		}
		if time.Now().After(dl) {
			o.Class = "stall"
			o.Detail = fmt.Sprintf("%d blocks committed in %v after delivery (store height %d, consensus height %d, needed height %d)", n.Store.Height()-storeAtDel, caseDeadline, n.Store.Height(), n.Height(), needH)
			break
		}
		time.Sleep(10 * time.Millisecond)
	}
	o.Blocks = n.Store.Height() - storeAtDel
	o.Disconnected = att.nodeSidePeer(n) == nil
	o.Recv = att.R.counts()
	return
}

// runMirror: the attacker claims the node's CURRENT height and names the parts header of the
// block the node is working on - what any peer at that height learns from the node's own
// gossip.  That is the state in which the gossip routines combine the peer's stored bit arrays
// with the node's own part set.  A free-running single-validator node passes through it in a
// few milliseconds, so the consensus goroutine is parked at the build-tagged gate (between two
// inputs, no lock held, reactor and gossip routines running) while the script is delivered and
// for a few gossip periods afterwards.
func runMirror(n *Node, c *Case, att *Attacker, o *Outcome) {
	g := pbft.NewVerifGate()
	type snap struct {
		h   int64
		hdr types.PartSetHeader
	}
	paused := make(chan snap, 1)
	release := make(chan struct{})
	giveUp := make(chan struct{})
	done := make(chan struct{})
	n.CS.SetVerifGate(g)
	go func() {
		defer close(done)
		for {
			<-g.Idle
			stop := false
			select {
			case <-giveUp:
				stop = true
			default:
				rs := n.CS.VerifRoundState()
				if rs.ProposalBlockParts != nil && rs.ProposalBlockParts.IsComplete() && rs.Step >= pbft.RoundStepPrevote && rs.Step < pbft.RoundStepCommit {
					paused <- snap{rs.Height, rs.ProposalBlockParts.Header()}
					<-release
					stop = true
				}
			}
			if stop {
				n.CS.SetVerifGate(nil) // the consensus goroutine is parked: it will not look at the gate again
				g.Go <- struct{}{}
				return
			}
			g.Go <- struct{}{}
		}
	}()
	var sn snap
	select {
	case sn = <-paused:
	case <-time.After(caseDeadline):
		close(giveUp)
		<-done
		o.Class, o.Detail = "setup", "the node did not reach a step with a complete proposal block"
		return
	}
	resume := func() {
		close(release)
		<-done
	}
	ctx := newCtx(n, "live", sn.h, c.ID)
	ctx.T, ctx.hdr, ctx.realHdr = sn.h, sn.hdr, true
	o.H0, o.T = sn.h, sn.h
	gc := findCase(ctx, c)
	if gc == nil {
		resume()
		o.Class, o.Detail = "nokey", "the generator has no case "+c.Key+" for the live node"
		return
	}
	o.Wire = hex.EncodeToString(gc.Bz)
	if len(o.Wire) > 400 {
		o.Wire = o.Wire[:400] + "…"
	}
	o.Text = gc.Text
	fmt.Fprintf(os.Stderr, "##C08MSG %d node parked at height %d with a complete proposal block, msg %s wire %s\n", c.ID, sn.h, gc.Text, o.Wire)
	script := append(ctx.prelude(c.Type), wireMsg{gc.Ch, gc.Bz})
	nonce := make([]byte, 16)
	binary.BigEndian.PutUint64(nonce, uint64(c.ID))
	binary.BigEndian.PutUint64(nonce[8:], uint64(time.Now().UnixNano()))
	script = append(script, wireMsg{probeChannel, nonce})
	arrived := n.Probe.expect(nonce)
	for _, m := range script {
		att.Peer.Send(m.Ch, rawValue(m.Bz))
	}
	dl := time.Now().Add(caseDeadline)
	delivered := false
	for !delivered {
		select {
		case <-arrived:
			delivered = true
		case <-time.After(5 * time.Millisecond):
			if att.nodeSidePeer(n) == nil {
				delivered = true
			}
		}
		if !delivered && time.Now().After(dl) {
			resume()
			o.Class, o.Detail = "undelivered", "the end-of-script marker did not reach the node and the node did not drop the attacker"
			return
		}
	}
	// the gossip routines (sleep 100 ms) get their periods while the node still holds the block
	// (a generous multiple: the routines' timers compete with everything else on a loaded machine)
	time.Sleep(4*gossipPeriods*gossipSleep + 300*time.Millisecond)
	o.PRS = prsDigest(att.nodeSidePeer(n), sn.h)
	storeAtDel := n.Store.Height()
	resume()
	dl = time.Now().Add(caseDeadline)
	for n.Store.Height() < storeAtDel+3 {
		if time.Now().After(dl) {
			o.Class = "stall"
			o.Detail = fmt.Sprintf("%d blocks committed in %v after the node was released (store height %d, consensus height %d)", n.Store.Height()-storeAtDel, caseDeadline, n.Store.Height(), n.Height())
			break
		}
		time.Sleep(10 * time.Millisecond)
	}
	o.Blocks = n.Store.Height() - storeAtDel
	o.Disconnected = att.nodeSidePeer(n) == nil
	o.Recv = att.R.counts()
}
