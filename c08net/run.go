package c08net

import (
	"bufio"
	"bytes"
	"encoding/json"
	"fmt"
	"io"
	"io/ioutil"
	"os"
	"os/exec"
	"path/filepath"
	"regexp"
	"sort"
	"strconv"
	"strings"
	"sync"
	"time"

	"verif/core"
)

// ---------------------------------------------------------------- worker processes

type tailBuf struct {
	mu  sync.Mutex
	buf []byte
}

func (t *tailBuf) Write(p []byte) (int, error) {
	t.mu.Lock()
	t.buf = append(t.buf, p...)
	if len(t.buf) > 1<<17 {
		t.buf = t.buf[len(t.buf)-(1<<16):]
	}
	t.mu.Unlock()
	return len(p), nil
}

func (t *tailBuf) String() string {
	t.mu.Lock()
	defer t.mu.Unlock()
	return string(t.buf)
}

type proc struct {
	cmd    *exec.Cmd
	stdin  io.WriteCloser
	stdout *bufio.Reader
	stderr *tailBuf
}

func spawn(dir string, extra ...string) (*proc, error) {
	os.RemoveAll(dir)
	os.MkdirAll(dir, 0755)
	args := append([]string{"c08net-worker"}, extra...)
	cmd := exec.Command(os.Args[0], args...)
	cmd.Env = append(os.Environ(), "VERIF_WORKER_DIR="+dir, "GOMAXPROCS=2", "GOTRACEBACK=single")
	in, _ := cmd.StdinPipe()
	out, _ := cmd.StdoutPipe()
	tb := &tailBuf{}
	cmd.Stderr = tb
	if err := cmd.Start(); err != nil {
		return nil, err
	}
	return &proc{cmd: cmd, stdin: in, stdout: bufio.NewReaderSize(out, 1<<22), stderr: tb}, nil
}

func (p *proc) kill() {
	p.stdin.Close()
	p.cmd.Process.Kill()
	p.cmd.Wait()
}

// result of handing one case to a worker process.
type result struct {
	c        *Case
	o        *Outcome // nil when the process died or timed out
	died     bool
	timedOut bool
	panicMsg string
	site     string // innermost repository frame of the panicking goroutine
	routine  string // entry function of the panicking goroutine
	stderr   string
	msgLine  string // the worker's rendering of the concrete message it sent (from stderr)
}

var markerRe = regexp.MustCompile(`##C08NET (\d+) `)
var msgRe = regexp.MustCompile(`##C08MSG (\d+) ([^\n]*)`)

// exchange sends one batch and waits for its outcomes.  died/timedOut results
// of a batch larger than one are not attributable (attributed=false): the
// caller re-runs those cases one by one.
func (p *proc) exchange(batch []*Case, guard time.Duration) (rs []*result, attributed bool) {
	b, _ := json.Marshal(batch)
	p.stdin.Write(append(b, '\n'))
	type rd struct {
		line []byte
		err  error
	}
	ch := make(chan rd, 1)
	go func() {
		l, e := p.stdout.ReadBytes('\n')
		ch <- rd{l, e}
	}()
	for _, c := range batch {
		rs = append(rs, &result{c: c})
	}
	select {
	case x := <-ch:
		if x.err != nil || len(bytes.TrimSpace(x.line)) == 0 {
			p.cmd.Wait()
			stderr := p.stderr.String()
			msg, site, routine := parsePanic(stderr)
			for _, r := range rs {
				r.died, r.stderr = true, stderr
			}
			if i := strings.LastIndex(stderr, "c08net worker:"); i >= 0 && msg == "" {
				// the worker itself gave up (bad input, node did not start): never a verdict
				core.Fatal("c08net: %s", strings.TrimSpace(stderr[i:]))
			}
			if len(batch) > 1 {
				return rs, false
			}
			r := rs[0]
			r.panicMsg, r.site, r.routine = msg, site, routine
			// the death belongs to this case only if its marker is the last one printed
			if m := markerRe.FindAllStringSubmatch(stderr, -1); len(m) > 0 {
				if id, _ := strconv.Atoi(m[len(m)-1][1]); id != r.c.ID {
					r.panicMsg = ""
				}
			} else {
				r.panicMsg = ""
			}
			if m := msgRe.FindAllStringSubmatch(stderr, -1); len(m) > 0 {
				if id, _ := strconv.Atoi(m[len(m)-1][1]); id == r.c.ID {
					r.msgLine = m[len(m)-1][2]
				}
			}
			return rs, true
		}
		var outs []*Outcome
		if e := json.Unmarshal(x.line, &outs); e != nil || len(outs) != len(batch) {
			for _, r := range rs {
				r.died, r.stderr = true, "unparsable worker answer: "+string(x.line)
			}
			p.kill()
			return rs, len(batch) == 1
		}
		for i, r := range rs {
			r.o = outs[i]
		}
		return rs, true
	case <-time.After(guard):
		for _, r := range rs {
			r.timedOut, r.stderr = true, p.stderr.String()
		}
		p.kill()
		return rs, len(batch) == 1
	}
}

// parsePanic extracts the panic message, the innermost repository frame and
// the entry function of the panicking goroutine from a Go crash dump.
func parsePanic(stderr string) (msg, site, routine string) {
	idx := strings.LastIndex(stderr, "\npanic: ")
	if idx < 0 {
		if strings.HasPrefix(stderr, "panic: ") {
			idx = 0
		} else if j := strings.LastIndex(stderr, "fatal error: "); j >= 0 {
			idx = j
		} else {
			return "", "", ""
		}
	}
	rest := strings.TrimPrefix(stderr[idx:], "\n")
	if j := strings.IndexByte(rest, '\n'); j >= 0 {
		msg = rest[:j]
	} else {
		msg = rest
	}
	if len(msg) > 300 {
		msg = msg[:300]
	}
	// frames of the first goroutine block
	g := strings.Index(rest, "\ngoroutine ")
	if g < 0 {
		return
	}
	block := rest[g+1:]
	if e := strings.Index(block, "\n\n"); e >= 0 {
		block = block[:e]
	}
	const pfx = "github.com/dappledger/AnnChain/"
	fn := func(l string) string {
		if j := strings.LastIndex(l, "("); j > 0 {
			l = l[:j]
		}
		return strings.TrimPrefix(l, pfx)
	}
	for _, l := range strings.Split(block, "\n") {
		if strings.HasPrefix(l, "\t") || strings.HasPrefix(l, "goroutine ") || strings.HasPrefix(l, "panic(") || strings.HasPrefix(l, "created by ") {
			continue
		}
		if strings.HasPrefix(l, pfx) && !strings.Contains(l, "go-common.Panic") {
			if site == "" {
				site = fn(l)
			}
			routine = fn(l) // the last repository frame is the goroutine's entry
		}
	}
	return
}

// ---------------------------------------------------------------- enumeration and tiers

func enumerateCases(workDir string) ([]EnumEntry, error) {
	p, err := spawn(filepath.Join(workDir, "enum"), "enum")
	if err != nil {
		return nil, err
	}
	defer p.kill()
	type rd struct {
		line []byte
		err  error
	}
	ch := make(chan rd, 1)
	go func() {
		l, e := p.stdout.ReadBytes('\n')
		ch <- rd{l, e}
	}()
	select {
	case x := <-ch:
		if len(bytes.TrimSpace(x.line)) == 0 {
			return nil, fmt.Errorf("enumeration worker failed: %v\n%s", x.err, p.stderr.String())
		}
		var es []EnumEntry
		if e := json.Unmarshal(x.line, &es); e != nil {
			return nil, e
		}
		return es, nil
	case <-time.After(90 * time.Second):
		return nil, fmt.Errorf("enumeration worker timed out\n%s", p.stderr.String())
	}
}

// buildCases selects the tier's cases from the enumeration.
func buildCases(es []EnumEntry, quick bool) []*Case {
	var out []*Case
	add := func(e EnumEntry, mode string, long bool) {
		out = append(out, &Case{ID: len(out), Key: e.Key, Family: e.Family, Type: e.Type, Field: e.Field, Class: e.Class, Val: e.Val, Mode: mode, Chan: e.Chan, Long: long})
	}
	// queryMaj23Routine (period 2 s) reads Height, Round, ProposalPOLRound and
	// CatchupCommitRound of the peer state: the cases that set those wait one period
	targetsMaj23 := func(e EnumEntry) bool {
		switch e.Field {
		case "NewRoundStepMessage.Height", "NewRoundStepMessage.Round", "NewRoundStepMessage.LastCommitRound", "ProposalPOLMessage.ProposalPOLRound", "ProposalPOLMessage.Height":
			return true
		}
		return e.Val == "valid" && (e.Type == "NewRoundStepMessage" || e.Type == "ProposalPOLMessage")
	}
	for _, e := range es {
		sp := specOf(e.Type)
		cons := sp != nil && sp.group == "consensus"
		switch e.Family {
		case "structured", "first":
			if quick {
				if sp == nil || !sp.quick {
					continue
				}
				// quick: per type the modes in which its fields are consumed.  What the
				// gossip routines read while the node is AT the claimed height (round numbers,
				// the stored bit arrays) is addressed two heights ahead, so that it is in place
				// for the whole height whatever the timing; the catch-up branches by claiming a
				// stored height; HasVote/VoteSetMaj23/VoteSetBits act only when they arrive
				// while the node is at the claimed height (live)
				switch e.Type {
				case "NewRoundStepMessage":
					add(e, "ahead", targetsMaj23(e))
					if e.Family == "structured" {
						add(e, "behind", false)
					}
				case "CommitStepMessage":
					add(e, "ahead", false)
					add(e, "behind", false)
					add(e, "mirror", false)
				case "ProposalPOLMessage":
					add(e, "ahead", targetsMaj23(e))
				default:
					add(e, "live", false)
				}
				continue
			}
			if cons {
				for _, m := range []string{"live", "ahead", "behind"} {
					add(e, m, m == "ahead" && targetsMaj23(e))
				}
				if e.Type == "CommitStepMessage" {
					add(e, "mirror", false)
				}
			} else {
				add(e, "live", false)
			}
		default:
			if quick {
				continue
			}
			// byte-level families: one mode per type, the one in which the type's fields are consumed
			switch e.Type {
			case "NewRoundStepMessage", "CommitStepMessage", "ProposalPOLMessage":
				add(e, "ahead", false)
			default:
				add(e, "live", false)
			}
		}
	}
	if !quick {
		out = append(out, &Case{ID: len(out), Key: "unserved/NewRoundStepMessage", Family: "unserved", Type: "NewRoundStepMessage", Field: "NewRoundStepMessage", Class: "NewRoundStepMessage", Val: fmt.Sprintf("valid on unserved channel %02x", unservedChannel), Mode: "live", Chan: unservedChannel})
	}
	return out
}

// ---------------------------------------------------------------- the check

type candidate struct {
	sig     map[string]string
	kind    string // death | stall
	first   *result
	cases   []*Case
	count   int
	reprs   int
	confirm []string
}

func sigOfDeath(r *result) map[string]string {
	return map[string]string{"kind": "node-goroutine-panic", "part": "peer-state", "site": r.site, "goroutine": r.routine, "type": r.c.Type, "field": r.c.Class}
}

func sigOfStall(c *Case) map[string]string {
	return map[string]string{"kind": "node-stops-committing", "part": "peer-state", "type": c.Type, "field": c.Class}
}

func sigKey(m map[string]string) string {
	ks := make([]string, 0, len(m))
	for k := range m {
		ks = append(ks, k)
	}
	sort.Strings(ks)
	var b strings.Builder
	for _, k := range ks {
		fmt.Fprintf(&b, "%s=%s;", k, m[k])
	}
	return b.String()
}

const batchSize = 6

func guardFor(c *Case) time.Duration {
	return 3*caseDeadline + 15*time.Second
}

// runSolo runs one case alone in a fresh process.
func runSolo(dir string, c *Case) *result {
	p, err := spawn(dir)
	if err != nil {
		return &result{c: c, died: true, stderr: err.Error()}
	}
	rs, _ := p.exchange([]*Case{c}, guardFor(c)+30*time.Second)
	r := rs[0]
	if !r.died && !r.timedOut {
		p.kill()
	}
	return r
}

func describe(c *Case, o *Outcome) string {
	s := fmt.Sprintf("%s %s=%s (mode %s", c.Type, c.Field, c.Val, c.Mode)
	if c.Family != "structured" {
		s += ", family " + c.Family
	}
	s += ")"
	if o != nil {
		s += fmt.Sprintf(" node height %d, claimed height %d", o.H0, o.T)
		if o.Text != "" {
			s += " msg " + o.Text
		}
		if o.Wire != "" {
			s += " wire " + o.Wire
		}
	}
	return s
}

// Assumptions of part (ii).
func Assumptions() []string {
	return []string{
		"part (ii) runs real goroutines: the scenario space (message type x field x boundary value x claimed-height mode, byte mutations, raw bytes per channel) is enumerated exhaustively, the schedule inside each run (goroutine interleaving, timers, MConnection flush throttle) is not controlled; a verdict therefore says 'no panic or stall was observed in this run of the scenario', and every violation candidate is re-run five times in a fresh process and reported only when it reproduces 5/5",
		"a panic inside Reactor.Receive is contained by MConnection._recover (the node drops the attacker) and is allowed (DESIGN §6.3); any panic that terminates the node process is a violation; no progress within 20 s is inconclusive unless it reproduces 5/5",
		"fast-sync's poolRoutine does not run here (the node is a validator, fastSync=false): block-sync messages only reach BlockchainReactor.Receive and the pool's bookkeeping; served-block tampering against a syncing node is C13's scenario space",
		"the attacker addresses heights relative to the node's current height read in-process (live: same height, sent right after a height change so that it arrives within it, re-done when it arrives later; ahead: two heights ahead, in place before the node gets there; behind: an already stored height with the real part-set header); a reactive attacker that learns the current proposal's part-set header and answers within the few milliseconds the single validator needs to commit is not modelled",
	}
}

// Run executes part (ii) and reports violations into run.
func Run(run *core.Run) core.Coverage {
	t00 := time.Now()
	work := filepath.Join(run.WorkDir(), "c08net")
	es, err := enumerateCases(work)
	if err != nil {
		core.Fatal("c08net: %v", err)
	}
	cases := buildCases(es, run.Quick())
	if f := os.Getenv("VERIF_C08NET_ONLY"); f != "" { // debugging aid: restrict to the cases whose key matches
		re := regexp.MustCompile(f)
		var sel []*Case
		for _, c := range cases {
			if re.MatchString(c.Key) {
				sel = append(sel, c)
			}
		}
		cases = sel
		run.Notes = append(run.Notes, "c08net: restricted by VERIF_C08NET_ONLY="+f)
	}
	budget := run.Pick(300, 720) // quick: a safety net
	if v, err := strconv.Atoi(os.Getenv("VERIF_C08NET_BUDGET")); err == nil && v > 0 {
		budget = v // seconds; for measurements on an overloaded machine
	}
	deadline := time.Now().Add(time.Duration(budget) * time.Second)

	// work units: structured cases run one per node at a time (process deaths are
	// frequent there and must be attributable); byte-level cases, where a death is
	// rare, run six at a time against one node, each with its own attacker, and a
	// batch whose process dies is re-run case by case
	var queue [][]*Case
	var pend []*Case
	flush := func() {
		if len(pend) > 0 {
			queue = append(queue, pend)
			pend = nil
		}
	}
	ordered := append([]*Case{}, cases...)
	sort.SliceStable(ordered, func(i, j int) bool { return ordered[i].Long && !ordered[j].Long })
	for _, c := range ordered {
		if c.Family == "structured" || c.Family == "first" {
			queue = append(queue, []*Case{c})
			continue
		}
		pend = append(pend, c)
		if len(pend) == batchSize {
			flush()
		}
	}
	flush()
	var mu sync.Mutex
	var results []*result
	cut, batchDeaths := 0, 0
	nWorkers := 16
	var wg sync.WaitGroup
	for w := 0; w < nWorkers; w++ {
		wg.Add(1)
		go func(w int) {
			defer wg.Done()
			var p *proc
			defer func() {
				if p != nil {
					p.kill()
				}
			}()
			for {
				mu.Lock()
				if len(queue) == 0 {
					mu.Unlock()
					return
				}
				if time.Now().After(deadline) {
					for _, b := range queue {
						cut += len(b)
					}
					queue = nil
					mu.Unlock()
					return
				}
				batch := queue[0]
				queue = queue[1:]
				mu.Unlock()
				if p == nil {
					var err error
					p, err = spawn(filepath.Join(work, fmt.Sprintf("w%d", w)))
					if err != nil {
						core.Fatal("c08net: cannot start a worker: %v", err)
					}
				}
				rs, attributed := p.exchange(batch, guardFor(batch[0]))
				recycle := false
				for _, r := range rs {
					if r.died || r.timedOut {
						p = nil
					} else if r.o.Recycle {
						recycle = true
					}
				}
				if p != nil && recycle {
					p.kill()
					p = nil
				}
				mu.Lock()
				if attributed {
					results = append(results, rs...)
				} else {
					batchDeaths++
					for _, c := range batch {
						queue = append(queue, []*Case{c})
					}
				}
				mu.Unlock()
			}
		}(w)
	}
	wg.Wait()
	mainWall := time.Since(t00).Seconds()
	sort.Slice(results, func(i, j int) bool { return results[i].c.ID < results[j].c.ID })

	// ---- classify
	hist := map[string]int{}
	byType := map[string]int{}
	classes := core.NewCounter()
	prsShapes := core.NewCounter()
	reactions := core.NewCounter()
	samples := core.NewSampler(8, run.Seed)
	cands := map[string]*candidate{}
	var order []string
	gossipEvidence, lateCases, retriedLate := 0, 0, 0
	var retry []*Case
	addCand := func(kind string, sig map[string]string, r *result) {
		k := sigKey(sig)
		cd := cands[k]
		if cd == nil {
			cd = &candidate{sig: sig, kind: kind, first: r}
			cands[k] = cd
			order = append(order, k)
		}
		cd.count++
		cd.cases = append(cd.cases, r.c)
	}
	for _, r := range results {
		byType[r.c.Type]++
		res := ""
		switch {
		case r.died && r.panicMsg != "":
			res = "node-process-died"
			addCand("death", sigOfDeath(r), r)
		case r.died || r.timedOut:
			res = "inconclusive"
			retry = append(retry, r.c)
		case r.o.Class == "stall":
			res = "stall-candidate"
			addCand("stall", sigOfStall(r.c), r)
		case r.o.Class == "nokey":
			core.Fatal("c08net: %s (case %d %s)", r.o.Detail, r.c.ID, r.c.Key)
		case r.o.Class != "ok":
			res = "inconclusive"
			retry = append(retry, r.c)
		case r.o.Disconnected:
			res = "attacker-dropped-by-node"
		default:
			res = "attacker-still-connected"
		}
		hist[res]++
		classes.Add(r.c.Type + "|" + r.c.Class + "|" + r.c.Mode + "|" + res)
		if res != "attacker-still-connected" {
			why := ""
			if res == "inconclusive" {
				switch {
				case r.timedOut:
					why = " [worker guard expired]"
				case r.died:
					why = " [worker died without a panic attributable to the case]"
				case r.o != nil:
					why = " [" + r.o.Class + ": " + r.o.Detail + "]"
				}
			}
			reactions.Add(fmt.Sprintf("%s %s=%s (%s, %s): %s%s", r.c.Type, r.c.Field, r.c.Val, r.c.Family, r.c.Mode, res, why))
		}
		if r.o != nil {
			if r.o.Late {
				lateCases++
			}
			if r.o.Attempts > 1 {
				retriedLate++
			}
			if r.o.PRS != "" {
				prsShapes.Add(r.o.PRS)
			}
			if r.o.Recv["22/14"] > 0 || r.o.Recv["21/13"] > 0 || r.o.Recv["21/11"] > 0 {
				gossipEvidence++
			}
			samples.Add(map[string]interface{}{"case": describe(r.c, r.o), "result": res, "node_view_of_attacker": r.o.PRS, "blocks_after_delivery": r.o.Blocks, "node_sent_to_attacker": r.o.Recv})
		}
	}

	// ---- confirmations: every candidate class is re-run alone, five times, in fresh processes
	type job struct {
		cd  *candidate
		c   *Case
		out []*result
	}
	var jobs []*job
	runJobs := func(js []*job, times int) {
		type unit struct {
			j *job
			k int
		}
		var units []unit
		for _, j := range js {
			j.out = make([]*result, times)
			for k := 0; k < times; k++ {
				units = append(units, unit{j, k})
			}
		}
		var m sync.Mutex
		ni := 0
		var wg sync.WaitGroup
		for w := 0; w < nWorkers && w < len(units); w++ {
			wg.Add(1)
			go func(w int) {
				defer wg.Done()
				for {
					m.Lock()
					if ni >= len(units) {
						m.Unlock()
						return
					}
					u := units[ni]
					ni++
					m.Unlock()
					r := runSolo(filepath.Join(work, fmt.Sprintf("s%d", w)), u.j.c)
					m.Lock()
					u.j.out[u.k] = r
					m.Unlock()
				}
			}(w)
		}
		wg.Wait()
	}
	reported, unconfirmed := 0, []string{}
	confirmRuns := 0
	// representatives: the modes whose timing does not matter first (behind: the
	// claimed height is already stored; ahead: a whole height of margin), live last
	modeRank := map[string]int{"mirror": 0, "behind": 1, "ahead": 2, "live": 3}
	for _, k := range order {
		cs := cands[k].cases
		sort.SliceStable(cs, func(i, j int) bool { return modeRank[cs[i].Mode] < modeRank[cs[j].Mode] })
		if len(cs) > 3 {
			cands[k].cases = cs[:3]
		}
	}
	for round := 0; round < 3; round++ {
		jobs = nil
		for _, k := range order {
			cd := cands[k]
			if cd.reprs < 0 || round >= len(cd.cases) {
				continue
			}
			jobs = append(jobs, &job{cd: cd, c: cd.cases[round]})
		}
		if len(jobs) == 0 {
			break
		}
		runJobs(jobs, 5)
		for _, j := range jobs {
			confirmRuns += 5
			hits := 0
			var last *result
			for _, r := range j.out {
				if j.cd.kind == "death" && r.died && r.panicMsg != "" && r.site == j.cd.sig["site"] && r.routine == j.cd.sig["goroutine"] {
					hits++
					last = r
				}
				if j.cd.kind == "stall" && r.o != nil && r.o.Class == "stall" {
					hits++
					last = r
				}
			}
			j.cd.confirm = append(j.cd.confirm, fmt.Sprintf("%s: %d/5", j.c.Key, hits))
			if hits == 5 {
				j.cd.reprs = -1 // settled
				reported++
				detail := ""
				if j.cd.kind == "death" {
					detail = fmt.Sprintf("%s ==> the node process dies: %s in %s (goroutine %s); reproduced 5/5 alone in a fresh process; %d cases of this class died in the sweep", describe(j.c, nil)+" "+last.msgLine, last.panicMsg, last.site, last.routine, j.cd.count)
				} else {
					detail = fmt.Sprintf("%s ==> %s; reproduced 5/5 alone in a fresh process", describe(j.c, last.o), last.o.Detail)
				}
				run.Report(j.cd.sig, j.c, detail)
			}
		}
	}
	for _, k := range order {
		cd := cands[k]
		if cd.reprs != -1 {
			unconfirmed = append(unconfirmed, fmt.Sprintf("%s (%d cases in the sweep; re-runs %v)", k, cd.count, cd.confirm))
		}
	}
	// ---- inconclusive cases get one more chance alone
	stillInconclusive := 0
	if len(retry) > 0 {
		var js []*job
		for _, c := range retry {
			js = append(js, &job{c: c})
		}
		runJobs(js, 1)
		for _, j := range js {
			r := j.out[0]
			switch {
			case r.died && r.panicMsg != "":
				// a death seen only in the re-run: confirm it like any other candidate
				sig := sigOfDeath(r)
				cj := &job{c: j.c}
				runJobs([]*job{cj}, 5)
				hits := 0
				for _, x := range cj.out {
					if x.died && x.site == r.site {
						hits++
					}
				}
				if hits == 5 {
					run.Report(sig, j.c, fmt.Sprintf("%s ==> the node process dies: %s in %s (goroutine %s); reproduced 5/5", describe(j.c, nil)+" "+r.msgLine, r.panicMsg, r.site, r.routine))
					reported++
				} else {
					stillInconclusive++
				}
			case r.o != nil && r.o.Class == "ok":
				hist["inconclusive"]--
				if r.o.Disconnected {
					hist["attacker-dropped-by-node"]++
				} else {
					hist["attacker-still-connected"]++
				}
			default:
				stillInconclusive++
			}
		}
	}
	// ---- observation outside the property's quantifier (nothing is sent on a channel):
	// the attacker's NodeInfo.ListenAddr of the node-info handshake, which PEXReactor.AddPeer parses
	handshake := []string{}
	if !run.Quick() {
		var js []*job
		for i, la := range []string{"127.0.0.1:1", "", ":", "127.0.0.1", "127.0.0.1:99999"} {
			js = append(js, &job{c: &Case{ID: 900000 + i, Key: "handshake/ListenAddr", Family: "handshake", Type: "NodeInfo", Field: "NodeInfo.ListenAddr", Class: "NodeInfo.ListenAddr", Val: la, Mode: "live"}})
		}
		runJobs(js, 1)
		for _, j := range js {
			r := j.out[0]
			switch {
			case r.died && r.panicMsg != "":
				handshake = append(handshake, fmt.Sprintf("ListenAddr=%q: the node process dies: %s in %s (goroutine %s)", j.c.Val, r.panicMsg, r.site, r.routine))
			case r.o != nil:
				handshake = append(handshake, fmt.Sprintf("ListenAddr=%q: %s, %d blocks afterwards, attacker dropped=%v", j.c.Val, r.o.Class, r.o.Blocks, r.o.Disconnected))
			default:
				handshake = append(handshake, fmt.Sprintf("ListenAddr=%q: inconclusive", j.c.Val))
			}
		}
	}
	if len(unconfirmed) > 0 {
		run.Notes = append(run.Notes, fmt.Sprintf("c08net: candidate classes that did not reproduce 5/5 alone (not reported): %v", unconfirmed))
	}
	candList := []string{}
	for _, k := range order {
		candList = append(candList, fmt.Sprintf("%s x%d %v", k, cands[k].count, cands[k].confirm))
	}
	return core.Coverage{
		"evaluations":               len(results),
		"enumerated":                len(cases),
		"distinct_nontrivial":       classes.Len(),
		"rule":                      "one real single-validator node (real ConsensusState/timeoutTicker/receiveRoutine, Consensus+Blockchain+Mempool+PEX reactors on a real Switch) and one attacker Switch joined over net.Pipe through AddPeerWithConnection; per case the attacker sends a well-formed prelude (NewRoundStep claiming height T, plus a proposal naming POL round 0 for ProposalPOL, plus a vote that makes Receive allocate the peer's bit arrays for HasVote/VoteSetBits), then ONE poisoned message, then keeps the connection open; enumerated: for each of the 6 peer-state consensus messages, the 4 block-sync messages, the mempool tx message and the 2 pex messages a valid instance and every exported field (recursively) set to each boundary value (12 integers + valid±1, byte slices nil/empty/1/flipped/300, BitArray nil / Bits each integer / Elems nil,empty,short,long,all-ones, pointers nil, slices nil/empty/drop/dup/zero-entry/200x), x claimed height T in {live = node's height, ahead = +2, behind = -2 with the real part-set header} for consensus messages (quick: the modes in which the type's fields are consumed); thorough adds: poisoned NewRoundStep as very first message, every slice length prefix replaced by 2^20, 2^31-1, 2^63-1, -1, every single-byte substitution {00,01,7f,80,ff} and every truncation of every valid encoding, every valid message on every wrong channel, every 1-byte string on each of the 7 served channel ids, one message on an unserved channel id; distinct_nontrivial = distinct (type, field class, mode, result) classes; oracle per case: node process alive, 3 further blocks committed after delivery, claimed height passed by 3, >= 3 gossip sleep periods (and one queryMaj23 period where flagged) elapsed",
		"outcomes":                  hist,
		"cases_by_message_type":     byType,
		"distinct_peer_state_views": prsShapes.Len(),
		"cases_where_node_gossiped_votes_or_parts_to_attacker":               gossipEvidence,
		"violation_candidate_classes":                                        candList,
		"cases_with_a_visible_reaction":                                      sortedKeys(reactions.Map(), 400),
		"candidate_classes_confirmed_5_of_5":                                 reported,
		"confirmation_runs":                                                  confirmRuns,
		"inconclusive_after_rerun":                                           stillInconclusive,
		"handshake_observations_outside_the_quantifier":                      handshake,
		"cases_redone_because_the_script_arrived_after_the_addressed_height": retriedLate,
		"cases_still_late_after_4_attempts":                                  lateCases,
		"cases_cut_by_deadline":                                              cut,
		"batches_rerun_case_by_case_after_a_death":                           batchDeaths,
		"exhaustive": cut == 0 && stillInconclusive == 0,
		"scenario_space_exhaustive_schedule_not_controlled": true,
		"sweep_wall_s": float64(int(mainWall*10)) / 10,
		"samples":      samples.List(),
	}
}

func sortedKeys(m map[string]int, max int) []string {
	ks := make([]string, 0, len(m))
	for k := range m {
		ks = append(ks, k)
	}
	sort.Strings(ks)
	if len(ks) > max {
		ks = append(ks[:max], fmt.Sprintf("… (%d more)", len(ks)-max))
	}
	return ks
}

// ---------------------------------------------------------------- replay

// IsReplayCase reports whether the artefact at path carries a c08net case.
func IsReplayCase(path string) bool {
	b, err := ioutil.ReadFile(path)
	if err != nil {
		return false
	}
	var art struct {
		Case struct {
			Key    string `json:"key"`
			Family string `json:"family"`
		} `json:"case"`
	}
	return json.Unmarshal(b, &art) == nil && art.Case.Key != "" && art.Case.Family != ""
}

// Replay re-runs exactly the artefact's case, alone in a fresh process.
func Replay(run *core.Run) {
	var c Case
	if err := run.ReplayCase(&c); err != nil {
		core.Fatal("replay: %v", err)
	}
	r := runSolo(filepath.Join(run.WorkDir(), "c08net", "replay"), &c)
	switch {
	case r.died && r.panicMsg != "":
		run.Report(sigOfDeath(r), &c, fmt.Sprintf("%s ==> the node process dies: %s in %s (goroutine %s)", describe(&c, nil)+" "+r.msgLine, r.panicMsg, r.site, r.routine))
	case r.o != nil && r.o.Class == "stall":
		run.Report(sigOfStall(&c), &c, describe(&c, r.o)+" ==> "+r.o.Detail)
	case r.o == nil || r.o.Class != "ok":
		d := r.stderr
		if r.o != nil {
			d = r.o.Class + ": " + r.o.Detail
		}
		if len(d) > 500 {
			d = d[len(d)-500:]
		}
		core.Fatal("replay inconclusive: %s", d)
	}
}
