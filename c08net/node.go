// Package c08net is part (ii) of the C08 check ("no peer input can crash or
// wedge an honest node"): peer-state poisoning through real switches.
//
// One single-validator node really runs (real ConsensusState with the real
// timeoutTicker and receiveRoutine, real ConsensusReactor, BlockchainReactor,
// MempoolReactor with a real Mempool, PEXReactor on a real p2p.Switch, toy
// application behind the real hook interface); one attacker switch is connected
// to it over net.Pipe through the real AddPeerWithConnection (secret connection,
// node-info handshake, MConnection), so that the real
// MConnection.recvRoutine -> Reactor.Receive -> _recover -> StopPeerForError
// path and the per-peer gossip goroutines run.  DESIGN.md §5 C08 (ii), §6.3.
package c08net

import (
	"fmt"
	"os"
	"path/filepath"
	"sync"
	"sync/atomic"
	"time"

	"github.com/spf13/viper"
	"go.uber.org/zap"

	"github.com/dappledger/AnnChain/gemmill/archive"
	bc "github.com/dappledger/AnnChain/gemmill/blockchain"
	"github.com/dappledger/AnnChain/gemmill/consensus/pbft"
	crypto "github.com/dappledger/AnnChain/gemmill/go-crypto"
	"github.com/dappledger/AnnChain/gemmill/go-hash"
	"github.com/dappledger/AnnChain/gemmill/mempool"
	dbm "github.com/dappledger/AnnChain/gemmill/modules/go-db"
	"github.com/dappledger/AnnChain/gemmill/modules/go-events"
	glog "github.com/dappledger/AnnChain/gemmill/modules/go-log"
	"github.com/dappledger/AnnChain/gemmill/p2p"
	sm "github.com/dappledger/AnnChain/gemmill/state"
	"github.com/dappledger/AnnChain/gemmill/types"
)

const chainID = "verif-chain"

// timeoutCommitMS is the node's timeout_commit: a height lasts this long plus
// a few ms, i.e. about two gossip sleep periods, so that a message sent right
// after a height change (MConnection flushes 100 ms after the first write)
// still arrives within that height.
const timeoutCommitMS = 200

// probeChannel is a harness-owned channel on both switches; the attacker sends
// a nonce on it after its script, the node-side probe reactor reports arrival.
const probeChannel = byte(0x7e)

func init() {
	if os.Getenv("VERIF_LOG") == "" {
		glog.SetLog(zap.NewNop())
	}
	// the default audit logger writes to stdout, which is the worker's result pipe
	glog.SetAuditLog(zap.NewNop())
}

type executor struct{}

func (executor) BeginBlock(*types.Block, events.Fireable, *types.PartSetHeader) error { return nil }
func (executor) ExecBlock(*types.Block, events.Fireable, *types.ExecuteResult) error  { return nil }
func (executor) EndBlock(*types.Block, events.Fireable, *types.PartSetHeader, []*types.ValidatorAttr, *types.ValidatorSet) error {
	return nil
}

// probeReactor is the node-side end of the harness channel.
type probeReactor struct {
	p2p.BaseReactor
	mu      sync.Mutex
	waiters map[string]chan struct{}
}

// expect registers a nonce and returns the channel closed on its arrival.
func (r *probeReactor) expect(nonce []byte) chan struct{} {
	ch := make(chan struct{})
	r.mu.Lock()
	r.waiters[string(nonce)] = ch
	r.mu.Unlock()
	return ch
}

func newProbeReactor() *probeReactor {
	r := &probeReactor{waiters: map[string]chan struct{}{}}
	r.BaseReactor = *p2p.NewBaseReactor("VerifProbe", r)
	return r
}

func (r *probeReactor) GetChannels() []*p2p.ChannelDescriptor {
	return []*p2p.ChannelDescriptor{{ID: probeChannel, Priority: 1, SendQueueCapacity: 10}}
}
func (r *probeReactor) AddPeer(*p2p.Peer)                 {}
func (r *probeReactor) RemovePeer(*p2p.Peer, interface{}) {}
func (r *probeReactor) Receive(ch byte, src *p2p.Peer, bz []byte) {
	r.mu.Lock()
	if ch, ok := r.waiters[string(bz)]; ok {
		delete(r.waiters, string(bz))
		close(ch)
	}
	r.mu.Unlock()
}

// Node is the honest node under test.
type Node struct {
	Dir     string
	Conf    *viper.Viper
	P2PConf *viper.Viper
	Key     crypto.PrivKeyEd25519
	GenDoc  *types.GenesisDoc
	CS      *pbft.ConsensusState
	ConR    *pbft.ConsensusReactor
	BcR     *bc.BlockchainReactor
	MemR    *mempool.MempoolReactor
	Mem     *mempool.Mempool
	PexR    *p2p.PEXReactor
	Book    *p2p.AddrBook
	Store   *bc.BlockStore
	Sw      *p2p.Switch
	Probe   *probeReactor
	evsw    types.EventSwitch
	commits int64
	txSeq   int64
	hmu     sync.Mutex
}

func nodeConf(dir string) *viper.Viper {
	c := viper.New()
	c.Set("chain_id", chainID)
	c.Set("cs_wal_dir", filepath.Join(dir, "cswal"))
	c.Set("cs_wal_light", false)
	c.Set("block_size", 100)
	c.Set("block_part_size", 128) // the honest tx makes every block span several parts
	c.Set("timeout_propose", 3000)
	c.Set("timeout_propose_delta", 500)
	c.Set("timeout_prevote", 1000)
	c.Set("timeout_prevote_delta", 500)
	c.Set("timeout_precommit", 1000)
	c.Set("timeout_precommit_delta", 500)
	c.Set("timeout_commit", timeoutCommitMS)
	c.Set("skip_timeout_commit", false)
	c.Set("mempool_broadcast", true)
	c.Set("mempool_wal_dir", "")
	c.Set("mempool_enable_txs_limits", false)
	c.Set("db_backend", "memdb")
	c.Set("db_archive_dir", filepath.Join(dir, "archive"))
	c.Set("threshold_blocks", 0) // repository default
	return c
}

// appHashFor is the toy application.
func appHashFor(b *types.Block) []byte { return hash.DoHash(append([]byte("app:"), b.Hash()...)) }

// honestTx is what the node's own client submits once per block.
func honestTx(seq int64) types.Tx {
	b := make([]byte, 200) // < 256: every length prefix in a block stays one byte
	copy(b, fmt.Sprintf("honest-tx-%d-", seq))
	for i := 20; i < len(b); i++ {
		b[i] = byte('a' + (int(seq)+i)%26)
	}
	return types.Tx(b)
}

// newNode assembles the node on sw (not started; the switch starts the reactors).
func newNode(dir string, p2pConf *viper.Viper, sw *p2p.Switch) (*Node, error) {
	os.RemoveAll(dir)
	if err := os.MkdirAll(dir, 0755); err != nil {
		return nil, err
	}
	n := &Node{Dir: dir, Conf: nodeConf(dir), P2PConf: p2pConf, Sw: sw}
	os.MkdirAll(n.Conf.GetString("db_archive_dir"), 0755)
	n.Key = crypto.GenPrivKeyEd25519FromSecret([]byte("verif-c08net-validator"))
	n.GenDoc = &types.GenesisDoc{ChainID: chainID, GenesisTime: time.Unix(1500000000, 0),
		Validators: []types.GenesisValidator{{PubKey: n.Key.PubKey(), Amount: 1, Name: "v0", IsCA: true}}}
	pv, _ := types.GenPrivValidator("", n.Key)
	pvFile := filepath.Join(dir, "priv_validator.json")
	pv.SetFile(pvFile)
	pv.Save()
	pv, err := types.LoadPrivValidator(pvFile)
	if err != nil {
		return nil, fmt.Errorf("LoadPrivValidator: %v", err)
	}

	stateDB := dbm.NewMemDB()
	st := sm.MakeGenesisState(stateDB, n.GenDoc)
	st.Save()
	st.SetBlockExecutable(executor{})
	n.Store = bc.NewBlockStore(dbm.NewMemDB(), dbm.NewMemDB())
	n.Mem = mempool.NewMempool(n.Conf)
	n.CS = pbft.NewConsensusState(n.Conf, st, n.Store, n.Mem)
	if n.CS == nil {
		return nil, fmt.Errorf("NewConsensusState returned nil")
	}
	n.CS.SetPrivValidator(pv)
	st.SetBlockVerifier(n.CS)

	n.evsw = types.NewEventSwitch()
	n.evsw.Start()
	types.AddListenerForEvent(n.evsw, "verif", types.EventStringHookNewRound(), func(ed types.TMEventData) {
		ed.(types.EventDataHookNewRound).ResCh <- types.NewRoundResult{}
	})
	types.AddListenerForEvent(n.evsw, "verif", types.EventStringHookExecute(), func(ed types.TMEventData) {
		ed.(types.EventDataHookExecute).ResCh <- types.ExecuteResult{}
	})
	types.AddListenerForEvent(n.evsw, "verif", types.EventStringHookCommit(), func(ed types.TMEventData) {
		d := ed.(types.EventDataHookCommit)
		atomic.AddInt64(&n.commits, 1)
		// the node's own client: one fresh transaction per block
		n.Mem.ReceiveTx(honestTx(atomic.AddInt64(&n.txSeq, 1)))
		d.ResCh <- types.CommitResult{AppHash: appHashFor(d.Block)}
	})

	n.ConR = pbft.NewConsensusReactor(n.CS, false)
	n.CS.BindReactor(n.ConR)
	n.ConR.SetEventSwitch(n.evsw)

	arch := archive.NewArchive("memdb", filepath.Join(dir, "archivedb"), n.Conf.GetInt64("threshold_blocks"))
	n.BcR = bc.NewBlockchainReactor(n.Conf, 0, n.Store, false, arch)
	n.BcR.SetEventSwitch(n.evsw)
	n.BcR.SetBlockVerifier(func(bID types.BlockID, h int64, lc *types.Commit) error {
		return st.Validators.VerifyCommit(st.ChainID, bID, h, lc)
	})
	n.BcR.SetBlockExecuter(func(*types.Block, *types.PartSet, *types.Commit) error { return nil })

	n.MemR = mempool.NewTxReactor(n.Conf, n.Mem)
	n.MemR.SetEventSwitch(n.evsw)

	n.Book = p2p.NewAddrBook(filepath.Join(dir, "addrbook.json"), false)
	n.PexR = p2p.NewPEXReactor(n.Book)
	n.Probe = newProbeReactor()

	// same registration order as Angine.assembleStateMachine
	sw.AddReactor("CONSENSUS", n.ConR)
	sw.AddReactor("MEMPOOL", n.MemR)
	sw.AddReactor("BLOCKCHAIN", n.BcR)
	sw.AddReactor("PEX", n.PexR)
	sw.AddReactor("VERIFPROBE", n.Probe)
	n.Mem.ReceiveTx(honestTx(atomic.AddInt64(&n.txSeq, 1)))
	return n, nil
}

// Height returns the node's consensus height (the height it is working on).
func (n *Node) Height() int64 { return n.CS.GetRoundState().Height }

// waitHeight waits until the node works on height >= h.
func (n *Node) waitHeight(h int64, d time.Duration) bool {
	dl := time.Now().Add(d)
	for n.Height() < h {
		if time.Now().After(dl) {
			return false
		}
		time.Sleep(5 * time.Millisecond)
	}
	return true
}

// waitHeightChange waits for the next height change and returns the new height.
func (n *Node) waitHeightChange(d time.Duration) (int64, bool) {
	h := n.Height()
	ok := n.waitHeight(h+1, d)
	return n.Height(), ok
}
