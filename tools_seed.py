#!/usr/bin/env python3
"""Run checks against a seeded change WITHOUT touching /repo: the patch is applied in a scratch
worktree and the changed files are substituted with `go build -overlay`.
usage: tools_seed.py <patch.diff> <CHECK_ID>[,<CHECK_ID>...] [quick|thorough]
(SEED_KEEP=1 keeps the private root with replays/evidence. Checks that build their own overlay (SCHED) cannot be combined with this; for those apply the patch
to /repo itself as the brief describes: git -C /repo apply … ; ./vcheck … ; git -C /repo checkout -- .)"""
import sys, os, subprocess, json, tempfile, shutil, re
patch=os.path.abspath(sys.argv[1]); ids=sys.argv[2].split(','); tier=sys.argv[3] if len(sys.argv)>3 else 'quick'
wt=tempfile.mkdtemp(prefix='seedwt-',dir='/tmp')
os.rmdir(wt)
subprocess.check_call(['git','-C','/repo','worktree','add','-q','--detach',wt,'HEAD'])
try:
    r=subprocess.run(['git','-C',wt,'apply',patch],capture_output=True,text=True)
    if r.returncode!=0:
        print('PATCH DOES NOT APPLY:',r.stderr); sys.exit(3)
    files=subprocess.check_output(['git','-C',wt,'status','--porcelain'],text=True).split('\n')
    rep={}
    for l in files:
        if not l.strip(): continue
        f=l[3:].strip()
        rep['/repo/'+f]=os.path.join(wt,f)
    ov=os.path.join(wt,'.seed_overlay.json'); json.dump({'Replace':rep},open(ov,'w'))
    root='/verif/.work/seedroot-%d'%os.getpid(); shutil.rmtree(root,ignore_errors=True); os.makedirs(root)
    shutil.copy('/verif/known_findings.txt',root)
    env=dict(os.environ,VERIF_EXTRA_BUILDFLAGS='-overlay '+ov,VERIF_VNODE_BUILDFLAGS='-overlay '+ov,VERIF_MUT_ROOT=root)
    for id in ids:
        r=subprocess.run(['/verif/vcheck',id,tier],env=env,capture_output=True,text=True)
        viol=[l for l in r.stdout.split('\n') if l.startswith('VIOLATION') or l.startswith('   sig')]
        print(f'== {id} {tier}: exit {r.returncode}; {len([v for v in viol if v.startswith("VIOLATION")])} violation lines')
        for v in viol[:8]: print('   ',v[:300])
        if r.returncode not in (0,1): print(r.stderr[-1500:])
    if os.environ.get('SEED_KEEP'):
        print('artefacts (if any) under',root,'- remove THIS directory (only this one) when done')
    else:
        shutil.rmtree(root,ignore_errors=True)
finally:
    subprocess.call(['git','-C','/repo','worktree','remove','--force',wt])
    for d in os.listdir('/verif/.work'):
        b=os.path.join('/verif/.work',d,'bin-mut-seedroot-%d'%os.getpid())
        if os.path.exists(b): os.remove(b)
