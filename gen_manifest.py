#!/usr/bin/env python3
"""Generates MANIFEST.json from the table below (keeps it valid by construction)."""
import json, os
HOOK_COMMITS = [l.split()[0] for l in os.popen("git -C /repo log --format='%h %s' | grep 'verif hook'").read().splitlines()]
ENGINES = [
 {"name":"XSTATE","path":"props/*/ (drivers) + core/","serves_properties":[],"kind_free_text":"explicit enumeration of operation histories / input grids on the real objects against a reference model written in Go; every case executed on the implementation"},
]
# id -> (engine, category, technique, text, note, design_ref, has_thorough)
CHECKS = {}
def chk(id, engine, cat, technique, text, note, thorough=True):
    CHECKS[id]=dict(engine=engine,cat=cat,technique=technique,text=text,note=note,thorough=thorough)

chk("C17","XSTATE","model_checking","exhaustive small-scope enumeration on the real PartSet / simple Merkle tree against a bit-identity reference",
    "Every (data length 0..40, part size 1..9) pair, every arrival permutation with a duplicate (totals<=5), every single-field mutant of every part in three receiver pre-states, and every (index,total) in [-2,19]^2 for every proof of every tree of 1..17 leaves is executed on the real code; accept iff genuine, rejected parts leave the set unchanged, reassembly is byte-exact.",
    "Hash collision resistance; bounds len<=40, part size<=9, 17 leaves; larger blocks are not explored.")

NOT_YET = "check not built yet in this round (planned in DESIGN.md §5); not claimed until its quick check passes on the unchanged tree"
props=[json.loads(l)['id'] for l in open('/verif/properties.jsonl')]
m={"version":1,
   "setup_cmd":"./vcheck setup",
   "hooks":{"guard":"verif (Go build tag)","enable":"go build -tags verif (done by ./vcheck for every check binary)",
            "baseline_off_cmd":"cd /repo && GOFLAGS=-mod=mod GOPROXY=off GOSUMDB=off go test -mod=mod -json -vet=off -count=1 -timeout 25m ./...",
            "source_commits":HOOK_COMMITS,"add_only":True},
   "engines":[], "checks":[], "not_applicable":[],
   "notes":"Every check: ./vcheck <ID> quick|thorough rebuilds its binary from /repo's working tree with -tags verif, enumerates a bounded space exhaustively on the real code, writes evidence/<ID>.json, prints KNOWN-FINDING lines for entries of known_findings.txt and VIOLATION lines (exit 1) for anything else. ./vcheck replay <artefact> re-runs one counterexample."}
eng={}
for id in props:
    if id in CHECKS:
        c=CHECKS[id]
        entry={"property_id":id,"quick_cmd":"./vcheck %s quick"%id,"evidence_file":"evidence/%s.json"%id,
               "replay_cmd_template":"./vcheck replay {path}","engine":c["engine"],
               "level_claimed":{"category":c["cat"],"text":c["text"],"design_ref":"DESIGN.md §5 "+id},
               "level_note":c["note"],"technique":c["technique"]}
        if c["thorough"]: entry["thorough_cmd"]="./vcheck %s thorough"%id
        m["checks"].append(entry)
        for e in c["engine"].split("+"): eng.setdefault(e.strip(),[]).append(id)
    else:
        m["not_applicable"].append({"property_id":id,"reason":NOT_YET})
for e in ENGINES:
    e=dict(e); e["serves_properties"]=eng.get(e["name"],[]); m["engines"].append(e)
json.dump(m,open('/verif/MANIFEST.json','w'),indent=1)
print("claimed",len(m["checks"]),"not_applicable",len(m["not_applicable"]))
