#!/usr/bin/env python3
"""Generates MANIFEST.json from the table below (keeps it valid by construction)."""
import json, os
HOOK_COMMITS = [l.split()[0] for l in os.popen("git -C /repo log --format='%h %s' | grep 'verif hook'").read().splitlines()]
ENGINES = [
 {"name":"CONSNET","path":"consnet/","serves_properties":[],"kind_free_text":"N real pbft.ConsensusState machines (real Start, receiveRoutine, WAL, signer files, block store) driven one input at a time through a build-tagged rendez-vous gate by a harness that is the network, the timers and the disk (crash points); deviation-bounded enumeration of rule subsets; monitors = property oracles; worker subprocess pool"},
 {"name":"DIFFREF","path":"props/c10 props/c11 props/c18","serves_properties":[],"kind_free_text":"upstream go-ethereum v1.8.27 linked into the same binary as the in-tree copy; enumerators feed both, canonical outcome records are compared byte for byte"},
 {"name":"XSTATE","path":"props/*/ (drivers) + core/","serves_properties":[],"kind_free_text":"explicit enumeration of operation histories / input grids on the real objects against a reference model written in Go; every case executed on the implementation"},
]
# id -> (engine, category, technique, text, note, design_ref, has_thorough)
CHECKS = {}
def chk(id, engine, cat, technique, text, note, thorough=True):
    CHECKS[id]=dict(engine=engine,cat=cat,technique=technique,text=text,note=note,thorough=thorough)

chk("C17","XSTATE","model_checking","exhaustive small-scope enumeration on the real PartSet / simple Merkle tree against a bit-identity reference",
    "Every (data length 0..40, part size 1..9) pair, every arrival permutation with a duplicate (totals<=5), every single-field mutant of every part in three receiver pre-states, and every (index,total) in [-2,19]^2 for every proof of every tree of 1..17 leaves is executed on the real code; accept iff genuine, rejected parts leave the set unchanged, reassembly is byte-exact.",
    "Hash collision resistance; bounds len<=40, part size<=9, 17 leaves; larger blocks are not explored.")

CN_NOTE = "4 validators (also 3 and weighted sets in thorough), one Byzantine, 2 heights, rules name rounds 0-1 of height 1; deviation bound 2 (quick) / 3 (thorough, budget-capped: the evidence reports what was completed). Byzantine validators sign only with their own key. Toy application behind the real hook interface; the harness is the network (message stays deliverable; honest relay, maj23 claims and block catch-up in the fair suffix)."
chk("C01","CONSNET","model_checking","deviation-bounded exhaustive exploration of 4 real ConsensusState machines under a harness-owned network; agreement/linearity invariant after every step",
    "Every compatible subset of <= d rules from a menu of network, timer, Byzantine and crash deviations is executed on the real pbft state machines (real Start/receiveRoutine/WAL/signer files, stepped one input at a time through a build-tagged gate); after every step all honest stores are compared (same block per height, each block names its stored predecessor).", CN_NOTE)
chk("C04","CONSNET","model_checking","same CONSNET executions; proof-of-lock monitor on every vote/proposal an honest node emits against the ledger of what was delivered to it",
    "For every message an honest state machine emits the monitor checks, against the votes the harness had handed to that node before: no prevote against a lock without a later polka for something else, precommit only with +2/3 prevotes of that round received, proposer re-proposes its locked block, commit only on +2/3 precommits of one round.", CN_NOTE)
chk("C12","CONSNET","model_checking","same CONSNET executions continued with the fair suffix (all rules expire, everything pending is delivered, timeouts fire only at quiescence); step-bound termination, no wall clock",
    "Every explored adversarial prefix (<= d rules incl. Byzantine actions) is followed by a fair suffix; every honest node must store the target height within the step bound; a state with no enabled event before that, or a panic of a node goroutine, is a violation.", CN_NOTE+" Real-time tickers and the gossip routines' own scheduling are not explored (timers are events).")
chk("C07","CONSNET","fault_enumeration","crash before every durable write of every honest node in several base executions; restart through the real Start()/catchupReplay; replay-equivalence against the uncrashed reference run",
    "Each durable write (WAL record, signer-file step, block-store and state write) of each honest node in happy / two-round / lock-then-commit executions is a crash point; after the real restart the round state must equal the reference state after the last completely logged input, no signature may contradict an earlier one, nobody may panic, and all nodes must finish with equal blocks; thorough adds torn WAL tails and rotation at every record boundary.",
    "Crash model = process death between system calls (no torn writes except the explicit torn-tail cases). Non-light WAL. Harness restores the correct cached proposer after a reload (known finding) so that later differences stay visible.")

chk("C02","CONSNET","model_checking","Byzantine proposer offers every single-mutation block from a generated list on the real state machines; independent from-scratch audit of every block any honest node stores",
    "Every single-field corruption of an honestly built block (header fields, data, embedded last commit; raw and with the covering hash recomputed) is proposed by the Byzantine proposer at height 1 and at height 2, alone and with one network rule; every stored block of every execution (also of the C01 rule menu) is re-verified from scratch: height, predecessor id, app/receipts hash of the prior state, data/last-commit/validator-set hash, seen commit and embedded last commit signature by signature, single round, > 2/3 power.", CN_NOTE+" Validator set constant over the explored heights.")
chk("C08","CONSNET","exploration","exhaustive boundary-value and byte-level input enumeration through the real ConsensusReactor.Receive into a real ConsensusState in 8 receiver states; reference validity predicate; worker-death attribution",
    "All nine consensus message types with every exported field set in turn to every boundary value (also re-signed by the Byzantine validator where it is the legitimate signer), every valid message on every wrong channel, every single-byte substitution and truncation of every valid encoding and every 1-byte (thorough: 2-byte) string on every channel are fed to a real node in each of eight consensus states; a panic on the consensus goroutine is a violation, a message that fails validation must leave the round state exactly as it was, and the node must still finish the next height.",
    "Covers what reaches the consensus goroutine (part i). Gossip-goroutine poisoning through peer state, block-sync, mempool and pex channels are not driven by this check (see DESIGN).")

chk("C15","XSTATE","model_checking","breadth-first explicit-state search over vote/claim streams on the real VoteSet and HeightVoteSet against a reference tally; canonical-state merging with a tested merge argument",
    "Every stream of up to 4 (quick) / 5-6 (thorough) letters (valid votes for A/B/nil, wrong signer, wrong address, out-of-range index, wrong round/type/height, peer majority claims) over 8 validator sets up to the int64 overflow boundary is applied to the real VoteSet (and through HeightVoteSet); after every letter majority, 2/3-any, has-all, bit arrays and AddVote's verdict must equal the reference, a reported majority never changes, and MakeCommit must pass VerifyCommit while every single-vote tampering fails it.",
    "At most 4 validators; stream length as reported in the evidence; collision-free hashes/signatures.")

chk("C16","XSTATE","model_checking","breadth-first explicit-state search over operation histories on the real ValidatorSet (two live copies, real State save/load); relational oracles; canonical-state merging with merge oracle",
    "All histories of increments (1,2,3), Copy, Add, Update, Remove and the real State.Save/LoadState round trip over 90 start sets (all {1,2,3,5}^n for n<=3, six 4-validator vectors) to depth 3-4 (quick) / 4-6 (thorough) are replayed on fresh real sets; determinism, batched = sequential rounds (as enterNewRound composes them), copy independence, persistence round trip, exact proportionality of every window of T selections, and sortedness/total/hash-from-scratch are each evaluated independently at every state.",
    "Depth per set size as reported in the evidence; int64 overflow and empty sets not covered.")

chk("C03","XSTATE","fault_enumeration","explicit-state crash exploration of the real PrivValidator over a real signer file: transition system extracted breadth-first with canonical states, ledger oracle as product monitor, every counterexample re-executed from scratch",
    "24 signing requests x 12 fault variants (no fault; process death before each of the three file operations of WriteFileAtomic and after the rename; an injected error at each; each with/without kill+restart) from every reachable signer/file state: the extracted transition system closes after 3 steps, so the ledger monitors (no two different sign-bytes per height/round/step, no regression, durable record before release, restart always loads) are run to their fixpoint over sequences of every length; an un-deduplicated enumeration cross-checks the deduplicated search.",
    "Crash model = process death between system calls (no torn writes). Heights 1-2, rounds 0-1, blocks A/B. The in-consensus ledger monitor of CONSNET (C07/C01 runs) covers the same invariant inside the state machine.")
chk("C14","XSTATE","model_checking","exhaustive enumeration of signature lists and of request sequences through the real governance path (signed tx -> contract -> 0xfe precompile -> AdminOp -> EndBlock -> ExecBlock) on lock-step and late replicas against a reference tally and set algebra",
    "Every signature list of length <=4 (quick) / <=5 (thorough) over 10 entry kinds on four power vectors is offered to the real AdminOp; every request sequence of length <=2-3 over a 38-letter alphabet (add/update/remove/unknown x targets x nonce n-1,n,n+1 x senders x signature shapes x channel contract/direct precompile, literal replays) runs through the real execution path on two lock-step replicas and late replicas; accepted iff distinct current validators with >2/3 power signed exactly that request with the bound sender and nonce; rejected requests change nothing; all replicas end with the same sorted duplicate-free set and hash; a read-only query must not change anything.",
    "Consensus, p2p and mempool do not run (block validity is C02); part 2 drives core.ApplyTransaction per tx the way executeOriginTx does, part 3 the real EVMApp. Two base sets for sequences.")

chk("C09","XSTATE","exploration","exhaustive grid of signed transactions and byte-level inputs executed through the real EVMApp.OnExecute/OnCommit with a counterfactual re-execution oracle",
    "A grid of signed transactions (recipient incl. every precompile and 0xfe x payload shapes x nonce cur-1/cur/cur+1 x gas fields x value x signature shapes) is placed alone+repeated in the next block, twice in one block and between two valid transactions, plus every byte string of length <=2 and every single-byte mutation/truncation of three valid transactions as raw block entries; no panic, every tx reported exactly once as valid or invalid, removing the reported-invalid txs leaves hashes and state identical (counterfactual run on a clone), every valid tx has a receipt/KV record and raises its sender's nonce from exactly its own nonce by one.",
    "Two fixture contracts only (C10 covers the interpreter); funded harness genesis; blocks of <=3 grid transactions.")
chk("C10","DIFFREF","exploration","exhaustive differential execution of the in-tree EVM against upstream go-ethereum v1.8.27 linked into the same binary (opcode x operand grid, every program of <=3/4 tokens, call-graph templates)",
    "All 256 opcodes x boundary operand tuples (direct, behind CALL, behind STATICCALL), every token sequence of length <=3 (quick) / <=4 (thorough, budget-capped) over a 47-token alphabet with 3 call data x 2 pre-states, and call-graph templates (CALL/CALLCODE/DELEGATECALL/STATICCALL/CREATE/CREATE2 x value x callee incl. all precompiles x 20 callee bodies, depth 3) run on both EVMs; outcome class, return data, logs, self-destructs and the full post-state must be byte-equal. Documented deviations (budget metering, 0xfe) are neutralised by the harness, not by exceptions in the comparison.",
    "Reference = upstream v1.8.27 with Constantinople at block 0 and EIP-1283 kept; gas-observable behaviour excluded by the property itself; both the all-forks-at-0 config and the application's actual chain config are run.")
chk("C11","XSTATE+DIFFREF","model_checking","breadth-first explicit-state search over trie / SecureTrie / StateDB operation histories with canonical-state merging; oracles: content map model, upstream v1.8.27 in the same binary, canonical rebuild, proofs",
    "Every operation history (update/delete/get/hash/commit/three reopen variants/prove over 8 colliding keys x 3 value sizes; StateDB balance/nonce/code/storage/suicide/create/log/refund/snapshot/revert/intermediate root/commit+reopen on 2 addresses) to depth 5/4 (quick) and 7/5 (thorough) is replayed on fresh in-tree and upstream instances: gets equal the content map, root equals the upstream root and the root of a sorted rebuild (history independence, merge oracle), reopen reproduces content, every proof verifies to value or absence, revert restores the snapshot exactly.",
    "MemDatabase backends; depth and key set as stated; collision-free hashes.")
chk("C18","DIFFREF","exploration","exhaustive bounded enumeration on the real codecs: reflection-driven boundary grid round trips (binary+JSON+RLP), every short byte string and every single-byte mutation into every decoder, length bombs with allocation accounting, all pairs of signables, RLP differential against upstream",
    "61 consensus-critical root types (found by a run-time walk of go-wire's registry) are round-tripped over a boundary grid in binary and JSON and must re-encode identically; every byte string of length <=2 and every truncation/substitution of every grid encoding goes into every decoder with limits 0,1,len-1,len,len+1 (no panic, n<=limit, allocation <= 64*limit+1MiB, measured single-threaded); every RLP string of length <=2 (quick) / <=3 (thorough, 16.8M) must decode, fail and re-encode exactly like upstream; all ordered pairs of votes/proposals over a grid incl. adversarial chain ids must have different sign-bytes unless equal.",
    "Times millisecond-aligned (the codec's documented precision), valid UTF-8 strings; multi-field interactions only through four base values.")
chk("C19","XSTATE","model_checking","breadth-first explicit-state search over submit/reap/commit/flush histories on the real ethTxPool (inside a real EVMApp) and the real gemmill Mempool against a reference model with canonical-state merging and merge oracle",
    "Histories over ReceiveTx (2 accounts x nonces 0..3 x 2 payloads, admin-op txs), Reap(0|1|2|-1), commit of a prefix of the last reap through a real executed block plus the pool's real Update, Flush and the observers, from an empty pool and from a nearly full one; same for the default mempool with opaque txs and both limit configurations; on every Reap: consecutive nonces from the state nonce, no duplicate (account,nonce), nothing a committed block contained, no accepted executable tx lost after draining, exact duplicates rejected, size bounds.",
    "Depth completed per system is reported in the evidence (time-capped); concurrent submitters and the eviction ticker are not driven here.")
chk("C20","XSTATE","model_checking","exhaustive enumeration of write/read size sequences and frame-level tampering on real SecretConnections over an in-memory duplex; breadth-first state search on real Channel objects; full product of admission configurations through the real Switch.AddPeerWithConnection",
    "Every write sequence (<=2/3 writes) x read-buffer sequence (<=3/4 reads) over 9 boundary sizes in both directions must deliver exactly the written stream; every man-in-the-middle action (bit flips in each frame region, swap, replay, drop, insert, splice, truncate, key substitution, reflection, lying signers) at frames 0..4 must end in an error without any altered byte returned; all send/pump/poll/deliver histories to depth 6/8 on two real channels keep per-channel FIFO and integrity; all 1920 admission configurations x 3 validator-set phases must match the reference predicate.",
    "MConnection routines and the priority rule only through a 27-scenario progress-based conformance subset; cryptographic primitives trusted.")

NOT_YET = "check not built yet in this round (planned in DESIGN.md §5); not claimed until its quick check passes on the unchanged tree"
props=[json.loads(l)['id'] for l in open('/verif/properties.jsonl')]
m={"version":1,
   "setup_cmd":"./vcheck setup",
   "hooks":{"guard":"verif (Go build tag)","enable":"go build -tags verif (done by ./vcheck for every check binary)",
            "baseline_off_cmd":"cd /repo && GOFLAGS=-mod=mod GOPROXY=off GOSUMDB=off go test -mod=mod -json -vet=off -count=1 -timeout 25m ./...",
            "source_commits":HOOK_COMMITS,"add_only":True},
   "engines":[], "checks":[], "not_applicable":[],
   "notes":"Every check: ./vcheck <ID> quick|thorough rebuilds its binary from /repo's working tree with -tags verif, enumerates a bounded space exhaustively on the real code, writes evidence/<ID>.json, prints KNOWN-FINDING lines for entries of known_findings.txt and VIOLATION lines (exit 1) for anything else. ./vcheck replay <artefact> re-runs one counterexample."}
eng={}
for id in props:
    if id in CHECKS:
        c=CHECKS[id]
        entry={"property_id":id,"quick_cmd":"./vcheck %s quick"%id,"evidence_file":"evidence/%s.json"%id,
               "replay_cmd_template":"./vcheck replay {path}","engine":c["engine"],
               "level_claimed":{"category":c["cat"],"text":c["text"],"design_ref":"DESIGN.md §5 "+id},
               "level_note":c["note"],"technique":c["technique"]}
        if c["thorough"]: entry["thorough_cmd"]="./vcheck %s thorough"%id
        m["checks"].append(entry)
        for e in c["engine"].split("+"): eng.setdefault(e.strip(),[]).append(id)
    else:
        m["not_applicable"].append({"property_id":id,"reason":NOT_YET})
for e in ENGINES:
    e=dict(e); e["serves_properties"]=eng.get(e["name"],[]); m["engines"].append(e)
json.dump(m,open('/verif/MANIFEST.json','w'),indent=1)
print("claimed",len(m["checks"]),"not_applicable",len(m["not_applicable"]))
