package main

import (
	"bytes"
	"fmt"
	"runtime/pprof"
	"strings"
)

func leakReport() {
	var b bytes.Buffer
	pprof.Lookup("goroutine").WriteTo(&b, 1)
	for _, blk := range strings.Split(b.String(), "\n\n") {
		if strings.Contains(blk, "processTicks") || strings.Contains(blk, "receiveRoutine") {
			lines := strings.Split(blk, "\n")
			fmt.Println("LEAK:", lines[0], "|", firstWith(lines, "AnnChain"))
		}
	}
}

func firstWith(ls []string, s string) string {
	out := ""
	for _, l := range ls {
		if strings.Contains(l, s) {
			out += strings.TrimSpace(l) + " ; "
		}
	}
	if len(out) > 300 {
		out = out[:300]
	}
	return out
}
