package main

import (
	"encoding/json"
	"fmt"
	"os"
	"time"

	"verif/consnet"
)

func main() {
	sc := &consnet.Scenario{Powers: []int64{1, 1, 1, 1}, Byz: -1, Heights: 2}
	if len(os.Args) > 1 {
		if err := json.Unmarshal([]byte(os.Args[1]), sc); err != nil {
			panic(err)
		}
	}
	t0 := time.Now()
	res := consnet.DefaultRun(sc, "/verif/.work/cnprobe/run")
	for _, l := range res.Trace {
		fmt.Println(l)
	}
	res.Trace = nil
	b, _ := json.MarshalIndent(res, "", " ")
	fmt.Println(string(b))
	fmt.Println("elapsed", time.Since(t0))
	leakReport()
}
