// overlaygen builds the `go build -overlay` file of the SCHED engine.
//
//	overlaygen -out <dir> -json <overlay.json> [-repo /repo] [-shim /verif/sched/shim] [-chan] target...
//
// target = path of a .go file or of a package directory, relative to -repo
// (a directory means every non-test .go file in it).  Each target file is read
// from the repository's CURRENT working tree, transformed and written below
// <dir>; the overlay maps the repository path to the transformed copy, and
// maps <repo>/vshim/<pkg>/<file> to every file of the shim packages, which
// thereby become virtual packages of the repository's module.  The repository
// is never written.
//
// Transformation (go/parser + go/printer, no type information):
//   - imports "sync", "sync/atomic", "time" → .../vshim/vsync, vatomic, vtime,
//     keeping the local name the file used;
//   - `go f(a, b)` → `{ f_, a_, b_ := f, a, b; vsched.Go(func() { f_(a_, b_) }) }`
//     (function value and arguments are evaluated by the spawning thread, as
//     the language demands; literals stay in place so that untyped constants
//     keep their flexibility).
//
// Channel operations are not rewritten in this version (flag -chan is
// reserved and rejected).
//
// Mutation demonstrations ("overlay on overlay"): the environment variable
// VERIF_OVERLAY_SUBST="rel/path.go=/abs/alternative.go[,...]" makes the
// generator read the alternative file instead of the repository file (the
// result still replaces the repository path).  Alternatives of files that are
// not targets are passed through untransformed.
package main

import (
	"bytes"
	"encoding/json"
	"flag"
	"fmt"
	"go/ast"
	"go/parser"
	"go/printer"
	"go/token"
	"io/ioutil"
	"os"
	"path/filepath"
	"sort"
	"strconv"
	"strings"
)

const shimBase = "github.com/dappledger/AnnChain/vshim/"

var importMap = map[string]string{
	"sync":        shimBase + "vsync",
	"sync/atomic": shimBase + "vatomic",
	"time":        shimBase + "vtime",
}

var defaultName = map[string]string{"sync": "sync", "sync/atomic": "atomic", "time": "time"}

const schedName = "vsched__"

func fatal(format string, a ...interface{}) {
	fmt.Fprintf(os.Stderr, "overlaygen: "+format+"\n", a...)
	os.Exit(2)
}

type stats struct{ imports, gos int }

func transform(src []byte, name string) ([]byte, stats) {
	var st stats
	fset := token.NewFileSet()
	f, err := parser.ParseFile(fset, name, src, parser.ParseComments)
	if err != nil {
		fatal("parse %s: %v", name, err)
	}
	for _, im := range f.Imports {
		p, _ := strconv.Unquote(im.Path.Value)
		if np, ok := importMap[p]; ok {
			if im.Name == nil {
				im.Name = ast.NewIdent(defaultName[p])
			}
			im.Path.Value = strconv.Quote(np)
			st.imports++
		}
	}
	tmp := 0
	var rewriteList func(list []ast.Stmt)
	rewriteStmt := func(s ast.Stmt) ast.Stmt {
		g, ok := s.(*ast.GoStmt)
		if !ok {
			return s
		}
		st.gos++
		call := g.Call
		var lhs, rhs []ast.Expr
		capture := func(e ast.Expr) ast.Expr {
			switch x := e.(type) {
			case *ast.BasicLit:
				return e
			case *ast.Ident:
				if x.Name == "nil" || x.Name == "true" || x.Name == "false" {
					return e
				}
			case *ast.FuncLit:
				return e
			}
			tmp++
			id := ast.NewIdent(fmt.Sprintf("vgo%d__", tmp))
			lhs = append(lhs, id)
			rhs = append(rhs, e)
			return ast.NewIdent(id.Name)
		}
		nc := &ast.CallExpr{Fun: capture(call.Fun), Ellipsis: call.Ellipsis}
		if _, isLit := nc.Fun.(*ast.FuncLit); isLit {
			nc.Fun = &ast.ParenExpr{X: nc.Fun}
		}
		for _, a := range call.Args {
			nc.Args = append(nc.Args, capture(a))
		}
		var body ast.Stmt = &ast.ExprStmt{X: nc}
		spawn := &ast.ExprStmt{X: &ast.CallExpr{
			Fun:  &ast.SelectorExpr{X: ast.NewIdent(schedName), Sel: ast.NewIdent("Go")},
			Args: []ast.Expr{&ast.FuncLit{Type: &ast.FuncType{Params: &ast.FieldList{}}, Body: &ast.BlockStmt{List: []ast.Stmt{body}}}},
		}}
		blk := &ast.BlockStmt{}
		if len(lhs) > 0 {
			blk.List = append(blk.List, &ast.AssignStmt{Lhs: lhs, Tok: token.DEFINE, Rhs: rhs})
		}
		blk.List = append(blk.List, spawn)
		return blk
	}
	rewriteList = func(list []ast.Stmt) {
		for i, s := range list {
			list[i] = rewriteStmt(s)
		}
	}
	ast.Inspect(f, func(n ast.Node) bool {
		switch x := n.(type) {
		case *ast.BlockStmt:
			rewriteList(x.List)
		case *ast.CaseClause:
			rewriteList(x.Body)
		case *ast.CommClause:
			rewriteList(x.Body)
		case *ast.LabeledStmt:
			x.Stmt = rewriteStmt(x.Stmt)
		}
		return true
	})
	if st.gos > 0 {
		spec := &ast.ImportSpec{Name: ast.NewIdent(schedName), Path: &ast.BasicLit{Kind: token.STRING, Value: strconv.Quote(shimBase + "vsched")}}
		decl := &ast.GenDecl{Tok: token.IMPORT, Specs: []ast.Spec{spec}}
		f.Decls = append([]ast.Decl{decl}, f.Decls...)
		f.Imports = append(f.Imports, spec)
	}
	if st.imports == 0 && st.gos == 0 {
		return src, st
	}
	var buf bytes.Buffer
	// SourcePos keeps //line directives, so compiler errors, panics and stack
	// traces name the repository's file and line.
	cfg := printer.Config{Mode: printer.UseSpaces | printer.TabIndent | printer.SourcePos, Tabwidth: 8}
	if err := cfg.Fprint(&buf, fset, f); err != nil {
		fatal("print %s: %v", name, err)
	}
	return buf.Bytes(), st
}

func main() {
	repo := flag.String("repo", "/repo", "repository root")
	shim := flag.String("shim", "/verif/sched/shim", "directory with the shim packages")
	out := flag.String("out", "", "directory for transformed files")
	jsonPath := flag.String("json", "", "overlay file to write")
	chanFlag := flag.Bool("chan", false, "rewrite channel operations (not implemented)")
	flag.Parse()
	if *out == "" || *jsonPath == "" || flag.NArg() == 0 {
		fatal("usage: overlaygen -out dir -json overlay.json target...")
	}
	if *chanFlag {
		fatal("-chan: channel rewriting is not implemented in this version")
	}
	subst := map[string]string{}
	if v := os.Getenv("VERIF_OVERLAY_SUBST"); v != "" {
		for _, kv := range strings.Split(v, ",") {
			p := strings.SplitN(kv, "=", 2)
			if len(p) != 2 {
				fatal("bad VERIF_OVERLAY_SUBST entry %q", kv)
			}
			subst[filepath.Clean(p[0])] = p[1]
		}
	}
	for _, p := range []*string{out, jsonPath, repo, shim} {
		if a, err := filepath.Abs(*p); err == nil {
			*p = a
		}
	}
	os.RemoveAll(*out)
	if err := os.MkdirAll(*out, 0755); err != nil {
		fatal("%v", err)
	}
	replace := map[string]string{}
	var files []string
	for _, t := range flag.Args() {
		abs := filepath.Join(*repo, t)
		fi, err := os.Stat(abs)
		if err != nil {
			fatal("target %s: %v", t, err)
		}
		if !fi.IsDir() {
			files = append(files, filepath.Clean(t))
			continue
		}
		ents, err := ioutil.ReadDir(abs)
		if err != nil {
			fatal("%v", err)
		}
		for _, e := range ents {
			n := e.Name()
			if e.IsDir() || !strings.HasSuffix(n, ".go") || strings.HasSuffix(n, "_test.go") {
				continue
			}
			files = append(files, filepath.Join(filepath.Clean(t), n))
		}
	}
	sort.Strings(files)
	used := map[string]bool{}
	for _, rel := range files {
		srcPath := filepath.Join(*repo, rel)
		if alt, ok := subst[rel]; ok {
			srcPath = alt
			used[rel] = true
		}
		src, err := ioutil.ReadFile(srcPath)
		if err != nil {
			fatal("%v", err)
		}
		res, st := transform(src, filepath.Join(*repo, rel))
		dst := filepath.Join(*out, rel)
		os.MkdirAll(filepath.Dir(dst), 0755)
		if err := ioutil.WriteFile(dst, res, 0644); err != nil {
			fatal("%v", err)
		}
		replace[filepath.Join(*repo, rel)] = dst
		fmt.Fprintf(os.Stderr, "overlaygen: %s (from %s): %d imports, %d go statements rewritten\n", rel, srcPath, st.imports, st.gos)
	}
	for rel, alt := range subst {
		if !used[rel] {
			replace[filepath.Join(*repo, rel)] = alt
			fmt.Fprintf(os.Stderr, "overlaygen: %s replaced by %s (not a target, untransformed)\n", rel, alt)
		}
	}
	pkgs, err := ioutil.ReadDir(*shim)
	if err != nil {
		fatal("%v", err)
	}
	for _, p := range pkgs {
		if !p.IsDir() {
			continue
		}
		ents, _ := ioutil.ReadDir(filepath.Join(*shim, p.Name()))
		for _, e := range ents {
			if strings.HasSuffix(e.Name(), ".go") && !strings.HasSuffix(e.Name(), "_test.go") {
				replace[filepath.Join(*repo, "vshim", p.Name(), e.Name())] = filepath.Join(*shim, p.Name(), e.Name())
			}
		}
	}
	b, _ := json.MarshalIndent(map[string]interface{}{"Replace": replace}, "", " ")
	if err := ioutil.WriteFile(*jsonPath, append(b, '\n'), 0644); err != nil {
		fatal("%v", err)
	}
}
